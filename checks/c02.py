"""C02 — Maybe numeric conversions are value-preserving or fail.

spec/NumConv.tla            symbolic points on the line cut by the 13 type bounds; Expect(call) in {ok, fail, either}; Judge
spec/gen/Gen_NumConv.tla    TLC enumerates every (source type, representable point, target) cell
spec/trace/Trace_NumConv.tla TLC judges the value class the real conversion produced
"""
import glob
import json
import os

from vlib import core

LEVEL = "exploration"
RULE = ("cells = every (source type, symbolic point of that type, conversion method): 11 integer source types x their points "
        "(every type bound and its +-1 neighbours), float32/float64 x (+-1, +-1/2, +-1 ulp neighbours of every bound, NaN, +-Inf, -0, +-1e300), "
        "bool, numeric / non-numeric strings, unsupported kinds, x 14 targets (ToInt..ToUintptr, ToFloat32/64, ToBool), each through Maybe.Just and "
        "JustGenerics[T]; plus seeded random integers between the bounds. non-trivial = the point is not 0; distinct = distinct cells")


def sig(e, expect, cls):
    c = e["case"]
    return "%s->%s %s expect=%s got=%s" % (c["src"], c["tgt"], cls, expect, e["res"])


def judge(ctx, tla, tf, label):
    r = ctx.tlc("Trace_NumConv", workers=1, timeout=900, cwd=tla, env_extra={"VERIF_TRACE": tf}, heap="6g")
    cons = r.printed("CONSUMED")
    if not cons:
        core.log(r.text[-3000:])
        raise core.Inconclusive("Trace_NumConv did not finish")
    a, b = [int(x) for x in cons[-1].split(",")]
    mism = [x.split(",") for x in r.printed("MISMATCH")]
    if a != b and len(mism) < 3000:
        raise core.Inconclusive("validator consumed %d of %d lines" % (a, b))
    ctx.cov["evaluations"] += a
    ctx.cov["traces_validated_against_impl"] += a
    if mism:
        lines = core.read_ndjson(tf)
        for m in mism:
            ln, expect, region, cls = int(m[0]), m[1].strip().strip('"'), m[2].strip().strip('"'), m[3].strip().strip('"')
            e = lines[ln - 1]
            ctx.report(sig(e, expect, cls), "%s: %s(%s = %s).%s at %s returned value class '%s' (%s, err %s); NumConv!Expect = %s"
                       % (label, e.get("ctor"), e["case"]["src"], e.get("val"), e["case"]["tgt"], region, e["res"], e.get("got"), e["errk"], expect),
                       {"component": "c02", "case": e["case"]})


def run(ctx, replay=None):
    tla = ctx.stage_specs()
    quick = ctx.tier == "quick"
    if replay:
        rp = json.load(open(replay))["replay"]
        cf = os.path.join(ctx.scratch, "case.ndjson")
        core.write_ndjson(cf, [rp["case"]])
        tf = os.path.join(ctx.scratch, "rp.ndjson")
        ctx.drv(["c02", "exec", cf, "--out", tf])
        judge(ctx, tla, tf, "replay")
        core.out(open(tf).read().strip())
        return ctx.finish(RULE)
    gdir = ctx.sub("cases")
    r = ctx.tlc("Gen_NumConv", workers=1, timeout=600, cwd=tla, env_extra={"VERIF_EMIT_DIR": gdir})
    ncases = sum(int(x.split(",")[-1]) for x in r.printed("CASES"))
    cfiles = sorted(glob.glob(os.path.join(gdir, "*.ndjson")))
    if len(cfiles) != 4:
        core.log(r.text[-3000:])
        raise core.Inconclusive("case generation incomplete")
    tf = os.path.join(ctx.scratch, "c02.trace.ndjson")
    ctx.drv(["c02", "exec"] + cfiles + ["--out", tf], timeout=900)
    judge(ctx, tla, tf, "cell")
    ctx.cov["cases_generated_by_tlc"] = ncases
    ctx.cov["distinct_nontrivial"] = ncases - 14 * 16
    ls = open(tf).readlines()
    ctx.sample(json.loads(ls[len(ls) // 3]))
    ctx.sample(json.loads(ls[-5]))
    rf = os.path.join(ctx.scratch, "c02.rand.ndjson")
    ctx.drv(["c02", "record", "--n", 20000 if quick else 400000, "--out", rf], timeout=900)
    judge(ctx, tla, rf, "random value")
    ctx.assumptions += [
        "TLC has no wide integers or floats: the case analysis is symbolic; concretising a point (math/big, math.Nextafter) and 'nearest representable float' (Go's own conversion) are the driver's trusted table",
        "int/uint must succeed only in the portable 32-bit range; between that and the native range either outcome is accepted (but never a different number)",
        "uintptr is held to its native range",
    ]
    return ctx.finish(RULE, exhaustive=True, trusted=["TLC 1.8.0", "drv c02 (concretisation table, value classification with math/big)"])


MANIFEST = {
    "text": "The range analysis of all 14 source types x 14 targets is a TLA+ operator over symbolic points (NumConv!Expect); TLC enumerates every cell "
            "(every type bound, its +-1 / +-1/2 / +-ulp neighbours, NaN, +-Inf, -0, strings, bools, unsupported kinds), the driver concretises each and "
            "calls the real conversion through both constructors, and TLC judges the resulting value class (same / different / err / panic).",
    "note": "Trusted: TLC; drv c02's concretisation of points and its exact comparison (math/big); Go's float conversion as 'nearest representable'. "
            "Numeric accuracy of IEEE arithmetic itself is not verified.",
    "technique": "symbolic-point TLA+ case analysis enumerated by TLC, executed on the code, outcomes validated by TLC",
}
