"""C19 — sorting yields an ordered, stable permutation; descriptors sort by key list.

spec/Sorting.tla            Judge(e): permutation /\ ordered /\ stable (comparator sorts) / lexicographic by key list (descriptors) /\ frame
spec/gen/Gen_Sorting.tla    TLC enumerates lists with duplicate keys x comparators x descriptor stacks
spec/trace/Trace_Sorting.tla TLC judges every call executed on the real functions
"""
import glob
import json
import os
from concurrent.futures import ThreadPoolExecutor

from vlib import core

LEVEL = "exploration"
RULE = ("calls = every sorting entry point (Sort, SortSlice, SortOrdered*, Stream.Sort/SortByIndex of both families, the four descriptor entry points) "
        "on all lists of records over keys {1,2} (so duplicates are the norm) up to the tier's length, all comparators, all descriptor stacks "
        "(1..2/3 distinct keys, every direction mix, functor- and field-based, ComparableOrdered and ComparableString keys); plus seeded random lists "
        "of up to 40 records. non-trivial = list with >=2 elements; distinct = distinct (function, comparator/stack, list)")


def sig(e, why):
    cls = "len=%s" % ("0" if not e["in"] else "1" if len(e["in"]) == 1 else "2..12" if len(e["in"]) <= 12 else ">12")
    what = e["cmp"] if e["cmp"] != "-" else "stack(%d keys)" % len(e["ds"])
    return "%s %s %s %s" % (e["fn"], what, cls, why)


def judge(ctx, tla, files, label):
    def one(f):
        r = ctx.tlc("Trace_Sorting", workers=1, timeout=1200, cwd=tla, env_extra={"VERIF_TRACE": f}, heap="6g")
        cons = r.printed("CONSUMED")
        if not cons:
            core.log(r.text[-3000:])
            raise core.Inconclusive("Trace_Sorting did not finish on %s" % f)
        a, b = [int(x) for x in cons[-1].split(",")]
        return f, a, b, [(int(x.split(",")[0]), x.split(",")[1].strip().strip('"')) for x in r.printed("MISMATCH")]
    with ThreadPoolExecutor(max_workers=6) as ex:
        res = list(ex.map(one, files))
    for f, a, b, mism in res:
        if a != b and len(mism) < 200:
            raise core.Inconclusive("validator consumed %d of %d lines of %s" % (a, b, f))
        ctx.cov["evaluations"] += a
        ctx.cov["traces_validated_against_impl"] += a
        if mism:
            lines = core.read_ndjson(f)
            for ln, why in mism:
                e = lines[ln - 1]
                ctx.report(sig(e, why), "%s: %s on %s returned %s (input afterwards %s): violates the %s clause of Sorting!Judge"
                           % (label, e["fn"] + " " + (e["cmp"] if e["cmp"] != "-" else json.dumps(e["ds"])), json.dumps(e["in"]),
                              json.dumps(e["out"]), json.dumps(e["inAfter"]), why),
                           {"component": "c19", "case": {k: e[k] for k in ("fn", "cmp", "ds", "in")}})


def run(ctx, replay=None):
    tla = ctx.stage_specs()
    quick = ctx.tier == "quick"
    if replay:
        rp = json.load(open(replay))["replay"]
        cf = os.path.join(ctx.scratch, "case.ndjson")
        core.write_ndjson(cf, [rp["case"]])
        p = ctx.drv(["c19", "exec", cf, "--out", os.path.join(ctx.scratch, "rp")])
        files = json.loads(p.stdout.strip().splitlines()[-1])["files"]
        judge(ctx, tla, files, "replay")
        core.out(open(files[0]).read().strip())
        return ctx.finish(RULE)
    gdir = ctx.sub("cases")
    r = ctx.tlc("Gen_Sorting", "Gen_Sorting.cfg" if quick else "Gen_Sorting_big.cfg", workers=1, timeout=2400, cwd=tla,
                env_extra={"VERIF_EMIT_DIR": gdir}, heap="12g")
    ncases = sum(int(x.split(",")[-1]) for x in r.printed("CASES"))
    cfiles = sorted(glob.glob(os.path.join(gdir, "*.ndjson")))
    if len(cfiles) != 3:
        core.log(r.text[-3000:])
        raise core.Inconclusive("case generation incomplete")
    p = ctx.drv(["c19", "exec"] + cfiles + ["--out", os.path.join(ctx.scratch, "c19.trace")], timeout=2400)
    info = json.loads(p.stdout.strip().splitlines()[-1])
    judge(ctx, tla, info["files"], "TLC-generated input")
    ctx.cov["cases_generated_by_tlc"] = ncases
    nt = 0
    for f in cfiles:
        for l in open(f):
            if l.count("],[") >= 1:
                nt += 1
    ctx.cov["distinct_nontrivial"] = nt
    with open(info["files"][-1]) as fh:
        ctx.sample(json.loads(fh.readlines()[-1]))
    rf = os.path.join(ctx.scratch, "c19.rand.ndjson")
    ctx.drv(["c19", "record", "--n", 3000 if quick else 60000, "--out", rf], timeout=900)
    judge(ctx, tla, [rf], "random input")
    with open(rf) as fh:
        ctx.sample(json.loads(fh.readline()))
    ctx.assumptions += [
        "records carry a unique tag (input position), so stability and permutation are decided on identities, not values",
        "plain ordered values (SortOrdered*) have no identity: tags are re-attached in input order, so only order and permutation are decided for them",
        "descriptor keys: ComparableOrdered[int] and ComparableString (single letters in key order); stability is not required of descriptor sorts (the statement does not ask it)",
    ]
    return ctx.finish(RULE, exhaustive=True, trusted=["TLC 1.8.0", "drv c19 (record construction, projection)"])


MANIFEST = {
    "text": "Permutation, order, stability and the lexicographic key-list order are TLA+ predicates (Sorting!Judge). TLC enumerates all small lists with duplicate "
            "keys x all comparators x all descriptor stacks; the driver runs every sorting entry point of the real code on each and TLC judges the recorded "
            "(input, output, input-afterwards); random lists up to 40 records (beyond the small-slice path of Go's sort) are judged the same way.",
    "note": "Trusted: TLC, drv c19's record construction and projection. Bounds: lists <=4 (quick) / <=5 (thorough) over keys {1,2}, stacks of <=2 / <=3 keys.",
    "technique": "TLA+ sortedness/stability predicates; TLC-enumerated inputs executed on the code; TLC validation of recorded results",
}
