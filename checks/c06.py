"""C06 — LinkedListQueue is a correct deque.

spec/Deque.tla        the property (ideal double-ended sequence)
spec/LLQ.tla          queue.go's LinkedListQueue transcribed (links, recycling chain, sync.Pool)
spec/mc/MC_LLQ*.cfg   exhaustive refinement check LLQ => Deque; stale-link variant; transition cover
spec/trace/Trace_Deque.tla   validator for histories recorded from the real code

Verdicts come only from Trace_Deque rejecting a history that the real code produced.
"""
import json
import os
import subprocess
from concurrent.futures import ThreadPoolExecutor

from vlib import core

LEVEL = "model_checking"
RULE = ("histories = all sequences over the mutator alphabet up to the tier's depth (tree walk, values = position) "
        "plus TLC transition-cover behaviours of LLQ.tla plus seeded random histories; after every call Peek and Count "
        "are observed; non-trivial = history contains at least one removal or pool operation after an insertion; "
        "distinct = distinct operation sequences")


def validate_shards(ctx, tla, files, module="Trace_Deque"):
    """Run Trace_Deque on every shard (parallel TLC processes). Returns list of (file, [mismatch lines], consumed)."""
    def one(f):
        r = ctx.tlc(module, workers=1, timeout=900, cwd=tla, heap="6g", env_extra={"VERIF_TRACE": f})
        mism = [int(x) for x in r.printed("MISMATCH")]
        cons = r.printed("CONSUMED")
        if not cons:
            core.log(r.text[-3000:])
            raise core.Inconclusive("trace validator did not finish on %s" % f)
        a, b = [int(x) for x in cons[-1].split(",")]
        return f, mism, a, b, r
    with ThreadPoolExecutor(max_workers=6) as ex:
        return list(ex.map(one, files))


def history_at(path, line):
    """The operation history that ends at trace line `line` (1-based) of a tree-shaped shard."""
    stack = []
    with open(path) as fh:
        for i, l in enumerate(fh, 1):
            e = json.loads(l)
            del stack[e["d"] - 1:]
            stack.append(e)
            if i == line:
                return list(stack)
    return []


def signature(events):
    ops = ",".join(e["op"] + (str(e["arg"]) if e["op"] == "KeepNodePoolCount" else "") for e in events)
    last = events[-1]
    return "LinkedListQueue: %s => %s/%s/count=%s" % (ops, last["r"]["k"], last["peek"]["k"], last["count"])


def nontrivial(ops):
    seen_insert = False
    for o in ops:
        if o in ("Offer", "Put", "Push", "Unshift"):
            seen_insert = True
        elif seen_insert:
            return True
    return False


def record(ctx, args, tag):
    """Run the recorder, restarting it with a skip list whenever the real code hangs."""
    skip = []
    skipfile = os.path.join(ctx.scratch, tag + ".skip.json")
    for attempt in range(16):
        json.dump(skip, open(skipfile, "w"))
        p = ctx.drv(["c06", "record", "--out", os.path.join(ctx.scratch, tag), "--skipfile", skipfile] + args,
                    timeout=1500, check=False)
        if p.returncode == 0:
            info = json.loads(p.stdout.strip().splitlines()[-1])
            info["hangs"] = skip
            return info
        if p.returncode == 4:
            h = json.loads(p.stdout.strip().splitlines()[-1])["hang"]
            # confirm: the single history must hang again, twice, with a longer limit
            hf = os.path.join(ctx.scratch, "hang.json")
            json.dump(h, open(hf, "w"))
            for _ in range(2):
                try:
                    subprocess.run([ctx.build_harness(), "c06", "run", hf], timeout=6, stdout=subprocess.DEVNULL,
                                   stderr=subprocess.DEVNULL, env=ctx.goenv())
                    raise core.Inconclusive("a watchdog hang did not reproduce: %s" % json.dumps(h))
                except subprocess.TimeoutExpired:
                    pass
            skip.append(h)
            continue
        core.log(p.stdout[-2000:], p.stderr[-2000:])
        raise core.Inconclusive("recorder failed rc=%d" % p.returncode)
    ctx.notes.append("exploration truncated after 16 hanging histories")
    raise core.Inconclusive("more than 16 distinct hanging histories; exploration cannot complete")


def judge(ctx, tla, info, label, module="Trace_Deque"):
    """Validate recorded shards with TLC; report every rejected history."""
    res = validate_shards(ctx, tla, info["files"], module)
    total = 0
    for f, mism, consumed, length, r in res:
        total += consumed
        if consumed != length and len(mism) < 40:
            raise core.Inconclusive("validator consumed %d of %d lines of %s" % (consumed, length, f))
        for line in mism:
            ev = history_at(f, line)
            ops = [{"op": e["op"], "arg": e["arg"]} for e in ev]
            if len(ev) > 60:          # a long linear history: name its shape, keep the whole history in the replay file
                kinds = sorted({e["op"] for e in ev})
                sig = "LinkedListQueue: long history (%s, >1000 pending) => %s/%s" % ("+".join(kinds), ev[-1]["r"]["k"], ev[-1]["peek"]["k"]) if len(ev) > 1000 else signature(ev)
            else:
                sig = signature(ev)
            ctx.report(sig, "%s: real LinkedListQueue returned %s (peek %s, count %s) at the last call; Deque.tla does not"
                       % (label, ev[-1]["r"], ev[-1]["peek"], ev[-1]["count"]), {"component": "c06", "history": ops})
    ctx.cov["traces_validated_against_impl"] += info["histories"]
    ctx.cov["evaluations"] += info["events"]
    return total


def count_distinct(files):
    """distinct non-trivial histories = tree leaves/linear histories whose op sequence is non-trivial."""
    n = 0
    for f in files:
        stack = []
        prev_d = 0
        with open(f) as fh:
            for l in fh:
                e = json.loads(l)
                d = e["d"]
                if d <= prev_d and stack and nontrivial(stack):
                    n += 1          # previous line was a leaf
                del stack[d - 1:]
                stack.append(e["op"])
                prev_d = d
        if stack and nontrivial(stack):
            n += 1
    return n


def run(ctx, replay=None):
    tla = ctx.stage_specs()
    quick = ctx.tier == "quick"

    if replay:
        rp = json.load(open(replay))["replay"]
        lf = os.path.join(ctx.scratch, "list.json")
        json.dump([rp["history"]], open(lf, "w"))
        info = record(ctx, ["--mode", "list", "--in", lf], "replay")
        judge(ctx, tla, info, "replay")
        for l in open(info["files"][0]):
            core.out(l.strip())
        return ctx.finish(RULE)

    # 1. The stale-link variant of the model (what the pinned tree did): TLC's shortest observable
    #    counterexample is the discriminating / regression history, executed first on the real code.
    r = ctx.tlc("MC_LLQ", "MC_LLQ_stale.cfg", workers=4, timeout=300, cwd=tla,
                extra=["-dumpTrace", "json", os.path.join(ctx.scratch, "ce_stale.json")])
    if not r.inv_violated:
        raise core.Inconclusive("MC_LLQ_stale: expected a counterexample (model changed?)")
    ce = json.load(open(os.path.join(ctx.scratch, "ce_stale.json")))["counterexample"]["state"][-1][1]["hist"]
    regress = [ce,
               [{"op": "Offer", "arg": 1}, {"op": "Offer", "arg": 2}, {"op": "Offer", "arg": 3}, {"op": "Pop", "arg": 0},
                {"op": "Unshift", "arg": 5}, {"op": "Clear", "arg": 0}, {"op": "Offer", "arg": 7}, {"op": "Shift", "arg": 0}]]
    ctx.sample({"tlc_counterexample_of_stale_variant": ce})

    # 2. Exhaustive: the repaired discipline refines Deque.
    r = ctx.tlc("MC_LLQ", "MC_LLQ_fixed.cfg" if quick else "MC_LLQ_fixed_big.cfg", workers=12,
                timeout=200 if quick else 1500, cwd=tla)
    if not r.completed:
        core.log(r.text[-3000:])
        raise core.Inconclusive("MC_LLQ_fixed did not complete cleanly: the specification itself is broken")
    ctx.add_states(r)

    # 3. Direction A: transition cover of the model replayed on the real queue.
    cover = os.path.join(ctx.scratch, "cover.ndjson")
    r = ctx.tlc("MC_LLQ", "MC_LLQ_cover.cfg", workers=8, timeout=600, cwd=tla, env_extra={"VERIF_EMIT": cover})
    if not r.completed:
        raise core.Inconclusive("cover generation failed")
    mm = os.path.join(ctx.scratch, "cover.mismatch.ndjson")
    p = ctx.drv(["c06", "replay", cover, mm], timeout=900, check=False)
    cover_hang = None
    if p.returncode == 4:
        cover_hang = json.loads(p.stdout.strip().splitlines()[-1])["hang"]
        regress.append(cover_hang)
        ctx.notes.append("cover replay stopped at a hanging behaviour")
        stats = {"cases": 0, "steps": 0, "result_mismatch": 0, "snap_mismatch": 0}
    elif p.returncode != 0:
        core.log(p.stderr[-2000:])
        raise core.Inconclusive("cover replay failed")
    else:
        stats = json.loads(p.stdout.strip().splitlines()[-1])
    ctx.cov["traces_validated_against_impl"] += stats["cases"]
    ctx.cov["evaluations"] += stats["steps"]
    ctx.cov["cover_edges_replayed"] = stats["cases"]
    if os.path.exists(mm):
        for m in core.read_ndjson(mm):
            if m["kind"] == "result":
                regress.append(m["ops"])       # judged by TLC below, on a fresh execution
            else:
                ctx.drift.append("LLQ.tla link structure differs after %s: real %s, model %s" % (
                    ",".join(o["op"] for o in m["ops"]), json.dumps(m["gotSnap"]), json.dumps(m["wantSnap"])))
    lf = os.path.join(ctx.scratch, "list.json")
    json.dump(regress, open(lf, "w"))
    info = record(ctx, ["--mode", "list", "--in", lf], "regress")
    judge(ctx, tla, info, "TLC behaviour replayed")
    files = list(info["files"])

    # 4. Direction B: bounded-exhaustive and random histories of the real code, validated by TLC.
    plans = [("full", 4), ("core", 6), ("ends", 9)] if quick else [("full", 5), ("core", 8), ("ends", 12)]
    for alpha, depth in plans:
        try:
            info = record(ctx, ["--mode", "tree", "--alphabet", alpha, "--depth", depth], "tree_%s" % alpha)
        except core.Inconclusive as e:
            if ctx.violations or ctx.known_hits:
                # the object is broken so badly that the walk cannot finish; what was reproduced stands
                ctx.notes.append("exploration stopped early: %s" % e)
                ctx.cov["distinct_nontrivial"] = max(2, count_distinct(files))
                return ctx.finish(RULE, exhaustive=False)
            raise
        judge(ctx, tla, info, "history")
        files += info["files"]
        if info["hangs"]:
            ctx.notes.append("%d hanging histories in tree %s" % (len(info["hangs"]), alpha))
        if info["nondeterministic_paths"]:
            ctx.notes.append("%d non-reproducible paths in tree %s" % (info["nondeterministic_paths"], alpha))
    info = record(ctx, ["--mode", "random", "--n", 2000 if quick else 40000, "--len", 40], "rand")
    judge(ctx, tla, info, "random history")
    files += info["files"]
    info = record(ctx, ["--mode", "bulk", "--n", 2500 if quick else 6000, "--rounds", 3 if quick else 5, "--deep", 17000 if quick else 60000, "--deepmixed", 0 if quick else 1], "bulk")
    judge(ctx, tla, info, "bulk history (thousands of pending items)", module="Trace_DequeLinear")
    files += info["files"]
    ctx.cov["distinct_nontrivial"] = count_distinct(files)
    with open(files[-1]) as fh:
        ctx.sample({"recorded_history_events": [json.loads(next(fh)) for _ in range(6)]})
    ctx.assumptions += [
        "verdict = Trace_Deque.tla (ideal deque) rejecting a history recorded from the real LinkedListQueue[int]; "
        "LLQ.tla conformance (link snapshots) is advisory (MODEL-DRIFT)",
        "values are ints; the element type is a type parameter that the code never inspects",
        "a call that does not return within 3 s (confirmed twice with 6 s) is the outcome 'hang'",
    ]
    return ctx.finish(RULE, exhaustive=True, trusted=["TLC 1.8.0", "drv c06 (projection of Go results to result records)"])


MANIFEST = {
    "text": "TLC exhaustively checks that LLQ.tla (queue.go's LinkedListQueue transcribed link by link, incl. the recycling "
            "chain and sync.Pool) refines Deque.tla for every history within the bound; the binding is two-way: every edge of "
            "the model's state graph is replayed on the real queue (results + link snapshots), and every operation history of "
            "the real queue up to the tier's depth (plus random long ones) is validated by TLC against Deque.tla.",
    "note": "Trusted: TLC, the projection of Go results to result records in drv c06, int element type. Bounds: model N<=5 nodes, "
            "length<=3; real-code histories exhaustive to depth 4 (13 mutators) / 6 (7) / 9 (4) quick, 5/8/12 thorough.",
    "technique": "TLA+ refinement LLQ=>Deque model-checked with TLC; transition-cover replay + trace validation of recorded histories",
}
