"""C01 — Maybe: one consistent notion of absence, monad laws, total (never panics).

spec/Maybe.tla            Judge(e): every observer against the single fact 'absent'; FlatMap / ToMaybe / Clone clauses; no panic
spec/gen/Gen_Maybe.tla    TLC writes the full matrix value descriptor x constructor x observer
spec/trace/Trace_Maybe.tla TLC judges what the real methods returned
"""
import json
import os

from vlib import core

LEVEL = "exploration"
RULE = ("cells = 44 Go values of every kind (all int/uint/float widths, bool, strings incl. '<nil>', struct, array, complex, slice/map/func/chan and their nil "
        "forms, *T, **T, typed nil pointers of three types, pointer to nil pointer, untyped nil, nested Maybe of depth 1 and 2, None, a Maybe wrapping an "
        "absent Maybe, a Maybe of another type parameter) x {Maybe.Just, JustGenerics[T]} x 34 observers (every MaybeDef method incl. the 15 conversions, "
        "three FlatMap law instances, ToMaybe, Clone). non-trivial = all but the plain int value; distinct = distinct cells")


def sig(e):
    d = e["v"]
    cls = "absent" if d["absent"] else ("ptr" if d["ptr"] else ("nested%d" % d["nest"] if d["nest"] else "plain"))
    out = e["out"]
    o = "panic" if out["k"] == "panic" else json.dumps(out["v"])
    return "%s(%s:%s).%s => %s" % (e["ctor"], cls, d["name"] if (d["nest"] or out["k"] != "panic") else d["kind"], e["obs"], o[:60])


def judge(ctx, tla, tf, label):
    r = ctx.tlc("Trace_Maybe", workers=1, timeout=600, cwd=tla, env_extra={"VERIF_TRACE": tf})
    cons = r.printed("CONSUMED")
    if not cons:
        core.log(r.text[-3000:])
        raise core.Inconclusive("Trace_Maybe did not finish")
    a, b = [int(x) for x in cons[-1].split(",")]
    mism = [int(x) for x in r.printed("MISMATCH")]
    if a != b and len(mism) < 500:
        raise core.Inconclusive("validator consumed %d of %d lines" % (a, b))
    ctx.cov["evaluations"] += a
    ctx.cov["traces_validated_against_impl"] += a
    lines = core.read_ndjson(tf)
    for ln in mism:
        e = lines[ln - 1]
        ctx.report(sig(e), "%s: %s(%s).%s returned %s; not accepted by Maybe!Judge (descriptor %s)"
                   % (label, e["ctor"], e["v"]["name"], e["obs"], json.dumps(e["out"]), json.dumps(e["v"])), {"component": "c01", "case": {k: e[k] for k in ("v", "ctor", "obs")}})
    return lines


def run(ctx, replay=None):
    tla = ctx.stage_specs()
    if replay:
        rp = json.load(open(replay))["replay"]
        cf = os.path.join(ctx.scratch, "case.ndjson")
        core.write_ndjson(cf, [rp["case"]])
        tf = os.path.join(ctx.scratch, "rp.ndjson")
        ctx.drv(["c01", "exec", cf, "--out", tf])
        judge(ctx, tla, tf, "replay")
        core.out(open(tf).read().strip())
        return ctx.finish(RULE)
    gdir = ctx.sub("cases")
    r = ctx.tlc("Gen_Maybe", workers=1, timeout=600, cwd=tla, env_extra={"VERIF_EMIT_DIR": gdir})
    ncases = sum(int(x.split(",")[-1]) for x in r.printed("CASES"))
    if not ncases:
        core.log(r.text[-3000:])
        raise core.Inconclusive("case generation failed")
    tf = os.path.join(ctx.scratch, "c01.trace.ndjson")
    ctx.drv(["c01", "exec", os.path.join(gdir, "maybe.ndjson"), "--out", tf], timeout=600)
    lines = judge(ctx, tla, tf, "cell")
    ctx.cov["cases_generated_by_tlc"] = ncases
    ctx.cov["distinct_nontrivial"] = ncases - 68
    ctx.sample(lines[len(lines) // 2])
    ctx.sample([l for l in lines if l["obs"] == "ToMaybe" and l["v"]["nest"] == 2][0])
    ctx.assumptions += [
        "the value universe is a finite table of 44 representatives (one or more per Go kind named by the property); 'all Go values' beyond it is not explored",
        "whether a value is absent comes from the descriptor (untyped nil or nil pointer), never from the library",
        "ToMaybe must flatten when the nested Maybe has the wrapper's type parameter (Maybe.Just wrapping a Maybe of interface{} or None); for another type parameter both outcomes are admitted",
        "numeric conversion values are C02's business; here only 'ErrConversionNil exactly when absent'",
    ]
    return ctx.finish(RULE, exhaustive=True, trusted=["TLC 1.8.0", "drv c01 (value table, reflection-based projection)"])


MANIFEST = {
    "text": "Absence is one fact in the descriptor; every observer's required answer is a TLA+ clause (Maybe!Judge), including the three monad-law instances, "
            "one-level flattening and Clone's distinct copy. TLC writes the whole matrix (44 values x 2 constructors x 34 observers), the driver calls the real "
            "methods by reflection under recover, and TLC judges each projected result. Exhaustive over the table; no interleavings.",
    "note": "Trusted: TLC, drv c01's value table and projections. The table samples each kind; it is not all Go values.",
    "technique": "TLA+ observer clauses over value descriptors; TLC-generated matrix executed on the code; TLC validation of the results",
}
