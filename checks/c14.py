"""C14 — coroutines pair every YieldFrom with the matching YieldRef, in order, per caller.

spec/Cor.tla                 YieldFrom / YieldRef / completion at hook grain (done checks, closedM, opCh of capacity OpCap, resultCh), variant ReplyLocksTarget
spec/trace/Trace_CorAbs.tla  TLC judges recorded runs of real coroutines with the statement's pairing rules
"""
import json
import os

from vlib import core

LEVEL = "model_checking"
RULE = ("model: 1-3 callers x 1-3 requests with request-channel capacity 1-2 (full mailbox), all interleavings under the premise 'the target has YieldRefs left'; "
        "real runs: 1, 2, 3 and 8 caller coroutines x 1/3/7/12 requests (more than the buffer of 5), generator shapes fixed/echo/accumulate, target started before or "
        "after the callers, Start and StartWithVal, callers released by a spin barrier or pouncing on IsStarted(), hook points perturbing the schedule; DoNotation and "
        "YieldFromIO. non-trivial = run with >= 2 callers or > 5 requests; distinct = distinct recorded runs (seeded)")


def hook_binding(ctx, tla, quick):
    """Hook-level traces of real coroutines validated against Cor.tla's own actions (advisory: MODEL-DRIFT); corrupted copies must be rejected."""
    from concurrent.futures import ThreadPoolExecutor
    pre = os.path.join(ctx.scratch, "c14.hook")
    p = ctx.drv(["c14", "hooktrace", "--rounds", 8 if quick else 120, "--out", pre], timeout=1500)
    info = json.loads(p.stdout.strip().splitlines()[-1])

    def val(f, timeout=600):
        r = ctx.tlc("Trace_CorHook", workers=1, timeout=timeout, cwd=tla, dfs=True, env_extra={"VERIF_TRACE": f}, heap="4g")
        n = len(core.read_ndjson(f))
        if "NotDone" in (r.inv_violated or []):          # the first behaviour that consumes the whole trace ends the search
            return n, n
        h = r.printed("HWM")
        if not h:
            core.log(r.text[-2000:])
            raise core.Inconclusive("Trace_CorHook did not finish on %s" % f)
        a, b = [int(x) for x in h[-1].split(",")]
        return a, b
    with ThreadPoolExecutor(max_workers=4) as ex:
        res = list(ex.map(lambda f: (f,) + val(f), info["files"]))
    events = 0
    strip = lambda e: {k: v for k, v in e.items() if k != "nx"}
    for f, a, b in res:
        events += a
        if a != b:
            lines = core.read_ndjson(f)
            ctx.drift.append("Cor.tla does not explain the hook-level trace %s at line %d: %s (previous: %s)" % (
                os.path.basename(f), a + 1, json.dumps(strip(lines[a]))[:200], json.dumps(strip(lines[max(0, a - 1)]))[:160]))
    good = [f for f, a, b in res if a == b]
    rejected, muts = 0, []
    if len(good) >= 3:
        L = core.read_ndjson(good[2])                                                     # two callers, two requests each
        L = L[:next((i for i, e in enumerate(L) if i > 0 and e["ev"] == "reset"), len(L))]
        for pick, change in ((lambda e: e["ev"] == "res" and e["y"] > 100, lambda e: e.update(y=e["y"] + 1)),                    # a caller got another answer
                             (lambda e: e["ev"] == "refres", lambda e: e.update(i=e["i"] % 2 + 1)),                              # the target saw another request
                             (lambda e: e["ev"] == "res", lambda e: e.update(i=e["i"] + 1))):                                      # an answer to a request that was not made
            M = [dict(e) for e in L]
            ks = [i for i, e in enumerate(M) if pick(e)]
            if ks:
                change(M[ks[len(ks) // 2]])
                muts.append(M)
        ks = [i for i, e in enumerate(L) if e.get("pt") == "cor.close.locked" and e["thr"] == "T"]
        fl = [i for i, e in enumerate(L) if e.get("pt") == "cor.close.flagged" and e["thr"] == "T"]
        if ks and fl and fl[0] < ks[0]:                                                   # the target closed its channels before its effect returned
            M = [dict(e) for e in L]
            M[fl[0]], M[ks[0]] = dict(L[ks[0]], nx=L[fl[0]]["nx"]), dict(L[fl[0]], nx=L[ks[0]]["nx"])
            muts.append(M)
        for n, M in enumerate(muts):
            mf = "%s.mut%d.ndjson" % (pre, n)
            core.write_ndjson(mf, M)
            a, b = val(mf, timeout=900)
            rejected += a != b
        if rejected != len(muts):
            raise core.Inconclusive("hook-level binding accepted %d of %d corrupted traces (vacuous)" % (len(muts) - rejected, len(muts)))
    ctx.notes.append("hook-level binding: %d hook / inv / res lines of real coroutines (%d rounds, 7 configurations: 1-3 callers, 1-3 requests each, the target serving all, "
                     "some or none of them) %s by Cor.tla's own actions (Trace_CorHook); %d corrupted copies (wrong answer, wrong request seen by the target, answer to a request "
                     "not made, channels closed before completion) rejected" % (events, info["rounds"], "accepted" if not any(a != b for _, a, b in res) else "NOT all accepted", rejected))
    ctx.cov["evaluations"] += events


def run(ctx, replay=None):
    tla = ctx.stage_specs()
    quick = ctx.tier == "quick"
    for cfg in ("a", "full", "one"):
        r = ctx.tlc("MC_Cor", "MC_Cor_%s.cfg" % cfg, workers=8, timeout=600, cwd=tla)
        if not r.completed:
            core.log(r.text[-3000:])
            raise core.Inconclusive("Cor model: %s does not hold" % cfg)
        ctx.add_states(r)
    r2 = ctx.tlc("MC_Cor", "MC_Cor_replylock.cfg", workers=4, timeout=300, cwd=tla)
    if not r2.inv_violated:
        raise core.Inconclusive("Cor ReplyLocksTarget variant: expected a deadlock counterexample (vacuity guard)")
    ctx.notes.append("Cor.tla: pinned locking holds under the premise; ReplyLocksTarget variant violates %s" % r2.inv_violated)
    tf = os.path.join(ctx.scratch, "c14.trace.ndjson")
    p, crash = ctx.drv_crashable(["c14", "record", "--rounds", 12 if quick else 400, "--out", tf], timeout=3000)
    if crash:
        ctx.report("process crash: %s in %s" % (crash["panic"], crash["frame"].split("(")[0]), "the driver died: %s" % crash["stderr"][-1500:], {"component": "c14", "crash": crash})
        ctx.cov["evaluations"], ctx.cov["distinct_nontrivial"] = 1, 2
        return ctx.finish(RULE)
    r = ctx.tlc("Trace_CorAbs", workers=1, timeout=1500, cwd=tla, env_extra={"VERIF_TRACE": tf}, heap="8g")
    cons = r.printed("CONSUMED")
    if not cons:
        core.log(r.text[-3000:])
        raise core.Inconclusive("Trace_CorAbs did not finish")
    a, b = [int(x) for x in cons[-1].split(",")]
    mism = [(int(x.split(",")[0]), x.split(",", 1)[1].strip().strip('"')) for x in r.printed("MISMATCH")]
    if a != b and len(mism) < 60:
        raise core.Inconclusive("validator consumed %d of %d lines" % (a, b))
    ctx.cov["evaluations"] += a
    ctx.cov["traces_validated_against_impl"] += a
    ctx.cov["distinct_nontrivial"] += a - 1
    lines = core.read_ndjson(tf)
    stuck = [ln for ln, why in mism if why.startswith("stuck")]
    if stuck:
        # a blocked run is a timing observation: it must reproduce in a fresh recording before it counts
        tf2 = os.path.join(ctx.scratch, "c14.confirm.ndjson")
        ctx.drv(["c14", "record", "--rounds", 12 if quick else 40, "--out", tf2], timeout=3000, env_extra={"VERIF_SEED": str(ctx.seed + 1000)})
        again = [l for l in core.read_ndjson(tf2) if str(l.get("kind", "")).startswith("stuck")]
        if not again:
            raise core.Inconclusive("a blocked coroutine run did not reproduce in a second recording")
    for ln, why in mism:
        e = lines[ln - 1]
        ctx.report("%s [callers=%s requests/caller=%s %s%s]" % (why, "1" if e["ncallers"] == 1 else "2-3" if e["ncallers"] <= 3 else "8",
                   ">5" if e["ncallers"] and e["issued"] // max(1, e["ncallers"]) > 5 else "<=5", e.get("shape"), " StartWithVal" if e["startVal"] else ""),
                   "recorded run: %s: %s" % (json.dumps(e)[:1500], why), {"component": "c14", "run": e})
    ctx.sample(lines[2])
    try:
        hook_binding(ctx, tla, quick)
    except core.Inconclusive as ex:
        if not ctx.violations:
            raise
        ctx.notes.append("hook-level binding not completed on this tree (%s)" % ex)
    ctx.assumptions += [
        "effects are harness code; x values are unique (caller*1000+j), so a misrouted or duplicated value is visible",
        "the target serves exactly as many YieldRefs as there are requests (the statement's premise); completion races are C15",
        "a run that does not finish within 8 s is 'stuck' and must reproduce in a second recording",
    ]
    return ctx.finish(RULE, exhaustive=False, trusted=["TLC 1.8.0", "drv c14 (harness effects, event collection)"])


MANIFEST = {
    "text": "Cor.tla models YieldFrom/YieldRef/completion at hook grain with bounded channels and the closedM mutexes; TLC checks pairing, per-caller order, no panic and "
            "no stuck state for 1-3 callers with a full request channel, and exhibits the deadlock of the ReplyLocksTarget variant. Real coroutines (1-8 callers, more "
            "requests than the buffer, three generator shapes, StartWithVal, hook-perturbed schedules) are recorded and TLC validates the pairing rules on each run.",
    "note": "Trusted: TLC, harness effects. Real interleavings are sampled (seeded, perturbed), the model's are exhaustive within 3 callers x 2 requests.",
    "technique": "TLA+ hook-grain model checked by TLC (variant) + TLC trace validation of recorded coroutine runs",
}
