"""C03 — slice/map helpers equal their documented definitions.

spec/Collections.tla            one operator per helper, written from the doc comments: Outcomes(call) = admissible set
spec/gen/Gen_Collections.tla    TLC evaluates Outcomes on the whole bounded domain -> case table (direction A)
spec/trace/Trace_Collections.tla TLC judges outcomes recorded from the real functions on random inputs (direction B)
"""
import glob
import json
import os

from vlib import core

LEVEL = "exploration"
RULE = ("direction A: every call of the 41 helpers over all lists of length<=MaxLen over {0,1,2} (0 = the zero value) (pairs: <=MaxLen2), all "
        "count/size/hop in -3..len+3, all family members, all maps over keys {0,1,2} with values {0,1,2}; each executed at 3 element types x "
        "{nil, empty} variants; direction B: seeded random calls with lists up to length 10 judged by TLC. "
        "non-trivial = at least one non-empty argument collection; distinct = distinct (function, arguments)")


def sig(case, got):
    c = case
    cls = []
    if c["a"] == [] and c["fn"] not in ("Range", "Keys", "Values", "Merge", "IsEqualMap", "DuplicateMap", "Flatten"):
        cls.append("a=empty")
    if c["fn"] in ("Drop", "DropLast", "Take", "TakeLast", "SplitEvery"):
        n, L = c["n"], len(c["a"])
        cls.append("n<0" if n < 0 else "n=0" if n == 0 else "n<len" if n < L else "n=len" if n == L else "n>len")
    if c["f"] not in ("-",):
        cls.append("f=" + c["f"])
    return "%s(%s) => %s" % (c["fn"], ",".join(cls), got["k"])



def extras(ctx, tla):
    """API outside the listed properties (Extras.tla): advisory OBSERVATION lines, never part of the verdict."""
    ef = os.path.join(ctx.scratch, "extras.ndjson")
    try:
        ctx.drv(["extras", "--out", ef], timeout=120)
        r = ctx.tlc("Trace_Extras", workers=1, timeout=300, cwd=tla, env_extra={"VERIF_TRACE": ef})
    except core.Inconclusive as ex:
        ctx.observations.append("extras sweep not evaluated: %s" % ex)
        return
    cons = r.printed("CONSUMED")
    rows = core.read_ndjson(ef)
    for x in r.printed("MISMATCH"):
        ln = int(x.split(",")[0])
        e = rows[ln - 1]
        ctx.observations.append("%s disagrees with its definition in Extras.tla: %s" % (e["fn"], json.dumps(e)[:200]))
    ctx.notes.append("extras sweep (Extras.tla, outside the listed properties): %s calls of %d API functions judged, %d disagree" % (
        cons[-1].split(",")[0].strip() if cons else "?", len({e["fn"] for e in rows}), len(r.printed("MISMATCH"))))

def run(ctx, replay=None):
    tla = ctx.stage_specs()
    quick = ctx.tier == "quick"
    if replay:
        rp = json.load(open(replay))["replay"]
        cf = os.path.join(ctx.scratch, "case.json")
        json.dump({"case": rp["case"]}, open(cf, "w"))
        p = ctx.drv(["c03", "run", cf])
        tf = os.path.join(ctx.scratch, "replay.ndjson")
        open(tf, "w").write(p.stdout)
        judge_trace(ctx, tla, tf, "replay")
        core.out(p.stdout.strip())
        return ctx.finish(RULE)

    # direction A
    gdir = ctx.sub("cases")
    cfg = "Gen_Collections.cfg" if quick else "Gen_Collections_big.cfg"
    r = ctx.tlc("Gen_Collections", cfg, workers=1, timeout=900, cwd=tla, env_extra={"VERIF_EMIT_DIR": gdir}, heap="8g")
    ncases = sum(int(x.split(",")[-1]) for x in r.printed("CASES"))
    files = sorted(glob.glob(os.path.join(gdir, "*.ndjson")))
    if len(files) != 41 or ncases == 0:
        core.log(r.text[-3000:])
        raise core.Inconclusive("case generation incomplete (%d files)" % len(files))
    mm = os.path.join(ctx.scratch, "c03.mismatch.ndjson")
    p = ctx.drv(["c03", "replay"] + files + ["--out", mm], timeout=1200)
    stats = json.loads(p.stdout.strip().splitlines()[-1])
    ctx.cov["evaluations"] += stats["executions"]
    ctx.cov["distinct_nontrivial"] += stats["distinct_nontrivial"]
    ctx.cov["cases_generated_by_tlc"] = ncases
    # A mismatch found by the driver is re-judged by TLC on the logged outcome (single oracle) before it counts.
    mism = core.read_ndjson(mm)
    if mism:
        tf = os.path.join(ctx.scratch, "c03.mismatch.trace.ndjson")
        core.write_ndjson(tf, [{"case": m["case"], "ty": m["ty"], "nil": m["nil"], "out": m["got"]} for m in mism])
        judge_trace(ctx, tla, tf, "case table")
    with open(files[11]) as fh:
        ctx.sample(json.loads(fh.readlines()[7]))

    # direction B
    n = 6000 if quick else 150000
    tf = os.path.join(ctx.scratch, "c03.trace.ndjson")
    ctx.drv(["c03", "record", "--n", n, "--out", tf], timeout=900)
    judge_trace(ctx, tla, tf, "random call")
    with open(tf) as fh:
        ctx.sample(json.loads(fh.readline()))
    ctx.assumptions += [
        "element types int, string, struct{int,string} stand for 'all element types' (the helpers are generic and never inspect T beyond ==)",
        "documentation-silent edges admit two outcomes (DESIGN.md appendix A): Take/TakeLast n<=0, IsEqual/IsEqualMap/IsDistinct on empty input, SplitEvery of the empty list, Drop/DropLast of a singleton with n<=0",
    ]
    extras(ctx, tla)
    return ctx.finish(RULE, exhaustive=True, trusted=["TLC 1.8.0", "drv c03 (concretisation table, projection of results)"])


def judge_trace(ctx, tla, tf, label):
    lines = core.read_ndjson(tf)
    if not lines:
        return
    r = ctx.tlc("Trace_Collections", workers=1, timeout=900, cwd=tla, env_extra={"VERIF_TRACE": tf}, heap="8g")
    cons = r.printed("CONSUMED")
    mism = [int(x) for x in r.printed("MISMATCH")]
    if not cons:
        core.log(r.text[-3000:])
        raise core.Inconclusive("Trace_Collections did not finish")
    a, b = [int(x) for x in cons[-1].split(",")]
    if a != b and len(mism) < 60:
        raise core.Inconclusive("validator consumed %d of %d lines" % (a, b))
    ctx.cov["traces_validated_against_impl"] += a
    ctx.cov["evaluations"] += a
    ctx.cov["distinct_nontrivial"] += len({json.dumps(l["case"], sort_keys=True) for l in lines if l["case"]["a"] or l["case"]["m"] or l["case"]["c"]}) if label == "random call" else 0
    for ln in mism:
        e = lines[ln - 1]
        ctx.report(sig(e["case"], e["out"]), "%s: real %s returned %s for %s (element type %s, nil-variant %s); not an admissible outcome of Collections.tla"
                   % (label, e["case"]["fn"], json.dumps(e["out"]), json.dumps(e["case"]), e["ty"], e["nil"]),
                   {"component": "c03", "case": e["case"]})


MANIFEST = {
    "text": "Every helper's documented definition is a TLA+ operator (Collections.tla); TLC evaluates it on the complete bounded input "
            "domain (all lists <=4 over 3 values, all counts -3..len+3, all family members, all small maps) and the real generic functions "
            "are executed on every generated call at three element types and nil/empty variants with guarded inputs (frame condition, no panic); "
            "random larger calls are recorded and judged by TLC.  No interleavings exist here, so this is exhaustive exploration, not model checking.",
    "note": "Trusted: TLC, the concretisation/projection table of drv c03, three element types standing for all. Doc-silent edges admit two outcomes (appendix A).",
    "technique": "TLA+ operator definitions evaluated by TLC into an exhaustive case table replayed on the code + TLC validation of recorded random calls",
}
