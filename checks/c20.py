"""C20 — combinators compose in the documented order; pattern matching is first-match.

spec/Combinators.tla            Judge(e) per part: compose / adapter / trampoline / curryseq / curryconc / match / newcompdata
spec/Curry.tla + mc/MC_Curry*   CurryDef.Call as a lock-level state machine (fn inside / outside the mutex), model-checked
spec/gen/Gen_Combinators.tla    TLC enumerates function lists x regroupings, arities, scripts, pattern lists x probes
spec/trace/Trace_Combinators.tla TLC judges what the real functions returned
"""
import glob
import json
import os
from concurrent.futures import ThreadPoolExecutor

from vlib import core

LEVEL = "exploration"
RULE = ("calls = function lists (length 1..4/5 over a free family whose order of application is visible) x every regrouping x Compose/Pipe and their "
        "interface twins; CurryParam1..6, MakeVariadicParam/Return1..6; Trampoline runs with an error at every step; all CurryDef scripts of <=4/5 "
        "Call/MarkDone/Result steps; concurrent CurryDef.Call runs (gated and free); every permutation of every subset of the five pattern kinds (plus "
        "alternative instances) x 16 probe values of every kind; NewCompData over 4 types x 9 argument lists. non-trivial = everything but single-function lists; "
        "distinct = distinct call records")


def sig(e):
    p = e["part"]
    if p == "compose":
        return "compose %s groups=%d kind=%s" % (e["fn"], len(e["groups"]), e["kind"])
    if p == "adapter":
        return "adapter %s%s kind=%s" % (e["fn"], e["n"], e["kind"])
    if p == "match":
        pk = [x["p"] for x in e["ps"]]
        accept = "panic:" + e["panic"][:60] if e.get("panic") else "pattern#%d" % e["out"]
        return "match %s probe=%s patterns=%s => %s" % (e["fn"], e["probe"]["name"], "+".join(pk), accept)
    if p == "curryconc":
        return "curryconc gate=%s kind=%s" % (e.get("gate"), e["kind"])
    if p == "currydone":
        return "currydone invocations=%s kind=%s" % (e.get("invocations"), e["kind"])
    return "%s kind=%s" % (p, e.get("kind"))


def judge(ctx, tla, files, label):
    def one(f):
        r = ctx.tlc("Trace_Combinators", workers=1, timeout=1200, cwd=tla, env_extra={"VERIF_TRACE": f}, heap="6g")
        cons = r.printed("CONSUMED")
        if not cons:
            core.log(r.text[-3000:])
            raise core.Inconclusive("Trace_Combinators did not finish on %s" % f)
        a, b = [int(x) for x in cons[-1].split(",")]
        return f, a, b, [int(x.split(",")[0]) for x in r.printed("MISMATCH")]
    with ThreadPoolExecutor(max_workers=6) as ex:
        res = list(ex.map(one, files))
    for f, a, b, mism in res:
        if a != b and len(mism) < 200:
            raise core.Inconclusive("validator consumed %d of %d lines of %s" % (a, b, f))
        ctx.cov["evaluations"] += a
        ctx.cov["traces_validated_against_impl"] += a
        if mism:
            lines = core.read_ndjson(f)
            for ln in mism:
                e = lines[ln - 1]
                ctx.report(sig(e), "%s: the real code produced %s: not accepted by Combinators!Judge" % (label, json.dumps(e)[:1200]),
                           {"component": "c20", "case": e})


def run(ctx, replay=None):
    tla = ctx.stage_specs()
    quick = ctx.tier == "quick"
    if replay:
        rp = json.load(open(replay))["replay"]["case"]
        if rp["part"] in ("curryconc", "currydone"):
            core.out("concurrent CurryDef runs are re-executed by the check itself (drv c20 curry)")
            rf = os.path.join(ctx.scratch, "curry.ndjson")
            ctx.drv(["c20", "curry", "--n", 50, "--out", rf])
            judge(ctx, tla, [rf], "replay")
            return ctx.finish(RULE)
        cf = os.path.join(ctx.scratch, "case.ndjson")
        core.write_ndjson(cf, [rp])
        p = ctx.drv(["c20", "exec", cf, "--out", os.path.join(ctx.scratch, "rp")])
        files = json.loads(p.stdout.strip().splitlines()[-1])["files"]
        judge(ctx, tla, files, "replay")
        core.out(open(files[0]).read().strip())
        return ctx.finish(RULE)

    # CurryDef.Call at lock grain: model-checked in both variants (fn under the mutex = pinned code; outside = what a refactor might do)
    r = ctx.tlc("MC_Curry", "MC_Curry_locked.cfg", workers=4, timeout=300, cwd=tla)
    if not r.completed:
        core.log(r.text[-3000:])
        raise core.Inconclusive("MC_Curry_locked must hold")
    ctx.add_states(r)
    r2 = ctx.tlc("MC_Curry", "MC_Curry_unlocked.cfg", workers=4, timeout=300, cwd=tla)
    if not (r2.inv_violated or r2.prop_violated):
        raise core.Inconclusive("MC_Curry_unlocked: expected a counterexample (vacuity guard)")
    r3 = ctx.tlc("MC_Curry", "MC_Curry_marksdone.cfg", workers=4, timeout=300, cwd=tla)
    r4 = ctx.tlc("MC_Curry", "MC_Curry_marksdone_fastpath.cfg", workers=4, timeout=300, cwd=tla)
    if not r3.completed or "Inv_OnlyFirstInvocation" not in (r4.inv_violated or []):
        raise core.Inconclusive("MC_Curry_marksdone must hold and the done-test-before-the-mutex variant must violate it (vacuity guard)")
    ctx.notes.append("Curry.tla: fn-under-mutex variant holds (%d states); fn-outside-mutex variant violates %s" % (r.distinct, r2.inv_violated or "an action property"))

    gdir = ctx.sub("cases")
    r = ctx.tlc("Gen_Combinators", "Gen_Combinators.cfg" if quick else "Gen_Combinators_big.cfg", workers=1, timeout=2400, cwd=tla,
                env_extra={"VERIF_EMIT_DIR": gdir}, heap="12g")
    ncases = sum(int(x.split(",")[-1]) for x in r.printed("CASES"))
    cfiles = sorted(glob.glob(os.path.join(gdir, "*.ndjson")))
    if len(cfiles) != 6:
        core.log(r.text[-3000:])
        raise core.Inconclusive("case generation incomplete")
    p = ctx.drv(["c20", "exec"] + cfiles + ["--out", os.path.join(ctx.scratch, "c20.trace")], timeout=2400)
    info = json.loads(p.stdout.strip().splitlines()[-1])
    judge(ctx, tla, info["files"], "TLC-generated call")
    ctx.cov["cases_generated_by_tlc"] = ncases
    ctx.cov["distinct_nontrivial"] = ncases - 64
    with open(info["files"][0]) as fh:
        ls = fh.readlines()
        ctx.sample(json.loads(ls[len(ls) // 2]))
    with open(info["files"][-1]) as fh:
        ctx.sample(json.loads(fh.readlines()[-40]))
    rf = os.path.join(ctx.scratch, "curry.ndjson")
    ctx.drv(["c20", "curry", "--n", 300 if quick else 6000, "--out", rf], timeout=1200)
    judge(ctx, tla, [rf], "concurrent CurryDef.Call")
    ctx.assumptions += [
        "functions come from a free family (append a marker / duplicate / reverse / drop), so any other order of application changes the result",
        "regexp.MatchString and reflect kinds are library facts tabulated in the spec (RegexMatches) / probe descriptors",
        "for a pointer to an ordinary (non-CompData) struct both readings (test the pointer / test the pointee) are admissible, and a sum-type pattern may reject or raw-test an ordinary struct; a panic is admissible only when no pattern accepts",
        "concurrent CurryDef: an overlap is observed positively (second fn began while the first was parked 30 ms inside fn); absence of overlap under the gate is what the pinned code shows",
    ]
    return ctx.finish(RULE, exhaustive=True, trusted=["TLC 1.8.0", "drv c20 (probe table, function family, event log under one mutex)"])


MANIFEST = {
    "text": "Compose/Pipe order and associativity, adapter argument order, Trampoline, CurryDef accumulation and first-match pattern semantics are TLA+ "
            "operators (Combinators.tla); TLC enumerates all bounded inputs (every regrouping, every permutation of every subset of the pattern kinds x "
            "16 probes), the driver executes them on the real code and TLC judges the outcomes. CurryDef.Call is also a lock-level TLA+ state machine "
            "model-checked in both variants, bound to the code by gated concurrent runs whose fn begin/end events TLC validates.",
    "note": "Trusted: TLC, drv c20's probe table and free function family, regexp/reflect facts tabulated in the spec. Exploration level overall; the "
            "CurryDef part is model-checked (3 threads, MarkDone at any point).",
    "technique": "TLA+ operator definitions + TLC-enumerated inputs executed on the code and validated by TLC; lock-level TLA+ model of CurryDef.Call checked by TLC",
}
