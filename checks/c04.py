"""C04 — Stream / MapSet / StreamSet are persistent.

spec/StreamHeap.tla              Judge(H, call, result, H') : definition + frame + observers for one step
spec/mc/MC_StreamHeap.tla        the ideal persistent heap as a state machine; TLC enumerates all programs up to Depth
spec/trace/Trace_StreamHeap.tla  TLC judges programs executed on the real objects (full heap re-read after every call)
"""
import json
import os
from concurrent.futures import ThreadPoolExecutor

from vlib import core

LEVEL = "model_checking"
RULE = ("programs = sequences of Stream/MapSet/StreamSet calls applied to any live object (receiver and argument drawn from all slots, "
        "earlier results included), both families; quick: all programs of <=2 calls from TLC's state machine + the driver's tree of depth 2 + "
        "random programs of 8 calls; thorough: tree depth 3. After EVERY call every live object is re-read. non-trivial = program with >=2 calls "
        "or a call on a non-empty object; distinct = distinct (initial heap, call sequence)")


def history_at(path, line):
    stack = []
    with open(path) as fh:
        for i, l in enumerate(fh, 1):
            e = json.loads(l)
            del stack[e["d"]:]
            stack.append(e)
            if i == line:
                return list(stack)
    return []


def sig(ev, why):
    e = ev[-1]
    c = e["c"]
    H = ev[-2]["heap"]
    kind = H[c["recv"] - 1]["k"]
    extra = ""
    if c["op"] == "Remove":
        L = len(H[c["recv"] - 1]["v"])
        extra = " index=" + ("inrange" if 0 <= c["x"] < L else "outofrange")
    if c["o"]:
        extra += " arg=" + ("empty" if not H[c["o"] - 1]["v"] else "self" if c["o"] == c["recv"] else "nonempty")
    prior = ",".join(x["c"]["op"] for x in ev[1:-1])
    return "%s.%s.%s%s %s after[%s]" % (c["fam"], kind, c["op"], extra, why, prior)


def judge(ctx, tla, files, label):
    def one(f):
        r = ctx.tlc("Trace_StreamHeap", workers=1, timeout=1200, cwd=tla, env_extra={"VERIF_TRACE": f}, heap="8g")
        cons = r.printed("CONSUMED")
        if not cons:
            core.log(r.text[-3000:])
            raise core.Inconclusive("Trace_StreamHeap did not finish on %s" % f)
        a, b = [int(x) for x in cons[-1].split(",")]
        mism = [(int(x.split(",")[0]), x.split(",")[1].strip().strip('"')) for x in r.printed("MISMATCH")]
        return f, a, b, mism
    with ThreadPoolExecutor(max_workers=6) as ex:
        res = list(ex.map(one, files))
    for f, a, b, mism in res:
        if a != b and len(mism) < 60:
            raise core.Inconclusive("validator consumed %d of %d lines of %s" % (a, b, f))
        ctx.cov["evaluations"] += a
        for ln, why in mism:
            ev = history_at(f, ln)
            if len(ev) < 2 or ev[0]["d"] != 0:
                raise core.Inconclusive("trace file %s does not start at a program boundary (line %d)" % (f, ln))
            prog = [x["c"] for x in ev[1:]]
            init = [{"k": o["k"], "v": o["v"]} for o in ev[0]["heap"]]
            ctx.report(sig(ev, why), "%s: after %s the real heap is %s (result %s): violates the %s clause of StreamHeap!Judge; heap before: %s"
                       % (label, json.dumps({k: v for k, v in ev[-1]["c"].items() if v not in ([], 0, "-")}), json.dumps(ev[-1]["heap"]),
                          json.dumps(ev[-1]["res"]), why, json.dumps(ev[-2]["heap"])),
                       {"component": "c04", "init": init, "prog": prog})


def run(ctx, replay=None):
    tla = ctx.stage_specs()
    quick = ctx.tier == "quick"
    if replay:
        rp = json.load(open(replay))["replay"]
        pf = os.path.join(ctx.scratch, "prog.ndjson")
        core.write_ndjson(pf, [{"init": rp["init"], "prog": rp["prog"]}])
        p = ctx.drv(["c04", "exec", pf, "--out", os.path.join(ctx.scratch, "rp")])
        files = json.loads(p.stdout.strip().splitlines()[-1])["files"]
        judge(ctx, tla, files, "replay")
        core.out(open(files[0]).read().strip())
        return ctx.finish(RULE)

    # direction A: TLC enumerates the programs (ideal heap machine), the driver executes them
    nprog = 0
    allfiles = []
    for uni in ("stream", "set", "sset"):
        for fam in ("G", "I"):
            pf = os.path.join(ctx.scratch, "prog_%s_%s.ndjson" % (uni, fam))
            r = ctx.tlc("MC_StreamHeap", "MC_StreamHeap_%s_%s.cfg" % (uni, fam), workers=8, timeout=600, cwd=tla,
                        env_extra={"VERIF_EMIT": pf})
            if not r.completed:
                core.log(r.text[-3000:])
                raise core.Inconclusive("MC_StreamHeap %s %s failed" % (uni, fam))
            ctx.add_states(r)
            p = ctx.drv(["c04", "exec", pf, "--out", os.path.join(ctx.scratch, "tr_%s_%s" % (uni, fam))], timeout=900)
            info = json.loads(p.stdout.strip().splitlines()[-1])
            nprog += info["programs"]
            allfiles += info["files"]
    judge(ctx, tla, allfiles, "TLC-enumerated program")
    ctx.cov["traces_validated_against_impl"] += nprog
    ctx.cov["distinct_nontrivial"] += nprog
    with open(allfiles[0]) as fh:
        ls = fh.readlines()
        ctx.sample([json.loads(ls[-2]), json.loads(ls[-1])])

    # direction B: the driver's own deeper tree and random programs
    files = []
    n = 0
    if not quick:
        for uni in ("stream", "set", "sset"):
            for fam in ("G", "I"):
                p = ctx.drv(["c04", "tree", "--universe", uni, "--fam", fam, "--depth", 3,
                             "--out", os.path.join(ctx.scratch, "tree_%s_%s" % (uni, fam))], timeout=3000)
                info = json.loads(p.stdout.strip().splitlines()[-1])
                files += info["files"]
                n += info["programs"]
    p = ctx.drv(["c04", "random", "--n", 1500 if quick else 30000, "--len", 8, "--out", os.path.join(ctx.scratch, "rand")], timeout=900)
    info = json.loads(p.stdout.strip().splitlines()[-1])
    files += info["files"]
    n += info["programs"]
    judge(ctx, tla, files, "recorded program")
    ctx.cov["traces_validated_against_impl"] += n
    ctx.cov["distinct_nontrivial"] += n
    ctx.assumptions += [
        "heap projection reads the underlying Go slices/maps directly (type conversion), never through the library",
        "initial streams are built on buffers with spare capacity, so an in-place append inside the library is visible in a sibling",
        "StreamSet per-key contents are fixed by the definition only for keys whose streams are non-empty in both operands; MinusStreams(empty) may also return the empty set (pinned, doc-silent)",
        "element type int; interface{} values true/nil are projected as -1/0",
    ]
    return ctx.finish(RULE, exhaustive=True, trusted=["TLC 1.8.0", "drv c04 (slot bookkeeping, projection)"])


MANIFEST = {
    "text": "StreamHeap.tla states definition + frame condition per call over a heap of collection objects; TLC explores the ideal heap machine "
            "(all programs up to the depth) and the driver executes every such program on the real objects, re-reading EVERY live object after "
            "EVERY call; TLC then judges each recorded step (definition, frame, observers, alias/new). Deeper trees and random programs are judged the same way.",
    "note": "Trusted: TLC, the driver's direct reads of the underlying slices/maps, the slot bookkeeping. Bounds: 3 initial objects per universe, "
            "programs <=2 (quick) / <=3 (thorough) calls exhaustively over ~40 call variants per receiver, random programs of 8 calls.",
    "technique": "TLA+ heap state machine explored by TLC -> programs replayed on the code; TLC trace validation of full-heap snapshots per step",
}
