"""C17 — SimpleAPI sends exactly the request it was defined with, lazily, and decodes it.

spec/SimpleAPI.tla            Judge(e): laziness, one request per evaluation, method, URL substitution, header copy + Content-Type, body, decode, faults as Err
spec/gen/Gen_SimpleAPI.tla    TLC enumerates constructors x templates x PathParam maps x default headers x injected faults x evaluation counts
spec/trace/Trace_SimpleAPI.tla TLC judges what the stub transport captured and what came back
"""
import glob
import json
import os

from vlib import core

LEVEL = "exploration"
RULE = ("cases = (Get, PostJSON, PostMultipart) x 6 templates with 0..4 placeholders (repeats) x all 256 PathParam maps over keys {a,b,c,x} (missing, extra, multiple) "
        "+ all 13 constructor variants x 2 templates x 2 param maps x 3 default headers (+ nil) x 5 fault classes x 0..2 evaluations. "
        "non-trivial = template with a placeholder or an injected fault; distinct = distinct cases")


def sig(e, why):
    c = e["case"]
    nk = len(c["params"])
    nph = sum(1 for s in c["tmpl"] if s["t"] == "ph")
    return "%s%s %s fault=%s keys=%s placeholders=%s evals=%d" % (c["ctor"], "(" + c["m"] + ")" if c["m"] != "-" else "", why, c["fault"],
                                                               "0" if nk == 0 else "1" if nk == 1 else ">=2", "0" if nph == 0 else "1" if nph == 1 else ">=2", c["evals"])


def judge(ctx, tla, tf, label):
    r = ctx.tlc("Trace_SimpleAPI", workers=1, timeout=900, cwd=tla, env_extra={"VERIF_TRACE": tf}, heap="6g")
    cons = r.printed("CONSUMED")
    if not cons:
        core.log(r.text[-3000:])
        raise core.Inconclusive("Trace_SimpleAPI did not finish")
    a, b = [int(x) for x in cons[-1].split(",")]
    mism = [(int(x.split(",")[0]), x.split(",")[1].strip().strip('"')) for x in r.printed("MISMATCH")]
    if a != b and len(mism) < 400:
        raise core.Inconclusive("validator consumed %d of %d lines" % (a, b))
    ctx.cov["evaluations"] += a
    ctx.cov["traces_validated_against_impl"] += a
    lines = core.read_ndjson(tf)
    for ln, why in mism:
        e = lines[ln - 1]
        ctx.report(sig(e, why), "%s: definition %s: captured requests %s, results %s, DefaultHeader afterwards %s: violates the %s clause of SimpleAPI!Judge"
                   % (label, json.dumps(e["case"]), json.dumps(e["reqs"]), json.dumps(e["results"]), json.dumps(e["defaultHeaderAfter"]), why),
                   {"component": "c17", "case": e["case"]})
    return lines


def run(ctx, replay=None):
    tla = ctx.stage_specs()
    if replay:
        rp = json.load(open(replay))["replay"]
        cf = os.path.join(ctx.scratch, "case.ndjson")
        core.write_ndjson(cf, [rp["case"]])
        tf = os.path.join(ctx.scratch, "rp.ndjson")
        ctx.drv(["c17", "exec", cf, "--out", tf])
        judge(ctx, tla, tf, "replay")
        core.out(open(tf).read().strip())
        return ctx.finish(RULE)
    gdir = ctx.sub("cases")
    r = ctx.tlc("Gen_SimpleAPI", workers=1, timeout=900, cwd=tla, env_extra={"VERIF_EMIT_DIR": gdir}, heap="6g")
    ncases = sum(int(x.split(",")[-1]) for x in r.printed("CASES"))
    cfiles = sorted(glob.glob(os.path.join(gdir, "*.ndjson")))
    if len(cfiles) != 2:
        core.log(r.text[-3000:])
        raise core.Inconclusive("case generation incomplete")
    tf = os.path.join(ctx.scratch, "c17.trace.ndjson")
    # several passes: PathParam is a Go map, so the substitution order changes from run to run
    passes = 2 if ctx.tier == "quick" else 8
    for i in range(passes):
        ctx.drv(["c17", "exec"] + cfiles + ["--out", tf], timeout=900)
        lines = judge(ctx, tla, tf, "case")
    # bodies of other types than string (nil / empty slices and maps): exactly the given body goes through the serializer
    bf = os.path.join(ctx.scratch, "c17.body.ndjson")
    ctx.drv(["c17", "bodykinds", "--out", bf], timeout=300)
    rb = ctx.tlc("Trace_SimpleAPIBody", workers=1, timeout=300, cwd=tla, env_extra={"VERIF_TRACE": bf})
    consb = rb.printed("CONSUMED")
    if not consb:
        core.log(rb.text[-2000:])
        raise core.Inconclusive("Trace_SimpleAPIBody did not finish")
    rowsb = core.read_ndjson(bf)
    ctx.cov["evaluations"] += len(rowsb)
    for x in rb.printed("MISMATCH"):
        e = rowsb[int(x.split(",")[0]) - 1]
        if e["part"] == "defaults":
            bad = [p for p in e["pairs"] if p["got"] != p["want"]]
            ctx.report("default serializers, %s: %s" % (e["ctor"], "a call failed" if e["err"] else "a request body is not the serializer's output for its own call" if bad else "a response was not decoded into its target"),
                       "default serializers (%s, %d calls): err=%s decoded=%s; %d of %d request bodies differ from the serializer's output for the body given to that call, e.g. %s" % (
                           e["ctor"], e["calls"], e["err"], e["decoded"], len(bad), len(e["pairs"]), json.dumps(bad[:2])[:600]), {"component": "c17-defaults", "run": dict(e, pairs=bad[:5])})
            continue
        ctx.report("%s body kind=%s calls=%d" % (e["ctor"], e["kind"], e["calls"]), "%s with a %s body: the serializer was called %d time(s) with %s and the request body was %r (expected the serializer's output for the given body)" % (
            e["ctor"], e["kind"], e["calls"], e["seen"], e["body"]), {"component": "c17-body", "run": e})
    ctx.cov["cases_generated_by_tlc"] = ncases
    ctx.cov["distinct_nontrivial"] = ncases - 300
    ctx.sample(lines[len(lines) // 2])
    ctx.sample(lines[-1])
    ctx.assumptions += [
        "HTTP goes through a stub RoundTripper (no network); Ser/Deser are tagging functions (encode/decode fidelity of json/multipart is not a claim)",
        "PathParam values contain no braces, spaces or non-ASCII characters (the statement does not define URL escaping; values with '{' make the result depend on Go's map order)",
        "the multipart Content-Type is whatever the serializer declares",
    ]
    return ctx.finish(RULE, exhaustive=True, trusted=["TLC 1.8.0", "drv c17 (stub transport, tagging serializers, projection of captured requests)"])


MANIFEST = {
    "text": "What the request must be (method per constructor, URL by substitution, DefaultHeader copy + Content-Type, serializer output, one per evaluation, none before) "
            "and how faults surface is a TLA+ predicate (SimpleAPI!Judge); TLC enumerates the bounded definition space, the driver builds each API on a stub "
            "transport with tagging serializers and evaluates it, and TLC judges the captured requests and results.",
    "note": "Trusted: TLC, the stub transport and tagging serializers, string concatenation in TLC for the URL. Values without braces/escaping.",
    "technique": "TLA+ request definition enumerated by TLC, executed on the code over a stub transport, captured requests validated by TLC",
}
