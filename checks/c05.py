"""C05 — set algebra laws; generic and interface{} twins agree.

spec/SetAlgebra.tla            Judge(e) = LawOK /\ TwinOK on a recorded call with both sides' outcomes
spec/gen/Gen_SetAlgebra.tla    TLC enumerates the bounded operand domain (direction A: inputs come from TLC)
spec/trace/Trace_SetAlgebra.tla TLC judges every recorded line (TLC-generated and random operands)
"""
import glob
import json
import os
from concurrent.futures import ThreadPoolExecutor

from vlib import core

LEVEL = "exploration"
RULE = ("calls = every set operation of both families (slices 2 and 3 operands, Stream, MapSet by key, StreamSet by key/per-key stream) "
        "on all operand tuples from the bounded domain (lists length<=3 over 3-4 values incl. the zero value, all small maps / stream sets), "
        "each in an empty and a nil variant, plus seeded random larger operands; every call runs the generic side and its interface{} twin; "
        "non-trivial = at least one non-empty operand; distinct = distinct (family, op, operands)")


def operand_class(c):
    if c["fam"] in ("slice", "stream") and c["op"] not in ("Keys", "Values", "DuplicateMap", "Merge", "IntersectionMapByKey", "MinusMapByKey", "IsSubsetMapByKey", "IsSupersetMapByKey"):
        ops = [c["a"], c["b"]] + ([c["c3"]] if c["n"] == 3 else [])
    elif c["fam"] == "streamset":
        ops = [c["s"], c["s2"]]
    else:
        ops = [c["m"], c["m2"]]
    cls = ["e" if not o else "n" for o in ops]
    extra = ""
    if c["fam"] == "streamset":
        k1 = {p[0]: p[1] for p in c["s"]}
        k2 = {p[0]: p[1] for p in c["s2"]}
        if any((k in k2) and (not k1[k] or not k2[k]) for k in k1):
            extra = ",emptyPerKeyStream"
    return "".join(cls) + extra


def sig(e, verdict):
    c = e["case"]
    return "%s.%s %s operands=%s => g:%s i:%s" % (c["fam"], c["op"], verdict, operand_class(c), e["g"]["k"], e["i"]["k"])


def judge_files(ctx, tla, files, label):
    def one(f):
        r = ctx.tlc("Trace_SetAlgebra", workers=1, timeout=900, cwd=tla, env_extra={"VERIF_TRACE": f}, heap="6g")
        cons = r.printed("CONSUMED")
        if not cons:
            core.log(r.text[-3000:])
            raise core.Inconclusive("Trace_SetAlgebra did not finish on %s" % f)
        a, b = [int(x) for x in cons[-1].split(",")]
        mism = [(int(x.split(",")[0]), x.split(",")[1].strip().strip('"')) for x in r.printed("MISMATCH")]
        return f, a, b, mism
    with ThreadPoolExecutor(max_workers=6) as ex:
        res = list(ex.map(one, files))
    for f, a, b, mism in res:
        if a != b and len(mism) < 200:
            raise core.Inconclusive("validator consumed %d of %d lines of %s" % (a, b, f))
        ctx.cov["traces_validated_against_impl"] += a
        ctx.cov["evaluations"] += a
        if mism:
            lines = core.read_ndjson(f)
            for ln, verdict in mism:
                e = lines[ln - 1]
                ctx.report(sig(e, verdict), "%s: %s.%s on %s: generic side %s, interface{} side %s: violates the %s clause of SetAlgebra.tla"
                           % (label, e["case"]["fam"], e["case"]["op"], json.dumps({k: v for k, v in e["case"].items() if v not in ([], 0, "-")}),
                              json.dumps(e["g"]), json.dumps(e["i"]), verdict), {"component": "c05", "case": e["case"]})


def run(ctx, replay=None):
    tla = ctx.stage_specs()
    quick = ctx.tier == "quick"
    if replay:
        rp = json.load(open(replay))["replay"]
        cf = os.path.join(ctx.scratch, "case.ndjson")
        core.write_ndjson(cf, [rp["case"]])
        p = ctx.drv(["c05", "exec", cf, "--out", os.path.join(ctx.scratch, "rp")])
        files = json.loads(p.stdout.strip().splitlines()[-1])["files"]
        judge_files(ctx, tla, files, "replay")
        core.out(open(files[0]).read().strip())
        return ctx.finish(RULE)

    gdir = ctx.sub("cases")
    r = ctx.tlc("Gen_SetAlgebra", "Gen_SetAlgebra.cfg" if quick else "Gen_SetAlgebra_big.cfg", workers=1, timeout=1500,
                cwd=tla, env_extra={"VERIF_EMIT_DIR": gdir}, heap="10g")
    ncases = sum(int(x.split(",")[-1]) for x in r.printed("CASES"))
    cfiles = sorted(glob.glob(os.path.join(gdir, "*.ndjson")))
    if len(cfiles) != 8:
        core.log(r.text[-3000:])
        raise core.Inconclusive("case generation incomplete")
    p = ctx.drv(["c05", "exec"] + cfiles + ["--out", os.path.join(ctx.scratch, "c05.trace")], timeout=1500)
    info = json.loads(p.stdout.strip().splitlines()[-1])
    judge_files(ctx, tla, info["files"], "TLC-generated operands")
    ctx.cov["cases_generated_by_tlc"] = ncases
    ctx.cov["distinct_nontrivial"] = ncases - 8      # all but the all-empty tuple of each group
    with open(info["files"][-1]) as fh:
        ctx.sample(json.loads(fh.readlines()[-3]))

    rf = os.path.join(ctx.scratch, "c05.rand.ndjson")
    ctx.drv(["c05", "record", "--n", 8000 if quick else 200000, "--out", rf], timeout=900)
    judge_files(ctx, tla, [rf], "random operands")
    with open(rf) as fh:
        ctx.sample(json.loads(fh.readline()))
    ctx.assumptions += [
        "element type int (values incl. 0 = zero value) stands for all comparable element types",
        "law clause only for non-empty operands (per-key clause only for keys whose streams are non-empty in both operands), as the statement says; twin clause for all operands",
        "twins are given the same data: map sets are built key by key with Set on both sides; results of set-valued methods are compared by key (the interface Add stores true, the generic one the zero value)",
    ]
    return ctx.finish(RULE, exhaustive=True, trusted=["TLC 1.8.0", "drv c05 (construction of twin data, projection of results)"])


MANIFEST = {
    "text": "The membership laws and the twin-agreement clause are one TLA+ predicate (SetAlgebra!Judge). TLC enumerates the complete bounded operand "
            "domain, the driver executes the generic function/method and its interface{} twin of every call on the real code (empty and nil variants) "
            "and TLC judges every recorded line; random larger operands are judged the same way. Pure functions: exhaustive exploration, no interleavings.",
    "note": "Trusted: TLC, drv c05's construction of equal data for both families and its projections (sequence as is / sorted keys / per-key lists). "
            "Bounds: lists <=3 over 3 (quick) or 4 (thorough) values, triples <=2, maps over 3-4 keys, stream sets over 2 keys with streams <=2.",
    "technique": "TLA+ law/twin predicate; TLC-enumerated operands executed on both API families; TLC validation of the recorded outcomes",
}
