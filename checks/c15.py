"""C15 — shutdown is safe at any moment.

spec/Mailbox.tla, BQueue.tla, WorkerPool.tla, Cor.tla   the closer thread (flag, close the channels) against users at hook grain; constants SendRecovers,
                                                         GuardedClose, QueueGuardedClose, SafeCompletion name the pinned and the repaired code
spec/trace/Trace_ShutdownAbs.tla                         TLC judges one line per shutdown schedule executed on the real objects
"""
import json
import os

from vlib import core

LEVEL = "model_checking"
RULE = ("model: closer x 1-3 users per object at hook grain, all interleavings (Mailbox 2 senders x 2, BQueue producer+consumer+loader, WorkerPool 3 jobs / 2 workers, "
        "Cor 2-3 callers); real code: (a) the models' counterexample schedules scripted with hook gates (user parked between its closed check and its send, Close runs, "
        "user released) incl. the loader in its own process, (b) the one-preemption closure: every hook point of every operation (and of the loader, workers, spawn loop, "
        "YieldFrom) x Close, parked either way round, (c) seeded free-running stress of 1-8 users against one closer with perturbing hooks. non-trivial = a schedule whose "
        "window was actually entered; distinct = schedules executed")

HOLD = [("MC_Mailbox", "MC_Mailbox_close"), ("MC_BQueue", "MC_BQueue_close"), ("MC_Cor", "MC_Cor_short"), ("MC_WorkerPool", "MC_WorkerPool_close")]
BAD = [("MC_Mailbox", "MC_Mailbox_close_pinned", "Inv_NoPanic"), ("MC_BQueue", "MC_BQueue_close_pinned", "Inv_NoPanic"),
       ("MC_BQueue", "MC_BQueue_close_pinned_loader", "Inv_NoLoaderPanic"), ("MC_Cor", "MC_Cor_short_pinned", "Inv_NoPanic"),
       ("MC_WorkerPool", "MC_WorkerPool_close_pinned", "Inv_HandlerOnlyJobPanics"), ("MC_Cor", "MC_Cor_short_full", "Inv_NoStuck")]


def why_class(why):
    for k, v in (("panicked", "panic"), ("panic handler", "handler"), ("deadlock", "blocked"), ("did not report", "not-reported"), ("callback ran", "late-callback")):
        if k in why:
            return v
    return "other"


def run(ctx, replay=None):
    tla = ctx.stage_specs()
    quick = ctx.tier == "quick"
    for mod, cfg in HOLD:
        r = ctx.tlc(mod, cfg + ".cfg", workers=8, timeout=900, cwd=tla)
        if not r.completed:
            core.log(r.text[-3000:])
            raise core.Inconclusive("shutdown model %s does not hold" % cfg)
        ctx.add_states(r)
    for mod, cfg, inv in BAD:
        r = ctx.tlc(mod, cfg + ".cfg", workers=4, timeout=300, cwd=tla)
        if inv not in (r.inv_violated or []):
            core.log(r.text[-2000:])
            raise core.Inconclusive("%s: expected a counterexample to %s (vacuity guard), got %r" % (cfg, inv, r.inv_violated))
    ctx.notes.append("the repaired variants (recovered send; notify/loader re-check under the lock; senders re-check done under closedM, undeliverable and stranded requests "
                     "answered) hold with a closer thread; TLC exhibits the close-window counterexample of every pinned variant, and the full-mailbox deadlock that remains "
                     "(known finding)")
    parts = []
    crashes = []
    for name, args, tmo in (("scripted", ["c15", "scripted"], 300), ("preempt", ["c15", "preempt"], 600), ("loader", ["c15", "loader"], 120),
                            ("stress", ["c15", "stress", "--rounds", 200 if quick else 6000], 3000)):
        tf = os.path.join(ctx.scratch, "c15.%s.ndjson" % name)
        p, crash = ctx.drv_crashable(args + ["--out", tf], timeout=tmo)
        if crash:
            crashes.append((name, crash))
        if os.path.exists(tf):
            parts += core.read_ndjson(tf)
    for name, crash in crashes:
        ctx.report("process crash in %s: %s in %s" % (name, crash["panic"], crash["frame"].split("(")[0]),
                   "a library goroutine panicked during '%s' and took the process down: %s" % (name, crash["stderr"][-1500:]), {"component": "c15", "part": name, "crash": crash})
    if not parts:
        raise core.Inconclusive("no shutdown schedule was executed")
    tf = os.path.join(ctx.scratch, "c15.all.ndjson")
    core.write_ndjson(tf, parts)
    r = ctx.tlc("Trace_ShutdownAbs", workers=1, timeout=900, cwd=tla, env_extra={"VERIF_TRACE": tf})
    cons = r.printed("CONSUMED")
    if not cons:
        core.log(r.text[-3000:])
        raise core.Inconclusive("Trace_ShutdownAbs did not finish")
    a, b = [int(x) for x in cons[-1].split(",")]
    mism = [(int(x.split(",")[0]), x.split(",", 1)[1].strip().strip('"')) for x in r.printed("MISMATCH")]
    if a != b and len(mism) < 80:
        raise core.Inconclusive("validator consumed %d of %d lines" % (a, b))
    reached = sum(1 for e in parts if e["reached"])
    if reached < 100 and not crashes and not mism:
        raise core.Inconclusive("only %d shutdown windows were entered (hooks missing?)" % reached)
    ctx.cov["evaluations"] += a
    ctx.cov["traces_validated_against_impl"] += a
    ctx.cov["distinct_nontrivial"] += reached
    for ln, why in mism:
        e = parts[ln - 1]
        ctx.report("%s %s %s" % (e["object"], e["scenario"], why_class(why)), "%s, schedule '%s': %s (%s)" % (e["object"], e["scenario"], why, e["detail"]),
                   {"component": "c15", "run": e})
    ctx.sample(parts[0])
    ctx.assumptions += [
        "user callbacks, jobs and panic handlers are harness code; a panic in a user call is observed by recover in the calling goroutine, a panic in a library goroutine "
        "by the death of the driver process (confirmed by a second run)",
        "'deadlock' is a bounded wait: a call that has not returned 1.5-3 s after the close completed and every parked goroutine was released",
        "preemption is at hook grain (the verif-tagged points); windows between two statements without a hook are reached only by the free-running stress",
    ]
    return ctx.finish(RULE, exhaustive=False, trusted=["TLC 1.8.0", "drv c15 (hook gates, recover, crash observation)"])


MANIFEST = {
    "text": "The four concurrent models carry a closer thread; TLC checks 'no panic, handler only for job panics, nothing runs that was submitted after the close returned, "
            "no stuck state' for the repaired variants and exhibits the close-window counterexample of each pinned variant. On the real objects the counterexample "
            "schedules are forced with hook gates, then every hook point of every operation is crossed with Close both ways round (one-preemption closure), then seeded "
            "stress; each schedule yields one observation line judged by TLC (Trace_ShutdownAbs).",
    "note": "Trusted: TLC, hook gates, recover/crash observation. Deadlock is a bounded wait. One known finding: > 5 requests queued at a coroutine that completes.",
    "technique": "TLA+ hook-grain models with closer thread checked by TLC (pinned/repaired variants) + hook-gated schedule replay and stress on the real objects judged by TLC",
}
