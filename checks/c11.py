"""C11 — MonadIO is lazy, runs its effect once per evaluation, obeys the monad laws.

spec/MonadIO.tla           denotation Run(p) = (value, ordered callback log); EvalOK per evaluation incl. which goroutine runs what; laws
spec/mc/MC_MonadIO.tla     TLC checks the three laws on the denotation over all bounded programs and writes program x evaluation-script cases
spec/trace/Trace_MonadIO.tla TLC judges what building and evaluating the real MonadIO did
"""
import json
import os

from vlib import core

LEVEL = "model_checking"
RULE = ("cases = all programs Just(x)|New(e) followed by <=2 (quick) / <=3 (thorough) FlatMap continuations from a family of program-valued functions "
        "(Just, New with its own effect, a nested FlatMap) x 30 evaluation scripts (no evaluation; Eval once/twice; Subscribe with and without OnNext under all "
        "9 observe/subscribe handler combinations; Subscribe-Eval-Subscribe). non-trivial = program with a continuation and a script with an evaluation; distinct = distinct cases")


def sig(e):
    p = e["prog"]
    shape = p["bt"] + "".join("." + f["k"] for f in p["fs"])
    bad = "build" if e.get("afterBuild") else ""
    evs = []
    for x in e.get("evals", []):
        ev = x["ev"]
        evs.append("%s(%s,%s,%s)" % (ev["kind"], "onNext" if ev["onNext"] else "noOnNext", ev["obOn"], ev["subOn"]))
    return "%s script=%s kind=%s %s" % (shape, "+".join(evs), e["kind"], bad)


def judge(ctx, tla, tf, label):
    r = ctx.tlc("Trace_MonadIO", workers=1, timeout=900, cwd=tla, env_extra={"VERIF_TRACE": tf}, heap="6g")
    cons = r.printed("CONSUMED")
    if not cons:
        core.log(r.text[-3000:])
        raise core.Inconclusive("Trace_MonadIO did not finish")
    a, b = [int(x) for x in cons[-1].split(",")]
    mism = [int(x) for x in r.printed("MISMATCH")]
    if a != b and len(mism) < 200:
        raise core.Inconclusive("validator consumed %d of %d lines" % (a, b))
    ctx.cov["evaluations"] += a
    ctx.cov["traces_validated_against_impl"] += a
    lines = core.read_ndjson(tf)
    for ln in mism:
        e = lines[ln - 1]
        ctx.report(sig(e), "%s: program %s: callbacks during construction %s; evaluations %s: not accepted by MonadIO!Judge"
                   % (label, json.dumps(e["prog"]), json.dumps(e.get("afterBuild")), json.dumps(e.get("evals"))[:1500]),
                   {"component": "c11", "case": {"prog": e["prog"], "script": [x["ev"] for x in e.get("evals", [])]}})
    return lines


def run(ctx, replay=None):
    tla = ctx.stage_specs()
    quick = ctx.tier == "quick"
    if replay:
        rp = json.load(open(replay))["replay"]
        cf = os.path.join(ctx.scratch, "case.ndjson")
        core.write_ndjson(cf, [rp["case"]])
        tf = os.path.join(ctx.scratch, "rp.ndjson")
        ctx.drv(["c11", "exec", cf, "--out", tf])
        judge(ctx, tla, tf, "replay")
        core.out(open(tf).read().strip())
        return ctx.finish(RULE)
    gdir = ctx.sub("cases")
    r = ctx.tlc("MC_MonadIO", "MC_MonadIO.cfg" if quick else "MC_MonadIO_big.cfg", workers=1, timeout=1800, cwd=tla, env_extra={"VERIF_EMIT_DIR": gdir}, heap="8g")
    pr = r.printed("CASES")
    if not pr:
        core.log(r.text[-3000:])
        raise core.Inconclusive("MC_MonadIO failed (a law does not hold on the denotation, or generation failed)")
    ncases, nprogs = int(pr[-1].split(",")[-2]), int(pr[-1].split(",")[-1])
    ctx.cov["states"] = nprogs          # programs whose denotation TLC evaluated for the law checks
    ctx.cov["transitions"] = ncases
    tf = os.path.join(ctx.scratch, "c11.trace.ndjson")
    for i in range(1 if quick else 3):
        ctx.drv(["c11", "exec", os.path.join(gdir, "monadio.ndjson"), "--out", tf], timeout=2400)
        lines = judge(ctx, tla, tf, "case")
    # overlapping evaluations of one monad, and reconfiguration while an evaluation is in flight
    cf2 = os.path.join(ctx.scratch, "c11.conc.ndjson")
    pc, crash = ctx.drv_crashable(["c11", "conc", "--out", cf2, "--repeat", 3 if quick else 40], timeout=900)
    if crash:          # e.g. an unbounded recursion in the library (fatal stack overflow) under the nested / overlapping evaluations
        ctx.report("process crash in overlapping / nested evaluations: %s in %s" % (crash["panic"], crash["frame"].split("(")[0]),
                   "the driver died while evaluating one monad from several goroutines / from inside its own effect: %s" % crash["stderr"][-1500:], {"component": "c11-conc", "crash": crash})
        ctx.cov["cases_generated_by_tlc"] = ncases
        ctx.cov["distinct_nontrivial"] = ncases - nprogs * 2
        return ctx.finish(RULE)
    r2 = ctx.tlc("Trace_MonadIOConc", workers=1, timeout=600, cwd=tla, env_extra={"VERIF_TRACE": cf2})
    cons = r2.printed("CONSUMED")
    if not cons:
        core.log(r2.text[-2000:])
        raise core.Inconclusive("Trace_MonadIOConc did not finish")
    a, b = [int(x) for x in cons[-1].split(",")]
    rows = core.read_ndjson(cf2)
    if a != b and len(r2.printed("MISMATCH")) < 60:
        raise core.Inconclusive("Trace_MonadIOConc consumed %d of %d lines" % (a, b))
    ctx.cov["evaluations"] += a
    ctx.cov["traces_validated_against_impl"] += a
    for x in r2.printed("MISMATCH"):
        e = rows[int(x.split(",")[0]) - 1]
        what = "overlapping Subscribes of one monad: the deliveries are not each evaluation's own value exactly once" if e["part"] == "conc" else \
            "two compositions derived from one prefix: one of them does not evaluate to its own composition" if e["part"] == "branch" else \
            "a monad built next to one that was configured with ObserveOn/SubscribeOn did not run its effect and OnNext on the subscribing goroutine before Subscribe returned" if e["part"] == "sibling" else \
            "a composition derived by FlatMap from a source configured with ObserveOn/SubscribeOn did not run its chain and OnNext on the subscribing goroutine before Subscribe returned" if e["part"] == "inherit" else \
            "nested or overlapping evaluations of one monad (a monadic loop, an effect evaluating its own monad, two evaluations waiting for each other) did not complete with their values" if e["part"] == "reentrant" else \
            "the first Posts to a fresh Handler came from several goroutines: the effects observed on it did not all run on one goroutine, one at a time" if e["part"] == "fresh" else \
            "a subscription did not keep the handlers it was made under when the monad was reconfigured during its evaluation"
        ctx.report("%s obOn=%s subOn=%s kind=%s" % (e["part"], e["obOn"], "h2" if e["part"] == "conc" else ("prefix-depth-%d" % e["n"] if e["part"] == "branch" else "ctor-%s-val-%d" % (e["newSub"], e["n"]) if e["part"] == "sibling" else "first-posts-%d maxin=%d" % (e["n"], e["maxin"]) if e["part"] == "fresh" else "continuations-%d" % e["n"] if e["part"] == "inherit" else "-" if e["part"] == "reentrant" else "h2->" + e["newSub"]), e["kind"]),
                   "%s: effects %s, deliveries %s" % (what, json.dumps(e["effects"]), json.dumps(e["delivered"])), {"component": "c11-conc", "run": e})
    ctx.cov["cases_generated_by_tlc"] = ncases
    ctx.cov["distinct_nontrivial"] = ncases - nprogs * 2
    ctx.sample(lines[len(lines) // 2])
    ctx.assumptions += [
        "effects and continuations are harness closures that log themselves with the goroutine they run on (handler goroutine ids are learnt by posting a probe)",
        "after a Subscribe the driver waits for OnNext and then posts a probe to every handler; everything posted earlier has run when the probes return",
        "ObserveOn(h).SubscribeOn(h) with the same handler is run on a buffered handler (an unbuffered handler cannot post to itself; the statement names two handlers)",
        "the three monad laws are checked by TLC on the denotation over all bounded programs; the code is bound to the denotation by EvalOK on every case",
    ]
    return ctx.finish(RULE, exhaustive=True, trusted=["TLC 1.8.0", "drv c11 (logging closures, goroutine identification)"])


MANIFEST = {
    "text": "The denotation Run(p) (value + ordered callback log) is a TLA+ operator; TLC checks left/right identity and associativity on it over all bounded programs "
            "and writes every program x evaluation script; the driver builds the real MonadIO (asserting nothing ran), evaluates/subscribes per script with every "
            "handler combination and TLC judges each evaluation's callback log, goroutines, OnNext deliveries and returned value against Run(p).",
    "note": "Trusted: TLC, the driver's logging closures and goroutine identification. Bounds: base + <=2/3 continuations, 2-3 effects, 30 scripts.",
    "technique": "TLA+ denotational spec with laws checked by TLC; TLC-generated programs executed on the code; TLC validation of callback logs and threads",
}
