"""C08 — ConcurrentQueue / ConcurrentStack are linearizable over any wrapped queue/stack.

spec/ConcWrap.tla             RWMutex + non-atomic wrapped structure; Mode[m] (which lock side each method takes) is EXTRACTED from the real code
spec/trace/Trace_LinQueue.tla linearizability of recorded inv/res histories against an ideal FIFO / LIFO (TLC searches linearisation points)
"""
import json
import os

from vlib import core

LEVEL = "model_checking"
RULE = ("mode extraction: for each ordered pair of methods the first call is parked inside an instrumented wrapped queue and the second is observed to enter or not; "
        "model: 3 threads with 2-3 calls each (producers and two removers), every interleaving, with the extracted lock modes; real runs: all 20 method pairs overlapped "
        "on a deliberately non-atomic wrapped queue (gated), and seeded producer/consumer rounds (1-3 x 1-3 goroutines) on ConcurrentQueue/ConcurrentStack over "
        "LinkedListQueue with every call under recover, each followed by a drain. non-trivial = round with >= 2 goroutines; distinct = distinct recorded rounds")



def wide(ctx, tla, quick):
    """Wide rounds (too wide for the linearisation search) judged by necessary conditions of the statement."""
    wf = os.path.join(ctx.scratch, "c08.wide.ndjson")
    p, crash = ctx.drv_crashable(["c08", "wide", "--rounds", 6 if quick else 200, "--fresh", 1500 if quick else 30000, "--out", wf], timeout=3000)
    if crash:
        ctx.report("wide rounds: process crash: %s in %s" % (crash["panic"], crash["frame"].split("(")[0]), "the driver died: %s" % crash["stderr"][-1500:], {"component": "c08-wide", "crash": crash})
        return
    r = ctx.tlc("Trace_ConcWide", workers=1, timeout=1500, cwd=tla, env_extra={"VERIF_TRACE": wf}, heap="8g")
    cons = r.printed("CONSUMED")
    if not cons:
        core.log(r.text[-2000:])
        raise core.Inconclusive("Trace_ConcWide did not finish")
    a, b = [int(x) for x in cons[-1].split(",")]
    mism = [(int(x.split(",")[0]), x.split(",", 1)[1].strip().strip('"')) for x in r.printed("MISMATCH")]
    if a != b and len(mism) < 60:
        raise core.Inconclusive("Trace_ConcWide consumed %d of %d lines" % (a, b))
    rows = core.read_ndjson(wf)
    ctx.cov["evaluations"] += sum(len(e["offered"]) for e in rows)
    ctx.cov["traces_validated_against_impl"] += a
    ctx.cov["distinct_nontrivial"] += a
    for ln, why in mism:
        e = rows[ln - 1]
        ctx.report("wide %s %s: %s" % (e["kind"], e["shape"], why), "wide round (%s, %s, %d values offered, %d delivered, %d drained, %d panics): %s" % (
            e["kind"], e["shape"], len(e["offered"]), sum(len(v) for v in e["got"].values()), len(e["drain"]), e["panics"], why),
            {"component": "c08-wide", "round": {k: (v if k not in ("offered", "drain", "got") else "...") for k, v in e.items()}})

def run(ctx, replay=None):
    tla = ctx.stage_specs()
    quick = ctx.tier == "quick"
    p = ctx.drv(["c08", "modes"], timeout=300)
    modes = json.loads(p.stdout.strip().splitlines()[-1])
    mode = modes["mode"]
    ctx.notes.append("extracted lock modes: %s; overlapping pairs: %s" % (json.dumps(mode), sorted(modes["overlapping_pairs"])))
    # the model with the discipline the code actually has
    with open(os.path.join(tla, "MC_ConcWrapX.tla"), "w") as fh:
        fh.write("---- MODULE MC_ConcWrapX ----\nEXTENDS MC_ConcWrap\nModeExtracted == [m \\in {\"Offer\", \"Put\", \"Push\", \"Poll\", \"Take\", \"Pop\"} |-> CASE "
                 + " [] ".join('m = "%s" -> "%s"' % (m, mode[m]) for m in sorted(mode)) + "]\n====\n")
    model_ok = True
    for name, script, stack in (("q", "ScriptQ", "FALSE"), ("s", "ScriptS", "TRUE"), ("p", "ScriptP", "FALSE")):
        with open(os.path.join(tla, "MC_ConcWrapX_%s.cfg" % name), "w") as fh:
            fh.write("SPECIFICATION Spec\nCONSTANTS\n  Thread = {1, 2, 3}\n  Script <- %s\n  Mode <- ModeExtracted\n  IsStack = %s\n"
                     "INVARIANTS Inv_Exclusion Inv_NoDuplicate Inv_NoLoss\nCHECK_DEADLOCK FALSE\n" % (script, stack))
        r = ctx.tlc("MC_ConcWrapX", "MC_ConcWrapX_%s.cfg" % name, workers=4, timeout=300, cwd=tla)
        ctx.add_states(r)
        if not r.completed:
            model_ok = False
            ctx.notes.append("ConcWrap.tla with the extracted modes violates %s on script %s (the gated replays below decide on the real code)" % (r.inv_violated, script))
    r0 = ctx.tlc("MC_ConcWrap", "MC_ConcWrap_rems_q.cfg", workers=4, timeout=300, cwd=tla)
    if not r0.inv_violated:
        raise core.Inconclusive("ConcWrap shared-remover variant: expected a counterexample (vacuity guard)")
    tf = os.path.join(ctx.scratch, "c08.trace.ndjson")
    pr, crash = ctx.drv_crashable(["c08", "record", "--rounds", 120 if quick else 4000, "--out", tf], timeout=3000)
    if crash:
        ctx.report("process crash: %s in %s" % (crash["panic"], crash["frame"].split("(")[0]), "the driver died: %s" % crash["stderr"][-1500:], {"component": "c08", "crash": crash})
        ctx.cov["evaluations"], ctx.cov["distinct_nontrivial"] = 1, 2
        return ctx.finish(RULE)
    pending = [tf]
    good = 0
    bad = 0
    while pending and bad < 10:
        f = pending.pop()
        r = ctx.tlc("Trace_LinQueue", workers=1, timeout=600, cwd=tla, dfs=True, env_extra={"VERIF_TRACE": f}, heap="8g")
        h = r.printed("HWM")
        if not h:
            core.log(r.text[-3000:])
            raise core.Inconclusive("Trace_LinQueue did not finish")
        hwm, length = [int(x) for x in h[-1].split(",")]
        lines = core.read_ndjson(f)
        ctx.cov["evaluations"] += hwm
        if hwm == length:
            good += sum(1 for x in lines if x["ev"] == "reset")
            break
        s = hwm
        while s > 0 and lines[s]["ev"] != "reset":
            s -= 1
        e = s + 1
        while e < len(lines) and lines[e]["ev"] != "reset":
            e += 1
        rnd = lines[s:e]
        off = lines[min(hwm, len(lines) - 1)]
        ops = sorted({x["op"] for x in rnd if x["ev"] == "inv" and x["thr"] != "d"})
        ctx.report("not linearizable (%s): %s r=%s v=%s [ops %s]" % (rnd[0]["kind"], off.get("op"), off.get("r"), "dup/lost" if off.get("r") == "ok" else "-", "+".join(ops)),
                   "%s round: no linearisation explains the history at line %d: %s" % (rnd[0]["kind"], hwm - s, json.dumps(rnd[:60])), {"component": "c08", "round": rnd[:200]})
        bad += 1
        good += sum(1 for x in lines[:s] if x["ev"] == "reset")
        if lines[e:]:
            nf = f + ".rest"
            core.write_ndjson(nf, lines[e:])
            pending.append(nf)
    ctx.cov["traces_validated_against_impl"] += good
    ctx.cov["distinct_nontrivial"] += good
    ctx.sample(core.read_ndjson(tf)[:12])
    ctx.assumptions += [
        "'not entered within 40 ms' is read as exclusive (a wrong 'exclusive' can only hide a defect, never invent one); 'entered' is a positive event",
        "the gated wrapped queue is sequentially correct but not atomic (read, park, write), as the statement's 'non-thread-safe Queue/Stack'",
        "histories are judged by TLC's search for linearisation points on an ideal unbounded FIFO/LIFO",
    ]
    wide(ctx, tla, quick)
    return ctx.finish(RULE, exhaustive=False, trusted=["TLC 1.8.0", "drv c08 (instrumented wrapped queue, event log)"])


MANIFEST = {
    "text": "ConcWrap.tla models the RWMutex and a non-atomic wrapped structure with a per-method lock mode that the driver extracts from the real code by parking one call "
            "inside an instrumented wrapped queue and observing whether a second call enters; TLC checks exclusion, no duplicate, no loss with that mode map. The real "
            "wrappers are then overlapped pairwise on the non-atomic queue (gated replay of the model's counterexample shape) and stressed over LinkedListQueue; TLC "
            "validates every recorded history for linearizability.",
    "note": "Trusted: TLC, the instrumented wrapped queue, the event log. 1-3 x 1-3 goroutines per round (the linearisation search is exponential in overlapping calls).",
    "technique": "TLA+ model with lock modes extracted from the code, checked by TLC; callback-gated replays; TLC linearizability validation of recorded histories",
}
