"""C09 — WorkerPool: accepted job runs exactly once, <= max concurrent, panics isolated.

spec/WorkerPool.tla                 submitter / spawn loop / workers / closer at hook grain over the abstract bounded job queue; variant NotifyOnExit
spec/trace/Trace_WorkerPoolAbs.tla  TLC judges recorded runs of the real pool (schedule results, job start/end/panic, handler calls, quiescence)
"""
import json
import os

from vlib import core

LEVEL = "model_checking"
RULE = ("model: 2-4 jobs (one panicking), max 1-2 workers, standby 0-1, batch 0-1, with and without idle expiry, all interleavings incl. the jam rule's timer as a free "
        "choice; safety + 'every accepted job eventually runs exactly once' under fairness, in the variant the code is in; real runs: three scripted schedules (the only "
        "worker dies from a held panicking job after the spawn loop used its tokens; a burst of max panicking jobs then a trickle; full queue + dying worker + rejected "
        "submissions) and seeded stress (1-3 submitters, bursts/trickles, Schedule/ScheduleWithTimeout, ok/slow/panicking jobs, max 1-4, standby/batch/queue sizes "
        "varied), each followed by a bounded wait for quiescence with the pool left open. non-trivial = run with a panicking job or >= 2 submitters; distinct = recorded runs")


def run(ctx, replay=None):
    tla = ctx.stage_specs()
    quick = ctx.tier == "quick"
    for cfg in ("panic_notify", "expiry_notify", "two_notify", "batch_notify"):
        r = ctx.tlc("MC_WorkerPool", "MC_WorkerPool_%s.cfg" % cfg, workers=8, timeout=900, cwd=tla)
        if not r.completed:
            core.log(r.text[-3000:])
            raise core.Inconclusive("WorkerPool model (NotifyOnExit) %s does not hold" % cfg)
        ctx.add_states(r)
    r2 = ctx.tlc("MC_WorkerPool", "MC_WorkerPool_panic_pinned.cfg", workers=4, timeout=300, cwd=tla)
    r3 = ctx.tlc("MC_WorkerPool", "MC_WorkerPool_expiry_racy.cfg", workers=4, timeout=300, cwd=tla)
    r4 = ctx.tlc("MC_WorkerPool", "MC_WorkerPool_panic_notifyfirst.cfg", workers=4, timeout=300, cwd=tla)
    r5 = ctx.tlc("MC_WorkerPool", "MC_WorkerPool_expiry_leaverpolls.cfg", workers=4, timeout=300, cwd=tla)
    r6 = ctx.tlc("MC_WorkerPool", "MC_WorkerPool_expiry_bound.cfg", workers=8, timeout=600, cwd=tla)
    if not r6.completed:
        raise core.Inconclusive("WorkerPool model: the concurrency bound does not hold with idle expiry (expiry_bound)")
    ctx.add_states(r6)
    if not r4.prop_violated or "Inv_MaxConcurrent" not in (r5.inv_violated or []):
        raise core.Inconclusive("WorkerPool variants NotifyFirst / LeaverPolls: expected counterexamples (vacuity guard)")
    if not r2.prop_violated or not r3.prop_violated:
        raise core.Inconclusive("WorkerPool variants: expected stranding counterexamples without panic notification / with the racy expiry check (vacuity guard)")
    ctx.notes.append("WorkerPool.tla: the code's variant (spawn loop woken when a worker dies from a panic; expiry check and decrement in one critical section) satisfies "
                     "safety and liveness; TLC's counterexamples of the two pinned-tree variants (panic stranding, double expiry) are replayed on the real pool by the "
                     "scripted scenarios 'panic-strand' and 'double-expiry'")
    tf = os.path.join(ctx.scratch, "c09.trace.ndjson")
    p, crash = ctx.drv_crashable(["c09", "record", "--rounds", 40 if quick else 1500, "--out", tf], timeout=3000)
    if crash:
        ctx.report("process crash: %s in %s" % (crash["panic"], crash["frame"].split("(")[0]), "the driver died: %s" % crash["stderr"][-1500:], {"component": "c09", "crash": crash})
        ctx.cov["evaluations"], ctx.cov["distinct_nontrivial"] = 1, 2
        return ctx.finish(RULE)
    r = ctx.tlc("Trace_WorkerPoolAbs", workers=1, timeout=1500, cwd=tla, env_extra={"VERIF_TRACE": tf}, heap="8g")
    cons = r.printed("CONSUMED")
    if not cons:
        core.log(r.text[-3000:])
        raise core.Inconclusive("Trace_WorkerPoolAbs did not finish")
    a, b = [int(x) for x in cons[-1].split(",")]
    mism = [(int(x.split(",")[0]), x.split(",", 1)[1].strip().strip('"')) for x in r.printed("MISMATCH")]
    if a != b and len(mism) < 60:
        raise core.Inconclusive("validator consumed %d of %d lines" % (a, b))
    lines = core.read_ndjson(tf)
    stranded = [ln for ln, why in mism if why.startswith("an accepted job never ran")]
    if stranded:
        # "never ran" is a bounded wait: confirm with a longer wait in a fresh recording of the same scenarios
        tf2 = os.path.join(ctx.scratch, "c09.confirm.ndjson")
        ctx.drv(["c09", "record", "--rounds", 40 if quick else 200, "--waitms", 5000, "--out", tf2], timeout=3000)
        r2 = ctx.tlc("Trace_WorkerPoolAbs", workers=1, timeout=1500, cwd=tla, env_extra={"VERIF_TRACE": tf2}, heap="8g")
        names = {lines[ln - 1]["scenario"] for ln in stranded}
        l2 = core.read_ndjson(tf2)
        again = {l2[int(x.split(",")[0]) - 1]["scenario"] for x in r2.printed("MISMATCH") if "never ran" in x}
        if not (names & again):
            raise core.Inconclusive("stranded jobs did not reproduce with a 5 s wait")
        mism = [(ln, why) for ln, why in mism if not why.startswith("an accepted job never ran") or lines[ln - 1]["scenario"] in again]
    ctx.cov["evaluations"] += a
    ctx.cov["traces_validated_against_impl"] += a
    ctx.cov["distinct_nontrivial"] += a - 1
    for ln, why in mism:
        e = lines[ln - 1]
        panics = sum(1 for x in e["events"] if x["ev"] == "panic")
        ctx.report("%s [%s, max=%s, %s]" % (why, e["scenario"], "1" if e["max"] == 1 else ">1", "with panicking job" if panics else "no panic"),
                   "recorded run (%s, max %d): %s: %s" % (e["scenario"], e["max"], json.dumps(e["events"])[:1500], why), {"component": "c09", "run": e})
    ctx.sample(lines[0])
    ctx.assumptions += [
        "jobs and the panic handler are harness code; a job 'runs' when it logs start; job ids are unique",
        "'never ran although the pool was left open' is a bounded wait (1.5 s, confirmed with 5 s in a second recording); timers: spawn interval 200 us, idle expiry and jam 1 h",
        "the job queue is a real BufferedChannelQueue (C07)",
    ]
    return ctx.finish(RULE, exhaustive=False, trusted=["TLC 1.8.0", "drv c09 (harness jobs, event log)"])


MANIFEST = {
    "text": "WorkerPool.tla models Schedule, the spawn loop's arithmetic, the worker loop with its expiry branch and the deferred exit path; TLC checks at-most-once, "
            "rejected-never-run, the concurrency bound, handler accounting and the liveness 'every accepted job runs' for the variant the code is in, and exhibits the "
            "stranding counterexample of the other. The real pool is driven through scripted schedules that realise those counterexamples (jobs are harness code and can "
            "be held) and through seeded stress; TLC validates each recorded run against the abstract pool.",
    "note": "Trusted: TLC, harness jobs, the event log. Liveness on the real code is a bounded wait with a second, longer confirmation.",
    "technique": "TLA+ hook-grain model checked by TLC (safety+liveness, variant) + scripted/gated and stress runs validated by TLC",
}
