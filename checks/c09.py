"""C09 — WorkerPool: accepted job runs exactly once, <= max concurrent, panics isolated.

spec/WorkerPool.tla                 submitter / spawn loop / workers / closer at hook grain over the abstract bounded job queue; variant NotifyOnExit
spec/trace/Trace_WorkerPoolAbs.tla  TLC judges recorded runs of the real pool (schedule results, job start/end/panic, handler calls, quiescence)
spec/trace/Trace_WorkerPoolHook.tla hook-level traces of the real pool (every wp.* hook point, in-lock counters) validated against WorkerPool.tla's own actions (advisory)
"""
import json
import os

from vlib import core

LEVEL = "model_checking"
RULE = ("model: 2-4 jobs (one panicking), max 1-2 workers, standby 0-1, batch 0-1, with and without idle expiry, all interleavings incl. the jam rule's timer as a free "
        "choice; safety + 'every accepted job eventually runs exactly once' under fairness, in the variant the code is in; real runs: three scripted schedules (the only "
        "worker dies from a held panicking job after the spawn loop used its tokens; a burst of max panicking jobs then a trickle; full queue + dying worker + rejected "
        "submissions) and seeded stress (1-3 submitters, bursts/trickles, Schedule/ScheduleWithTimeout, ok/slow/panicking jobs, max 1-4, standby/batch/queue sizes "
        "varied), each followed by a bounded wait for quiescence with the pool left open. non-trivial = run with a panicking job or >= 2 submitters; distinct = recorded runs")


def hook_binding(ctx, tla, quick):
    """Hook-level traces of the real pool validated against WorkerPool.tla's own actions (advisory: MODEL-DRIFT); corrupted
    copies must be rejected.  Nothing here changes the verdict: a failure to run is noted, not raised."""
    from concurrent.futures import ThreadPoolExecutor
    pre = os.path.join(ctx.scratch, "c09.hook")
    p = ctx.drv(["c09", "hooktrace", "--rounds", 6 if quick else 60, "--out", pre], timeout=1500)
    info = json.loads(p.stdout.strip().splitlines()[-1])

    def val(f, timeout=600):
        r = ctx.tlc("Trace_WorkerPoolHook", workers=1, timeout=timeout, cwd=tla, dfs=True, env_extra={"VERIF_TRACE": f}, heap="6g")
        n = len(core.read_ndjson(f))
        if "NotDone" in (r.inv_violated or []):          # the first behaviour that consumes the whole trace ends the search
            return n, n
        h = r.printed("HWM")
        if not h:
            core.log(r.text[-2000:])
            raise core.Inconclusive("Trace_WorkerPoolHook did not finish on %s" % f)
        a, b = [int(x) for x in h[-1].split(",")]
        return a, b
    with ThreadPoolExecutor(max_workers=4) as ex:
        res = list(ex.map(lambda f: (f,) + val(f), info["files"]))
    events = 0
    for f, a, b in res:
        events += a
        if a != b:
            lines = core.read_ndjson(f)
            strip = lambda e: {k: v for k, v in e.items() if k != "nx"}
            ctx.drift.append("WorkerPool.tla does not explain the hook-level trace %s at line %d: %s (previous: %s)" % (
                os.path.basename(f), a + 1, json.dumps(strip(lines[a]))[:200], json.dumps(strip(lines[max(0, a - 1)]))[:160]))
    good = [f for f, a, b in res if a == b]
    rejected, muts = 0, []
    if good:
        L = core.read_ndjson(good[1 if len(good) > 1 else 0])
        L = L[:next((i for i, e in enumerate(L) if i > 0 and e["ev"] == "reset"), len(L))]     # the first round is enough (a rejection explores everything)
        for pick, change in ((lambda e: e.get("pt") == "wp.gen.counted", lambda e: e.update(wc=e["wc"] + 1)),          # wrong in-lock counter
                             (lambda e: e["ev"] == "start", lambda e: e.update(j=e["j"] % L[0]["njobs"] + 1)),             # a job ran that this worker did not take
                             (lambda e: e["ev"] == "res" and e["r"] == "ok", lambda e: e.update(r="closed"))):           # wrong Schedule result
            M = [dict(e) for e in L]
            ks = [i for i, e in enumerate(M) if pick(e)]
            if ks:
                change(M[ks[len(ks) // 2]])
                muts.append(M)
        ks = [i for i, e in enumerate(L) if e.get("pt") == "wp.worker.exit.post"]
        if ks:                                                                                                             # a worker leaves without uncounting itself
            k = ks[0]
            M = [dict(e) for i, e in enumerate(L) if i != k]
            for i, e in enumerate(M):                                                                                      # keep the per-thread next-line indices consistent
                e["nx"] = {t: (v - 1 if v > k + 1 else (0 if v == k + 1 else v)) for t, v in e["nx"].items()}
            muts.append(M)
        for n, M in enumerate(muts):
            mf = "%s.mut%d.ndjson" % (pre, n)
            core.write_ndjson(mf, M)
            a, b = val(mf, timeout=900)
            rejected += a != b
        if rejected != len(muts):
            raise core.Inconclusive("hook-level binding accepted %d of %d corrupted traces (vacuous)" % (len(muts) - rejected, len(muts)))
    ctx.notes.append("hook-level binding: %d hook / result / job lines of the real pool (%d rounds, 6 configurations: max 1-3, standby 0-2, batch 1-3, with and without idle "
                     "expiry, jam timer, panicking jobs, Close at a random moment) %s by WorkerPool.tla's own actions (Trace_WorkerPoolHook); %d corrupted copies (wrong in-lock "
                     "worker count, job started by a worker that did not take it, wrong Schedule result, missing exit line) rejected"
                     % (events, info["rounds"], "accepted" if not any(a != b for _, a, b in res) else "NOT all accepted", rejected))
    ctx.cov["evaluations"] += events


def run(ctx, replay=None):
    tla = ctx.stage_specs()
    quick = ctx.tier == "quick"
    for cfg in ("panic_notify", "expiry_notify", "two_notify", "batch_notify"):
        r = ctx.tlc("MC_WorkerPool", "MC_WorkerPool_%s.cfg" % cfg, workers=8, timeout=900, cwd=tla)
        if not r.completed:
            core.log(r.text[-3000:])
            raise core.Inconclusive("WorkerPool model (NotifyOnExit) %s does not hold" % cfg)
        ctx.add_states(r)
    r2 = ctx.tlc("MC_WorkerPool", "MC_WorkerPool_panic_pinned.cfg", workers=4, timeout=300, cwd=tla)
    r3 = ctx.tlc("MC_WorkerPool", "MC_WorkerPool_expiry_racy.cfg", workers=4, timeout=300, cwd=tla)
    r4 = ctx.tlc("MC_WorkerPool", "MC_WorkerPool_panic_notifyfirst.cfg", workers=4, timeout=300, cwd=tla)
    r5 = ctx.tlc("MC_WorkerPool", "MC_WorkerPool_expiry_leaverpolls.cfg", workers=4, timeout=300, cwd=tla)
    r6 = ctx.tlc("MC_WorkerPool", "MC_WorkerPool_expiry_bound.cfg", workers=8, timeout=600, cwd=tla)
    if not r6.completed:
        raise core.Inconclusive("WorkerPool model: the concurrency bound does not hold with idle expiry (expiry_bound)")
    ctx.add_states(r6)
    if not r4.prop_violated or "Inv_MaxConcurrent" not in (r5.inv_violated or []):
        raise core.Inconclusive("WorkerPool variants NotifyFirst / LeaverPolls: expected counterexamples (vacuity guard)")
    if not r2.prop_violated or not r3.prop_violated:
        raise core.Inconclusive("WorkerPool variants: expected stranding counterexamples without panic notification / with the racy expiry check (vacuity guard)")
    ctx.notes.append("WorkerPool.tla: the code's variant (spawn loop woken when a worker dies from a panic; expiry check and decrement in one critical section) satisfies "
                     "safety and liveness; TLC's counterexamples of the two pinned-tree variants (panic stranding, double expiry) are replayed on the real pool by the "
                     "scripted scenarios 'panic-strand' and 'double-expiry'")
    tf = os.path.join(ctx.scratch, "c09.trace.ndjson")
    p, crash = ctx.drv_crashable(["c09", "record", "--rounds", 40 if quick else 1500, "--out", tf], timeout=3000)
    if crash:
        ctx.report("process crash: %s in %s" % (crash["panic"], crash["frame"].split("(")[0]), "the driver died: %s" % crash["stderr"][-1500:], {"component": "c09", "crash": crash})
        ctx.cov["evaluations"], ctx.cov["distinct_nontrivial"] = 1, 2
        return ctx.finish(RULE)
    r = ctx.tlc("Trace_WorkerPoolAbs", workers=1, timeout=1500, cwd=tla, env_extra={"VERIF_TRACE": tf}, heap="8g")
    cons = r.printed("CONSUMED")
    if not cons:
        core.log(r.text[-3000:])
        raise core.Inconclusive("Trace_WorkerPoolAbs did not finish")
    a, b = [int(x) for x in cons[-1].split(",")]
    mism = [(int(x.split(",")[0]), x.split(",", 1)[1].strip().strip('"')) for x in r.printed("MISMATCH")]
    if a != b and len(mism) < 60:
        raise core.Inconclusive("validator consumed %d of %d lines" % (a, b))
    lines = core.read_ndjson(tf)
    stranded = [ln for ln, why in mism if why.startswith("an accepted job never ran")]
    if stranded:
        # "never ran" is a bounded wait: confirm with a longer wait in a fresh recording of the same scenarios
        tf2 = os.path.join(ctx.scratch, "c09.confirm.ndjson")
        ctx.drv(["c09", "record", "--rounds", 40 if quick else 200, "--waitms", 5000, "--out", tf2], timeout=3000)
        r2 = ctx.tlc("Trace_WorkerPoolAbs", workers=1, timeout=1500, cwd=tla, env_extra={"VERIF_TRACE": tf2}, heap="8g")
        names = {lines[ln - 1]["scenario"] for ln in stranded}
        l2 = core.read_ndjson(tf2)
        again = {l2[int(x.split(",")[0]) - 1]["scenario"] for x in r2.printed("MISMATCH") if "never ran" in x}
        if not (names & again):
            raise core.Inconclusive("stranded jobs did not reproduce with a 5 s wait")
        mism = [(ln, why) for ln, why in mism if not why.startswith("an accepted job never ran") or lines[ln - 1]["scenario"] in again]
    ctx.cov["evaluations"] += a
    ctx.cov["traces_validated_against_impl"] += a
    ctx.cov["distinct_nontrivial"] += a - 1
    for ln, why in mism:
        e = lines[ln - 1]
        panics = sum(1 for x in e["events"] if x["ev"] == "panic")
        ctx.report("%s [%s, max=%s, %s]" % (why, e["scenario"], "1" if e["max"] == 1 else ">1", "with panicking job" if panics else "no panic"),
                   "recorded run (%s, max %d): %s: %s" % (e["scenario"], e["max"], json.dumps(e["events"])[:1500], why), {"component": "c09", "run": e})
    ctx.sample(lines[0])
    try:
        hook_binding(ctx, tla, quick)
    except core.Inconclusive as ex:
        if not ctx.violations:
            raise
        ctx.notes.append("hook-level binding not completed on this tree (%s)" % ex)
    ctx.assumptions += [
        "jobs and the panic handler are harness code; a job 'runs' when it logs start; job ids are unique",
        "'never ran although the pool was left open' is a bounded wait (1.5 s, confirmed with 5 s in a second recording); timers: spawn interval 200 us, idle expiry and jam 1 h",
        "the job queue is a real BufferedChannelQueue (C07)",
    ]
    return ctx.finish(RULE, exhaustive=False, trusted=["TLC 1.8.0", "drv c09 (harness jobs, event log)"])


MANIFEST = {
    "text": "WorkerPool.tla models Schedule, the spawn loop's arithmetic, the worker loop with its expiry branch and the deferred exit path; TLC checks at-most-once, "
            "rejected-never-run, the concurrency bound, handler accounting and the liveness 'every accepted job runs' for the variant the code is in, and exhibits the "
            "stranding counterexample of the other. The real pool is driven through scripted schedules that realise those counterexamples (jobs are harness code and can "
            "be held) and through seeded stress; TLC validates each recorded run against the abstract pool.",
    "note": "Trusted: TLC, harness jobs, the event log. Liveness on the real code is a bounded wait with a second, longer confirmation.",
    "technique": "TLA+ hook-grain model checked by TLC (safety+liveness, variant) + scripted/gated and stress runs validated by TLC",
}
