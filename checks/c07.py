"""C07 — Channel/Buffered queues: bounded, FIFO, exactly-once delivery, nothing stranded.

spec/BQueue.tla                  BufferedChannelQueue at hook grain (Offer, loader with the item it holds, consumers, wake channel, lock)
spec/trace/Trace_BQueueAbs.tla   the abstract two-part FIFO of the statement; TLC searches linearisation points for recorded inv/res histories
spec/gen/Gen_BQueueSched.tla     TLC writes one schedule per edge of BQueue.tla's state graph; drv c07 direct replays each on the real goroutines in lockstep
spec/trace/Trace_BQueueDirect.tla judges the outcome of every directed run (bound, exactly once, nothing stranded, producer order)
spec/trace/Trace_BQueueHook.tla  binds BQueue.tla itself to the code: hook-level traces of the real queue must be behaviours of the model (advisory: MODEL-DRIFT)
"""
import json
import os
from concurrent.futures import ThreadPoolExecutor

from vlib import core

LEVEL = "model_checking"
RULE = ("model: (C,B) in {(1,1),(1,0),(2,1),(1,2),(0,1)} with 2 producers x 2 offers and 2 consumers x 2 take/poll calls, every interleaving of Offer, "
        "loader passes and consumers at hook grain (safety); C=1,B=2 with looping consumers (liveness: every accepted item is delivered); real runs: rounds of "
        "1-3 producers and 1-3 consumers on 7 (C,B) configurations and 3 loader intervals, mixing Offer/Put and Poll/TakeWithTimeout/<-GetChannel(), with the "
        "library's hook points yielding/sleeping (seeded) to widen windows, followed by a drain that must retrieve everything; plus plain ChannelQueue rounds; "
        "directed runs: every edge of the model's state graph (1-2 producers, 1-2 consumers, C=B=1) as a schedule replayed in lockstep on the real goroutines. "
        "non-trivial = round with >= 2 goroutines; distinct = distinct recorded rounds (seeded)")


def validate(ctx, tla, f):
    """Returns (accepted, hwm, length, text)."""
    r = ctx.tlc("Trace_BQueueAbs", workers=1, timeout=400, cwd=tla, dfs=True, env_extra={"VERIF_TRACE": f}, heap="10g")
    h = r.printed("HWM")
    if not h:
        core.log(r.text[-3000:])
        raise core.Inconclusive("Trace_BQueueAbs did not finish on %s" % f)
    a, b = [int(x) for x in h[-1].split(",")]
    return a == b, a, b, r


def hook_binding(ctx, tla, quick):
    """Hook-level traces of the real queue validated against BQueue.tla's own actions; corrupted copies must be rejected."""
    pre = os.path.join(ctx.scratch, "c07.hook")
    p = ctx.drv(["c07", "hooktrace", "--rounds", 12 if quick else 150, "--out", pre], timeout=1500)
    info = json.loads(p.stdout.strip().splitlines()[-1])

    def val(f):
        r = ctx.tlc("Trace_BQueueHook", workers=1, timeout=600, cwd=tla, dfs=True, env_extra={"VERIF_TRACE": f}, heap="6g")
        h = r.printed("HWM")
        if not h:
            core.log(r.text[-2000:])
            raise core.Inconclusive("Trace_BQueueHook did not finish on %s" % f)
        a, b = [int(x) for x in h[-1].split(",")]
        return a, b
    with ThreadPoolExecutor(max_workers=4) as ex:
        res = list(ex.map(lambda f: (f,) + val(f), info["files"]))
    events = 0
    for f, a, b in res:
        events += a
        if a != b:
            lines = core.read_ndjson(f)
            ctx.drift.append("BQueue.tla does not explain the hook-level trace %s at line %d: %s (previous: %s)" % (
                os.path.basename(f), a + 1, json.dumps(lines[a])[:200], json.dumps(lines[max(0, a - 1)])[:160]))
    # the binding must be able to reject: four corruptions of an accepted trace
    good = [f for f, a, b in res if a == b]
    rejected = 0
    if good:
        L = core.read_ndjson(good[0])
        muts = []
        if any(e.get("pt") == "bq.loader.polled" for e in L):
            muts.append([e for e in L if e.get("pt") != "bq.loader.polled"])
        for pick, change in ((lambda e: e.get("pt") == "bq.offer.done" and e["pool"] >= 1, lambda e: e.update(pool=e["pool"] - 1)),
                             (lambda e: e["ev"] == "res" and e["thr"].startswith("c") and e["r"] == "ok", lambda e: e.update(v=e["v"] + 1))):
            M = [dict(e) for e in L]
            ks = [i for i, e in enumerate(M) if pick(e)]
            if ks:
                change(M[ks[len(ks) // 2]])
                muts.append(M)
        M = [dict(e) for e in L]
        for i, e in enumerate(M):
            if e.get("pt") == "bq.offer.locked":
                j = next((j for j in range(i + 1, len(M)) if M[j].get("pt") == "bq.offer.done" and M[j]["thr"] == e["thr"]), None)
                k = next((k for k in range(j + 1, len(M)) if M[k].get("pt") == "bq.offer.locked" and M[k]["thr"] != e["thr"]), None) if j else None
                if k and k - j < 8 and not any(x["ev"] == "reset" for x in M[j:k]):
                    M.insert(j, M.pop(k))        # a second lock holder before the first released
                    muts.append(M)
                    break
        for n, M in enumerate(muts):
            mf = "%s.mut%d.ndjson" % (pre, n)
            core.write_ndjson(mf, M)
            a, b = val(mf)
            rejected += a != b
        if rejected != len(muts):
            raise core.Inconclusive("hook-level binding accepted %d of %d corrupted traces (vacuous)" % (len(muts) - rejected, len(muts)))
    ctx.notes.append("hook-level binding: %d hook/inv/res events of the real queue (%d rounds, 7 (C,B) configurations) %s by BQueue.tla's own actions "
                     "(Trace_BQueueHook); %d corrupted copies (missing hook, wrong logged pool count, wrong delivered value, second lock holder) rejected"
                     % (events, info["rounds"], "accepted" if not ctx.drift else "NOT all accepted", rejected))
    ctx.cov["evaluations"] += events


SCHED = {"p1c1": ["--producers", 1, "--noffer", 2, "--consumers", 1], "p2c1": ["--producers", 2, "--noffer", 1, "--consumers", 1],
         "p1c2": ["--producers", 1, "--noffer", 2, "--consumers", 2]}


def directed(ctx, tla, quick):
    """Direction A: the transition cover of BQueue.tla (one schedule per state-graph edge) replayed in lockstep on the real queue."""
    total = 0
    for name in (["p1c1", "p2c1"] if quick else ["p1c1", "p2c1", "p1c2"]):
        sf = os.path.join(ctx.scratch, "c07.sched.%s.ndjson" % name)
        r = ctx.tlc("Gen_BQueueSched", "Gen_BQueueSched_%s.cfg" % name, workers=1, timeout=900, cwd=tla, env_extra={"VERIF_EMIT": sf})
        if not r.completed or not os.path.exists(sf):
            core.log(r.text[-2000:])
            raise core.Inconclusive("Gen_BQueueSched %s did not finish" % name)
        ctx.add_states(r)
        of = os.path.join(ctx.scratch, "c07.direct.%s.ndjson" % name)
        p, crash = ctx.drv_crashable(["c07", "direct", "--in", sf, "--out", of, "--c", 1, "--b", 1] + SCHED[name], timeout=1500)
        if crash:
            ctx.report("directed schedule: process crash: %s in %s" % (crash["panic"], crash["frame"].split("(")[0]), "the driver died while replaying %s schedules: %s" % (name, crash["stderr"][-1500:]),
                       {"component": "c07-direct", "cfg": name, "crash": crash})
            continue
        rows = core.read_ndjson(of)
        if not rows:
            raise core.Inconclusive("no directed run recorded for %s" % name)
        j = ctx.tlc("Trace_BQueueDirect", workers=1, timeout=900, cwd=tla, env_extra={"VERIF_TRACE": of}, heap="6g")
        cons = j.printed("CONSUMED")
        if not cons:
            core.log(j.text[-2000:])
            raise core.Inconclusive("Trace_BQueueDirect did not finish")
        a, b = [int(x) for x in cons[-1].split(",")]
        mism = [(int(x.split(",")[0]), x.split(",", 1)[1].strip().strip('"')) for x in j.printed("MISMATCH")]
        if a != b and len(mism) < 60:
            raise core.Inconclusive("Trace_BQueueDirect consumed %d of %d lines" % (a, b))
        total += a
        drifted = [e for e in rows if e["drift"]]
        for e in drifted[:2]:
            ctx.drift.append("directed schedule %s#%d: %s" % (name, e["id"], e["drift"]))
        if len(drifted) > 2:
            ctx.drift.append("directed schedules %s: %d of %d left the model's schedule" % (name, len(drifted), len(rows)))
        sched = None
        for ln, why in mism[:6]:
            e = rows[ln - 1]
            if sched is None:
                sched = [json.loads(json.loads(x)) if x.startswith('"') else json.loads(x) for x in open(sf)]
            steps = [[s["a"], s["t"], s["k"]] for s in sched[e["id"] - 1]["steps"]]
            ctx.report("directed schedule: %s [%s]" % (why, name), "schedule %s#%d (%s) replayed on the real queue: %s; outcome %s" % (
                name, e["id"], " ".join("%s(%s)" % (a_, t) for a_, t, k in steps), why, json.dumps({k: e[k] for k in ("accepted", "delivered", "drain", "left", "maxch", "maxpool", "drift")})),
                {"component": "c07-direct", "cfg": name, "schedule": steps, "outcome": e})
    ctx.cov["evaluations"] += total
    ctx.cov["traces_validated_against_impl"] += total
    ctx.cov["distinct_nontrivial"] += total
    ctx.notes.append("direction A: %d schedules = every edge of BQueue.tla's state graph for the small configurations, replayed in lockstep on the real goroutines "
                     "(producers, consumers and the library's loader parked at every hook point), real channel/overflow contents compared with the model state after every step" % total)


def run(ctx, replay=None):
    tla = ctx.stage_specs()
    quick = ctx.tier == "quick"
    cfgs = ["c1b1", "c1b0", "c0b1", "live", "wait_c1b1", "wait_live"] if quick else ["c1b1", "c1b0", "c2b1", "c1b2", "c0b1", "c2b2", "c1b1_ttake", "live", "wait_c1b1", "wait_c0b1", "wait_live"]
    for cfg in cfgs:
        r = ctx.tlc("MC_BQueue", "MC_BQueue_%s.cfg" % cfg, workers=12, timeout=900, cwd=tla)
        if not r.completed:
            core.log(r.text[-3000:])
            raise core.Inconclusive("BQueue model: %s does not hold" % cfg)
        ctx.add_states(r)
    directed(ctx, tla, quick)
    p, crash = ctx.drv_crashable(["c07", "record", "--rounds", 240 if quick else 6000, "--out", os.path.join(ctx.scratch, "c07.trace")], timeout=3000)
    if crash:
        ctx.report("process crash: %s in %s" % (crash["panic"], crash["frame"].split("(")[0]), "the driver died: %s" % crash["stderr"][-1500:], {"component": "c07", "crash": crash})
        ctx.cov["evaluations"], ctx.cov["distinct_nontrivial"] = 1, 2
        return ctx.finish(RULE)
    info = json.loads(p.stdout.strip().splitlines()[-1])
    pending = list(info["files"])
    rounds_ok = 0
    bad = 0
    while pending and bad < 8:
        with ThreadPoolExecutor(max_workers=4) as ex:
            res = list(ex.map(lambda f: (f,) + validate(ctx, tla, f), pending))
        pending = []
        for f, ok, hwm, length, r in res:
            lines = core.read_ndjson(f)
            ctx.cov["evaluations"] += hwm
            bw = [x for x in lines if x["ev"] == "blockedwait"]
            if bw and not f.endswith(".rest"):
                ctx.observations.append("%d round(s): Take() calls stayed blocked with %s item(s) in the overflow part until further calls were made (the statement promises "
                                        "only that repeated calls retrieve everything; BQueue.tla's wait_oneshot counterexample is the legal schedule of this kind)" % (len(bw), bw[0]["v"]))
            if ok:
                rounds_ok += sum(1 for x in lines if x["ev"] == "reset")
                continue
            # the history is rejected at line hwm+1: find the round, report it, and re-validate the rest of the file without it
            k = hwm
            s = k
            while s > 0 and lines[s]["ev"] != "reset":
                s -= 1
            e = s + 1
            while e < len(lines) and lines[e]["ev"] != "reset":
                e += 1
            rnd = lines[s:e]
            off = lines[min(k, len(lines) - 1)]
            nth = sum(1 for x in rnd if x["ev"] == "inv")
            head = "a Poll / Take / Offer call never returned" if off.get("ev") == "stuck" and off.get("op") in ("poll", "call") else \
                "repeated Take/Poll calls after the producer stopped did not retrieve every accepted item" if off.get("ev") == "stuck" else \
                "history not explainable by the two-part FIFO at %s %s r=%s" % (off.get("ev"), off.get("op"), off.get("r"))
            ctx.report("%s [C=%d B=%d threads=%d]" % (head, rnd[0]["c"], rnd[0]["b"], len({x["thr"] for x in rnd}) - 1),
                       "round (C=%d, B=%d): no linearisation explains the recorded history up to line %d: %s ... offending line %s" % (
                           rnd[0]["c"], rnd[0]["b"], k - s, json.dumps(rnd[max(0, k - s - 6):k - s + 1]), json.dumps(off)), {"component": "c07", "round": rnd[:300]})
            bad += 1
            rounds_ok += sum(1 for x in lines[:s] if x["ev"] == "reset")
            rest = lines[e:]
            if rest:
                nf = f + ".rest"
                core.write_ndjson(nf, rest)
                pending.append(nf)
    ctx.cov["traces_validated_against_impl"] += rounds_ok
    ctx.cov["distinct_nontrivial"] += rounds_ok
    r1 = ctx.tlc("MC_BQueue", "MC_BQueue_wait_oneshot.cfg", workers=4, timeout=300, cwd=tla)
    if not r1.prop_violated:
        raise core.Inconclusive("BQueue.tla (one-shot blocking takers): expected the liveness counterexample that documents the statement's carve-out")
    ctx.notes.append("BQueue.tla with waiting receivers (Go channel hand-off): safety and liveness hold for consumers that keep calling; for consumers that call Take() once TLC "
                     "exhibits a legal schedule in which a call blocks after the loader's last pass and is woken only by the next call (hence 'repeated calls' in the statement)")
    try:
        hook_binding(ctx, tla, quick)
    except core.Inconclusive as ex:
        if not bad:
            raise
        ctx.drift.append("hook-level binding not evaluated on this tree: %s" % ex)   # the verdict above stands
    with open(info["files"][0]) as fh:
        ctx.sample([json.loads(next(fh)) for _ in range(10)])
    ctx.assumptions += [
        "verdict = no linearisation of the recorded public history in the abstract two-part FIFO (head part C, overflow part B, silent head-of-overflow moves); "
        "BQueue.tla (hook grain) is checked exhaustively and bound to the code by hook-level trace validation (advisory MODEL-DRIFT lines when the code no longer takes the model's steps)",
        "values are unique per producer (producer*1000+i); a TakeWithTimeout / timed channel receive may always time out",
        "nothing-stranded is asserted for C >= 1 only (the statement's carve-out), by a drain bounded to 5 s",
        "hook points perturb scheduling only (yield / sleep <= 40 us); they do not change library state",
    ]
    return ctx.finish(RULE, exhaustive=False, trusted=["TLC 1.8.0", "drv c07 (event log under one mutex)"])


MANIFEST = {
    "text": "BQueue.tla models Offer, the loader (including the item it holds between pool.Poll and the channel push), consumers and the wake-up channel at hook grain; "
            "TLC checks bound, conservation, no duplication, producer order and exactly-once liveness over all interleavings for the capacity corners. The real queues are "
            "bound by trace validation: recorded concurrent inv/res histories (hook points perturbing the schedule) must be explainable by the abstract two-part FIFO "
            "of the statement; TLC searches the linearisation points. BQueue.tla itself is bound to the code by hook-level trace validation (Trace_BQueueHook: every hook point, with the "
            "state logged inside the lock, is one of the model's actions; lock-free steps are silent steps of the model).",
    "note": "Trusted: TLC, the event log. Real interleavings are sampled (seeded, hook-perturbed), not enumerated; the model's are exhaustive within 2x2 threads.",
    "technique": "TLA+ hook-grain model checked by TLC (safety+liveness); TLC transition-cover schedules replayed in lockstep on the real goroutines (director); hook-level and abstract trace validation by TLC",
}
