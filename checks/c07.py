"""C07 — Channel/Buffered queues: bounded, FIFO, exactly-once delivery, nothing stranded.

spec/BQueue.tla                  BufferedChannelQueue at hook grain (Offer, loader with the item it holds, consumers, wake channel, lock)
spec/trace/Trace_BQueueAbs.tla   the abstract two-part FIFO of the statement; TLC searches linearisation points for recorded inv/res histories
"""
import json
import os
from concurrent.futures import ThreadPoolExecutor

from vlib import core

LEVEL = "model_checking"
RULE = ("model: (C,B) in {(1,1),(1,0),(2,1),(1,2),(0,1)} with 2 producers x 2 offers and 2 consumers x 2 take/poll calls, every interleaving of Offer, "
        "loader passes and consumers at hook grain (safety); C=1,B=2 with looping consumers (liveness: every accepted item is delivered); real runs: rounds of "
        "1-3 producers and 1-3 consumers on 7 (C,B) configurations and 3 loader intervals, mixing Offer/Put and Poll/TakeWithTimeout/<-GetChannel(), with the "
        "library's hook points yielding/sleeping (seeded) to widen windows, followed by a drain that must retrieve everything; plus plain ChannelQueue rounds. "
        "non-trivial = round with >= 2 goroutines; distinct = distinct recorded rounds (seeded)")


def validate(ctx, tla, f):
    """Returns (accepted, hwm, length, text)."""
    r = ctx.tlc("Trace_BQueueAbs", workers=1, timeout=400, cwd=tla, dfs=True, env_extra={"VERIF_TRACE": f}, heap="10g")
    h = r.printed("HWM")
    if not h:
        core.log(r.text[-3000:])
        raise core.Inconclusive("Trace_BQueueAbs did not finish on %s" % f)
    a, b = [int(x) for x in h[-1].split(",")]
    return a == b, a, b, r


def run(ctx, replay=None):
    tla = ctx.stage_specs()
    quick = ctx.tier == "quick"
    cfgs = ["c1b1", "c1b0", "c0b1", "live"] if quick else ["c1b1", "c1b0", "c2b1", "c1b2", "c0b1", "live"]
    for cfg in cfgs:
        r = ctx.tlc("MC_BQueue", "MC_BQueue_%s.cfg" % cfg, workers=12, timeout=900, cwd=tla)
        if not r.completed:
            core.log(r.text[-3000:])
            raise core.Inconclusive("BQueue model: %s does not hold" % cfg)
        ctx.add_states(r)
    p, crash = ctx.drv_crashable(["c07", "record", "--rounds", 240 if quick else 6000, "--out", os.path.join(ctx.scratch, "c07.trace")], timeout=3000)
    if crash:
        ctx.report("process crash: %s in %s" % (crash["panic"], crash["frame"].split("(")[0]), "the driver died: %s" % crash["stderr"][-1500:], {"component": "c07", "crash": crash})
        ctx.cov["evaluations"], ctx.cov["distinct_nontrivial"] = 1, 2
        return ctx.finish(RULE)
    info = json.loads(p.stdout.strip().splitlines()[-1])
    pending = list(info["files"])
    rounds_ok = 0
    bad = 0
    while pending and bad < 8:
        with ThreadPoolExecutor(max_workers=4) as ex:
            res = list(ex.map(lambda f: (f,) + validate(ctx, tla, f), pending))
        pending = []
        for f, ok, hwm, length, r in res:
            lines = core.read_ndjson(f)
            ctx.cov["evaluations"] += hwm
            if ok:
                rounds_ok += sum(1 for x in lines if x["ev"] == "reset")
                continue
            # the history is rejected at line hwm+1: find the round, report it, and re-validate the rest of the file without it
            k = hwm
            s = k
            while s > 0 and lines[s]["ev"] != "reset":
                s -= 1
            e = s + 1
            while e < len(lines) and lines[e]["ev"] != "reset":
                e += 1
            rnd = lines[s:e]
            off = lines[min(k, len(lines) - 1)]
            nth = sum(1 for x in rnd if x["ev"] == "inv")
            ctx.report("history not explainable by the two-part FIFO at %s %s r=%s [C=%d B=%d threads=%d]" % (off.get("ev"), off.get("op"), off.get("r"), rnd[0]["c"], rnd[0]["b"], len({x["thr"] for x in rnd}) - 1),
                       "round (C=%d, B=%d): no linearisation explains the recorded history up to line %d: %s ... offending line %s" % (
                           rnd[0]["c"], rnd[0]["b"], k - s, json.dumps(rnd[max(0, k - s - 6):k - s + 1]), json.dumps(off)), {"component": "c07", "round": rnd[:300]})
            bad += 1
            rounds_ok += sum(1 for x in lines[:s] if x["ev"] == "reset")
            rest = lines[e:]
            if rest:
                nf = f + ".rest"
                core.write_ndjson(nf, rest)
                pending.append(nf)
    ctx.cov["traces_validated_against_impl"] += rounds_ok
    ctx.cov["distinct_nontrivial"] += rounds_ok
    with open(info["files"][0]) as fh:
        ctx.sample([json.loads(next(fh)) for _ in range(10)])
    ctx.assumptions += [
        "verdict = no linearisation of the recorded public history in the abstract two-part FIFO (head part C, overflow part B, silent head-of-overflow moves); "
        "BQueue.tla (hook grain) is the design-level model, checked exhaustively",
        "values are unique per producer (producer*1000+i); a TakeWithTimeout / timed channel receive may always time out",
        "nothing-stranded is asserted for C >= 1 only (the statement's carve-out), by a drain bounded to 5 s",
        "hook points perturb scheduling only (yield / sleep <= 40 us); they do not change library state",
    ]
    return ctx.finish(RULE, exhaustive=False, trusted=["TLC 1.8.0", "drv c07 (event log under one mutex)"])


MANIFEST = {
    "text": "BQueue.tla models Offer, the loader (including the item it holds between pool.Poll and the channel push), consumers and the wake-up channel at hook grain; "
            "TLC checks bound, conservation, no duplication, producer order and exactly-once liveness over all interleavings for the capacity corners. The real queues are "
            "bound by trace validation: recorded concurrent inv/res histories (hook points perturbing the schedule) must be explainable by the abstract two-part FIFO "
            "of the statement; TLC searches the linearisation points.",
    "note": "Trusted: TLC, the event log. Real interleavings are sampled (seeded, hook-perturbed), not enumerated; the model's are exhaustive within 2x2 threads.",
    "technique": "TLA+ hook-grain model checked by TLC (safety+liveness) + TLC linearisability-style trace validation of recorded histories against the abstract FIFO",
}
