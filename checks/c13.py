"""C13 — Ask/Reply: every asker gets its own answer; timeouts are clean.

spec/Ask.tla                  asker / actor / timer / deferred close as separate steps, with variant constants for how the code may be written
spec/trace/Trace_AskAbs.tla   TLC judges recorded runs: correlation, timeout results, no panic in Reply, actor keeps serving
"""
import json
import os

from vlib import core

LEVEL = "model_checking"
RULE = ("model: 3 askers, every order of Reply / Skip / Timeout / AskerReturn, in the variant the code is in; real runs: 1..64 concurrent askers (AskOnce, "
        "AskOnceWithTimeout, AskChannel on a caller-supplied unbuffered channel with a late reader) x latency classes immediate / prompt / never / late (the late "
        "reply is released only after the asker HAS returned its timeout), followed by a liveness probe. non-trivial = run with a late or never request or >= 2 askers; "
        "distinct = distinct recorded runs (seeded)")


def run(ctx, replay=None):
    tla = ctx.stage_specs()
    quick = ctx.tier == "quick"
    # which variant is the code in?  the pinned one (Reply panics on the closed reply channel) has a TLC counterexample;
    # the real runs below contain exactly that schedule (class "late") and decide.
    r_pinned = ctx.tlc("MC_Ask", "MC_Ask_pinned.cfg", workers=4, timeout=300, cwd=tla)
    r_fixed = ctx.tlc("MC_Ask", "MC_Ask_recovers.cfg", workers=4, timeout=300, cwd=tla)
    if not r_fixed.completed or not r_pinned.inv_violated:
        core.log(r_fixed.text[-2000:])
        raise core.Inconclusive("Ask model: expected 'recovers' to hold and 'pinned' to have a counterexample")
    ctx.add_states(r_fixed)
    ctx.notes.append("Ask.tla: variant ReplyRecovers holds (%d states); pinned variant violates %s" % (r_fixed.distinct, r_pinned.inv_violated))
    tf = os.path.join(ctx.scratch, "c13.trace.ndjson")
    p, crash = ctx.drv_crashable(["c13", "record", "--rounds", 30 if quick else 600, "--out", tf], timeout=3000)
    if crash:
        ctx.report("process crash: %s in %s" % (crash["panic"], crash["frame"].split("(")[0]), "the driver died (a panic outside the asker's and the actor's own calls): %s" % crash["stderr"][-1500:],
                   {"component": "c13", "crash": crash})
        ctx.cov["evaluations"], ctx.cov["distinct_nontrivial"] = 1, 2
        return ctx.finish(RULE)
    info = json.loads(p.stdout.strip().splitlines()[-1])
    r = ctx.tlc("Trace_AskAbs", workers=1, timeout=1500, cwd=tla, env_extra={"VERIF_TRACE": tf}, heap="6g")
    cons = r.printed("CONSUMED")
    if not cons:
        core.log(r.text[-3000:])
        raise core.Inconclusive("Trace_AskAbs did not finish")
    a, b = [int(x) for x in cons[-1].split(",")]
    mism = [(int(x.split(",")[0]), x.split(",", 1)[1].strip().strip('"')) for x in r.printed("MISMATCH")]
    if a != b and len(mism) < 60:
        raise core.Inconclusive("validator consumed %d of %d lines" % (a, b))
    ctx.cov["evaluations"] += a
    ctx.cov["traces_validated_against_impl"] += info["runs"]
    ctx.cov["distinct_nontrivial"] += info["runs"]
    lines = core.read_ndjson(tf)
    for ln, why in mism:
        k = ln - 1
        while k > 0 and lines[k]["ev"] != "reset":
            k -= 1
        asks = [x for x in lines[k:ln] if x["ev"] == "ask"]
        e = lines[ln - 1]
        cls = next((x["class"] + "/" + x["mode"] for x in asks if x.get("req") == e.get("req")), "-")
        ctx.report("%s [%s] askers=%s" % (why, cls, "1" if lines[k]["n"] <= 2 else ">=2"),
                   "recorded run with %d askers: event %s: %s" % (lines[k]["n"] - 1, json.dumps(e), why), {"component": "c13", "run": lines[k:ln][:120]})
    ctx.sample(lines[:8])
    ctx.assumptions += [
        "the actor effect is harness code: 'late' replies wait for the asker's return (positive event), 'never' requests are not answered, 'prompt' ones take 2 ms against a 100 ms timeout",
        "F(msg) = 10*msg+1 with unique messages, so a crossed reply is visible",
        "'answers in time' is only asserted for immediate / 2 ms replies against a 100 ms timeout",
    ]
    return ctx.finish(RULE, exhaustive=False, trusted=["TLC 1.8.0", "drv c13 (event log, harness actor effect)"])


MANIFEST = {
    "text": "Ask.tla separates the asker's send, the actor's Reply/Skip, the timer and the asker's deferred close, with variant constants for the reply-channel "
            "discipline; TLC checks correlation, no panic and 'actor never stuck' for the variant the code is in and shows the counterexample of the other. "
            "Real concurrent askers run against a real actor with a harness effect that produces every latency class deterministically; TLC validates each run.",
    "note": "Trusted: TLC, the driver's event log and harness effect. The variant is decided by the real runs (class 'late' is the model's counterexample schedule).",
    "technique": "TLA+ model with variant constants checked by TLC + TLC trace validation of recorded concurrent asks with controlled reply latency",
}
