"""C16 — PMap is Map run in parallel: same results, each element once, terminates.

spec/PMap.tla                feeder / workers / closer / collector at channel-operation grain; safety + termination; early-closer variant
spec/trace/Trace_PMapAbs.tla TLC judges every recorded PMap call (begin/end of f per element, return, output, parked count)
"""
import json
import os

from vlib import core

LEVEL = "model_checking"
RULE = ("model: n = 3..4, FixedPool in {none/0, 1, 2, 3, >n}, all interleavings, termination under weak fairness; real calls: n = 0..6 x pool in "
        "{none, -1, 0, 1, 2, n-1, n, n+2} x ordered/RandomOrder x {gated: invocations of f are parked and released one at a time in a seeded order, "
        "free: data-dependent durations}; n = 17/40/64; 2^18 elements with FixedPool 4 where every worker is parked in its first invocation. "
        "non-trivial = n >= 2; distinct = distinct (n, pool, mode, gate, release order)")


def run(ctx, replay=None):
    tla = ctx.stage_specs()
    quick = ctx.tier == "quick"
    for cfg in ("n3p0", "n3p1", "n3p2", "n4p2", "n4p3", "n3p5"):
        r = ctx.tlc("MC_PMap", "MC_PMap_%s.cfg" % cfg, workers=8, timeout=600, cwd=tla)
        if not r.completed:
            core.log(r.text[-3000:])
            raise core.Inconclusive("PMap model %s does not hold" % cfg)
        ctx.add_states(r)
    r2 = ctx.tlc("MC_PMap", "MC_PMap_early.cfg", workers=4, timeout=300, cwd=tla)
    if not r2.inv_violated:
        raise core.Inconclusive("PMap early-closer variant: expected a counterexample (vacuity guard)")
    ctx.notes.append("PMap.tla: closer-after-spawn holds; closer-before-spawn violates %s" % r2.inv_violated)
    tf = os.path.join(ctx.scratch, "c16.trace.ndjson")
    p, crash = ctx.drv_crashable(["c16", "record", "--rounds", 2 if quick else 40, "--out", tf], timeout=3000)
    if crash:
        ctx.report("process crash: %s in %s" % (crash["panic"], crash["frame"].split("(")[0]),
                   "the driver process died while running PMap calls: %s\n%s" % (crash["panic"], crash["stderr"][-1200:]), {"component": "c16", "crash": crash})
        ctx.cov["evaluations"] += 1
        ctx.cov["distinct_nontrivial"] = 2
        return ctx.finish(RULE)
    info = json.loads(p.stdout.strip().splitlines()[-1])
    r = ctx.tlc("Trace_PMapAbs", workers=1, timeout=1500, cwd=tla, env_extra={"VERIF_TRACE": tf}, heap="8g")
    cons = r.printed("CONSUMED")
    if not cons:
        core.log(r.text[-3000:])
        raise core.Inconclusive("Trace_PMapAbs did not finish")
    a, b = [int(x) for x in cons[-1].split(",")]
    mism = [(int(x.split(",")[0]), x.split(",", 1)[1].strip().strip('"')) for x in r.printed("MISMATCH")]
    if a != b and len(mism) < 60:
        raise core.Inconclusive("validator consumed %d of %d lines" % (a, b))
    ctx.cov["evaluations"] += a
    ctx.cov["traces_validated_against_impl"] += a
    ctx.cov["distinct_nontrivial"] += a - 40
    lines = core.read_ndjson(tf)
    for ln, why in mism:
        e = lines[ln - 1]
        n, pool = (e.get("fast") or e.get("big") or e["n"]), e["pool"]
        pc = "none" if pool == 0 and not e.get("big") else ("<=0" if pool <= 0 else "<n" if pool < n else ">=n")
        ctx.report("%s [pool %s, %s, %s, n%s]" % (why, pc, "RandomOrder" if e["random"] else "ordered", "gated" if e["gate"] else ("trivial f" if e.get("fast") else "free"), ">1000" if n > 1000 else "<=1000" if n > 64 else "<=64"),
                   "PMap call %s: %s" % (json.dumps({k: e[k] for k in ("n", "pool", "random", "gate", "maxParked", "kind")}), why), {"component": "c16", "call": {k: e[k] for k in ("n", "pool", "random", "gate")}})
    ctx.sample([l for l in lines if l["n"] == 3 and l["gate"]][1])
    ctx.assumptions += [
        "f is harness code (3x+1 on the list 1..n): it logs begin/end under one mutex and, in gated runs, parks until released",
        "in gated runs 'at most min(FixedPool, n) at a time' is a positive observation: one parked invocation more than the bound; fewer is never an alarm",
        "PMap returning while invocations are parked is observed positively (the return happens before their release)",
    ]
    return ctx.finish(RULE, exhaustive=False, trusted=["TLC 1.8.0", "drv c16 (event log, gate)"])


MANIFEST = {
    "text": "PMap.tla models the feeder, the worker pool, the WaitGroup closer and the collecting caller at channel-operation grain; TLC checks at-most-once application, "
            "the concurrency bound, complete results at return and termination for all pool sizes, and shows the counterexample of the early-closer variant. "
            "The real PMap is bound to it through f: gated runs park every invocation and release them in seeded orders, free runs use data-dependent durations; "
            "TLC validates each call's begin/end/return events and output.",
    "note": "Trusted: TLC, the driver's event log and gate. Real schedules are the completion orders the gate forces plus what the scheduler produces.",
    "technique": "TLA+ model checked by TLC (safety+liveness, variant) + callback-gated replays and TLC trace validation of recorded PMap calls",
}
