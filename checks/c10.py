"""C10 — Publisher delivers each value exactly once per live subscription, in order.

spec/Publisher.tla                the subscriber list with Go slice semantics (backing arrays, snapshot sharing the array, in-place vs fresh removal)
spec/trace/Trace_PublisherAbs.tla TLC judges recorded runs with the statement's four delivery rules over the subscription set
spec/gen/Gen_PublisherSched.tla   TLC writes EVERY complete behaviour of Publisher.tla (2 / 3 / 4 subscriptions) as a schedule; drv c10 direct forces each on the real
                                  publisher (publishing goroutine parked at the hook points p.publish.snap / p.publish.deliver; changes by another goroutine or in the callback)
spec/trace/Trace_PublisherDirect.tla  replays what really happened through Publisher.tla's own actions (Deliver must name arrays[snap.arr][idx]; final list = Current)
"""
import json
import os

from vlib import core

LEVEL = "model_checking"
RULE = ("model: 3 and 4 subscriptions, any 2 list changes (Unsubscribe of anyone, Subscribe of a new one) at any point between the deliveries of one Publish, "
        "in the removal variant the code is in; real runs: all 216 assignments of callback behaviours (noop / unsubscribe self / unsubscribe another (2 ways) / "
        "subscribe new / nested Publish) to 3 subscriptions, samples for 4 subscriptions, Map-derived publishers and SubscribeOn(handler); the publishing goroutine "
        "parked inside each callback while another goroutine performs 1-2 list changes (30 placements); seeded stress with 1-4 publishers and 1-4 churners. "
        "non-trivial = run with at least one list change during a Publish; distinct = distinct recorded runs")


def directed(ctx, tla, quick):
    """Direction A at hook grain: every behaviour of Publisher.tla forced on the real publisher, the recorded steps replayed through the model's actions."""
    total = runs = 0
    for n in ((2, 3) if quick else (2, 3, 4)):
        sf = os.path.join(ctx.scratch, "c10.sched.s%d.ndjson" % n)
        r = ctx.tlc("Gen_PublisherSched", "Gen_PublisherSched_s%d.cfg" % n, workers=1, timeout=600, cwd=tla, env_extra={"VERIF_EMIT": sf})
        if not r.completed or not os.path.exists(sf):
            core.log(r.text[-2000:])
            raise core.Inconclusive("Gen_PublisherSched s%d did not finish" % n)
        ctx.add_states(r)
        of = os.path.join(ctx.scratch, "c10.direct.s%d.ndjson" % n)
        p, crash = ctx.drv_crashable(["c10", "direct", "--in", sf, "--out", of, "--nsubs", n], timeout=1500)
        if crash:
            ctx.report("directed behaviour: process crash: %s" % crash["panic"], "the driver died while replaying the behaviours of %d subscriptions: %s" % (n, crash["stderr"][-1500:]),
                       {"component": "c10-direct", "nsubs": n, "crash": crash})
            continue
        info = json.loads(p.stdout.strip().splitlines()[-1])
        rows = core.read_ndjson(of)
        if not rows or info["schedules"] == 0:
            raise core.Inconclusive("no directed run recorded for %d subscriptions" % n)
        j = ctx.tlc("Trace_PublisherDirect", "Trace_PublisherDirect_s%d.cfg" % n, workers=1, timeout=900, cwd=tla, env_extra={"VERIF_TRACE": of}, heap="4g")
        cons = j.printed("CONSUMED")
        if not cons:
            core.log(j.text[-2000:])
            raise core.Inconclusive("Trace_PublisherDirect did not finish")
        a, b = [int(x) for x in cons[-1].split(",")]
        if a != b:
            raise core.Inconclusive("Trace_PublisherDirect consumed %d of %d lines" % (a, b))
        total += a
        runs += info["runs"]

        def parse(tag):
            out = []
            for x in j.printed(tag):
                ln, rn, why = x.split(",", 2)
                out.append((int(ln), int(rn), why.strip().strip('"')))
            return out
        drifts = parse("DRIFT")
        for ln, rn, why in drifts[:2]:
            ctx.drift.append("directed behaviour s%d run %d: %s (only a subscription added or removed during the call is concerned)" % (n, rn, why))
        if len(drifts) > 2:
            ctx.drift.append("directed behaviours s%d: %d of %d runs left the model that way" % (n, len(drifts), info["runs"]))
        for ln, rn, why in parse("MISMATCH")[:6]:
            steps = [e for e in rows if e["run"] == rn]
            mode = steps[0]["mode"] if steps else "?"
            txt = " ".join(e["e"] + ("(%s)" % e["s"] if e["s"] != "-" else "") + (str(e["final"]) if e["e"] == "end" else "") for e in steps)
            ctx.report("directed behaviour: %s [%d subscriptions, changes by %s]" % (why, n, "the callback" if mode == "callback" else "another goroutine"),
                       "behaviour of Publisher.tla forced on the real publisher (publishing goroutine parked at its hook points), what happened: %s: %s" % (txt, why),
                       {"component": "c10-direct", "nsubs": n, "run": steps})
        if n == 3:   # the binding discriminates: the same recorded steps are NOT a behaviour of the other variant of the model
            k = ctx.tlc("Trace_PublisherDirect", "Trace_PublisherDirect_s3_inplace.cfg", workers=1, timeout=900, cwd=tla, env_extra={"VERIF_TRACE": of}, heap="4g")
            if not drifts and not parse("MISMATCH") and not (k.printed("DRIFT") or k.printed("MISMATCH")):
                raise core.Inconclusive("Trace_PublisherDirect accepts the recorded steps under the in-place variant too (vacuity guard)")
    ctx.cov["evaluations"] += total
    ctx.cov["traces_validated_against_impl"] += total
    ctx.cov["distinct_nontrivial"] += runs
    ctx.notes.append("direction A: %d runs = every complete behaviour of Publisher.tla (2%s subscriptions, up to 2-3 list changes anywhere between the snapshot and the return), "
                     "each forced on the real publisher with the changes made by another goroutine and again from inside the callbacks (every third also through Map) and once "
                     "with SubscribeOn(handler) (every delivery must then run on the handler's goroutine); %d recorded "
                     "steps replayed through Publisher.tla's actions (each delivery = arrays[snap.arr][idx], list after the call = the model's slice); the in-place variant "
                     "of the model rejects the same steps" % (runs, ", 3" if quick else ", 3, 4", total))


def run(ctx, replay=None):
    tla = ctx.stage_specs()
    quick = ctx.tier == "quick"
    for cfg in ("fresh3", "fresh4"):
        r = ctx.tlc("MC_Publisher", "MC_Publisher_%s.cfg" % cfg, workers=4, timeout=300, cwd=tla)
        if not r.completed:
            core.log(r.text[-3000:])
            raise core.Inconclusive("Publisher model (fresh-array removal) does not hold")
        ctx.add_states(r)
    r2 = ctx.tlc("MC_Publisher", "MC_Publisher_inplace3.cfg", workers=4, timeout=300, cwd=tla)
    if not r2.inv_violated:
        raise core.Inconclusive("Publisher in-place variant: expected the [A, C, C] counterexample (vacuity guard)")
    ctx.notes.append("Publisher.tla: fresh-array removal holds; in-place removal violates %s" % r2.inv_violated)
    directed(ctx, tla, quick)
    rc = ctx.tlc("MC_PubChurn", "MC_PubChurn_atomic.cfg", workers=4, timeout=300, cwd=tla)
    rs = ctx.tlc("MC_PubChurn", "MC_PubChurn_split.cfg", workers=4, timeout=300, cwd=tla)
    if not rc.completed or "Inv_Membership" not in (rs.inv_violated or []):
        raise core.Inconclusive("PubChurn model: the atomic variant must hold and the split variant must lose an update (vacuity guard)")
    ctx.add_states(rc)
    ctx.notes.append("PubChurn.tla: list changes racing with list changes keep the registered set exact when every change is one critical section; TLC exhibits the lost "
                     "update of the read-then-store variant; the real publisher is raced in the 'churn' runs (400 subscriptions, 6 goroutines)")
    tf = os.path.join(ctx.scratch, "c10.trace.ndjson")
    p, crash = ctx.drv_crashable(["c10", "record", "--rounds", 30 if quick else 1500, "--out", tf], timeout=3000)
    if crash:
        ctx.report("process crash: %s" % crash["panic"], "the driver died: %s" % crash["stderr"][-1200:], {"component": "c10", "crash": crash})
        ctx.cov["evaluations"], ctx.cov["distinct_nontrivial"] = 1, 2
        return ctx.finish(RULE)
    info = json.loads(p.stdout.strip().splitlines()[-1])
    r = ctx.tlc("Trace_PublisherAbs", workers=1, timeout=1800, cwd=tla, env_extra={"VERIF_TRACE": tf}, heap="8g")
    cons = r.printed("CONSUMED")
    if not cons:
        core.log(r.text[-3000:])
        raise core.Inconclusive("Trace_PublisherAbs did not finish")
    a, b = [int(x) for x in cons[-1].split(",")]
    mism = [(int(x.split(",")[0]), x.split(",", 1)[1].strip().strip('"')) for x in r.printed("MISMATCH")]
    if a != b and len(mism) < 60:
        raise core.Inconclusive("validator consumed %d of %d lines" % (a, b))
    ctx.cov["evaluations"] += a
    ctx.cov["traces_validated_against_impl"] += a
    ctx.cov["distinct_nontrivial"] += a - 1
    lines = core.read_ndjson(tf)
    for ln, why in mism:
        e = lines[ln - 1]
        thrs = sorted({x["thr"] for x in e["events"] if x["ev"] in ("unsub", "sub") and x["ph"] == "inv" and x["id"] > 3})
        inside = any(x["ev"] == "unsub" for x in e["events"])
        ctx.report("%s [%s%s%s]" % (why, "SubscribeOn " if e["handler"] else "", "Map " if e["mapped"] else "", "with unsubscribe" if inside else "no unsubscribe"),
                   "recorded run: %s: %s" % (json.dumps(e["events"])[:1500], why), {"component": "c10", "run": e})
    ctx.sample(lines[7])
    ctx.assumptions += [
        "OnNext callbacks are harness code logging themselves with one global sequence number; a subscription that is the target of an Unsubscribe overlapping the call may or may not see the value",
        "recorded runs park the publisher inside a callback (between two deliveries); the directed behaviours park it at the hook points, including between the snapshot and the first delivery",
        "SubscribeOn deliveries are awaited by posting a probe to the handler",
    ]
    return ctx.finish(RULE, exhaustive=False, trusted=["TLC 1.8.0", "drv c10 (event log, callback gate, hook-point director)"])


MANIFEST = {
    "text": "Publisher.tla models the subscriber slice with Go slice semantics (backing arrays; Publish's snapshot shares the array); TLC checks at-most-once, "
            "exactly-once-if-stable and order for any two list changes between deliveries in the variant the code is in and exhibits the counterexample of the other. "
            "The real Publisher is driven through every assignment of re-entrant callback behaviours and through parked-publisher schedules; TLC validates each recorded "
            "run with the statement's delivery rules (subscription set over time). Direction A: every complete behaviour of the model (2-4 subscriptions) is forced on the "
            "real publisher at its hook points and the recorded steps are replayed through the model's own actions (Trace_PublisherDirect).",
    "note": "Trusted: TLC, the driver's event log and callback gate. Interleavings inside Publish are explored at callback grain on the code and at lock grain in the model.",
    "technique": "TLA+ slice-level model checked by TLC (variant) + every model behaviour forced on the code at hook points and replayed through the model's actions + TLC trace validation of recorded runs",
}
