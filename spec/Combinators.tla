----------------------------- MODULE Combinators -----------------------------
(* C20 — combinators compose in the documented order; adapters pass exactly the
   bound and supplied arguments; Trampoline iterates until done or error; a
   CurryDef accumulates arguments; pattern matching is first-match.

   Functions are drawn from a FREE family so that the order of application is
   visible in the result:  a<k>(xs) = xs \o <<k>>,  dup(xs) = xs \o xs,
   rev(xs) = reverse(xs),  drop1(xs) = Tail(xs) (or <<>>).
   A judged line is a record with a field  part  and the fields that part uses;
   Judge(e) is the property for that call.                                    *)
EXTENDS Integers, Sequences, FiniteSets, TLC

RECURSIVE ApplyF(_, _)
ApplyF(f, xs) == CASE f = "a1" -> Append(xs, 1) [] f = "a2" -> Append(xs, 2) [] f = "a3" -> Append(xs, 3) [] f = "a4" -> Append(xs, 4)
                   [] f = "dup" -> xs \o xs
                   [] f = "rev" -> [i \in 1..Len(xs) |-> xs[Len(xs) + 1 - i]]
                   [] f = "drop1" -> IF xs = <<>> THEN <<>> ELSE Tail(xs)
FNames == {"a1", "a2", "a3", "a4", "dup", "rev", "drop1"}

\* Compose(f1..fn)(x) = f1(f2(...fn(x)));  Pipe(f1..fn)(x) = fn(...f1(x))
RECURSIVE ComposeVal(_, _)
ComposeVal(fs, xs) == IF Len(fs) = 1 THEN ApplyF(fs[1], xs) ELSE ApplyF(fs[1], ComposeVal(Tail(fs), xs))
RECURSIVE PipeVal(_, _)
PipeVal(fs, xs) == IF Len(fs) = 1 THEN ApplyF(fs[1], xs) ELSE PipeVal(Tail(fs), ApplyF(fs[1], xs))
RECURSIVE FlatG(_)
FlatG(gs) == IF gs = <<>> THEN <<>> ELSE Head(gs) \o FlatG(Tail(gs))
Rev(s) == [i \in 1..Len(s) |-> s[Len(s) + 1 - i]]

\* e.groups: the function list cut into consecutive groups; the call is Compose(Compose(g1...), Compose(g2...), ...)
\* (one group = the plain call).  Regrouping must not matter (associativity), Compose(fs) = Pipe(reverse(fs)),
\* and the caller's function slice must be left as it was (e.fsAfter lists the functions found in it afterwards).
JudgeCompose(e) ==
  LET fs == FlatG(e.groups) IN
  /\ e.kind = "ok"
  /\ e.out = (IF e.fn \in {"Compose", "ComposeInterface"} THEN ComposeVal(fs, e.x) ELSE PipeVal(fs, e.x))
  /\ e.fsAfter = fs
\* theorems of the definitions themselves (checked by TLC on the bounded family in Gen_Combinators)
ComposeIsPipeReversed(fs, xs) == ComposeVal(fs, xs) = PipeVal(Rev(fs), xs)

\* ------------------------------------------------------------------- adapters
\* CurryParamN: the wrapped function records the arguments it receives: bound a..f then the supplied ones
\* MakeVariadicParamN: the first N supplied; MakeVariadicReturnN: the N returned values in order
JudgeAdapter(e) ==
  /\ e.kind = "ok"
  /\ CASE e.fn = "CurryParam"      -> e.seen = e.bound \o e.args /\ e.out = e.bound \o e.args
       [] e.fn = "CurryParam1ForSlice1" -> e.seen = e.bound \o e.args /\ e.out = e.bound \o e.args
       [] e.fn = "MakeVariadicParam" -> e.seen = SubSeq(e.args, 1, e.n) /\ e.out = SubSeq(e.args, 1, e.n)
       [] e.fn = "MakeVariadicReturn" -> e.seen = e.args /\ e.out = SubSeq(e.args \o <<0, 0, 0, 0, 0, 0>>, 1, e.n)
       [] e.fn = "MakeNumericReturnBool" -> e.out = <<IF e.n = 1 THEN 1 ELSE 0>>

\* ----------------------------------------------------------------- Trampoline
\* step "countdown": <<n, acc>> -> done iff n = 0, else <<n-1, acc+n>>;  errAt = k: the k-th step (1-based) fails (errDone: and reports
\* done in the same breath - an error ends the iteration as an error whatever else the step says)
RECURSIVE Tramp(_, _, _)
Tramp(st, k, errAt) ==
  IF k = errAt THEN [kind |-> "err", v |-> <<>>, steps |-> k]
  ELSE IF st[1] = 0 THEN [kind |-> "ok", v |-> st, steps |-> k]            \* this step reports done with its input
  ELSE Tramp(<<st[1] - 1, st[2] + st[1]>>, k + 1, errAt)
JudgeTrampoline(e) ==
  LET r == Tramp(e.x, 1, e.errAt) IN
  /\ e.kind = r.kind /\ e.out = r.v /\ e.steps = r.steps

\* ------------------------------------------------------------------- CurryDef
\* e.calls: the script <<[op |-> "Call", args] | [op |-> "MarkDone"] | [op |-> "Result"]>>;
\* e.fnlog: argument lists seen by fn, in invocation order;  e.results: what each "Result" read.
\* fn returns the sum of the arguments it sees.
RECURSIVE SumSeq(_)
SumSeq(s) == IF s = <<>> THEN 0 ELSE Head(s) + SumSeq(Tail(s))
RECURSIVE CurryRun(_, _, _, _, _, _)
\* returns [fnlog, results]
CurryRun(calls, i, args, done, res, acc) ==
  IF i > Len(calls) THEN acc
  ELSE LET c == calls[i] IN
       IF c.op = "Call" THEN
            IF done THEN CurryRun(calls, i + 1, args, done, res, acc)
            ELSE CurryRun(calls, i + 1, args \o c.args, done, SumSeq(args \o c.args),
                          [acc EXCEPT !.fnlog = Append(@, args \o c.args)])
       ELSE IF c.op = "MarkDone" THEN CurryRun(calls, i + 1, args, TRUE, res, acc)
       ELSE CurryRun(calls, i + 1, args, done, res, [acc EXCEPT !.results = Append(@, res)])
JudgeCurrySeq(e) ==
  LET r == CurryRun(e.calls, 1, <<>>, FALSE, 0, [fnlog |-> <<>>, results |-> <<>>]) IN
  e.kind = "ok" /\ e.fnlog = r.fnlog /\ e.results = r.results

\* concurrent Calls: e.events = <<[ev |-> "begin"|"end", id, args]>> in real-time order (one global counter);
\* fn invocations never overlap; every invocation sees the previous invocation's list plus the arguments of
\* exactly one not yet used Call; at the end all Calls were used once.
FnSerial(evs) == \A i \in 1..Len(evs) : evs[i].ev = "begin" => (i < Len(evs) /\ evs[i + 1].ev = "end" /\ evs[i + 1].id = evs[i].id)
Begins(evs) == SelectSeq(evs, LAMBDA x : x.ev = "begin")
RECURSIVE Accum(_, _, _, _)
\* bs: begin events; prev: args of previous invocation; unused: set of call indices not yet consumed
Accum(bs, k, prev, unused) ==
  IF k > Len(bs) THEN unused = {}
  ELSE \E c \in unused : /\ bs[k].args = prev \o bs[k].callargs[c]
                         /\ Accum(bs, k + 1, bs[k].args, unused \ {c})
JudgeCurryConc(e) ==
  /\ e.kind = "ok"
  /\ FnSerial(e.events)
  /\ LET bs == [i \in DOMAIN Begins(e.events) |-> [args |-> Begins(e.events)[i].args, callargs |-> e.callargs]] IN
     Len(bs) = Len(e.callargs) /\ Accum(bs, 1, <<>>, DOMAIN e.callargs)
  /\ e.result = SumSeq(FlatG(e.callargs))

\* ----------------------------------------------------------- pattern matching
\* A probe is a descriptor [kind, nil, text, eq, ptrToStruct, comp, objs]:
\*   kind   reflect kind name of the value ("invalid" for untyped nil)
\*   nil    absent (untyped nil or nil pointer)
\*   text   for strings: a text id;   eq: equality class id (equal probes/pattern values share it), 0 = uncomparable
\*   ptrToStruct  the value is a non-nil pointer to a struct; pointee = descriptor of the pointee
\*   comp   "none" | "data" (a CompData value) ; objs = <<[kind, nil]>> its objects
\* A pattern is [p, kind | eq | re | ty].  Types: [t |-> "product", kinds] | [t |-> "nil"] | [t |-> "sum", of |-> <<types>>]
RegexMatches(re, text) ==                         \* table of the regular expressions used (uninterpreted library call)
  CASE re = "cplus"   -> text \in {"ccc", "c"}     \* ^c+$
    [] re = "hdoto"   -> text \in {"hello"}        \* ^h.*o$
    [] re = "any"     -> TRUE                      \* .*
    [] re = "invalid" -> FALSE                     \* "(" does not compile: never matches

RECURSIVE TypeMatches(_, _)
TypeMatches(ty, objs) ==
  CASE ty.t = "product" -> Len(objs) = Len(ty.kinds) /\ \A i \in DOMAIN objs : objs[i].kind = ty.kinds[i]
    [] ty.t = "nil"     -> Len(objs) = 1 /\ objs[1].nil
    [] ty.t = "sum"     -> \E i \in DOMAIN ty.of : TypeMatches(ty.of[i], objs)

RawObj(v) == [kind |-> IF v.nil THEN "invalid" ELSE v.kind, nil |-> v.nil]     \* an absent value has kind Invalid
\* v: the descriptor actually tested (after the pointer rule); structRaw: for an ordinary struct a sum-type
\* pattern may either reject or test the struct as a raw value
Accepts(pat, v, structRaw) ==
  CASE pat.p = "kind"      -> ~v.nil /\ v.kind = pat.kind
    [] pat.p = "equal"     -> v.eq # 0 /\ v.eq = pat.eq
    [] pat.p = "regex"     -> ~v.nil /\ v.kind = "string" /\ RegexMatches(pat.re, v.text)
    [] pat.p = "sum"       -> IF v.comp = "data" THEN TypeMatches(pat.ty, v.objs)
                              ELSE IF v.kind = "struct" THEN structRaw /\ TypeMatches(pat.ty, <<RawObj(v)>>)
                              ELSE TypeMatches(pat.ty, <<RawObj(v)>>)
    [] pat.p = "otherwise" -> TRUE

FirstAccepting(ps, v, structRaw) ==
  IF \E i \in DOMAIN ps : Accepts(ps[i], v, structRaw)
    THEN CHOOSE i \in DOMAIN ps : Accepts(ps[i], v, structRaw) /\ \A j \in 1..(i - 1) : ~Accepts(ps[j], v, structRaw)
    ELSE 0                                                          \* 0 = no pattern accepts: MatchFor must panic

\* the value tested: a non-nil pointer to a CompData is dereferenced (pinned by the existing test); for a pointer
\* to an ordinary struct both readings are admissible, consistently for the whole match
MatchOutcomeOK(ps, probe, out) ==
  \E raw \in BOOLEAN :
    IF probe.ptrToStruct
      THEN \/ out = FirstAccepting(ps, probe.pointee, raw)
           \/ probe.pointee.comp # "data" /\ out = FirstAccepting(ps, [probe EXCEPT !.ptrToStruct = FALSE], raw)
      ELSE out = FirstAccepting(ps, probe, raw)

\* e.out: index of the pattern whose effect ran (its effect returns its own position), 0 if MatchFor panicked
JudgeMatch(e) == MatchOutcomeOK(e.ps, e.probe, e.out)
\* NewCompData returns a value iff its arguments match the declared type
JudgeNewCompData(e) == e.kind = "ok" /\ e.nonnil = TypeMatches(e.ty, e.objs)

\* the first invocation of fn marks the curry done (under the Call mutex) while k further Calls are already in flight:
\* fn was invoked exactly once, Result is that invocation's value (its only argument is 1), IsDone holds
JudgeCurryDone(e) == e.kind = "ok" /\ e.invocations = 1 /\ e.result = 1 /\ e.done

Judge(e) == CASE e.part = "compose"  -> JudgeCompose(e)
              [] e.part = "adapter"  -> JudgeAdapter(e)
              [] e.part = "trampoline" -> JudgeTrampoline(e)
              [] e.part = "curryseq" -> JudgeCurrySeq(e)
              [] e.part = "curryconc" -> JudgeCurryConc(e)
              [] e.part = "currydone" -> JudgeCurryDone(e)
              [] e.part = "match"    -> JudgeMatch(e)
              [] e.part = "newcompdata" -> JudgeNewCompData(e)
=============================================================================
