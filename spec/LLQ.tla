-------------------------------- MODULE LLQ --------------------------------
(* C06 — LinkedListQueue (queue.go) transcribed statement by statement.

   State = the Go fields: per node object Next, Prev, Val; q.first, q.last,
   q.count; the recycling chain q.nodePoolFirst / q.nodeCount (linked through
   Next); the sync.Pool (gc) that putAllIntoPool feeds and generateNode /
   KeepNodePoolCount draw from.  Every public method is one action (the type is
   not thread-safe: its linearisation point is the method return).  A nil
   pointer dereference is the explicit outcome "panic", after which the object
   is dead (absorbing).

   FIXED selects how Shift and Pop leave the new end node:
     FALSE  the back link of the new first / forward link of the new last is
            left pointing at the node that was just recycled (pinned tree);
     TRUE   it is cleared.
   The property (C06) is Refines: every result equals the abstract deque's
   (Deque.tla), and the forward walk equals the abstract sequence.           *)
EXTENDS Integers, Sequences, FiniteSets, TLC

CONSTANTS Ops,      \* the methods explored (a subset of AllOpNames; aliases can be left out)
          N,        \* number of node objects that may be referenced at once
          Val,      \* values offered
          FIXED,    \* see above
          MaxLen    \* bound on the abstract length (model bound only)

Node  == 1..N
NIL   == 0
NoVal == -1                       \* a nil *T

D == INSTANCE Deque WITH Val <- Val, dq <- 0, dres <- 0    \* operators only

VARIABLES h,      \* the heap + queue fields, one record
          dq,     \* abstract deque advanced in lock step (refinement witness)
          res,    \* result of the last call in the implementation model
          ares,   \* result of the last call on the abstract deque
          dead,   \* a panic happened
          hist    \* generator only: the calls so far, <<[op, arg]>> (hidden by VIEW in MC runs)

vars == <<h, dq, res, ares, dead, hist>>

H0 == [next |-> [n \in Node |-> NIL], prev |-> [n \in Node |-> NIL], val |-> [n \in Node |-> NoVal],
       first |-> NIL, last |-> NIL, count |-> 0, poolFirst |-> NIL, nodeCount |-> 0, gc |-> {}]

\* ---------------------------------------------------------------- reachability
RECURSIVE ChainFrom(_, _, _)
\* nodes along f starting at n (bounded by k steps; cycles stop at the bound)
ChainFrom(f, n, k) == IF n = NIL \/ k = 0 THEN <<>> ELSE <<n>> \o ChainFrom(f, f[n], k - 1)

Fwd(s)   == ChainFrom(s.next, s.first, N + 1)
Bwd(s)   == ChainFrom(s.prev, s.last, N + 1)
PoolC(s) == ChainFrom(s.next, s.poolFirst, N + 1)
SeqSet(q) == {q[i] : i \in DOMAIN q}

\* Node objects some live pointer may still lead to: anything reachable from the roots through
\* Next/Prev (this includes stale links), plus the sync.Pool content.
RECURSIVE Close(_, _)
Close(s, S) == LET S2 == S \cup {s.next[n] : n \in S} \cup {s.prev[n] : n \in S} IN
               IF S2 \ {NIL} = S THEN S ELSE Close(s, S2 \ {NIL})
Referenced(s) == Close(s, {s.first, s.last, s.poolFirst} \ {NIL}) \cup s.gc
Free(s) == Node \ Referenced(s)

\* ------------------------------------------------------------ helper statements
\* sync.Pool.Get(): a pooled (zeroed) node, or a brand new one.  Unreferenced node objects are
\* garbage and can stand for "brand new" (their identity is unobservable).
GetChoices(s) == s.gc \cup (IF Free(s) = {} THEN {} ELSE {CHOOSE n \in Free(s) : \A m \in Free(s) : n <= m})
AfterGet(s, n) == [s EXCEPT !.gc = @ \ {n}, !.next[n] = NIL, !.prev[n] = NIL, !.val[n] = NoVal]

\* putAllIntoPool(first): walk Next, zero each node, Put it into the sync.Pool
RECURSIVE PutAll(_, _, _)
PutAll(s, n, k) == IF n = NIL \/ k = 0 THEN s
                   ELSE LET nx == s.next[n] IN
                        PutAll([s EXCEPT !.val[n] = NoVal, !.prev[n] = NIL, !.next[n] = NIL, !.gc = @ \cup {n}], nx, k - 1)

\* generateNode(): returns <<state, node>> choices
GenChoices(s) ==
  IF s.poolFirst = NIL
    THEN {<<AfterGet(s, n), n>> : n \in GetChoices(s)}
    ELSE LET n == s.poolFirst IN
         {<<[s EXCEPT !.nodeCount = @ - 1, !.poolFirst = s.next[n], !.next[n] = NIL, !.prev[n] = NIL], n>>}

\* recycleNode(node)
Recycle(s, n) == [s EXCEPT !.nodeCount = @ + 1, !.val[n] = NoVal, !.next[n] = s.poolFirst, !.prev[n] = NIL, !.poolFirst = n]

\* ----------------------------------------------------------------- the methods
\* each returns a set of <<state', result>> (a set because sync.Pool.Get is nondeterministic)
OfferM(s, v) ==
  { LET s1 == p[1]  n == p[2]
        s2 == [s1 EXCEPT !.val[n] = v, !.count = @ + 1]
        s3 == IF s2.first = NIL THEN [s2 EXCEPT !.first = n] ELSE s2
        l  == s3.last
        s4 == IF l # NIL THEN [s3 EXCEPT !.next[l] = n, !.prev[n] = l] ELSE s3
    IN <<[s4 EXCEPT !.last = n], D!ROk>> : p \in GenChoices(s) }

UnshiftM(s, v) ==
  { LET s1 == p[1]  n == p[2]
        s2 == [s1 EXCEPT !.val[n] = v, !.count = @ + 1]
        s3 == IF s2.last = NIL THEN [s2 EXCEPT !.last = n] ELSE s2
        f  == s3.first
        s4 == [s3 EXCEPT !.first = n, !.next[n] = f]
    IN <<IF f # NIL THEN [s4 EXCEPT !.prev[f] = n] ELSE s4, D!ROk>> : p \in GenChoices(s) }

ShiftM(s) ==
  LET n == s.first IN
  IF n = NIL THEN {<<s, D!REmptyQ>>}
  ELSE LET s1 == [s EXCEPT !.count = @ - 1, !.first = s.next[n]]
           s2 == IF s1.first = NIL THEN [s1 EXCEPT !.last = NIL]
                 ELSE IF FIXED THEN [s1 EXCEPT !.prev[s1.first] = NIL] ELSE s1
       IN IF s.val[n] = NoVal THEN {<<s2, D!RPanic>>}            \* val := *node.Val
          ELSE {<<Recycle(s2, n), D!RVal(s.val[n])>>}

PopM(s) ==
  LET n == s.last IN
  IF n = NIL THEN {<<s, D!REmptyS>>}
  ELSE LET s1 == [s EXCEPT !.count = @ - 1, !.last = s.prev[n]]
           s2 == IF s1.last = NIL THEN [s1 EXCEPT !.first = NIL]
                 ELSE IF FIXED THEN [s1 EXCEPT !.next[s1.last] = NIL] ELSE s1
       IN IF s.val[n] = NoVal THEN {<<s2, D!RPanic>>}
          ELSE {<<Recycle(s2, n), D!RVal(s.val[n])>>}

PeekM(s) ==
  IF s.first = NIL THEN {<<s, D!REmptyQ>>}
  ELSE IF s.val[s.first] = NoVal THEN {<<s, D!RPanic>>} ELSE {<<s, D!RVal(s.val[s.first])>>}

CountM(s) == {<<s, D!RInt(s.count)>>}

\* Clear(): the whole list becomes the recycling chain (Val and Prev cleared, Next kept)
RECURSIVE ClearWalk(_, _, _)
ClearWalk(s, n, k) == IF n = NIL \/ k = 0 THEN s
                      ELSE ClearWalk([s EXCEPT !.val[n] = NoVal, !.prev[n] = NIL], s.next[n], k - 1)
\* a walk along Next that does not end within N+1 nodes is a cycle: the Go loop never returns
Cyclic(s, start) == Len(ChainFrom(s.next, start, N + 1)) > N
RHang == [k |-> "hang", v |-> 0]

ClearM(s) ==
  IF Cyclic(s, s.first) THEN {<<s, RHang>>} ELSE
  LET s1 == [s EXCEPT !.poolFirst = s.first, !.nodeCount = s.count]
      s2 == ClearWalk(s1, s1.poolFirst, N + 1)
  IN {<<[s2 EXCEPT !.first = NIL, !.last = NIL, !.count = 0], D!RNone>>}

ClearNodePoolM(s) ==
  IF Cyclic(s, s.poolFirst) THEN {<<s, RHang>>} ELSE
  LET s1 == PutAll(s, s.poolFirst, N + 1) IN {<<[s1 EXCEPT !.nodeCount = 0, !.poolFirst = NIL], D!RNone>>}

\* KeepNodePoolCount(n): extend / cut the recycling chain to exactly n nodes
RECURSIVE KeepWalk(_, _, _)
\* returns the set of <<state, lastnode>> after advancing k times from 'last', allocating where Next is nil
KeepWalk(s, last, k) ==
  IF k = 0 THEN {<<s, last>>}
  ELSE IF s.next[last] # NIL THEN KeepWalk(s, s.next[last], k - 1)
       ELSE UNION { KeepWalk([AfterGet(s, g) EXCEPT !.next[last] = g], g, k - 1) : g \in GetChoices(s) }
KeepM(s, k) ==
  IF k <= 0 THEN ClearNodePoolM(s)
  ELSE IF Cyclic(s, s.poolFirst) THEN {<<s, RHang>>}
  ELSE LET s1 == [s EXCEPT !.nodeCount = k]
           starts == IF s1.poolFirst # NIL THEN {<<s1, s1.poolFirst>>}
                     ELSE {<<[AfterGet(s1, g) EXCEPT !.poolFirst = g], g>> : g \in GetChoices(s1)}
       IN UNION { { LET s3 == PutAll(w[1], w[1].next[w[2]], N + 1) IN <<[s3 EXCEPT !.next[w[2]] = NIL], D!RNone>>
                    : w \in KeepWalk(st[1], st[2], k - 1) } : st \in starts }

Method(s, op, arg) ==
  CASE op \in D!AppendOps -> OfferM(s, arg)
    [] op = "Unshift" -> UnshiftM(s, arg)
    [] op \in D!HeadOps -> ShiftM(s)
    [] op = "Pop" -> PopM(s)
    [] op = "Peek" -> PeekM(s)
    [] op = "Count" -> CountM(s)
    [] op = "Clear" -> ClearM(s)
    [] op = "ClearNodePool" -> ClearNodePoolM(s)
    [] op = "KeepNodePoolCount" -> KeepM(s, arg)

\* ----------------------------------------------------------------- transitions
ValsOf(s, chain) == [i \in DOMAIN chain |-> s.val[chain[i]]]
Snap(s) == [fwd |-> ValsOf(s, Fwd(s)), bwd |-> ValsOf(s, Bwd(s)), count |-> s.count,
            nodeCount |-> s.nodeCount, poolLen |-> Len(PoolC(s))]

AllOpNames == {"Offer", "Put", "Push", "Unshift", "Poll", "Take", "Shift", "Pop", "Peek", "Count", "Clear",
               "ClearNodePool", "KeepNodePoolCount"}
ArgsOf(op) == IF op \in D!AppendOps \cup {"Unshift"} THEN Val
              ELSE IF op = "KeepNodePoolCount" THEN 0..2 ELSE {0}

Init == h = H0 /\ dq = <<>> /\ res = D!RNone /\ ares = D!RNone /\ dead = FALSE /\ hist = <<>>

Do(op, arg) ==
  /\ ~dead
  /\ Len(dq) < MaxLen \/ op \notin D!AppendOps \cup {"Unshift"}
  /\ \E out \in Method(h, op, arg) :
       LET a == D!DequeStep(dq, op, arg) IN
       /\ h' = out[1] /\ res' = out[2]
       /\ dq' = a.q /\ ares' = a.r
       /\ dead' = (out[2].k \in {"panic", "hang"})
       /\ hist' = Append(hist, [op |-> op, arg |-> arg])

Next == \E op \in Ops : \E arg \in ArgsOf(op) : Do(op, arg)
Spec == Init /\ [][Next]_vars

View == <<h, dq, res, ares, dead>>

\* -------------------------------------------------------------------- property
Inv_NoPanic    == ~dead
Inv_Result     == res = ares                                   \* every call returns the abstract result
Inv_Abs        == ~dead => ValsOf(h, Fwd(h)) = dq               \* forward walk = abstract sequence
Inv_Back       == ~dead => (LET b == ValsOf(h, Bwd(h)) IN
                            Len(b) = Len(dq) /\ \A i \in DOMAIN b : b[i] = dq[Len(dq) + 1 - i])
Inv_Count      == ~dead => h.count = Len(dq)
Inv_PoolDisjoint == ~dead => SeqSet(Fwd(h)) \cap (SeqSet(PoolC(h)) \cup h.gc) = {}
Inv_Ends       == ~dead => ((h.first = NIL) <=> (h.last = NIL))
Refines        == Inv_NoPanic /\ Inv_Result /\ Inv_Abs /\ Inv_Back /\ Inv_Count
=============================================================================
