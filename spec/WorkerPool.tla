----------------------------- MODULE WorkerPool -----------------------------
(* C09 / C15 — worker.DefaultWorkerPool (worker/pool.go) at hook grain, over the ABSTRACT bounded FIFO job queue
   (capacity QCap = channelCapacity + bufferSizeMaximum; C07 establishes that the real queue refines it).
   Threads: one submitter (Schedule = closed check, Offer, deferred wake-up token), the spawn loop (wake, decide with the
   trySpawn arithmetic incl. a nondeterministic "jam timer fired", generate up to the decided number under the caps),
   workers (loop: closed check; select: take a job or - WithExpiry - the idle timer; expiry check under the read lock;
   run the job; panic -> deferred recover, handler, decrement), an optional closer.
   NotifyOnExit names which worker exits wake the spawn loop.                                                       *)
EXTENDS Integers, Sequences, FiniteSets, TLC
CONSTANTS NJobs, PanicJobs, MaxW, Standby, Batch, QCap, WN, WithExpiry, WithClose,
          AtomicExpiry,   \* TRUE: the expiry check and the decrement of workerCount are one critical section (repaired tree)
          QueueGuardedClose, \* TRUE: GetChannel() on a queue closed meanwhile is harmless (repaired queue); FALSE: its wake-up
                          \*   notification panics in the worker, which reports it to the panic handler (pinned tree)
          LeaverPolls,    \* TRUE: a worker that has decided to leave polls the queue once more (breaks the concurrency bound); FALSE: the code
          NotifyFirst,    \* TRUE: the exit path wakes the spawn loop before it uncounts the worker (a reordering that strands jobs); FALSE: the code
          NotifyOnExit    \* which worker exits wake the spawn loop: "never" (pinned tree) | "panic" (repaired tree) | "always"
Jobs == 1..NJobs
W == 1..WN
VARIABLES queue, qClosed, tok, closed, wcount, wbusy,
          spc, sexp, sleft,
          wpc, wjob, wisbusy, wpanic, wleft,
          subpc, sidx, sres,
          ran, handler, maxrun, xpc
vars == <<queue, qClosed, tok, closed, wcount, wbusy, spc, sexp, sleft, wpc, wjob, wisbusy, wpanic, wleft,
          subpc, sidx, sres, ran, handler, maxrun, xpc>>

Max(a, b) == IF a > b THEN a ELSE b
CeilDiv(a, b) == (a + b - 1) \div b

Init ==
  /\ queue = <<>> /\ qClosed = FALSE /\ tok = 0 /\ closed = FALSE /\ wcount = 0 /\ wbusy = 0
  /\ spc = "idle" /\ sexp = 0 /\ sleft = 0
  /\ wpc = [i \in W |-> "absent"] /\ wjob = [i \in W |-> 0] /\ wisbusy = [i \in W |-> FALSE]
  /\ wpanic = [i \in W |-> FALSE] /\ wleft = [i \in W |-> FALSE]
  /\ subpc = "check" /\ sidx = 1 /\ sres = <<>>
  /\ ran = [j \in Jobs |-> 0] /\ handler = 0 /\ maxrun = 0
  /\ xpc = IF WithClose THEN "start" ELSE "done"

\* ------------------------------------------------------------------ submitter: Schedule(job sidx)
SubCheck ==
  /\ subpc = "check" /\ sidx <= NJobs
  /\ IF closed THEN /\ sres' = Append(sres, "closed") /\ sidx' = sidx + 1 /\ UNCHANGED subpc
               ELSE /\ subpc' = "offer" /\ UNCHANGED <<sres, sidx>>
  /\ UNCHANGED <<queue, qClosed, tok, closed, wcount, wbusy, spc, sexp, sleft, wpc, wjob, wisbusy, wpanic, wleft, ran, handler, maxrun, xpc>>
SubOffer ==
  /\ subpc = "offer"
  /\ IF qClosed THEN /\ sres' = Append(sres, "qclosed") /\ UNCHANGED queue
     ELSE IF Len(queue) >= QCap THEN /\ sres' = Append(sres, "full") /\ UNCHANGED queue
     ELSE /\ queue' = Append(queue, sidx) /\ sres' = Append(sres, "ok")
  /\ subpc' = "notify"
  /\ UNCHANGED <<qClosed, tok, closed, wcount, wbusy, spc, sexp, sleft, wpc, wjob, wisbusy, wpanic, wleft, sidx, ran, handler, maxrun, xpc>>
SubNotify ==
  /\ subpc = "notify" /\ tok' = 1 /\ subpc' = "check" /\ sidx' = sidx + 1
  /\ UNCHANGED <<queue, qClosed, closed, wcount, wbusy, spc, sexp, sleft, wpc, wjob, wisbusy, wpanic, wleft, sres, ran, handler, maxrun, xpc>>

\* ------------------------------------------------------------------ spawn loop
SpawnWake ==
  /\ spc = "idle" /\ tok = 1 /\ tok' = 0 /\ spc' = "woken"
  /\ UNCHANGED <<queue, qClosed, closed, wcount, wbusy, sexp, sleft, wpc, wjob, wisbusy, wpanic, wleft, subpc, sidx, sres, ran, handler, maxrun, xpc>>
Expected(jam) ==
  LET n == Len(queue)
      e1 == IF Batch > 0 THEN CeilDiv(n, Batch) ELSE 0
      e2 == Max(e1, Standby)
      e3 == IF MaxW > 0 /\ e2 > MaxW THEN MaxW ELSE e2
  IN IF jam /\ wbusy >= wcount /\ wcount >= e3 THEN wcount + 1 ELSE e3
\* trySpawn computes the expected number under the read lock (SpawnDecide) and reads workerCount AGAIN, without the lock, for its
\* loop bounds (SpawnInit): a worker that leaves in between makes the loop longer than the decision alone would.
SpawnDecide ==
  /\ spc = "woken"
  /\ IF closed THEN /\ spc' = "exited" /\ UNCHANGED sexp
     ELSE \E jam \in BOOLEAN : sexp' = Expected(jam) /\ spc' = "decided"
  /\ UNCHANGED <<queue, qClosed, tok, closed, wcount, wbusy, sleft, wpc, wjob, wisbusy, wpanic, wleft, subpc, sidx, sres, ran, handler, maxrun, xpc>>
SpawnInit ==
  /\ spc = "decided"
  /\ sleft' = IF wcount < sexp THEN sexp - wcount ELSE 0
  /\ spc' = "spawning"
  /\ UNCHANGED <<queue, qClosed, tok, closed, wcount, wbusy, sexp, wpc, wjob, wisbusy, wpanic, wleft, subpc, sidx, sres, ran, handler, maxrun, xpc>>
SpawnGen ==
  /\ spc = "spawning"
  /\ IF sleft = 0 THEN /\ spc' = "idle" /\ UNCHANGED <<sleft, wcount, wpc>>
     ELSE /\ sleft' = sleft - 1 /\ UNCHANGED spc
          /\ IF wcount >= sexp \/ wcount >= MaxW \/ ~(\E i \in W : wpc[i] = "absent")
               THEN UNCHANGED <<wcount, wpc>>
               ELSE /\ wcount' = wcount + 1
                    /\ LET i == CHOOSE i \in W : wpc[i] = "absent" IN wpc' = [wpc EXCEPT ![i] = "loop"]
  /\ UNCHANGED <<queue, qClosed, tok, closed, wbusy, sexp, wjob, wisbusy, wpanic, wleft, subpc, sidx, sres, ran, handler, maxrun, xpc>>

\* ------------------------------------------------------------------ workers
Running == {i \in W : wpc[i] = "running"}
WLoop(i) ==
  /\ wpc[i] = "loop"
  /\ wpc' = [wpc EXCEPT ![i] = IF closed THEN "exit" ELSE "select"]
  /\ UNCHANGED <<queue, qClosed, tok, closed, wcount, wbusy, spc, sexp, sleft, wjob, wisbusy, wpanic, wleft, subpc, sidx, sres, ran, handler, maxrun, xpc>>
WTake(i) ==
  /\ wpc[i] = "select"
  /\ \/ /\ qClosed /\ ~QueueGuardedClose /\ wpanic' = [wpanic EXCEPT ![i] = TRUE] /\ wpc' = [wpc EXCEPT ![i] = "exit"]
        /\ UNCHANGED <<wjob, queue>>
     \/ /\ (qClosed => QueueGuardedClose) /\ UNCHANGED wpanic /\ queue # <<>> /\ wjob' = [wjob EXCEPT ![i] = Head(queue)] /\ queue' = Tail(queue)
        /\ wpc' = [wpc EXCEPT ![i] = "got"]
     \/ /\ QueueGuardedClose /\ UNCHANGED wpanic /\ queue = <<>> /\ qClosed /\ wpc' = [wpc EXCEPT ![i] = "loop"] /\ UNCHANGED <<wjob, queue>>
  /\ UNCHANGED <<qClosed, tok, closed, wcount, wbusy, spc, sexp, sleft, wisbusy, wleft, subpc, sidx, sres, ran, handler, maxrun, xpc>>
WExpire(i) ==
  /\ WithExpiry /\ wpc[i] = "select" /\ wpc' = [wpc EXCEPT ![i] = "expired"]
  /\ UNCHANGED <<queue, qClosed, tok, closed, wcount, wbusy, spc, sexp, sleft, wjob, wisbusy, wpanic, wleft, subpc, sidx, sres, ran, handler, maxrun, xpc>>
\* LeaverPolls = TRUE is the variant in which a worker that has decided to leave (already uncounted) polls the queue once more
\* and runs what it finds: the spawn loop refills to the maximum meanwhile, so more than MaxW jobs can be executing.
WExpiryCheck(i) ==
  /\ wpc[i] = "expired"
  /\ IF wcount > Standby \/ wcount > MaxW
       THEN /\ IF LeaverPolls /\ queue # <<>>
                 THEN wpc' = [wpc EXCEPT ![i] = "got"] /\ wjob' = [wjob EXCEPT ![i] = Head(queue)] /\ queue' = Tail(queue)
                 ELSE wpc' = [wpc EXCEPT ![i] = "exit"] /\ UNCHANGED <<wjob, queue>>
            /\ IF AtomicExpiry THEN wcount' = wcount - 1 /\ wleft' = [wleft EXCEPT ![i] = TRUE] ELSE UNCHANGED <<wcount, wleft>>
       ELSE wpc' = [wpc EXCEPT ![i] = "loop"] /\ UNCHANGED <<wcount, wleft, wjob, queue>>
  /\ UNCHANGED <<qClosed, tok, closed, wbusy, spc, sexp, sleft, wisbusy, wpanic, subpc, sidx, sres, ran, handler, maxrun, xpc>>
WStart(i) ==
  /\ wpc[i] = "got" /\ wbusy' = wbusy + 1 /\ wisbusy' = [wisbusy EXCEPT ![i] = TRUE]
  /\ wpc' = [wpc EXCEPT ![i] = "running"]
  /\ ran' = [ran EXCEPT ![wjob[i]] = @ + 1]
  /\ maxrun' = Max(maxrun, Cardinality(Running) + 1)
  /\ UNCHANGED <<queue, qClosed, tok, closed, wcount, spc, sexp, sleft, wjob, wpanic, wleft, subpc, sidx, sres, handler, xpc>>
WEnd(i) ==
  /\ wpc[i] = "running"
  /\ IF wjob[i] \in PanicJobs
       THEN /\ wpanic' = [wpanic EXCEPT ![i] = TRUE] /\ wpc' = [wpc EXCEPT ![i] = "exit"]
            /\ UNCHANGED <<wbusy, wisbusy>>
       ELSE /\ wbusy' = wbusy - 1 /\ wisbusy' = [wisbusy EXCEPT ![i] = FALSE]
            /\ wpc' = [wpc EXCEPT ![i] = IF wleft[i] THEN "exit" ELSE "loop"] /\ UNCHANGED wpanic      \* (a leaver that ran one more job leaves now)
  /\ UNCHANGED <<queue, qClosed, tok, closed, wcount, spc, sexp, sleft, wjob, wleft, subpc, sidx, sres, ran, handler, maxrun, xpc>>
\* the deferred exit path, two steps as in the code: recover + panic handler, then (under the lock) the decrements, then - after
\* the unlock - the wake-up of the spawn loop for a worker that died from a panic.  NotifyFirst = TRUE is the variant that wakes
\* the spawn loop BEFORE the worker is uncounted: the spawn loop then still sees the dying worker and spawns nothing.
WExit(i) ==
  /\ wpc[i] = "exit"
  /\ handler' = IF wpanic[i] THEN handler + 1 ELSE handler
  /\ IF NotifyFirst
       THEN /\ tok' = IF NotifyOnExit = "always" \/ (NotifyOnExit = "panic" /\ wpanic[i]) THEN 1 ELSE tok
            /\ UNCHANGED <<wcount, wleft, wbusy, wisbusy>>
       ELSE /\ wcount' = IF wleft[i] THEN wcount ELSE wcount - 1
            /\ wleft' = [wleft EXCEPT ![i] = TRUE]                      \* uncounted from here on
            /\ wbusy' = IF wisbusy[i] THEN wbusy - 1 ELSE wbusy
            /\ wisbusy' = [wisbusy EXCEPT ![i] = FALSE]
            /\ UNCHANGED tok
  /\ wpc' = [wpc EXCEPT ![i] = "exit2"]
  /\ UNCHANGED <<queue, qClosed, closed, spc, sexp, sleft, wjob, wpanic, subpc, sidx, sres, ran, maxrun, xpc>>
WExit2(i) ==
  /\ wpc[i] = "exit2"
  /\ IF NotifyFirst
       THEN /\ wcount' = IF wleft[i] THEN wcount ELSE wcount - 1
            /\ wbusy' = IF wisbusy[i] THEN wbusy - 1 ELSE wbusy
            /\ wisbusy' = [wisbusy EXCEPT ![i] = FALSE]
            /\ UNCHANGED tok
       ELSE /\ tok' = IF NotifyOnExit = "always" \/ (NotifyOnExit = "panic" /\ wpanic[i]) THEN 1 ELSE tok
            /\ UNCHANGED <<wcount, wbusy, wisbusy>>
  /\ wleft' = [wleft EXCEPT ![i] = FALSE] /\ wpanic' = [wpanic EXCEPT ![i] = FALSE]
  /\ wpc' = [wpc EXCEPT ![i] = "absent"]
  /\ UNCHANGED <<queue, qClosed, closed, spc, sexp, sleft, wjob, subpc, sidx, sres, ran, handler, maxrun, xpc>>

\* ------------------------------------------------------------------ closer
CloseFlag == /\ xpc = "start" /\ closed' = TRUE /\ xpc' = "flagged"
             /\ UNCHANGED <<queue, qClosed, tok, wcount, wbusy, spc, sexp, sleft, wpc, wjob, wisbusy, wpanic, wleft, subpc, sidx, sres, ran, handler, maxrun>>
CloseQueue == /\ xpc = "flagged" /\ qClosed' = TRUE /\ xpc' = "done"
              /\ UNCHANGED <<queue, tok, closed, wcount, wbusy, spc, sexp, sleft, wpc, wjob, wisbusy, wpanic, wleft, subpc, sidx, sres, ran, handler, maxrun>>

Sub == SubCheck \/ SubOffer \/ SubNotify
SpawnLoop == SpawnWake \/ SpawnDecide \/ SpawnInit \/ SpawnGen
WorkerStep(i) == WLoop(i) \/ WTake(i) \/ WExpire(i) \/ WExpiryCheck(i) \/ WStart(i) \/ WEnd(i) \/ WExit(i) \/ WExit2(i)
Next == Sub \/ SpawnLoop \/ (\E i \in W : WorkerStep(i)) \/ CloseFlag \/ CloseQueue
Spec == Init /\ [][Next]_vars
FairSpec == Spec /\ WF_vars(Sub) /\ WF_vars(SpawnLoop)
            /\ \A i \in W : WF_vars(WorkerStep(i)) /\ SF_vars(WTake(i))

AcceptedJobs == {j \in Jobs : j <= Len(sres) /\ sres[j] = "ok"}
Inv_AtMostOnce == \A j \in Jobs : ran[j] <= 1
Inv_RejectedNeverRun == \A j \in Jobs : (j <= Len(sres) /\ sres[j] # "ok") => ran[j] = 0
Inv_MaxConcurrent == maxrun <= MaxW /\ wcount <= MaxW
Inv_Counts == wbusy >= 0 /\ wcount >= 0 /\ wcount = Cardinality({i \in W : wpc[i] # "absent" /\ ~wleft[i]})
Inv_HandlerOnlyJobPanics == handler <= Cardinality({j \in PanicJobs : ran[j] > 0})
Live_ExactlyOnce == <>[](sidx > NJobs /\ \A j \in AcceptedJobs : ran[j] = 1)
=============================================================================
