-------------------------------- MODULE Maybe --------------------------------
(* C01 — Maybe: one consistent notion of absence, monad laws, totality.

   A Go value is a descriptor [name, kind, absent, ptr, nest, innerAbsent, sameT]:
     absent   v is an untyped nil or a nil pointer — THE single fact every observer must agree with
     ptr      v is a non-nil pointer;   nest: v is itself a Maybe (1) / a Maybe of a Maybe (2), else 0
     innerAbsent  (nest > 0) the wrapped Maybe is absent;  sameT: (nest > 0) the wrapped Maybe has the
                  same type parameter as the wrapper built by this constructor (flattening is required only then)
   A judged line: [v, ctor \in {"Just", "JustGenerics"}, obs, out |-> [k, v]].          *)
EXTENDS Integers, Sequences, FiniteSets, TLC

ConvObs == {"ToInt", "ToInt8", "ToInt16", "ToInt32", "ToInt64", "ToByte", "ToUint", "ToUint8", "ToUint16", "ToUint32", "ToUint64",
            "ToUintptr", "ToFloat32", "ToFloat64", "ToBool"}
TotalObs == {"IsPtr", "Kind", "IsValid", "Unwrap", "ToPtr", "IsType", "IsKind"}     \* only required not to panic
Observers == {"IsNil", "IsPresent", "Or", "Let", "UnwrapInterface", "Type", "ToString", "FlatMap", "FlatMapJust", "FlatMapAssoc",
              "ToMaybe", "Clone"} \cup ConvObs \cup TotalObs

Judge(e) ==
  LET d == e.v  o == e.out IN
  /\ o.k # "panic"                                                     \* no observer panics for any v
  /\ CASE e.obs = "IsNil"      -> o.v = d.absent
       [] e.obs = "IsPresent"  -> o.v = ~d.absent
       [] e.obs = "Or"         -> o.v = (IF d.absent THEN "fallback" ELSE "self")
       [] e.obs = "Let"        -> o.v = (IF d.absent THEN 0 ELSE 1)
       [] e.obs = "UnwrapInterface" -> (o.v = "nil") = d.absent
       [] e.obs = "Type"       -> (o.v = "nil") = d.absent
       [] e.obs = "ToString"   -> d.absent => o.v = "<nil>"
       [] e.obs \in ConvObs    -> (o.v = "nil") = d.absent             \* (zero, ErrConversionNil) exactly when absent
       \* FlatMap(f) is f applied to the wrapped value: one call, with the wrapped value, and f's result is the result
       \* (for an absent v the function may be handed the untyped nil instead of the typed nil pointer)
       [] e.obs = "FlatMap"    -> o.v = <<1, "self", "fresult">> \/ (d.absent /\ o.v = <<1, "nil", "fresult">>)
       \* right identity m.FlatMap(Just) = m: same absence, same value
       [] e.obs = "FlatMapJust" -> o.v = <<d.absent, "self">> \/ (d.absent /\ o.v[1] = TRUE)
       \* associativity: m.FlatMap(f).FlatMap(g) = m.FlatMap(x -> f(x).FlatMap(g)) (both sides projected to the call log)
       [] e.obs = "FlatMapAssoc" -> o.v[1] = o.v[2]
       \* ToMaybe flattens exactly one level of nesting (required when the nested Maybe has the wrapper's type parameter)
       [] e.obs = "ToMaybe"    -> IF d.nest = 0 THEN o.v = <<d.absent, 0>>
                                  ELSE IF d.sameT THEN o.v = <<d.innerAbsent, d.nest - 1>>
                                  ELSE o.v \in {<<d.innerAbsent, d.nest - 1>>, <<FALSE, d.nest>>}
       \* Clone: an equal Maybe; for a non-nil pointer the target is a distinct copy
       [] e.obs = "Clone"      -> IF d.ptr THEN o.v = "equal-distinct" ELSE IF d.absent THEN o.v = "absent" ELSE o.v \in {"equal", "equal-distinct"}
       [] e.obs \in TotalObs   -> TRUE
=============================================================================
