-------------------------------- MODULE Extras --------------------------------
(* Behaviour of the library OUTSIDE the twenty listed properties, specified so that the specification covers the whole
   exported API (COVERAGE.md lists what the checks execute): constructors of the collection types, small predicates,
   the linked list items, blocking Put on a ChannelQueue, the setters / getters of BufferedChannelQueue, the builder
   methods of sort descriptors, the instance-method constructors (Actor.New, Cor.New, MonadIO.Just/New, Publisher.New,
   Handler.GetDefault), the network constructors and the multipart serializer.
   A judged line is [fn, xs (ints), ys (ints), n, out (ints), flag].  A mismatch here is reported as an OBSERVATION of
   the nearest property's check (advisory): no listed property says anything about these calls.                    *)
EXTENDS Integers, Sequences, FiniteSets, TLC
Range(s) == {s[i] : i \in DOMAIN s}
NoDup(s) == \A i, j \in DOMAIN s : i # j => s[i] # s[j]
Zeros(n) == [i \in 1..n |-> 0]
Judge(e) ==
  CASE e.fn \in {"StreamFrom", "StreamFromArray", "StreamI.From", "StreamI.FromArray", "StreamI.FromArrayInt", "StreamI.FromArrayInt8",
                 "StreamI.FromArrayInt16", "StreamI.FromArrayInt32", "StreamI.FromArrayInt64", "StreamI.FromArrayByte",
                 "StreamI.FromArrayFloat32", "StreamI.FromArrayFloat64", "StreamI.FromArrayString", "StreamI.FromArrayBool",
                 "StreamI.FromArrayMaybe"}
        -> e.out = e.xs                                                    \* a stream of exactly the given elements, in order
    [] e.fn \in {"SetFrom", "SetFromArray", "SetI.From", "SetI.FromArray", "SetI.FromMap"}
        -> Range(e.out) = Range(e.xs) /\ NoDup(e.out) /\ e.flag                \* keys = the distinct elements; flag: every value is the zero value
    [] e.fn \in {"StreamSetFrom", "StreamSetFromArray", "StreamSetI.From", "StreamSetI.FromArray", "StreamSetFromInterface", "StreamSetFromArrayInterface"}
        -> Range(e.out) = Range(e.xs) /\ NoDup(e.out) /\ e.flag                \* flag: every key maps to an empty stream
    [] e.fn = "IsNeg"  -> e.flag = (e.n < 0)
    [] e.fn = "IsPos"  -> e.flag = (e.n > 0)
    [] e.fn = "IsZero" -> e.flag = (e.n = 0)
    [] e.fn = "PtrOf"  -> e.out = <<e.n>> /\ e.flag                          \* points to the value; two calls give distinct pointers
    [] e.fn = "DistinctRandom" -> Range(e.out) = Range(e.xs) /\ NoDup(e.out)
    [] e.fn = "CurryNew.IsDone" -> e.out = <<0, 1>>                          \* not done before MarkDone, done after
    [] e.fn = "LinkedListItem" -> e.out = <<Len(e.xs) + Len(e.ys), e.n>> \o e.xs \o e.ys /\ e.flag
                                       \* chain xs, AddLast(chain ys): Count, the value of the node AddLast returned (old last), the walk; flag: Last is the last of ys
    [] e.fn = "DoublyListItem" -> e.out = e.ys \o e.xs /\ e.flag            \* chain xs, AddFirst(chain ys): walk from First; flag: Count/First/Last agree from every node
    [] e.fn = "DoublyListItem.AddLast" -> e.out = e.xs \o e.ys /\ e.flag
    [] e.fn = "ChannelQueue.Put" -> e.out = e.xs                            \* k <= capacity blocking Puts, then k Takes: FIFO
    [] e.fn = "BQ.settings" -> e.out = e.xs                                 \* every Set* is read back by its Get*
    [] e.fn = "Sort.ThenWith" -> e.out = e.xs \o e.ys                        \* builder: old descriptors then the new ones (ids)
    [] e.fn = "Sort.FieldName" -> e.flag
    [] e.fn \in {"Actor.New", "Actor.NewByOptions", "Cor.New", "Cor.NewAndStart", "MonadIO.Just", "MonadIO.New", "Publisher.New",
                 "Handler.GetDefault", "NewSimpleHTTP", "NewSimpleAPI", "GeneralMultipartSerializer"}
        -> e.out = e.xs /\ e.flag                                            \* behaves like the package-level constructor: what goes in comes out
    [] OTHER -> FALSE
=============================================================================
