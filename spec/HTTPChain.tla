------------------------------ MODULE HTTPChain ------------------------------
(* C18 — interceptors run once each, in registration order, before the transport;
   an error aborts; Add/Remove/Clear affect exactly the named interceptors;
   SetHTTPClient never makes the chain run twice or recurse.

   State: ics, the sequence of registered interceptor ids (duplicates allowed).
   One step = one call on a SimpleHTTP:
     [op |-> "Add" | "Remove", xs]   [op |-> "Clear"]   [op |-> "SetClient", c]
     [op |-> "Request", verb, fail]  fail = the set (as a sequence) of interceptor ids that return an error in this request
   with the observation of that call: log (ids invoked in order, then "T" entries for every transport hit),
   err (an error reached the caller), seen (the X-Seen header values the transport saw).  *)
EXTENDS Integers, Sequences, FiniteSets, TLC

Elems(s) == {s[i] : i \in DOMAIN s}
Sel(s, Keep(_)) == LET F[i \in 0..Len(s)] == IF i = 0 THEN <<>> ELSE IF Keep(s[i]) THEN Append(F[i - 1], s[i]) ELSE F[i - 1] IN F[Len(s)]

\* the successor registration list
NextIcs(ics, c) == CASE c.op = "Add"    -> ics \o c.xs
                     [] c.op = "Remove" -> Sel(ics, LAMBDA x : x \notin Elems(c.xs))
                     [] c.op = "Clear"  -> <<>>
                     [] OTHER           -> ics

FirstFail(ics, fail) == IF \E i \in DOMAIN ics : ics[i] \in Elems(fail)
                          THEN CHOOSE i \in DOMAIN ics : ics[i] \in Elems(fail) /\ \A j \in 1..(i - 1) : ics[j] \notin Elems(fail)
                          ELSE 0
\* ids as strings "1", "2", ...; transport hits are logged as "T"
Judge(ics, c, o) ==
  IF c.op # "Request" THEN o.kind = "ok"
  ELSE LET k == FirstFail(ics, c.fail) IN
       /\ o.kind = "ok"                                                        \* no panic, no runaway recursion
       /\ IF k = 0 THEN /\ o.log = ics \o <<0>>                                \* every interceptor once, in order, then the transport (0) once
                        /\ ~o.err
                        /\ o.seen = ics                                        \* their header changes reached the transport
          ELSE /\ o.log = SubSeq(ics, 1, k)                                    \* later interceptors and the transport are not invoked
               /\ o.err                                                        \* and the error is surfaced
\* ---- a nested request: interceptor 9 (once in ics), on a request that does not carry its mark, sends a request of its own through the SAME
\* SimpleHTTP before it returns; the nested request runs the whole chain (9 included, which does not nest again) and reaches the transport, then
\* the outer request continues behind 9.  log: ids in invocation order, 0 = a transport hit; seen: X-Seen values at the transport, both hits.
JudgeNested(ics, o) ==
  LET p == CHOOSE i \in DOMAIN ics : ics[i] = 9 IN
  /\ o.kind = "ok" /\ ~o.err
  /\ o.log = SubSeq(ics, 1, p) \o ics \o <<0>> \o SubSeq(ics, p + 1, Len(ics)) \o <<0>>
  /\ o.seen = ics \o ics
=============================================================================
