------------------------------ MODULE NumConv ------------------------------
(* C02 — Maybe numeric conversions are value-preserving or fail; never silently wrap.

   TLC integers are 32-bit and it has no floats, so numbers are SYMBOLIC POINTS on the
   line cut by the 13 type bounds
     MinI64 < MinI32 < MinI16 < MinI8 < 0 < MaxI8 < MaxU8 < MaxI16 < MaxU16 < MaxI32 < MaxU32 < MaxI64 < MaxU64 :
   an integer point is <<anchor, d>> = anchor + d with d in -1..1; a float point is
   <<anchor, rel>> with rel in {m1, mh, at, ph, p1} (anchor -1, -1/2, +0, +1/2, +1) near the
   small anchors and {below, at, above} (one ulp) near the big ones, where "at" exists only
   when the anchor is exactly representable in that float type (table Exact).  The case
   analysis - which region of which source type must convert, must fail, or may do either -
   is decided here; turning a point into a Go number is the driver's table (math/big).

   Expect(c) \in {"ok", "fail", "either"}:
     ok      must return (the same number, nil)            - "every value that fits converts"
     fail    must return a non-nil error                   - "every value outside the range fails"
     either  the gap between the portable 32-bit range and the native range of int/uint
   A recorded call carries res \in {"same", "different", "err", "panic"} (value class computed
   by the driver against the concretised point) and errk.  Judge(e) is the property.        *)
EXTENDS Integers, Sequences, FiniteSets, TLC

Anchors == <<"MinI64", "MinI32", "MinI16", "MinI8", "Zero", "MaxI8", "MaxU8", "MaxI16", "MaxU16", "MaxI32", "MaxU32", "MaxI64", "MaxU64">>
A(name) == CHOOSE i \in 1..Len(Anchors) : Anchors[i] = name
Pt(name, d) == <<A(name), d>>
Leq(p, q) == p[1] < q[1] \/ (p[1] = q[1] /\ p[2] <= q[2])
In(p, lo, hi) == Leq(lo, p) /\ Leq(p, hi)

IntTypes   == {"int", "int8", "int16", "int32", "int64", "uint", "uint8", "uint16", "uint32", "uint64", "uintptr"}
FloatTypes == {"float32", "float64"}
Targets    == IntTypes \cup FloatTypes \cup {"bool"}

\* native (64-bit platform) range of each integer type
Lo(t) == CASE t \in {"int", "int64"} -> Pt("MinI64", 0) [] t = "int32" -> Pt("MinI32", 0) [] t = "int16" -> Pt("MinI16", 0)
           [] t = "int8" -> Pt("MinI8", 0) [] OTHER -> Pt("Zero", 0)
Hi(t) == CASE t \in {"int", "int64"} -> Pt("MaxI64", 0) [] t = "int32" -> Pt("MaxI32", 0) [] t = "int16" -> Pt("MaxI16", 0)
           [] t = "int8" -> Pt("MaxI8", 0) [] t = "uint8" -> Pt("MaxU8", 0) [] t = "uint16" -> Pt("MaxU16", 0)
           [] t = "uint32" -> Pt("MaxU32", 0) [] OTHER -> Pt("MaxU64", 0)
\* range in which success is REQUIRED (the portable 32-bit range for int / uint)
MustLo(t) == IF t = "int" THEN Pt("MinI32", 0) ELSE Lo(t)
MustHi(t) == IF t = "int" THEN Pt("MaxI32", 0) ELSE IF t = "uint" THEN Pt("MaxU32", 0) ELSE Hi(t)

AllPts == {<<a, d>> : a \in 1..Len(Anchors), d \in -1..1}
SrcPts(t) == {p \in AllPts : In(p, Lo(t), Hi(t))}

\* ---- float source points
Small == {A("MinI16"), A("MinI8"), A("Zero"), A("MaxI8"), A("MaxU8"), A("MaxI16"), A("MaxU16")}
Exact(a, ft) == \/ a \in Small \/ Anchors[a] \in {"MinI64", "MinI32"}
                \/ (ft = "float64" /\ Anchors[a] \in {"MaxI32", "MaxU32"})
FRel(a, ft) == IF a \in Small THEN {"m1", "mh", "at", "ph", "p1"}
               ELSE IF Exact(a, ft) THEN {"below", "at", "above"} ELSE {"below", "above"}
FPts(ft) == UNION {{<<a, r>> : r \in FRel(a, ft)} : a \in 1..Len(Anchors)}
Neg(a) == a < A("Zero")
\* the integer point a float point rounds to (half away from zero); one ulp below/above a big anchor is beyond anchor -/+ 1
\* near 2^31 / 2^32 a float64 ulp is far below 1/2, so one ulp off the bound still rounds to the bound itself
TinyUlp(a, ft) == ft = "float64" /\ Anchors[a] \in {"MinI32", "MaxI32", "MaxU32"}
Round(ft, fp) == LET a == fp[1]  r == fp[2] IN
   IF r \in {"below", "above"} /\ TinyUlp(a, ft) THEN <<a, 0>> ELSE
   CASE r = "m1" -> <<a, -1>> [] r = "p1" -> <<a, 1>> [] r = "at" -> <<a, 0>>
     [] r = "mh" -> IF a > A("Zero") THEN <<a, 0>> ELSE <<a, -1>>
     [] r = "ph" -> IF Neg(a) THEN <<a, 0>> ELSE <<a, 1>>
     [] r = "below" -> <<a, -1>> [] r = "above" -> <<a, 1>>

\* ---- expectation
ExpectInt(p, tgt) == IF In(p, MustLo(tgt), MustHi(tgt)) THEN "ok"
                     ELSE IF ~In(p, Lo(tgt), Hi(tgt)) THEN "fail" ELSE "either"

\* a call: [src, kind, a, d, rel, tgt]; kind: "int" | "float" | "nan" | "pinf" | "ninf" | "negzero" | "huge" | "nhuge" (+-1e300, float64 only)
\*         | "bool" (d = 0/1) | "strint" (decimal text of the integer point) | "strfloat" ("1.5", "1e3", and long decimal strings next to the midpoint of two adjacent float32 / float64 values: the nearest representable value is required, a double rounding picks the other neighbour) | "strbad" ("abc", "")
\*         | "unsupported" (a struct / slice / func ...)
Expect(c) ==
  CASE c.kind = "unsupported" -> "fail"
    [] c.kind = "strbad"      -> "fail"
    [] c.kind = "strfloat"    -> IF c.tgt \in FloatTypes THEN "ok" ELSE "either"      \* Atoi-style parsers may reject "1.5"
    [] c.kind = "bool"        -> "ok"                                                 \* true = 1, false = 0 fits every target
    [] c.kind \in {"nan", "pinf", "ninf"} -> IF c.tgt \in FloatTypes \cup {"bool"} THEN "ok" ELSE "fail"
    \* the largest float64 below 1/2 (and its negative): rounds to 0, fits everywhere ("add 0.5 and truncate" yields 1)
    [] c.kind = "halfbelow" -> "ok"
    [] c.kind = "nhalfbelow" -> IF c.tgt \in {"uint", "uint8", "uint16", "uint32", "uint64", "uintptr"} THEN "either" ELSE "ok"   \* a negative source may be refused by an unsigned target
    \* 2^52 + 1, an odd integer where the float64 spacing is exactly 1 (val + 0.5 is a tie and rounds to the even neighbour), and its negative
    [] c.kind = "odd52"  -> IF c.tgt \in FloatTypes \cup {"bool", "int64", "uint64", "uintptr"} THEN "ok" ELSE IF c.tgt \in {"int", "uint"} THEN "either" ELSE "fail"
    [] c.kind = "nodd52" -> IF c.tgt \in FloatTypes \cup {"bool", "int64"} THEN "ok" ELSE IF c.tgt = "int" THEN "either" ELSE "fail"
    \* numeric strings in float notation beyond the 32-bit ranges ("3e9", "2147483648.0", "-2147483649.0", "1e30", "Inf", "NaN"): a parser may
    \* reject them or convert them correctly, but (Judge) never hands back a different number with a nil error
    [] c.kind = "strfloatbig" -> "either"
    \* decimal integers written with leading zeros or an explicit sign ("010", "-0755", "000123", "+7", "007", "0000", "-00", "08"): the number is the
    \* DECIMAL one (a parser that guesses the base from the prefix reads "010" as 8); a parser may also refuse such text
    [] c.kind = "strlead0"    -> "either"
    [] c.kind = "negzero"     -> "ok"
    [] c.kind \in {"huge", "nhuge"} -> IF c.tgt \in {"float64", "bool"} THEN "ok" ELSE "fail"   \* outside float32 and every integer type
    [] c.kind = "strint" /\ c.tgt = "bool" -> "either"                                 \* "255" is not a boolean literal: an error is fine
    [] c.kind \in {"int", "strint"} -> IF c.tgt \in FloatTypes \cup {"bool"} THEN "ok" ELSE ExpectInt(<<A(c.a), c.d>>, c.tgt)
    [] c.kind = "float"       -> IF c.tgt \in FloatTypes \cup {"bool"} THEN "ok"
                                 ELSE LET p == Round(c.src, <<A(c.a), c.rel>>)
                                          outward == <<A(c.a), IF c.rel = "below" THEN -1 ELSE 1>> IN
                                      \* a value a fraction of an ulp outside the range that rounds onto the bound: either outcome
                                      IF c.rel \in {"below", "above"} /\ TinyUlp(A(c.a), c.src) /\ ExpectInt(p, c.tgt) = "ok" /\ ExpectInt(outward, c.tgt) # "ok"
                                        THEN "either" ELSE ExpectInt(p, c.tgt)

Judge(e) ==
  LET x == Expect(e.case) IN
  /\ e.res # "panic" /\ e.res # "different"              \* never a wrapped / truncated / sign-flipped number with a nil error
  /\ x = "ok"   => e.res = "same"
  /\ x = "fail" => e.res = "err"
  /\ e.case.kind = "unsupported" => e.errk = "unsupported"

\* the region name used for known-finding signatures
Region(c) == IF c.kind \in {"int", "strint"} THEN c.a \o (IF c.d < 0 THEN "-1" ELSE IF c.d > 0 THEN "+1" ELSE "")
             ELSE IF c.kind = "float" THEN c.a \o ":" \o c.rel ELSE c.kind
\* coarse class of the source value (known-finding signatures are per class, so another class in the same pair is still reported)
PointOf(c) == IF c.kind = "float" THEN Round(c.src, <<A(c.a), c.rel>>) ELSE <<A(c.a), c.d>>
Class(c) == IF c.kind \in {"int", "strint", "float"}
              THEN IF Leq(PointOf(c), Pt("Zero", -1)) THEN "negative"
                   ELSE IF c.kind = "float" /\ c.rel \in {"below", "at", "above"} THEN "at-bound" ELSE "non-negative"
              ELSE c.kind
=============================================================================
