------------------------------- MODULE Mailbox -------------------------------
(* C12 (and the mailbox half of C13 / C15) — Handler and Actor mailboxes (handler.go, actor.go).

   Post / Send  = closed check, then a channel send (capacity K; K = 0 is a rendezvous with the
   single run() goroutine); run() ranges over the channel and calls the function / effect; Close =
   set the flag, then close(ch).  One action per step of the code; the window between a sender's
   closed check and its channel send is a state (spc = "send").  Messages are <<sender, index>>. *)
EXTENDS Integers, Sequences, FiniteSets, TLC
CONSTANTS Senders, NMsg, K, WithClose,
          SendRecovers   \* TRUE: the send is recovered (the fixed code: the work is dropped); FALSE: the pinned code (the sender panics)
VARIABLES mb, chClosed, closed, spc, sidx, rpc, rmsg, done, xpc, panicked, begunAfterClose
vars == <<mb, chClosed, closed, spc, sidx, rpc, rmsg, done, xpc, panicked, begunAfterClose>>
M(s, i) == [s |-> s, i |-> i]
NoMsg == [s |-> "-", i |-> 0]
Init == /\ mb = <<>> /\ chClosed = FALSE /\ closed = FALSE
        /\ spc = [s \in Senders |-> "check"] /\ sidx = [s \in Senders |-> 1]
        /\ rpc = "recv" /\ rmsg = NoMsg /\ done = <<>>
        /\ xpc = (IF WithClose THEN "start" ELSE "done") /\ panicked = {} /\ begunAfterClose = {}
SendCheck(s) ==
  /\ spc[s] = "check" /\ sidx[s] <= NMsg
  /\ (IF closed THEN (sidx' = [sidx EXCEPT ![s] = @ + 1] /\ UNCHANGED spc)            \* dropped silently
               ELSE (spc' = [spc EXCEPT ![s] = "send"] /\ UNCHANGED sidx))
  /\ begunAfterClose' = (IF xpc = "done" /\ WithClose THEN begunAfterClose \cup {M(s, sidx[s])} ELSE begunAfterClose)
  /\ UNCHANGED <<mb, chClosed, closed, rpc, rmsg, done, xpc, panicked>>
SendDeliver(s) ==
  /\ spc[s] = "send"
  /\ \/ /\ chClosed /\ ~SendRecovers /\ panicked' = panicked \cup {s} /\ spc' = [spc EXCEPT ![s] = "dead"]   \* send on closed channel
        /\ UNCHANGED <<mb, rpc, rmsg, sidx>>
     \/ /\ chClosed /\ SendRecovers /\ spc' = [spc EXCEPT ![s] = "check"] /\ sidx' = [sidx EXCEPT ![s] = @ + 1]   \* recovered: dropped
        /\ UNCHANGED <<mb, rpc, rmsg, panicked>>
     \/ /\ ~chClosed /\ Len(mb) < K /\ mb' = Append(mb, M(s, sidx[s]))
        /\ spc' = [spc EXCEPT ![s] = "check"] /\ sidx' = [sidx EXCEPT ![s] = @ + 1]
        /\ UNCHANGED <<rpc, rmsg, panicked>>
     \/ /\ ~chClosed /\ mb = <<>> /\ rpc = "recv"                                        \* hand-off to the waiting run()
        /\ rmsg' = M(s, sidx[s]) /\ rpc' = "running"
        /\ spc' = [spc EXCEPT ![s] = "check"] /\ sidx' = [sidx EXCEPT ![s] = @ + 1]
        /\ UNCHANGED <<mb, panicked>>
  /\ UNCHANGED <<chClosed, closed, done, xpc, begunAfterClose>>
Recv == /\ rpc = "recv"
        /\ \/ /\ mb # <<>> /\ rmsg' = Head(mb) /\ mb' = Tail(mb) /\ rpc' = "running"
           \/ /\ mb = <<>> /\ chClosed /\ rpc' = "exited" /\ UNCHANGED <<mb, rmsg>>
        /\ UNCHANGED <<chClosed, closed, spc, sidx, done, xpc, panicked, begunAfterClose>>
RunEnd == /\ rpc = "running" /\ done' = Append(done, rmsg) /\ rmsg' = NoMsg /\ rpc' = "recv"
          /\ UNCHANGED <<mb, chClosed, closed, spc, sidx, xpc, panicked, begunAfterClose>>
CloseFlag == /\ xpc = "start" /\ closed' = TRUE /\ xpc' = "flagged"
             /\ UNCHANGED <<mb, chClosed, spc, sidx, rpc, rmsg, done, panicked, begunAfterClose>>
CloseChan == /\ xpc = "flagged" /\ chClosed' = TRUE /\ xpc' = "done"
             /\ UNCHANGED <<mb, closed, spc, sidx, rpc, rmsg, done, panicked, begunAfterClose>>
Next == (\E s \in Senders : SendCheck(s) \/ SendDeliver(s)) \/ Recv \/ RunEnd \/ CloseFlag \/ CloseChan
Spec == Init /\ [][Next]_vars
FairSpec == Spec /\ WF_vars(Recv \/ RunEnd) /\ \A s \in Senders : WF_vars(SendCheck(s) \/ SendDeliver(s))

Inv_NoPanic == panicked = {}
Inv_Serial == rpc = "running" => rmsg # NoMsg                          \* one run() goroutine: at most one function in flight (by construction)
Inv_AtMostOnce == \A i, j \in 1..Len(done) : i # j => done[i] # done[j]
Inv_PerSenderFIFO == \A i, j \in 1..Len(done) : (i < j /\ done[i].s = done[j].s) => done[i].i < done[j].i
Inv_NothingAfterClose == \A i \in 1..Len(done) : done[i] \notin begunAfterClose
Live_ExactlyOnce == <>[](Len(done) = Cardinality(Senders) * NMsg)
=============================================================================
