--------------------------- MODULE Trace_BQueueAbs ---------------------------
(* C07 verdict oracle: inv/res histories of the real BufferedChannelQueue / ChannelQueue judged against the ABSTRACT
   two-part FIFO the statement talks about: a head part ch (capacity C) and an overflow part pool (at most B
   items), with silent moves of the head of the overflow into the head part when there is room (the loader) -
   no loader, no wake-up channel, no lock.  A recorded call takes effect at some instant between its invocation
   and its response (silent Lin step); the history is accepted iff such instants exist for all calls (TLC searches
   them; acceptance = the high-water mark of consumed lines reaches the end, register 1).
   Lines: reset (C, B, kind), setmax (b: SetBufferSizeMaximum completed), inv/res (thr, op, v, r), quiesce (v = Count()), blockedwait (advisory: Take() calls still blocked, the harness goes on calling Poll), stuck (v = Count() after those repeated calls: must be 0).                                   *)
EXTENDS Json, TLC, Sequences, Integers, FiniteSets, IOUtils
Trace == ndJsonDeserialize(IOEnv.VERIF_TRACE)
VARIABLES l, ch, pool, C, B, pend
vars == <<l, ch, pool, C, B, pend>>
Threads == {"p1", "p2", "p3", "p4", "p5", "p6", "p7", "p8", "c1", "c2", "c3", "c4", "c5", "c6", "c7", "c8", "d"}
Idle == [st |-> "idle", op |-> "-", v |-> 0, r |-> "-", rv |-> 0]
Init == l = 1 /\ ch = <<>> /\ pool = <<>> /\ C = 0 /\ B = 0 /\ pend = [t \in Threads |-> Idle]
Bump == TLCSet(1, IF l + 1 > TLCGet(1) THEN l + 1 ELSE TLCGet(1))
Consume ==
  /\ l <= Len(Trace)
  /\ LET e == Trace[l] IN
     \/ /\ e.ev = "reset" /\ ch' = <<>> /\ pool' = <<>> /\ C' = e.c /\ B' = e.b
        /\ pend' = [t \in Threads |-> Idle]
     \/ /\ e.ev = "inv" /\ pend[e.thr].st = "idle"
        /\ pend' = [pend EXCEPT ![e.thr] = [st |-> "inv", op |-> e.op, v |-> e.v, r |-> "-", rv |-> 0]]
        /\ UNCHANGED <<ch, pool, C, B>>
     \/ /\ e.ev = "res" /\ pend[e.thr].st = "done" /\ pend[e.thr].r = e.r
        /\ (e.r = "ok" /\ e.op \notin {"offer", "put"}) => pend[e.thr].rv = e.v          \* the value handed out
        /\ pend' = [pend EXCEPT ![e.thr] = Idle]
        /\ UNCHANGED <<ch, pool, C, B>>
     \/ /\ e.ev = "quiesce" /\ ch = <<>> /\ pool = <<>> /\ e.v = 0                          \* nothing stranded, Count() = 0
        /\ UNCHANGED <<ch, pool, C, B, pend>>
     \/ /\ e.ev = "blockedwait" /\ UNCHANGED <<ch, pool, C, B, pend>>                    \* advisory marker: Take() calls still blocked, further calls follow
     \/ /\ e.ev = "stuck" /\ e.v = 0                                                    \* repeated calls after the producer stopped must have retrieved everything
        /\ UNCHANGED <<ch, pool, C, B, pend>>
     \/ /\ e.ev = "setmax" /\ B' = e.b /\ UNCHANGED <<ch, pool, C, pend>>                 \* SetBufferSizeMaximum: from now on the new maximum decides (a backlog above it stays)
     \/ /\ e.ev = "count" /\ e.v <= C + B /\ e.v >= 0                                     \* never more than C + B items
        /\ UNCHANGED <<ch, pool, C, B, pend>>
  /\ l' = l + 1 /\ Bump
Done(t, r, rv) == pend' = [pend EXCEPT ![t] = [@ EXCEPT !.st = "done", !.r = r, !.rv = rv]]
Direct == pool = <<>> /\ Len(ch) < C
Lin(t) ==
  /\ pend[t].st = "inv"
  /\ \/ /\ pend[t].op \in {"offer", "put"} /\ Direct
        /\ ch' = Append(ch, pend[t].v) /\ UNCHANGED pool /\ Done(t, "ok", 0)
     \/ /\ pend[t].op \in {"offer", "put"} /\ ~Direct /\ Len(pool) < B
        /\ pool' = Append(pool, pend[t].v) /\ UNCHANGED ch /\ Done(t, "ok", 0)
     \/ /\ pend[t].op \in {"offer", "put"} /\ ~Direct /\ Len(pool) >= B                     \* full only when the overflow is at its maximum
        /\ UNCHANGED <<ch, pool>> /\ Done(t, "full", 0)
     \/ /\ pend[t].op \in {"poll", "take", "taketimeout", "recv"} /\ ch # <<>>
        /\ ch' = Tail(ch) /\ UNCHANGED pool /\ Done(t, "ok", Head(ch))
     \/ /\ pend[t].op = "poll" /\ ch = <<>> /\ UNCHANGED <<ch, pool>> /\ Done(t, "empty", 0)   \* empty only when nothing is immediately available
     \/ /\ pend[t].op \in {"taketimeout", "recv"} /\ UNCHANGED <<ch, pool>> /\ Done(t, "timeout", 0)
  /\ UNCHANGED <<l, C, B>>
Move == /\ pool # <<>> /\ Len(ch) < C /\ ch' = Append(ch, Head(pool)) /\ pool' = Tail(pool)
        /\ UNCHANGED <<l, C, B, pend>>
Next == Consume \/ Move \/ \E t \in Threads : Lin(t)
Spec == Init /\ [][Next]_vars
Accepted == PrintT(<<"HWM", TLCGet(1) - 1, Len(Trace)>>)
ASSUME TLCSet(1, 1)
=============================================================================
