-------------------------- MODULE Trace_SimpleAPIBody --------------------------
(* TLC judges the body-kind runs recorded by `drv c17 bodykinds` with SimpleAPI!JudgeBodyKind. *)
EXTENDS SimpleAPI, Json, IOUtils
TraceB == ndJsonDeserialize(IOEnv.VERIF_TRACE)
VARIABLES lb, nbadb
InitB == lb = 1 /\ nbadb = 0
NextB == /\ lb <= Len(TraceB) /\ nbadb < 60
         /\ lb' = lb + 1
         /\ IF JudgeBodyKind(TraceB[lb]) THEN nbadb' = nbadb ELSE PrintT(<<"MISMATCH", lb, TraceB[lb].kind>>) /\ nbadb' = nbadb + 1
SpecB == InitB /\ [][NextB]_<<lb, nbadb>>
ConsumedB == PrintT(<<"CONSUMED", TLCGet("stats").diameter - 1, Len(TraceB)>>)
=============================================================================
