-------------------------- MODULE Trace_DequeLinear --------------------------
(* C06, long LINEAR histories (tens of thousands of calls with thousands of pending items) of the real LinkedListQueue judged
   against Deque.tla: the same Explains as Trace_Deque, but only the current abstract deque is kept (the tree-shaped validator
   keeps one deque per depth, which is quadratic for histories this long).  A line with d = 1 starts a new history; after a
   mismatch the rest of that history is skipped.                                                                          *)
EXTENDS Json, TLC, IOUtils, Sequences, Integers
D == INSTANCE Deque WITH Val <- {}, dq <- 0, dres <- 0
Trace == ndJsonDeserialize(IOEnv.VERIF_TRACE)
VARIABLES l, q, skip, nbad
vars == <<l, q, skip, nbad>>
Init == l = 1 /\ q = <<>> /\ skip = FALSE /\ nbad = 0
Explains(s, e) ==
  LET st == D!DequeStep(s, e.op, e.arg) IN
  /\ e.r = st.r
  /\ e.peek = D!DequeStep(st.q, "Peek", 0).r
  /\ e.count = Len(st.q)
Next ==
  /\ l <= Len(Trace) /\ nbad < 40
  /\ l' = l + 1
  /\ LET e == Trace[l]
         s == IF e.d = 1 THEN <<>> ELSE q IN
     IF skip /\ e.d # 1 THEN UNCHANGED <<q, skip, nbad>>
     ELSE IF Explains(s, e) THEN q' = D!DequeStep(s, e.op, e.arg).q /\ skip' = FALSE /\ nbad' = nbad
     ELSE PrintT(<<"MISMATCH", l>>) /\ skip' = TRUE /\ nbad' = nbad + 1 /\ q' = s
Spec == Init /\ [][Next]_vars
Consumed == PrintT(<<"CONSUMED", TLCGet("stats").diameter - 1, Len(Trace)>>)
=============================================================================
