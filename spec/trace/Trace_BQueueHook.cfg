SPECIFICATION TSpec
CONSTANTS
  C <- TC
  B <- TB
  Producers = {"p1", "p2", "p3"}
  Consumers = {"c1", "c2", "c3"}
  NOffer = 1000
  NTake = 1000
  Kinds = {"poll", "ttake"}
  WithWaiters = FALSE
  OneShot = FALSE
  LoaderFreeOnly = FALSE
  WithClose = FALSE
  GuardedClose = TRUE
POSTCONDITION TraceAccepted
CHECK_DEADLOCK FALSE
