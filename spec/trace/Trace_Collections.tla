------------------------- MODULE Trace_Collections -------------------------
(* C03, direction B: calls recorded from the real helpers (random, larger inputs;
   one line = {"case": call, "ty", "nil", "out": projected real outcome}) are
   accepted iff every logged outcome is an admissible outcome of Collections.tla. *)
EXTENDS Collections, Json, IOUtils
Trace == ndJsonDeserialize(IOEnv.VERIF_TRACE)
MaxBad == 60
VARIABLES l, nbad
Init == l = 1 /\ nbad = 0
Admissible(e) == \E o \in Outcomes(e.case) : o.k = e.out.k /\ o.v = e.out.v
Next == /\ l <= Len(Trace) /\ nbad < MaxBad
        /\ l' = l + 1
        /\ IF Admissible(Trace[l]) THEN nbad' = nbad
           ELSE PrintT(<<"MISMATCH", l>>) /\ nbad' = nbad + 1
Spec == Init /\ [][Next]_<<l, nbad>>
Consumed == PrintT(<<"CONSUMED", TLCGet("stats").diameter - 1, Len(Trace)>>)
=============================================================================
