--------------------------- MODULE Trace_ShutdownAbs ---------------------------
(* C15: one line per shutdown scenario executed on the real objects.  A scenario = one closing goroutine (or a finishing
   coroutine) against users of the same object, either scripted at hook grain (the user is parked at the hook right after
   its closed/done check, the close runs to completion, the user is released: the schedule of TLC's counterexamples in
   Mailbox / BQueue / WorkerPool / Cor) or free-running.  Observations per line:
     panics        number of user calls that panicked (recovered by the harness)
     handlerOther  panic-handler invocations that are not a job's own panic
     blocked       a call that had not returned after the grace although the close had completed
     afterClose    results of calls that BEGAN after the close returned: each must be "closed" / "dropped" / "done"
     lateCallbacks user callbacks that ran for work submitted after the close returned
   The property: all zero / all reporting the close.                                                                   *)
EXTENDS Integers, Sequences, FiniteSets, TLC, Json, IOUtils
Trace == ndJsonDeserialize(IOEnv.VERIF_TRACE)
MaxBad == 80
Why(r) ==
  IF r.panics > 0 THEN "a concurrent user panicked: " \o r.detail
  ELSE IF r.handlerOther > 0 THEN "the pool's panic handler was invoked for something that is not a job's own panic"
  ELSE IF r.blocked THEN "deadlock: " \o r.detail
  ELSE IF \E j \in DOMAIN r.afterClose : r.afterClose[j] \notin {"closed", "dropped", "done"} THEN "a call that began after the close returned did not report it"
  ELSE IF r.lateCallbacks > 0 THEN "a user callback ran for work submitted after the close returned"
  ELSE "ok"
VARIABLES l, nbad
Init == l = 1 /\ nbad = 0
Next == /\ l <= Len(Trace) /\ nbad < MaxBad
        /\ l' = l + 1
        /\ LET w == Why(Trace[l]) IN IF w = "ok" THEN nbad' = nbad ELSE PrintT(<<"MISMATCH", l, w>>) /\ nbad' = nbad + 1
Spec == Init /\ [][Next]_<<l, nbad>>
Consumed == PrintT(<<"CONSUMED", TLCGet("stats").diameter - 1, Len(Trace)>>)
=============================================================================
