---------------------------- MODULE Trace_Deque ----------------------------
(* C06, direction B: histories recorded from the real LinkedListQueue are
   accepted iff every call returned what the ideal deque (Deque.tla) returns.

   The recorder walks the tree of all operation histories depth first; one
   trace line is one tree node  {"d": depth, "op", "arg", "r", "peek", "count"}:
   op applied to the queue state at depth d-1 of the current path gave result r,
   after which Peek returned peek and Count returned count.  stack[d] is the
   abstract deque at depth d-1 of the current path, so a line at depth d
   truncates the stack to d and pushes the successor (a linear history is the
   special case d = 1, 2, 3, ...; a new history starts again at d = 1).

   A line that the deque does not explain is reported ("MISMATCH", line) and its
   subtree is skipped (the real object is off the rails there), so one TLC run
   lists every minimal failing history.                                       *)
EXTENDS Json, TLC, IOUtils, Sequences, Integers
D == INSTANCE Deque WITH Val <- {}, dq <- 0, dres <- 0

Trace == ndJsonDeserialize(IOEnv.VERIF_TRACE)
MaxBad == 40

VARIABLES l, stack, skip, nbad
vars == <<l, stack, skip, nbad>>

Init == l = 1 /\ stack = << <<>> >> /\ skip = 0 /\ nbad = 0

Explains(q, e) ==
  LET st == D!DequeStep(q, e.op, e.arg) IN
  /\ e.r = st.r
  /\ e.peek = D!DequeStep(st.q, "Peek", 0).r
  /\ e.count = Len(st.q)

Next ==
  /\ l <= Len(Trace) /\ nbad < MaxBad
  /\ l' = l + 1
  /\ LET e == Trace[l] IN
     IF skip > 0 /\ e.d > skip
       THEN UNCHANGED <<stack, skip, nbad>>                       \* inside a rejected subtree
       ELSE IF e.d <= Len(stack) /\ Explains(stack[e.d], e)
         THEN /\ stack' = Append(SubSeq(stack, 1, e.d), D!DequeStep(stack[e.d], e.op, e.arg).q)
              /\ skip' = 0 /\ nbad' = nbad
         ELSE /\ PrintT(<<"MISMATCH", l>>)
              /\ stack' = SubSeq(stack, 1, IF e.d <= Len(stack) THEN e.d ELSE Len(stack))
              /\ skip' = e.d /\ nbad' = nbad + 1

Spec == Init /\ [][Next]_vars
\* every line was consumed (the run is deterministic: diameter = lines + 1)
Consumed == PrintT(<<"CONSUMED", TLCGet("stats").diameter - 1, Len(Trace)>>)
=============================================================================
