------------------------- MODULE Trace_WorkerPoolHook -------------------------
(* Binding of the IMPLEMENTATION-SHAPED model WorkerPool.tla to the code: a real DefaultWorkerPool is run with the verif hook
   recording every wp.* hook point (sequence under the recorder's mutex; role of the goroutine: "sub" the one submitter,
   "spawn" the library's spawn loop, "x" the closer, "w<k>" the k-th worker goroutine seen; for the two hook points inside the
   pool's lock - wp.gen.counted and wp.worker.exit.post - workerCount and workerBusy), plus the harness's own lines (the result
   of every Schedule, start / end / panic of every job, every panic-handler call).  WorkerPool's actions are reused one for one:

     wp.gen.counted      -> SpawnGen adding a worker   (inside the pool's lock: the step IS the line; counters compared)
     wp.worker.exit.post -> WExit                       (inside the pool's lock: the step IS the line; counters compared)
     wp.worker.expired   -> WExpire                     (the idle timer fired: reads nothing shared)
     every other line    -> the thread must be at the program counter the line stands for (schedule.checked: after SubCheck;
                            schedule.offered: after SubOffer; res: the model's result for that Schedule; spawn.woken / decided;
                            worker.loop: after WLoop; worker.got: after WTake; start / end / panic of job j: running j; jobdone;
                            handler for job j: exiting after a panic of j; exit.pre; close.flagged; closed)

   The steps themselves are SILENT steps (the original actions, l unchanged) wherever the code reads or changes lock-free state
   BEFORE the hook line can be written - the closed flag read by Schedule / the worker loop / the spawn loop, the enqueue and
   the channel receives, the wake-up token - because another thread's line may be written in between (ordering by the hook
   line would be wrong); so are the steps without any hook (deferred wake-up of Schedule, loop bounds and refused iterations
   of trySpawn, busy++ / busy--, the expiry decision, the wake-up after a panic, the queue's Close).
   A worker goroutine is
   bound to a model worker slot at its first line.  Constants come from the trace's first line.  Acceptance: the high-water
   mark of consumed lines reaches the end; a rejection is MODEL-DRIFT (advisory).                                          *)
EXTENDS WorkerPool, Json, IOUtils
Trace == ndJsonDeserialize(IOEnv.VERIF_TRACE)
H == Trace[1]
TNJobs == H.njobs
TPanic == {H.panic[i] : i \in DOMAIN H.panic}
TMaxW == H.max
TStandby == H.standby
TBatch == H.batch
TQCap == H.qcap
TWithExpiry == H.expiry
VARIABLES l, bound, hseen
tvars == <<vars, l, bound, hseen>>
TInit == Init /\ l = 1 /\ bound = [i \in W |-> "-"] /\ hseen = {}
Bump == TLCSet(1, IF l + 1 > TLCGet(1) THEN l + 1 ELSE TLCGet(1))
Stutter == UNCHANGED vars
Slot(t) == {i \in W : bound[i] = t}
Keep == UNCHANGED <<bound, hseen>>
\* ---- lines that assert where a thread is (the model state does not change)
IsHook(e, pt) == e.ev = "hook" /\ e.pt = pt
Fresh(pcs) == {i \in W : bound[i] = "-" /\ wpc[i] \in pcs}
AtOK(e) ==
  \/ IsHook(e, "wp.schedule.checked") /\ subpc = "offer" /\ sidx = e.j
  \/ IsHook(e, "wp.schedule.offered") /\ subpc = "notify" /\ sidx = e.j
  \/ e.ev = "res" /\ subpc = "check" /\ Len(sres) = e.j /\ sres[e.j] = e.r /\ sidx = e.j + 1
  \/ IsHook(e, "wp.spawn.woken") /\ spc = "woken"
  \/ IsHook(e, "wp.spawn.decided") /\ spc = "decided"
  \/ IsHook(e, "wp.worker.loop") /\ IF Slot(e.thr) = {} THEN Fresh({"select"}) # {} ELSE \E i \in Slot(e.thr) : wpc[i] = "select"
  \/ IsHook(e, "wp.worker.got") /\ \E i \in Slot(e.thr) : wpc[i] \in {"got", "loop"}
  \/ e.ev = "start" /\ \E i \in Slot(e.thr) : wpc[i] = "running" /\ wjob[i] = e.j
  \/ e.ev \in {"end", "panic"} /\ \E i \in Slot(e.thr) : wpc[i] = "running" /\ wjob[i] = e.j /\ ((e.ev = "panic") <=> (e.j \in PanicJobs))
  \/ IsHook(e, "wp.worker.jobdone") /\ \E i \in Slot(e.thr) : wpc[i] = "loop" /\ ~wisbusy[i]
  \/ e.ev = "handler" /\ \E i \in Slot(e.thr) : wpc[i] = "exit" /\ wpanic[i] /\ wjob[i] = e.j
  \/ IsHook(e, "wp.worker.exit.pre")
       /\ IF Slot(e.thr) = {} THEN \E i \in Fresh({"exit"}) : ~wpanic[i]      \* a worker created around Close leaves before its first loop line
          ELSE \E i \in Slot(e.thr) : wpc[i] = "exit" /\ (wpanic[i] <=> e.thr \in hseen)
  \/ IsHook(e, "wp.close.flagged") /\ xpc = "flagged"
  \/ e.ev = "closed" /\ xpc = "done"
\* the first line of a worker goroutine binds it to a model worker that is where the line says (unbound model workers are interchangeable)
Bind(e) == IF e.ev = "hook" /\ e.pt \in {"wp.worker.loop", "wp.worker.exit.pre"} /\ Slot(e.thr) = {}
             THEN \E i \in Fresh(IF e.pt = "wp.worker.loop" THEN {"select"} ELSE {"exit"}) :
                     /\ (e.pt = "wp.worker.exit.pre" => ~wpanic[i]) /\ bound' = [bound EXCEPT ![i] = e.thr]
             ELSE UNCHANGED bound
Event ==
  /\ l <= Len(Trace)
  /\ LET e == Trace[l] IN
     \/ /\ e.ev = "reset" /\ l = 1 /\ Stutter /\ Keep
     \/ /\ e.ev = "reset" /\ l > 1                                   \* next round on a fresh pool
        /\ queue' = <<>> /\ qClosed' = FALSE /\ tok' = 0 /\ closed' = FALSE /\ wcount' = 0 /\ wbusy' = 0
        /\ spc' = "idle" /\ sexp' = 0 /\ sleft' = 0
        /\ wpc' = [i \in W |-> "absent"] /\ wjob' = [i \in W |-> 0] /\ wisbusy' = [i \in W |-> FALSE]
        /\ wpanic' = [i \in W |-> FALSE] /\ wleft' = [i \in W |-> FALSE]
        /\ subpc' = "check" /\ sidx' = 1 /\ sres' = <<>>
        /\ ran' = [j \in Jobs |-> 0] /\ handler' = 0 /\ maxrun' = 0 /\ xpc' = "start"
        /\ bound' = [i \in W |-> "-"] /\ hseen' = {}
     \/ /\ AtOK(e) /\ Stutter /\ Bind(e)
        /\ hseen' = IF e.ev = "handler" THEN hseen \cup {e.thr} ELSE hseen
     \* ---- steps that ARE their line
     \/ /\ IsHook(e, "wp.gen.counted") /\ SpawnGen /\ wcount' = wcount + 1 /\ Keep      \* inside the pool's lock
        /\ e.wc = wcount' /\ e.wb = wbusy
     \/ /\ IsHook(e, "wp.worker.exit.post") /\ Keep                                      \* inside the pool's lock
        /\ \E i \in Slot(e.thr) : WExit(i)
        /\ e.wc = wcount' /\ e.wb = wbusy'
     \/ /\ IsHook(e, "wp.worker.expired") /\ (\E i \in Slot(e.thr) : WExpire(i)) /\ Keep
  /\ l' = l + 1 /\ Bump
\* silent steps: the model's own actions that leave no line.  A line that only asserts where its thread is commutes with the
\* silent steps of every other thread and must precede the next step of its own, so while such a line is consumable nothing
\* else is tried (this is a reduction of the search, not of the accepted traces).
SWExit2(i) == WExit2(i) /\ bound' = [bound EXCEPT ![i] = "-"] /\ hseen' = hseen \ {bound[i]}
\* Every line carries, per thread of its round, the index of that thread's next line (nx, computed by the recorder; 0: none).
\* A thread whose next line is already satisfied waits for it: every cycle of a thread's program counter passes a line, so a
\* further step of its own could only invalidate that line (again a reduction of the search only).
NextLine(t) == LET nx == Trace[l].nx IN IF t \in DOMAIN nx THEN nx[t] ELSE 0
Waits(t) == LET k == NextLine(t) IN
            /\ k > 0
            /\ \/ AtOK(Trace[k])
               \/ IsHook(Trace[k], "wp.worker.expired") /\ \E i \in Slot(t) : wpc[i] = "select"
Silent ==
  /\ l <= Len(Trace) /\ UNCHANGED l
  /\ ~AtOK(Trace[l])
  /\ \/ ~Waits("sub") /\ Sub /\ Keep
     \/ /\ ~Waits("spawn") /\ Keep
        /\ SpawnWake \/ SpawnDecide \/ SpawnInit \/ (SpawnGen /\ wcount' = wcount)
     \/ ~Waits("x") /\ (CloseFlag \/ CloseQueue) /\ Keep
     \/ \E i \in W : /\ bound[i] = "-" \/ ~Waits(bound[i])
                     /\ \/ (WLoop(i) \/ WTake(i) \/ WExpiryCheck(i) \/ WStart(i) \/ WEnd(i)) /\ Keep
                        \/ SWExit2(i)
TNext == Event \/ Silent
TSpec == TInit /\ [][TNext]_tvars
TraceAccepted == PrintT(<<"HWM", TLCGet(1) - 1, Len(Trace)>>)
\* early exit: the first behaviour that consumes the whole trace ends the search ("violated" = the trace is accepted)
NotDone == l <= Len(Trace)
ASSUME TLCSet(1, 1)
=============================================================================
