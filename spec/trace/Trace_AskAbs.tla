---------------------------- MODULE Trace_AskAbs ----------------------------
(* C13: runs of real askers against a real actor whose effect is harness code.  F(msg) = 10 * msg + 1.
   Events (one global sequence):
     reset
     ask    req, msg, mode ("once" | "timeout" | "channel"), class ("immediate" | "prompt" | "never" | "late" | "verylate": a late reply produced 15 timeouts after the asker gave up | "boundary": the reply is produced within microseconds of the deadline)
     res    req, val, err ("nil" | "timeout" | "lost")           the asker's call returned / its channel delivered
     reply  req, outcome ("ok" | "panic")                        the actor's Reply returned / panicked
     probe  ok                                                   after the run a fresh request was still answered (and every ask call has returned by then)
   Rules: a result with err = nil carries F(msg) of the SAME request; classes immediate / prompt must get (F(msg), nil);
   class never / late must get (zero, timeout); no Reply ever panics; the probe is answered.                         *)
EXTENDS Integers, Sequences, FiniteSets, TLC, Json, IOUtils
Trace == ndJsonDeserialize(IOEnv.VERIF_TRACE)
MaxBad == 60
F(m) == 10 * m + 1
VARIABLES l, asked, nbad, pending
vars == <<l, asked, nbad, pending>>
Init == l = 1 /\ asked = <<>> /\ nbad = 0 /\ pending = {}          \* asked: req -> [msg, class, mode]  (as a sequence indexed by req)
Bad(why) == PrintT(<<"MISMATCH", l, why>>) /\ nbad' = nbad + 1 /\ UNCHANGED asked
Next ==
  /\ l <= Len(Trace) /\ nbad < MaxBad
  /\ l' = l + 1
  /\ pending' = (LET e == Trace[l] IN CASE e.ev = "reset" -> {} [] e.ev = "ask" -> pending \cup {e.req} [] e.ev = "res" -> pending \ {e.req} [] OTHER -> pending)
  /\ LET e == Trace[l] IN
     CASE e.ev = "reset" -> asked' = [r \in 1..e.n |-> [msg |-> 0, class |-> "-", mode |-> "-"]] /\ nbad' = nbad
       [] e.ev = "ask"   -> asked' = [asked EXCEPT ![e.req] = [msg |-> e.msg, class |-> e.class, mode |-> e.mode]] /\ nbad' = nbad
       [] e.ev = "res"   -> LET q == asked[e.req] IN
            IF e.err = "nil" /\ e.val # F(q.msg) THEN Bad("answer of another request (or a wrong value)")
            ELSE IF q.class \in {"immediate", "prompt"} /\ e.err # "nil" THEN Bad("the actor answered in time but the asker got " \o e.err)
            ELSE IF q.class \in {"never", "late", "verylate"} /\ ~(e.err = "timeout" /\ e.val = 0) THEN Bad("expected (zero, ErrActorAskTimeout)")
            ELSE IF q.class = "boundary" /\ ~(e.err = "nil" \/ (e.err = "timeout" /\ e.val = 0)) THEN Bad("a reply at the deadline: neither the reply nor (zero, ErrActorAskTimeout) but " \o e.err)
            ELSE UNCHANGED <<asked, nbad>>
       [] e.ev = "reply" -> IF e.outcome # "ok" THEN Bad("Reply panicked: " \o asked[e.req].class) ELSE UNCHANGED <<asked, nbad>>
       [] e.ev = "probe" -> IF pending \ {Len(asked)} # {}                        \* (request Len(asked) is the probe's own)
                              THEN Bad("an ask call never returned (class " \o asked[CHOOSE r \in pending \ {Len(asked)} : TRUE].class \o ")")
                            ELSE IF ~e.ok THEN Bad("the actor stopped serving requests") ELSE UNCHANGED <<asked, nbad>>
       [] OTHER -> UNCHANGED <<asked, nbad>>
Spec == Init /\ [][Next]_vars
Consumed == PrintT(<<"CONSUMED", TLCGet("stats").diameter - 1, Len(Trace)>>)
=============================================================================
