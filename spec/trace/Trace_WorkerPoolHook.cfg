SPECIFICATION TSpec
CONSTANTS
  NJobs <- TNJobs
  PanicJobs <- TPanic
  MaxW <- TMaxW
  Standby <- TStandby
  Batch <- TBatch
  QCap <- TQCap
  WN = 6
  WithExpiry <- TWithExpiry
  WithClose = TRUE
  QueueGuardedClose = TRUE
  AtomicExpiry = TRUE
  LeaverPolls = FALSE
  NotifyFirst = FALSE
  NotifyOnExit = "panic"
INVARIANT NotDone
POSTCONDITION TraceAccepted
CHECK_DEADLOCK FALSE
