---------------------------- MODULE Trace_LinQueue ----------------------------
(* C08 verdict oracle: inv/res histories of ConcurrentQueue (FIFO) / ConcurrentStack (LIFO) must be linearisable:
   every call takes effect at one instant between its invocation and its response, on an ideal unbounded
   queue / stack.  Lines: reset (kind "queue" | "stack"), inv/res (thr, op, v, r with r in ok | empty | panic), quiesce
   (the structure has been drained: it must be empty).  Acceptance: high-water mark of consumed lines (register 1). *)
EXTENDS Json, TLC, Sequences, Integers, FiniteSets, IOUtils
Trace == ndJsonDeserialize(IOEnv.VERIF_TRACE)
VARIABLES l, q, kind, pend
vars == <<l, q, kind, pend>>
Threads == {"p1", "p2", "p3", "p4", "c1", "c2", "c3", "c4", "d"}
Idle == [st |-> "idle", op |-> "-", v |-> 0, r |-> "-", rv |-> 0]
Init == l = 1 /\ q = <<>> /\ kind = "queue" /\ pend = [t \in Threads |-> Idle]
Bump == TLCSet(1, IF l + 1 > TLCGet(1) THEN l + 1 ELSE TLCGet(1))
Consume ==
  /\ l <= Len(Trace)
  /\ LET e == Trace[l] IN
     \/ /\ e.ev = "reset" /\ q' = <<>> /\ kind' = e.kind /\ pend' = [t \in Threads |-> Idle]
     \/ /\ e.ev = "inv" /\ pend[e.thr].st = "idle"
        /\ pend' = [pend EXCEPT ![e.thr] = [st |-> "inv", op |-> e.op, v |-> e.v, r |-> "-", rv |-> 0]] /\ UNCHANGED <<q, kind>>
     \/ /\ e.ev = "res" /\ pend[e.thr].st = "done" /\ pend[e.thr].r = e.r             \* a panic is never a result the ideal structure gives
        /\ (e.r = "ok" /\ e.op \in {"poll", "take", "pop"}) => pend[e.thr].rv = e.v
        /\ pend' = [pend EXCEPT ![e.thr] = Idle] /\ UNCHANGED <<q, kind>>
     \/ /\ e.ev = "quiesce" /\ q = <<>> /\ UNCHANGED <<q, kind, pend>>
  /\ l' = l + 1 /\ Bump
Done(t, r, rv) == pend' = [pend EXCEPT ![t] = [@ EXCEPT !.st = "done", !.r = r, !.rv = rv]]
Lin(t) ==
  /\ pend[t].st = "inv"
  /\ \/ /\ pend[t].op \in {"offer", "put", "push"} /\ q' = Append(q, pend[t].v) /\ Done(t, "ok", 0)
     \/ /\ pend[t].op \in {"poll", "take"} /\ q # <<>> /\ q' = Tail(q) /\ Done(t, "ok", Head(q))
     \/ /\ pend[t].op = "pop" /\ q # <<>> /\ q' = SubSeq(q, 1, Len(q) - 1) /\ Done(t, "ok", q[Len(q)])
     \/ /\ pend[t].op \in {"poll", "take", "pop"} /\ q = <<>> /\ UNCHANGED q /\ Done(t, "empty", 0)
  /\ UNCHANGED <<l, kind>>
Next == Consume \/ \E t \in Threads : Lin(t)
Spec == Init /\ [][Next]_vars
Accepted == PrintT(<<"HWM", TLCGet(1) - 1, Len(Trace)>>)
ASSUME TLCSet(1, 1)
=============================================================================
