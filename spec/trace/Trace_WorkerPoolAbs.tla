-------------------------- MODULE Trace_WorkerPoolAbs --------------------------
(* C09: one line per run of a real DefaultWorkerPool over a real BufferedChannelQueue:
     max (workerSizeMaximum), events in real-time order:
       [ev |-> "sched", id, r]        Schedule / ScheduleWithTimeout / Invoke returned r ("ok" | "full" | "closed" | "timeout")
       [ev |-> "start" | "end", id]   job id begins / ends (a panicking job has no "end" but a "panic")
       [ev |-> "panic", id]           job id panicked
       [ev |-> "stalehandler", id]    a panic handler that SetPanicHandler had replaced earlier was called
       [ev |-> "closeret"]            Close() has returned
       [ev |-> "starved", id]         a panic handler scheduled job id and waited 3 s for it in vain (the pool did nothing while the handler ran)
       [ev |-> "siblinghandler", id]  the panic handler of ANOTHER pool (alive next to this one, configured differently) was called
       [ev |-> "handler", id]         the panic handler was called (id = the job named in the panic value, 0 = something else)
     quiesced (the run waited for quiescence with the pool left open), accepted / ran at quiescence;
     prealloc (PreAllocWorkerSize argument, 0 = not called).
   The abstract pool: a bag of accepted jobs, at most max running, each leaves the bag exactly once.            *)
EXTENDS Integers, Sequences, FiniteSets, TLC, Json, IOUtils
Trace == ndJsonDeserialize(IOEnv.VERIF_TRACE)
MaxBad == 60
Ids(E, ev) == {E[j].id : j \in {h \in DOMAIN E : E[h].ev = ev}}
CountEv(E, ev, id) == Cardinality({j \in DOMAIN E : E[j].ev = ev /\ E[j].id = id})
Accepted(E) == {E[j].id : j \in {h \in DOMAIN E : E[h].ev = "sched" /\ E[h].r = "ok"}}
Unknown(E) == {E[j].id : j \in {h \in DOMAIN E : E[h].ev = "sched" /\ E[h].r = "unknown"}}    \* Invoke() reports nothing: the job may or may not have been accepted
Rejected(E) == {E[j].id : j \in {h \in DOMAIN E : E[h].ev = "sched" /\ E[h].r \notin {"ok", "unknown"}}}
Running(E, k) == Cardinality({j \in 1..k : E[j].ev = "start"}) - Cardinality({j \in 1..k : E[j].ev \in {"end", "panic"}})
Why(r) ==
  LET E == r.events IN
  IF r.kind # "ok" THEN r.kind
  ELSE IF \E id \in Ids(E, "start") : CountEv(E, "start", id) > 1 THEN "a job was executed twice"
  ELSE IF Ids(E, "start") \cap Rejected(E) # {} THEN "a rejected job was run"
  ELSE IF \E k \in DOMAIN E : Running(E, k) > r.max THEN "more than workerSizeMaximum jobs executing at one instant"
  ELSE IF Ids(E, "stalehandler") # {} THEN "a panic was reported to a panic handler that had been replaced before the job was submitted"
  ELSE IF Ids(E, "starved") # {} THEN "an accepted job could not run while the panic handler of another job was still running"
  ELSE IF Ids(E, "siblinghandler") # {} THEN "a panic of this pool's job was reported to the panic handler of another pool"
  ELSE IF \E id \in Ids(E, "panic") : CountEv(E, "handler", id) # 1 THEN "a panicking job was not reported exactly once to the panic handler"
  ELSE IF \E id \in Ids(E, "handler") : id \notin Ids(E, "panic") THEN "the panic handler was invoked for something that is not a job's own panic"
  ELSE IF r.quiesced /\ ~(Accepted(E) \subseteq Ids(E, "start")) THEN "an accepted job never ran although the pool was left open"
  ELSE IF ~(Ids(E, "start") \subseteq Accepted(E) \cup Unknown(E)) THEN "a job ran that was never submitted successfully"
  ELSE IF \E j, k \in DOMAIN E : j < k /\ E[j].ev = "closeret" /\ E[k].ev = "sched" /\ E[k].r \notin {"closed", "unknown"}
         THEN "a submission made after Close had returned was not refused with ErrWorkerPoolIsClosed"
  ELSE "ok"
VARIABLES l, nbad
Init == l = 1 /\ nbad = 0
Next == /\ l <= Len(Trace) /\ nbad < MaxBad
        /\ l' = l + 1
        /\ LET w == Why(Trace[l]) IN IF w = "ok" THEN nbad' = nbad ELSE PrintT(<<"MISMATCH", l, w>>) /\ nbad' = nbad + 1
Spec == Init /\ [][Next]_<<l, nbad>>
Consumed == PrintT(<<"CONSUMED", TLCGet("stats").diameter - 1, Len(Trace)>>)
=============================================================================
