----------------------------- MODULE Trace_Extras -----------------------------
(* TLC judges the calls recorded by `drv extras` with Extras!Judge. *)
EXTENDS Extras, Json, IOUtils
Trace == ndJsonDeserialize(IOEnv.VERIF_TRACE)
VARIABLES l, nbad
Init == l = 1 /\ nbad = 0
Next == /\ l <= Len(Trace) /\ nbad < 60
        /\ l' = l + 1
        /\ IF Judge(Trace[l]) THEN nbad' = nbad ELSE PrintT(<<"MISMATCH", l, Trace[l].fn>>) /\ nbad' = nbad + 1
Spec == Init /\ [][Next]_<<l, nbad>>
Consumed == PrintT(<<"CONSUMED", TLCGet("stats").diameter - 1, Len(Trace)>>)
=============================================================================
