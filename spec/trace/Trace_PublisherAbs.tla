-------------------------- MODULE Trace_PublisherAbs --------------------------
(* C10: one line per run of a real Publisher:  [nsubs, handler (SubscribeOn used), mapped (subscribers sit on a
   publisher derived with Map(fn), fn(v) = 2*v), events]  with events in real-time order (one global sequence):
     [ev |-> "sub" | "unsub" | "pub", ph |-> "inv" | "res", id, v, thr]   id = subscription number / publish call number
     [ev |-> "onnext", ph |-> "-", id |-> subscription, v |-> value delivered, thr]
   The state of the statement is only the subscription set over time; the rules are its four delivery rules.     *)
EXTENDS Integers, Sequences, FiniteSets, TLC, Json, IOUtils
Trace == ndJsonDeserialize(IOEnv.VERIF_TRACE)
MaxBad == 60
Pos(E, ev, ph, id) == LET S == {j \in DOMAIN E : E[j].ev = ev /\ E[j].ph = ph /\ E[j].id = id} IN
                      IF S = {} THEN 0 ELSE CHOOSE j \in S : \A h \in S : j <= h
Calls(E) == {E[j].id : j \in {h \in DOMAIN E : E[h].ev = "pub" /\ E[h].ph = "inv"}}
ValueOf(E, k) == E[Pos(E, "pub", "inv", k)].v
Deliveries(E, r, k, s) == {j \in DOMAIN E : E[j].ev = "onnext" /\ E[j].id = s /\ E[j].v = (IF r.mapped THEN 2 * ValueOf(E, k) ELSE ValueOf(E, k))}
Why(r) ==
  LET E == r.events IN
  IF r.kind # "ok" THEN r.kind
  ELSE IF \E k \in Calls(E), s \in 1..r.nsubs : Cardinality(Deliveries(E, r, k, s)) > 1 THEN "a subscription was invoked twice for one value"
  ELSE IF \E k \in Calls(E), s \in 1..r.nsubs :
            LET p0 == Pos(E, "pub", "inv", k)  p1 == Pos(E, "pub", "res", k)
                sr == Pos(E, "sub", "res", s)  ui == Pos(E, "unsub", "inv", s) IN
            /\ sr > 0 /\ sr < p0 /\ p1 > 0 /\ (ui = 0 \/ ui > p1)                  \* registered before the call, still registered when it ends
            /\ Cardinality(Deliveries(E, r, k, s)) # 1
       THEN "a live subscription was skipped"
  ELSE IF \E k \in Calls(E), s \in 1..r.nsubs :
            LET p0 == Pos(E, "pub", "inv", k)  ur == Pos(E, "unsub", "res", s) IN
            ur > 0 /\ ur < p0 /\ Deliveries(E, r, k, s) # {}
       THEN "invoked although its Unsubscribe completed before the call began"
  ELSE IF \E k \in Calls(E), s \in 1..r.nsubs :
            LET p1 == Pos(E, "pub", "res", k)  si == Pos(E, "sub", "inv", s) IN
            p1 > 0 /\ si > p1 /\ Deliveries(E, r, k, s) # {}
       THEN "invoked although subscribed after the call ended"
  ELSE IF ~r.handler /\ r.nsubs <= 64 /\ \E k \in Calls(E), s, t \in 1..r.nsubs :      \* (the pairwise rule is skipped for the long-list churn runs, which are about membership)
            /\ s # t /\ Pos(E, "sub", "res", s) < Pos(E, "sub", "inv", t)        \* s was registered before t's Subscribe even began
            /\ Deliveries(E, r, k, s) # {} /\ Deliveries(E, r, k, t) # {}
            /\ (CHOOSE j \in Deliveries(E, r, k, s) : TRUE) > (CHOOSE j \in Deliveries(E, r, k, t) : TRUE)
       THEN "not in subscription order"
  ELSE IF r.handler /\ \E j \in DOMAIN E : E[j].ev = "onnext" /\ E[j].thr # "h" THEN "delivery not on the SubscribeOn handler"
  ELSE IF \E j \in DOMAIN E : E[j].ev = "onnext" /\ ~\E k \in Calls(E) : E[j].v = (IF r.mapped THEN 2 * ValueOf(E, k) ELSE ValueOf(E, k))
       THEN "a value that was never published (or not fn(v))"
  ELSE "ok"
VARIABLES l, nbad
Init == l = 1 /\ nbad = 0
Next == /\ l <= Len(Trace) /\ nbad < MaxBad
        /\ l' = l + 1
        /\ LET w == Why(Trace[l]) IN IF w = "ok" THEN nbad' = nbad ELSE PrintT(<<"MISMATCH", l, w>>) /\ nbad' = nbad + 1
Spec == Init /\ [][Next]_<<l, nbad>>
Consumed == PrintT(<<"CONSUMED", TLCGet("stats").diameter - 1, Len(Trace)>>)
=============================================================================
