---------------------------- MODULE Trace_MonadIO ----------------------------
EXTENDS MonadIO, Json, IOUtils
Trace == ndJsonDeserialize(IOEnv.VERIF_TRACE)
MaxBad == 200
VARIABLES l, nbad
Init == l = 1 /\ nbad = 0
Next == /\ l <= Len(Trace) /\ nbad < MaxBad
        /\ l' = l + 1
        /\ IF Judge(Trace[l]) THEN nbad' = nbad ELSE PrintT(<<"MISMATCH", l>>) /\ nbad' = nbad + 1
Spec == Init /\ [][Next]_<<l, nbad>>
Consumed == PrintT(<<"CONSUMED", TLCGet("stats").diameter - 1, Len(Trace)>>)
=============================================================================
