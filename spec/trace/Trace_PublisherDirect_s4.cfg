SPECIFICATION TSpec
CONSTANTS
  Subs <- S4
  Extra = "X"
  InPlace = FALSE
  MaxChanges = 3
POSTCONDITION Consumed
CHECK_DEADLOCK FALSE
