--------------------------- MODULE Trace_BQueueDirect ---------------------------
(* Outcome of every directed run (drv c07 direct): a TLC-generated schedule of BQueue.tla replayed step by step on the real
   BufferedChannelQueue, then run free to completion and drained.  One line per schedule:
     accepted   values whose Offer returned nil          delivered[c]  values each consumer received, in its order
     drain      values the final drain retrieved          left          Count() after the drain
     maxch / maxpool  largest channel length / overflow size seen at any parked instant      completed   all goroutines returned
     drift      "" or where the real goroutines left the model's schedule (advisory: reported as MODEL-DRIFT, not judged here)
   Judged: the statement's clauses on the real outcome - bound, exactly-once delivery, nothing stranded, per-producer order. *)
EXTENDS Integers, Sequences, FiniteSets, TLC, Json, IOUtils
Trace == ndJsonDeserialize(IOEnv.VERIF_TRACE)
Range(s) == {s[i] : i \in DOMAIN s}
Consumers(e) == DOMAIN e.delivered
RECURSIVE Flat(_, _)
Flat(e, cs) == IF cs = {} THEN <<>> ELSE LET c == CHOOSE x \in cs : TRUE IN e.delivered[c] \o Flat(e, cs \ {c})
All(e) == Flat(e, Consumers(e)) \o e.drain
NoDup(s) == \A i, j \in DOMAIN s : i # j => s[i] # s[j]
Ordered(s) == \A i, j \in DOMAIN s : (i < j /\ s[i] \div 1000 = s[j] \div 1000) => s[i] < s[j]      \* a consumer sees each producer's items in offer order
Why(e) ==
  IF ~e.completed THEN "a goroutine never returned after the schedule (deadlock)"
  ELSE IF e.maxch > e.c \/ e.maxpool > e.b THEN "more than C items in the channel or more than B in the overflow part"
  ELSE IF ~NoDup(All(e)) THEN "an item was delivered twice"
  ELSE IF ~(Range(All(e)) \subseteq Range(e.accepted)) THEN "an item was delivered that no accepted Offer put in"
  ELSE IF e.c >= 1 /\ (Range(All(e)) # Range(e.accepted) \/ e.left # 0) THEN "an accepted item was never delivered (stranded or lost)"
  ELSE IF \E c \in Consumers(e) : ~Ordered(e.delivered[c]) THEN "a consumer received one producer's items out of order"
  ELSE IF Cardinality(Consumers(e)) = 1 /\ ~Ordered(All(e)) THEN "items of one producer left the queue out of order"
  ELSE "ok"
VARIABLES l, nbad
Init == l = 1 /\ nbad = 0
Next == /\ l <= Len(Trace) /\ nbad < 60
        /\ l' = l + 1
        /\ LET w == Why(Trace[l]) IN IF w = "ok" THEN nbad' = nbad ELSE PrintT(<<"MISMATCH", l, w>>) /\ nbad' = nbad + 1
Spec == Init /\ [][Next]_<<l, nbad>>
Consumed == PrintT(<<"CONSUMED", TLCGet("stats").diameter - 1, Len(Trace)>>)
=============================================================================
