----------------------------- MODULE Trace_CorAbs -----------------------------
(* C14: one line per run of real coroutines: a target performing YieldRef(y_1), YieldRef(y_2), ... and caller
   coroutines performing YieldFrom(target, x) with unique x.  Fields:
     ncallers, kind, startVal (0 = plain Start; else the value given to StartWithVal),
     refs  = <<[y, x]>>      k-th YieldRef: the value it yielded and the value it returned
     froms = <<[c, j, x, y]>> every YieldFrom call that returned: caller c's j-th request x got y
     issued = number of YieldFrom calls made,  lifecycle = [startedBefore, startedAfter, doneBefore, doneAfter],
     shape ("fresh": every caller is a new coroutine making one request), extras = [doNotation, yieldFromIO]  (observed = expected for DoNotation's result / YieldFromIO's value)
   Rules (the statement): the k-th request taken returns its x to the k-th YieldRef and y_k to exactly the caller
   that made it; each caller's answers come in its own order; nothing lost, duplicated or misrouted.            *)
EXTENDS Integers, Sequences, FiniteSets, TLC, Json, IOUtils
Trace == ndJsonDeserialize(IOEnv.VERIF_TRACE)
MaxBad == 60
Why(r) ==
  LET R == r.refs  F == r.froms
      first == IF r.startVal # 0 THEN 1 ELSE 0            \* with StartWithVal the first YieldRef gets the start value
      Req(x) == {i \in DOMAIN F : F[i].x = x} IN
  IF r.kind # "ok" THEN r.kind
  ELSE IF r.shape = "dying" THEN                          \* one caller alternating between targets that serve one request and complete, and a generator y_k = k
         IF \E i \in DOMAIN r.dyingAns : r.dyingAns[i] # 101 THEN "a caller received an answer that was not the one yielded for its request"
         ELSE IF r.liveAns # [i \in 1..(r.issued \div 2) |-> i] THEN "a caller received, from another target, an answer left over from a completed one (misrouted / out of order)"
         ELSE "ok"
  ELSE IF r.shape = "fresh" THEN                          \* thousands of callers with one request each: the same rules through set comparisons
         IF Len(F) # r.issued THEN "a YieldFrom never returned"
         ELSE IF Len(R) # r.issued THEN "requests and YieldRefs do not match in number (lost or duplicated)"
         ELSE IF Cardinality({R[k].x : k \in DOMAIN R}) # Len(R) \/ Cardinality({F[i].x : i \in DOMAIN F}) # Len(F) THEN "one request was taken twice"
         ELSE IF {<<R[k].x, R[k].y>> : k \in DOMAIN R} # {<<F[i].x, F[i].y>> : i \in DOMAIN F} THEN "a caller received an answer that was not the one yielded for its request"
         ELSE IF \E k \in DOMAIN R : R[k].y # 100 + k THEN "the target's YieldRefs are not its sequence"
         ELSE "ok"
  ELSE IF r.startVal # 0 /\ (R = <<>> \/ R[1].x # r.startVal) THEN "StartWithVal's value did not reach the first YieldRef"
  ELSE IF Len(F) # r.issued THEN "a YieldFrom never returned"
  ELSE IF Len(R) # r.issued + first THEN "requests and YieldRefs do not match in number (lost or duplicated)"
  ELSE IF \E k \in (first + 1)..Len(R) : Cardinality(Req(R[k].x)) # 1 THEN "a YieldRef returned a value nobody sent (or one sent twice)"
  ELSE IF \E k1, k2 \in (first + 1)..Len(R) : k1 # k2 /\ R[k1].x = R[k2].x THEN "one request was taken twice"
  ELSE IF \E k \in (first + 1)..Len(R) : F[CHOOSE i \in Req(R[k].x) : TRUE].y # R[k].y THEN "a caller received an answer that was not the one yielded for its request"
  ELSE IF \E i1, i2 \in DOMAIN F : F[i1].c = F[i2].c /\ F[i1].j < F[i2].j /\
            (CHOOSE k \in DOMAIN R : R[k].x = F[i1].x) > (CHOOSE k \in DOMAIN R : R[k].x = F[i2].x) THEN "one caller's requests were served out of its own order"
  ELSE IF ~(~r.lifecycle.startedBefore /\ r.lifecycle.startedAfter /\ ~r.lifecycle.doneBefore /\ r.lifecycle.doneAfter) THEN "IsStarted / IsDone lifecycle"
  ELSE IF ~(r.extras.doNotation /\ r.extras.yieldFromIO) THEN "DoNotation / YieldFromIO result"
  ELSE "ok"
VARIABLES l, nbad
Init == l = 1 /\ nbad = 0
Next == /\ l <= Len(Trace) /\ nbad < MaxBad
        /\ l' = l + 1
        /\ LET w == Why(Trace[l]) IN IF w = "ok" THEN nbad' = nbad ELSE PrintT(<<"MISMATCH", l, w>>) /\ nbad' = nbad + 1
Spec == Init /\ [][Next]_<<l, nbad>>
Consumed == PrintT(<<"CONSUMED", TLCGet("stats").diameter - 1, Len(Trace)>>)
=============================================================================
