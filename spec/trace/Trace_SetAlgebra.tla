-------------------------- MODULE Trace_SetAlgebra --------------------------
(* C05: every line {"case", "g", "i"} recorded from the real code (TLC-generated
   operands or random larger ones) must satisfy SetAlgebra!Judge.              *)
EXTENDS SetAlgebra, Json, IOUtils
Trace == ndJsonDeserialize(IOEnv.VERIF_TRACE)
MaxBad == 200
VARIABLES l, nbad
Init == l = 1 /\ nbad = 0
Next == /\ l <= Len(Trace) /\ nbad < MaxBad
        /\ l' = l + 1
        /\ LET v == Verdict(Trace[l]) IN
           IF v = "ok" THEN nbad' = nbad ELSE PrintT(<<"MISMATCH", l, v>>) /\ nbad' = nbad + 1
Spec == Init /\ [][Next]_<<l, nbad>>
Consumed == PrintT(<<"CONSUMED", TLCGet("stats").diameter - 1, Len(Trace)>>)
=============================================================================
