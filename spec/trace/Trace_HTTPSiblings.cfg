SPECIFICATION SpecS
POSTCONDITION ConsumedS
CHECK_DEADLOCK FALSE
