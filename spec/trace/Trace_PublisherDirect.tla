------------------------ MODULE Trace_PublisherDirect ------------------------
(* C10, binding of Publisher.tla to publisher.go at hook grain.  drv c10 direct forces every behaviour written by
   Gen_PublisherSched on the real publisher (the publishing goroutine parked at p.publish.snap / p.publish.deliver) and writes what
   really happened, one line per step, in real order:
     [e |-> "reset", n |-> number of initial subscriptions, mode, h]  a fresh publisher with Subs registered (h: SubscribeOn(handler) is set:
                                                                      deliveries are posted; the director waits for each to have run)
     [e |-> "start"]                 the publishing goroutine took its snapshot (parked at p.publish.snap)
     [e |-> "deliver", s, n, thr]    OnNext of subscription s ran (n = value received - value expected: 0; thr = "h" on the handler's goroutine)
     [e |-> "unsub" | "sub", s]      a list change completed (other goroutine while the publisher is parked, or inside the callback)
     [e |-> "end", final]            Publish returned; final = what a second Publish then delivered, in order
     [e |-> "lost"]                  the publishing goroutine neither reached a hook point nor returned
   Every line is one action of Publisher.tla: StartPublish, Deliver (the logged subscription must be arrays[snap.arr][idx]),
   DoUnsub, DoSub, EndPublish (the logged final list must be the model's current slice).  A run that leaves the model is judged by the
   STATEMENT's rules over what was observed (Rules): only a disagreement about a subscription that was itself added or removed during
   the call is a drift of the model ("DRIFT", advisory); everything else is a violation ("MISMATCH").                          *)
EXTENDS MC_Publisher, Json, IOUtils
Trace == ndJsonDeserialize(IOEnv.VERIF_TRACE)
VARIABLES l, bad, obs, chg, reg, nbad, run, onh, hv
tvars == <<vars, l, bad, obs, chg, reg, nbad, run, onh, hv>>
Ev == Trace[l]
Remove(sq, s) == LET P == {i \in DOMAIN sq : sq[i] = s} IN
                 IF P = {} THEN sq ELSE LET i == CHOOSE i \in P : \A j \in P : i <= j IN SubSeq(sq, 1, i - 1) \o SubSeq(sq, i + 1, Len(sq))
Cnt(sq, s) == Cardinality({i \in DOMAIN sq : sq[i] = s})
PosIn(s) == CHOOSE p \in DOMAIN Subs : Subs[p] = s
Rules(o, c, r, fin) ==
  IF hv THEN "a delivery did not run on the SubscribeOn handler"
  ELSE IF \E i \in DOMAIN o : o[i] \notin SubSet \cup {Extra} THEN "something that is not a subscription was invoked"
  ELSE IF \E s \in SubSet \cup {Extra} : Cnt(o, s) > 1 THEN "a subscription was invoked twice for one value"
  ELSE IF \E s \in SubSet \ c : Cnt(o, s) # 1 THEN "a subscription that was registered throughout the call was skipped"
  ELSE IF \E i, j \in DOMAIN o : i < j /\ o[i] \in SubSet /\ o[j] \in SubSet /\ PosIn(o[i]) > PosIn(o[j]) THEN "not in subscription order"
  ELSE IF fin # r THEN "the registered list after the call is wrong (a second Publish delivered something else)"
  ELSE "ok"
ResetModel == LET r == Build([a \in {0} |-> <<>>], [arr |-> 0, len |-> 0], 1, Subs) IN
              /\ arrays' = r.arrays /\ subs' = r.subs /\ nextArr' = r.na
              /\ pc' = "idle" /\ snap' = [arr |-> 0, len |-> 0] /\ idx' = 0 /\ log' = <<>> /\ removed' = {} /\ added' = {} /\ changes' = 0
Leave(why) == bad' = (IF bad = "" THEN why ELSE bad) /\ UNCHANGED vars
TInit == Init /\ l = 1 /\ bad = "" /\ obs = <<>> /\ chg = {} /\ reg = Subs /\ nbad = 0 /\ run = 0 /\ onh = FALSE /\ hv = FALSE
TNext ==
  /\ l <= Len(Trace) /\ l' = l + 1
  /\ onh' = (IF Ev.e = "reset" THEN Ev.h ELSE onh)
  /\ hv' = (IF Ev.e = "reset" THEN FALSE ELSE IF Ev.e = "deliver" /\ onh /\ Ev.thr # "h" THEN TRUE ELSE hv)
  /\ LET e == Ev IN
     CASE e.e = "reset" -> /\ ResetModel /\ bad' = (IF e.n = Len(Subs) THEN "" ELSE "wrong configuration") /\ obs' = <<>> /\ chg' = {} /\ reg' = Subs
                           /\ run' = e.run /\ UNCHANGED nbad
       [] e.e = "start" -> /\ IF bad = "" /\ pc = "idle" THEN StartPublish /\ UNCHANGED bad ELSE Leave("start out of place")
                           /\ UNCHANGED <<obs, chg, reg, nbad, run>>
       [] e.e = "deliver" -> /\ obs' = Append(obs, e.s)
                             /\ IF bad = "" /\ pc = "delivering" /\ idx <= snap.len /\ arrays[snap.arr][idx] = e.s /\ e.n = 0
                                  THEN Deliver /\ UNCHANGED bad
                                  ELSE Leave(IF e.n # 0 THEN "a wrong value was delivered"
                                             ELSE IF pc = "delivering" /\ idx <= snap.len THEN "the model delivers to " \o arrays[snap.arr][idx] \o ", the code to " \o e.s
                                             ELSE "the model's call has nothing left to deliver, the code delivers to " \o e.s)
                             /\ UNCHANGED <<chg, reg, nbad, run>>
       [] e.e = "unsub" -> /\ chg' = chg \cup {e.s} /\ reg' = Remove(reg, e.s)
                           /\ IF bad = "" /\ ENABLED DoUnsub(e.s) THEN DoUnsub(e.s) /\ UNCHANGED bad ELSE Leave("unsub out of place")
                           /\ UNCHANGED <<obs, nbad, run>>
       [] e.e = "sub" -> /\ chg' = chg \cup {e.s} /\ reg' = Append(reg, e.s)
                         /\ IF bad = "" /\ ENABLED DoSub THEN DoSub /\ UNCHANGED bad ELSE Leave("sub out of place")
                         /\ UNCHANGED <<obs, nbad, run>>
       [] e.e = "end" -> /\ IF bad = "" /\ pc = "delivering" /\ idx > snap.len /\ Current = e.final
                              THEN EndPublish /\ UNCHANGED bad
                              ELSE Leave(IF pc = "delivering" /\ idx <= snap.len THEN "the code returned before the model's delivery to " \o arrays[snap.arr][idx]
                                         ELSE "the model's list after the call differs from the code's")
                         /\ LET w == Rules(obs, chg, reg, e.final) IN
                            IF w # "ok" THEN PrintT(<<"MISMATCH", l, run, w>>) /\ nbad' = nbad + 1
                            ELSE IF bad' # "" THEN PrintT(<<"DRIFT", l, run, bad'>>) /\ nbad' = nbad
                            ELSE nbad' = nbad
                         /\ UNCHANGED <<obs, chg, reg, run>>
       [] OTHER -> /\ PrintT(<<"MISMATCH", l, run, "the publishing goroutine neither reached a hook point nor returned">>) /\ nbad' = nbad + 1
                   /\ Leave("lost") /\ UNCHANGED <<obs, chg, reg, run>>
TSpec == TInit /\ [][TNext]_tvars
Consumed == PrintT(<<"CONSUMED", TLCGet("stats").diameter - 1, Len(Trace)>>)
=============================================================================
