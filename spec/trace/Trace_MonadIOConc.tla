--------------------------- MODULE Trace_MonadIOConc ---------------------------
(* TLC judges the overlapping-evaluation and reconfiguration runs recorded by `drv c11 conc` with MonadIO!JudgePart. *)
EXTENDS MonadIO, Json, IOUtils
Trace == ndJsonDeserialize(IOEnv.VERIF_TRACE)
VARIABLES l, nbad
Init == l = 1 /\ nbad = 0
Next == /\ l <= Len(Trace) /\ nbad < 60
        /\ l' = l + 1
        /\ IF JudgePart(Trace[l]) THEN nbad' = nbad ELSE PrintT(<<"MISMATCH", l>>) /\ nbad' = nbad + 1
Spec == Init /\ [][Next]_<<l, nbad>>
Consumed == PrintT(<<"CONSUMED", TLCGet("stats").diameter - 1, Len(Trace)>>)
=============================================================================
