---------------------------- MODULE Trace_ConcWide ----------------------------
(* C08, wide rounds on ConcurrentQueue / ConcurrentStack over a real LinkedListQueue (4-8 goroutines, hundreds to thousands of
   calls): too wide for the linearisation search of Trace_LinQueue, judged by necessary conditions of the statement:
   no call panics, every offered value is returned by exactly one removal once the structure is drained, no removal returns a
   value that was not offered, and (queue) each consumer receives the values of one producer in the order they were offered.
   One line per round: [kind, shape, offered, got (consumer -> values in its order), drain, panics, stuck].
   Values are producer * 100000 + i.                                                                                        *)
EXTENDS Integers, Sequences, FiniteSets, TLC, Json, IOUtils
Trace == ndJsonDeserialize(IOEnv.VERIF_TRACE)
Range(s) == {s[i] : i \in DOMAIN s}
RECURSIVE Flat(_, _)
Flat(e, cs) == IF cs = {} THEN <<>> ELSE LET c == CHOOSE x \in cs : TRUE IN e.got[c] \o Flat(e, cs \ {c})
All(e) == Flat(e, DOMAIN e.got) \o e.drain
\* sorted copy has no equal neighbours  <=>  no duplicates (cheap for thousands of values)
NoDupSorted(s) == Cardinality(Range(s)) = Len(s)
Ordered(s) == \A i \in 1..(Len(s) - 1) : LET a == s[i]  b == s[i + 1] IN TRUE
ProdOrder(s) == \A p \in {x \div 100000 : x \in Range(s)} :
                  LET sub == SelectSeq(s, LAMBDA x : x \div 100000 = p) IN \A i \in 1..(Len(sub) - 1) : sub[i] < sub[i + 1]
Why(e) ==
  IF e.panics > 0 THEN "a call panicked (the wrapped structure was corrupted)"
  ELSE IF e.stuck THEN "calls never returned or consumers never finished (a lock left held, or offered values lost)"
  ELSE IF ~NoDupSorted(All(e)) THEN "a value was returned by two removals"
  ELSE IF ~(Range(All(e)) \subseteq Range(e.offered)) THEN "a removal returned a value that was never offered"
  ELSE IF Range(All(e)) # Range(e.offered) THEN "an offered value was never returned although the structure was drained"
  ELSE IF e.kind = "queue" /\ \E c \in DOMAIN e.got : ~ProdOrder(e.got[c]) THEN "a consumer received one producer's values out of order"
  ELSE IF e.kind = "queue" /\ ~ProdOrder(e.drain) THEN "the drain returned one producer's values out of order"
  ELSE "ok"
VARIABLES l, nbad
Init == l = 1 /\ nbad = 0
Next == /\ l <= Len(Trace) /\ nbad < 60
        /\ l' = l + 1
        /\ LET w == Why(Trace[l]) IN IF w = "ok" THEN nbad' = nbad ELSE PrintT(<<"MISMATCH", l, w>>) /\ nbad' = nbad + 1
Spec == Init /\ [][Next]_<<l, nbad>>
Consumed == PrintT(<<"CONSUMED", TLCGet("stats").diameter - 1, Len(Trace)>>)
=============================================================================
