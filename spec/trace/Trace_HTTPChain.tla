--------------------------- MODULE Trace_HTTPChain ---------------------------
(* histories executed on a real SimpleHTTP: tree trace (d = depth; d = 1 starts from a fresh object);
   stack[d] = registration list at depth d-1 of the current path.                              *)
EXTENDS HTTPChain, Json, IOUtils
Trace == ndJsonDeserialize(IOEnv.VERIF_TRACE)
MaxBad == 80
VARIABLES l, stack, skip, nbad
vars == <<l, stack, skip, nbad>>
Init == l = 1 /\ stack = << <<>> >> /\ skip = 0 /\ nbad = 0
Next ==
  /\ l <= Len(Trace) /\ nbad < MaxBad
  /\ l' = l + 1
  /\ LET e == Trace[l] IN
     IF skip > 0 /\ e.d > skip THEN UNCHANGED <<stack, skip, nbad>>
     ELSE IF e.d <= Len(stack) /\ Judge(stack[e.d], e.c, e.o)
       THEN stack' = Append(SubSeq(stack, 1, e.d), NextIcs(stack[e.d], e.c)) /\ skip' = 0 /\ nbad' = nbad
       ELSE /\ PrintT(<<"MISMATCH", l>>) /\ stack' = SubSeq(stack, 1, IF e.d <= Len(stack) THEN e.d ELSE Len(stack))
            /\ skip' = e.d /\ nbad' = nbad + 1
Spec == Init /\ [][Next]_vars
Consumed == PrintT(<<"CONSUMED", TLCGet("stats").diameter - 1, Len(Trace)>>)
=============================================================================
