---------------------------- MODULE Trace_PMapAbs ----------------------------
(* C16: one line per PMap call on the real code:
     n, pool ("none" or FixedPool), random (RandomOrder), gate (were invocations parked?),
     events = <<[ev |-> "begin" | "end" | "ret", i]>> in real-time order (begin/end of f on element index i, return of PMap),
     out = the returned list, f(x) = 3*x + 1 on the list <<1..n>> (element i has value i), maxParked (gate runs), kind;
     fast > 0: a list of that length through a trivial f - fastout = the returned list, applied = number of calls of f.
   Judge: f applied exactly once to every element and to nothing else; never more than min(FixedPool, n) (n without a
   pool) invocations in flight; PMap returns after all applications finished; ordered mode returns Map(f, list),
   RandomOrder a permutation of it.                                                                              *)
EXTENDS Integers, Sequences, FiniteSets, TLC, Json, IOUtils
Trace == ndJsonDeserialize(IOEnv.VERIF_TRACE)
MaxBad == 60
Fv(x) == 3 * x + 1
Bound(e) == IF e.pool > 0 /\ e.pool < e.n THEN e.pool ELSE e.n
Count(evs, kind, i) == Cardinality({j \in DOMAIN evs : evs[j].ev = kind /\ evs[j].i = i})
\* invocations in flight after the first k events
InFlight(evs, k) == Cardinality({j \in 1..k : evs[j].ev = "begin"}) - Cardinality({j \in 1..k : evs[j].ev = "end"})
RetPos(evs) == CHOOSE j \in DOMAIN evs : evs[j].ev = "ret"
IsPermOf(out, n) == Len(out) = n /\ \A i \in 1..n : Cardinality({j \in DOMAIN out : out[j] = Fv(i)}) = 1
Why(e) ==
  IF e.kind # "ok" THEN e.kind
  ELSE IF e.fast > 0 THEN       \* a long list through a trivial f (no events): the whole result and the number of applications
         IF e.applied # e.fast THEN "an element was not applied exactly once"
         ELSE IF ~e.random /\ e.fastout # [i \in 1..e.fast |-> Fv(i)] THEN "ordered mode: result differs from Map(f, list)"
         ELSE IF e.random /\ ~(Len(e.fastout) = e.fast /\ {e.fastout[j] : j \in DOMAIN e.fastout} = {Fv(i) : i \in 1..e.fast})
                THEN "RandomOrder: result is not a permutation of Map(f, list)"
         ELSE "ok"
  ELSE IF \E i \in 1..e.n : Count(e.events, "begin", i) # 1 \/ Count(e.events, "end", i) # 1 THEN "an element was not applied exactly once"
  ELSE IF \E j \in DOMAIN e.events : e.events[j].ev # "ret" /\ e.events[j].i \notin 1..e.n THEN "f applied to something else"
  ELSE IF \E k \in DOMAIN e.events : InFlight(e.events, k) > Bound(e) THEN "more than min(FixedPool, n) invocations at a time"
  ELSE IF e.maxParked > Bound(e) THEN "more than min(FixedPool, n) invocations parked at once"
  ELSE IF Cardinality({j \in DOMAIN e.events : e.events[j].ev = "ret"}) # 1 THEN "no single return"
  ELSE IF \E j \in DOMAIN e.events : j > RetPos(e.events) THEN "PMap returned before all applications finished"
  ELSE IF ~e.random /\ e.out # [i \in 1..e.n |-> Fv(i)] THEN "ordered mode: result differs from Map(f, list)"
  ELSE IF e.random /\ ~IsPermOf(e.out, e.n) THEN "RandomOrder: result is not a permutation of Map(f, list)"
  ELSE "ok"
VARIABLES l, nbad
Init == l = 1 /\ nbad = 0
Next == /\ l <= Len(Trace) /\ nbad < MaxBad
        /\ l' = l + 1
        /\ LET w == Why(Trace[l]) IN IF w = "ok" THEN nbad' = nbad ELSE PrintT(<<"MISMATCH", l, w>>) /\ nbad' = nbad + 1
Spec == Init /\ [][Next]_<<l, nbad>>
Consumed == PrintT(<<"CONSUMED", TLCGet("stats").diameter - 1, Len(Trace)>>)
=============================================================================
