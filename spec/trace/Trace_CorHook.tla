----------------------------- MODULE Trace_CorHook -----------------------------
(* Binding of the IMPLEMENTATION-SHAPED model Cor.tla to the code: real coroutines (one target serving NServe YieldRefs, callers
   making NReq YieldFrom each) are run with the verif hook recording every cor.* hook point - which goroutine (thr: "T" or the
   caller's name) and on which coroutine's behalf (obj: the coroutine whose closedM / flag the hook point belongs to) - plus the
   harness's own lines: inv / res of every YieldFrom, the value every YieldRef returned (refres).

   As in Trace_WorkerPoolHook, the done flags and the channels are lock-free state that is read or changed BEFORE the hook line
   can be written, so the model's steps are SILENT steps and a line asserts where its thread is:
     inv (c, i)                      the caller is about to make its i-th request
     cor.safe.checked  thr c obj T   receive(): past the target's done check            (cpc = "lock")
     cor.safe.locked   thr c obj T   holds the target's closedM, done re-checked         (cpc = "send", mtx[T] = c)
     res (c, i, y)                   YieldFrom returned y                                (cgot[c][i] = y)
     cor.yieldref.taken thr T        a request was taken from the mailbox                (tpc = "replycheck")
     cor.safe.checked  thr T obj c   reply: past the requester's done check              (tpc = "replylock", or draining c's request)
     cor.safe.locked   thr T obj c   holds the requester's closedM                       (tpc = "replysend", mtx[c] = T)
     refres (k, c, i)                the k-th YieldRef returned the x of c's i-th request (tgot[k])
     cor.close.flagged thr t obj t   the effect returned, done is set                    (pc = "closelock")
   Steps that ARE their line (made while holding the mutex the hook point is inside of):
     cor.close.locked  thr t obj t   TCloseLock / CCloseLock(c): the channels are closed
     cor.safe.locked   thr T obj c   while draining: TDrain answers c's stranded request with the zero value
   Constants (Callers, NReq, NServe; the channel capacities are the code's 5) come from the trace's first line.  Acceptance: the
   search ends at the first behaviour that consumes the whole trace (INVARIANT NotDone "violated"); otherwise HWM is printed.
   A rejection is MODEL-DRIFT (advisory).                                                                                    *)
EXTENDS Cor, Json, IOUtils
Trace == ndJsonDeserialize(IOEnv.VERIF_TRACE)
H == Trace[1]
TCallers == {H.callers[i] : i \in DOMAIN H.callers}
TNReq == H.nreq
TNServe == H.nserve
VARIABLE l
tvars == <<vars, l>>
TInit == Init /\ l = 1
Bump == TLCSet(1, IF l + 1 > TLCGet(1) THEN l + 1 ELSE TLCGet(1))
Stutter == UNCHANGED vars
IsHook(e, pt) == e.ev = "hook" /\ e.pt = pt
Draining(c) == tpc = "drain" /\ (IF opq = <<>> THEN FALSE ELSE Head(opq).c = c)
AtOK(e) ==
  \/ e.ev = "inv" /\ cpc[e.thr] = "checkself" /\ ck[e.thr] = e.i - 1
  \/ e.ev = "res" /\ cpc[e.thr] = "checkself" /\ ck[e.thr] = e.i /\ cgot[e.thr][e.i] = e.y
  \/ IsHook(e, "cor.safe.checked") /\ e.thr # T /\ e.obj = T /\ cpc[e.thr] = "lock"
  \/ IsHook(e, "cor.safe.locked") /\ e.thr # T /\ e.obj = T /\ cpc[e.thr] = "send" /\ mtx[T] = e.thr
  \/ IsHook(e, "cor.yieldref.taken") /\ e.thr = T /\ tpc = "replycheck"
  \/ IsHook(e, "cor.safe.checked") /\ e.thr = T /\ ((tpc = "replylock" /\ tcur.c = e.obj) \/ Draining(e.obj))
  \/ IsHook(e, "cor.safe.locked") /\ e.thr = T /\ tpc = "replysend" /\ tcur.c = e.obj /\ mtx[e.obj] = T
  \/ e.ev = "refres" /\ tpc = "check" /\ tk = e.k /\ tgot[e.k] = X(e.c, e.i)
  \/ IsHook(e, "cor.close.flagged") /\ e.obj = e.thr /\ IF e.thr = T THEN tpc = "closelock" ELSE cpc[e.thr] = "closelock"
Event ==
  /\ l <= Len(Trace)
  /\ LET e == Trace[l] IN
     \/ /\ e.ev = "reset" /\ l = 1 /\ Stutter
     \/ /\ e.ev = "reset" /\ l > 1                                        \* next round on fresh coroutines
        /\ done' = [c \in Cors |-> FALSE] /\ opq' = <<>> /\ opClosed' = FALSE
        /\ resq' = [c \in Callers |-> <<>>] /\ resClosed' = [c \in Callers |-> FALSE] /\ mtx' = [c \in Cors |-> "free"]
        /\ tpc' = "check" /\ tk' = 0 /\ tcur' = NoOp /\ tgot' = <<>>
        /\ cpc' = [c \in Callers |-> "checkself"] /\ ck' = [c \in Callers |-> 0] /\ cgot' = [c \in Callers |-> <<>>]
        /\ panicked' = {}
     \/ AtOK(e) /\ Stutter
     \/ IsHook(e, "cor.close.locked") /\ e.obj = e.thr /\ IF e.thr = T THEN TCloseLock ELSE CCloseLock(e.thr)
     \/ IsHook(e, "cor.safe.locked") /\ e.thr = T /\ Draining(e.obj) /\ ~done[e.obj] /\ TDrain
  /\ l' = l + 1 /\ Bump
\* silent steps, with the two reductions of Trace_WorkerPoolHook (a consumable pc-assertion line first; a thread whose next line - index
\* nx logged by the recorder - is already satisfied does not move)
NextLine(t) == LET nx == Trace[l].nx IN IF t \in DOMAIN nx THEN nx[t] ELSE 0
Waits(t) == LET k == NextLine(t) IN k > 0 /\ AtOK(Trace[k])
Silent ==
  /\ l <= Len(Trace) /\ UNCHANGED l
  /\ ~AtOK(Trace[l])
  /\ \/ \E c \in Callers : ~Waits(c) /\ (CCheckSelf(c) \/ CCheckTarget(c) \/ CLock(c) \/ CSend(c) \/ CRecv(c) \/ CFinish(c))
     \/ /\ ~Waits(T)
        /\ \/ TCheck \/ TTake \/ TReplyCheck \/ TReplyLock \/ TReplySend \/ TRet \/ TFinish
           \/ (tpc = "drain" /\ (IF opq = <<>> THEN TRUE ELSE done[Head(opq).c]) /\ TDrain)
TNext == Event \/ Silent
TSpec == TInit /\ [][TNext]_tvars
TraceAccepted == PrintT(<<"HWM", TLCGet(1) - 1, Len(Trace)>>)
NotDone == l <= Len(Trace)
ASSUME TLCSet(1, 1)
=============================================================================
