--------------------------- MODULE Trace_BQueueHook ---------------------------
(* Binding of the IMPLEMENTATION-SHAPED model BQueue.tla to the code: the real BufferedChannelQueue is run with the
   verif hook recording every hook point (global sequence number under the recorder's mutex, role of the goroutine,
   and - for hook points inside q.lock - len(blockingQueue) and the pool's item count), plus the harness's own
   inv/res lines.  This module reuses BQueue's actions one for one:

     hook bq.offer.locked  -> OfferLock(p)          hook bq.offer.done      -> OfferUnlock(p) (logged before the deferred Unlock)
     hook bq.take.checked  -> ConsStart(c, kind)    hook bq.take.notified   -> (ConsNotify(c) already taken)
     hook bq.loader.woken  -> (LoaderWake taken)    hook bq.loader.checked  -> LoaderCheck
     hook bq.loader.locked -> LoaderLock            hook bq.loader.polled   -> LoaderPoll (an item taken from the pool)
     hook bq.loader.unlocking -> LoaderPoll on the empty pool, or the failed LoaderPush took place (logged before Unlock)
     hook bq.loader.unlocked  -> LoaderSleep
     res lines             -> the result the model computed for that call (pres / the consumer's last result)

   Steps of the code that are not under q.lock and have no hook AFTER the change that is ordered with it - the wake-up
   token being set / consumed, the channel receive, the body of Offer (its channel send is visible to consumers before the
   offer.done hook), the loader's non-blocking push - are silent steps (the original
   actions, l unchanged).  The constants C and B of BQueue come from the trace's first line (one file per (C, B)).
   Acceptance: high-water mark of consumed lines (register 1) reaches the end.  A rejection means the code does not take
   the steps the model says it takes (MODEL-DRIFT, advisory): the verdict on the property stays with Trace_BQueueAbs. *)
EXTENDS BQueue, Json, IOUtils
Trace == ndJsonDeserialize(IOEnv.VERIF_TRACE)
TC == Trace[1].c
TB == Trace[1].b
VARIABLES l, lastres
tvars == <<vars, l, lastres>>
NoRes == [k |-> "none", p |-> "-", i |-> 0]
TInit == Init /\ l = 1 /\ lastres = [c \in {"c1", "c2", "c3"} |-> NoRes]
Bump == TLCSet(1, IF l + 1 > TLCGet(1) THEN l + 1 ELSE TLCGet(1))
PNum(p) == CASE p = "p1" -> 1 [] p = "p2" -> 2 [] p = "p3" -> 3
ValOf(v) == [k |-> "val", p |-> (CASE v \div 1000 = 1 -> "p1" [] v \div 1000 = 2 -> "p2" [] v \div 1000 = 3 -> "p3"), i |-> v % 1000]
Last(s) == s[Len(s)]
Kind(op) == IF op = "poll" THEN "poll" ELSE "ttake"
\* state logged inside the lock: the pool count is exact; the channel may only have been drained further by consumers
SnapOK(e) == e.pool = Len(pool) + Len(lval) /\ e.chl = Len(ch)
Stutter == UNCHANGED vars
Event ==
  /\ l <= Len(Trace)
  /\ LET e == Trace[l] IN
     \/ /\ e.ev = "reset" /\ l = 1 /\ Stutter /\ UNCHANGED lastres
     \/ /\ e.ev = "reset" /\ l > 1                                                    \* next round on a fresh queue
        /\ ch' = <<>> /\ pool' = <<>> /\ wake' = 0 /\ lock' = "free" /\ lpc' = "idle" /\ lval' = <<>> /\ lbudget' = 0
        /\ ppc' = [p \in {"p1", "p2", "p3"} |-> "start"] /\ pidx' = [p \in {"p1", "p2", "p3"} |-> 1] /\ pres' = [p \in {"p1", "p2", "p3"} |-> <<>>]
        /\ cpc' = [c \in {"c1", "c2", "c3"} |-> "start"] /\ cidx' = [c \in {"c1", "c2", "c3"} |-> 1] /\ cres' = [c \in {"c1", "c2", "c3"} |-> <<>>]
        /\ ckind' = [c \in {"c1", "c2", "c3"} |-> "none"] /\ lastres' = [c \in {"c1", "c2", "c3"} |-> NoRes]
        /\ UNCHANGED <<closed, wakeClosed, chClosed, xpc, panicked>>
     \/ /\ e.ev = "inv" /\ Stutter
        /\ IF e.thr \in {"c1", "c2", "c3"} THEN lastres' = [lastres EXCEPT ![e.thr] = NoRes] /\ cpc[e.thr] = "start"
           ELSE UNCHANGED lastres /\ ppc[e.thr] = "start" /\ e.v = 1000 * PNum(e.thr) + pidx[e.thr]
     \/ /\ e.ev = "hook" /\ e.pt = "bq.offer.locked" /\ OfferLock(e.thr) /\ UNCHANGED lastres
     \/ /\ e.ev = "hook" /\ e.pt = "bq.offer.done" /\ OfferUnlock(e.thr) /\ UNCHANGED lastres
        /\ e.pool = Len(pool) /\ e.chl = Len(ch)
     \/ /\ e.ev = "res" /\ e.thr \in {"p1", "p2", "p3"} /\ Stutter /\ UNCHANGED lastres
        /\ ppc[e.thr] = "start" /\ pres[e.thr] # <<>> /\ Last(pres[e.thr]) = e.r
     \/ /\ e.ev = "hook" /\ e.pt = "bq.take.checked" /\ ConsStart(e.thr, Kind(e.op)) /\ UNCHANGED lastres
     \/ /\ e.ev = "hook" /\ e.pt = "bq.notify.checked" /\ cpc[e.thr] \in {"checked", "notified"} /\ Stutter /\ UNCHANGED lastres   \* inside notifyWorkers, after its closed check
     \/ /\ e.ev = "hook" /\ e.pt \in {"bq.take.notified", "bq.getch.notified"} /\ cpc[e.thr] = "notified" /\ Stutter /\ UNCHANGED lastres
     \/ /\ e.ev = "hook" /\ e.pt = "bq.getch.enter" /\ ConsStart(e.thr, "ttake") /\ UNCHANGED lastres   \* GetChannel has no closed check of its own
     \/ /\ e.ev = "res" /\ e.thr \in {"c1", "c2", "c3"} /\ Stutter /\ UNCHANGED lastres
        /\ cpc[e.thr] = "start" /\ lastres[e.thr].k # "none"
        /\ IF e.r = "ok" THEN lastres[e.thr] = ValOf(e.v) ELSE lastres[e.thr].k = "nothing"
     \/ /\ e.ev = "hook" /\ e.pt = "bq.loader.start" /\ lpc \in {"idle", "woken"} /\ Stutter /\ UNCHANGED lastres   \* before the first receive (the silent LoaderWake may already be taken)
     \/ /\ e.ev = "hook" /\ e.pt = "bq.loader.woken" /\ lpc = "woken" /\ Stutter /\ UNCHANGED lastres
     \/ /\ e.ev = "hook" /\ e.pt = "bq.loader.checked" /\ LoaderCheck /\ UNCHANGED lastres
     \/ /\ e.ev = "hook" /\ e.pt = "bq.loader.locked" /\ LoaderLock /\ UNCHANGED lastres /\ SnapOK(e)
     \/ /\ e.ev = "hook" /\ e.pt = "bq.loader.polled" /\ lpc = "locked" /\ pool # <<>> /\ LoaderPoll /\ UNCHANGED lastres
     \/ /\ e.ev = "hook" /\ e.pt = "bq.loader.unlocking" /\ UNCHANGED lastres
        /\ \/ lpc = "locked" /\ pool = <<>> /\ LoaderPoll
           \/ lpc = "unlocked" /\ Stutter                                              \* the push failed: item back, lock released (silent step)
        /\ e.pool = Len(pool') /\ e.chl = Len(ch')
     \/ /\ e.ev = "hook" /\ e.pt = "bq.loader.unlocked" /\ LoaderSleep /\ UNCHANGED lastres
  /\ l' = l + 1 /\ Bump
\* silent steps (the model's own actions)
SConsRecv(c) == /\ ConsRecv(c)
                /\ lastres' = [lastres EXCEPT ![c] = IF cres'[c] # cres[c] THEN Last(cres'[c]) ELSE [k |-> "nothing", p |-> "-", i |-> 0]]
Silent == /\ l <= Len(Trace) /\ UNCHANGED l
          /\ \/ LoaderWake /\ UNCHANGED lastres
             \/ (\E p \in Producers : OfferBody(p)) /\ UNCHANGED lastres
             \/ LoaderPush /\ UNCHANGED lastres
             \/ \E c \in {"c1", "c2", "c3"} : (ConsNotify(c) /\ UNCHANGED lastres) \/ SConsRecv(c)
TNext == Event \/ Silent
TSpec == TInit /\ [][TNext]_tvars
TraceAccepted == PrintT(<<"HWM", TLCGet(1) - 1, Len(Trace)>>)
ASSUME TLCSet(1, 1)
=============================================================================
