--------------------------- MODULE Trace_HTTPSiblings ---------------------------
(* C18: two SimpleHTTP instances constructed from the same interceptor slice; every step names its instance.  Each instance has its
   own registration list (starting from the constructor's list): HTTPChain!Judge and HTTPChain!NextIcs applied per instance.
   how = "one-slice" | "NewSimpleHTTP" | "NewSimpleAPI" (default-constructed instances, empty list).  part = "nested": one request whose interceptor 9
   sends a nested request through the same instance (HTTPChain!JudgeNested; nestedErr: the nested request failed).                    *)
EXTENDS HTTPChain, Json, IOUtils
TraceS == ndJsonDeserialize(IOEnv.VERIF_TRACE)
RECURSIVE Fold(_, _, _, _)
\* returns 0 if every step is explained, else the index of the first step that is not
Fold(steps, k, a, b) ==
  IF k > Len(steps) THEN 0
  ELSE LET st == steps[k]
           ics == IF st.inst = 1 THEN a ELSE b IN
       IF ~Judge(ics, st.c, st.o) THEN k
       ELSE IF st.inst = 1 THEN Fold(steps, k + 1, NextIcs(a, st.c), b) ELSE Fold(steps, k + 1, a, NextIcs(b, st.c))
VARIABLES ls, nbads
InitS == ls = 1 /\ nbads = 0
NextS == /\ ls <= Len(TraceS) /\ nbads < 60
         /\ ls' = ls + 1
         /\ LET bad == IF TraceS[ls].part = "nested"
                          THEN (IF JudgeNested(TraceS[ls].init, TraceS[ls].steps[1].o) /\ ~TraceS[ls].nestedErr THEN 0 ELSE 1)
                          ELSE Fold(TraceS[ls].steps, 1, TraceS[ls].init, TraceS[ls].init) IN
            IF bad = 0 THEN nbads' = nbads ELSE PrintT(<<"MISMATCH", ls, bad>>) /\ nbads' = nbads + 1
SpecS == InitS /\ [][NextS]_<<ls, nbads>>
ConsumedS == PrintT(<<"CONSUMED", TLCGet("stats").diameter - 1, Len(TraceS)>>)
=============================================================================
