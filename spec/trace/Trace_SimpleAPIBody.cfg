SPECIFICATION SpecB
POSTCONDITION ConsumedB
CHECK_DEADLOCK FALSE
