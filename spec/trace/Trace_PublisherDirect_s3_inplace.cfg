SPECIFICATION TSpec
CONSTANTS
  Subs <- S3
  Extra = "X"
  InPlace = TRUE
  MaxChanges = 3
POSTCONDITION Consumed
CHECK_DEADLOCK FALSE
