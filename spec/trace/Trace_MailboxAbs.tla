-------------------------- MODULE Trace_MailboxAbs --------------------------
(* C12: runs of the real Handler / Actor, recorded by the driver (one global sequence number under one
   mutex), judged against the statement's own vocabulary:
     reset     a new mailbox;  senders = number of senders, kind "handler" | "actor"
     begin/end the posted function / the effect for message <<s, i>> starts / returns; selfOK: the effect got its own actor
     closed    Close has returned;   sent: message <<s, i>> whose Post/Send call BEGAN after that (must never run)
     quiesce   the run is over: ran = number of functions that ran, expect = number that must have run
     spawn     Spawn on a parent: parentClosed, parentLinked (GetParent() = parent), childLinked (parent.GetChild(id) = child)
   State: running (the message in flight), nxt[s] (index of the next message of sender s that may run).        *)
EXTENDS Integers, Sequences, FiniteSets, TLC, Json, IOUtils
Trace == ndJsonDeserialize(IOEnv.VERIF_TRACE)
MaxBad == 60
VARIABLES l, running, nxt, late, skipping, nbad
vars == <<l, running, nxt, late, skipping, nbad>>
None == <<0, 0>>
Init == l = 1 /\ running = None /\ nxt = [s \in 1..64 |-> 1] /\ late = {} /\ skipping = FALSE /\ nbad = 0
Bad(why) == PrintT(<<"MISMATCH", l, why>>) /\ nbad' = nbad + 1 /\ skipping' = TRUE /\ UNCHANGED <<running, nxt, late>>
Next ==
  /\ l <= Len(Trace) /\ nbad < MaxBad
  /\ l' = l + 1
  /\ LET e == Trace[l] IN
     IF e.ev = "reset" THEN running' = None /\ nxt' = [s \in 1..64 |-> 1] /\ late' = {} /\ skipping' = FALSE /\ nbad' = nbad
     ELSE IF skipping THEN UNCHANGED <<running, nxt, late, skipping, nbad>>          \* rest of a rejected run
     ELSE CASE e.ev = "begin" ->
                 IF running # None THEN Bad("two at the same time")
                 ELSE IF <<e.s, e.i>> \in late THEN Bad("ran although submitted after Close returned")
                 ELSE IF e.i < nxt[e.s] THEN Bad("processed twice")
                 ELSE IF e.i > nxt[e.s] THEN Bad("per-sender order")
                 ELSE IF ~e.selfOK THEN Bad("effect did not receive its own actor")
                 ELSE running' = <<e.s, e.i>> /\ nxt' = [nxt EXCEPT ![e.s] = @ + 1] /\ UNCHANGED <<late, skipping, nbad>>
            [] e.ev = "end" ->
                 IF running # <<e.s, e.i>> THEN Bad("end without matching begin")
                 ELSE running' = None /\ UNCHANGED <<nxt, late, skipping, nbad>>
            [] e.ev = "sentAfterClose" -> late' = late \cup {<<e.s, e.i>>} /\ UNCHANGED <<running, nxt, skipping, nbad>>
            [] e.ev = "quiesce" ->
                 IF e.ran # e.expect THEN Bad("not exactly once: ran differs from submitted")
                 ELSE IF running # None THEN Bad("still running at quiescence")
                 ELSE UNCHANGED <<running, nxt, late, skipping, nbad>>
            [] e.ev = "spawn" ->
                 IF e.parentClosed THEN (IF e.parentLinked \/ e.childLinked THEN Bad("spawn on a closed parent must not register")
                                         ELSE UNCHANGED <<running, nxt, late, skipping, nbad>>)
                 ELSE IF ~(e.parentLinked /\ e.childLinked) THEN Bad("spawn did not register parent and child")
                 ELSE IF ~e.independent THEN Bad("spawned actor is not an independent mailbox")
                 ELSE UNCHANGED <<running, nxt, late, skipping, nbad>>
            [] OTHER -> UNCHANGED <<running, nxt, late, skipping, nbad>>
Spec == Init /\ [][Next]_vars
Consumed == PrintT(<<"CONSUMED", TLCGet("stats").diameter - 1, Len(Trace)>>)
=============================================================================
