-------------------------- MODULE Trace_StreamHeap --------------------------
(* C04: programs executed on the real objects; one line per step with the call, its result
   and the FULL projected heap (every live slot re-read after the call).  Lines form a tree
   (d = depth; d = 0 carries an initial heap); stack[d+1] is the recorded heap at depth d of
   the current path.  A step that StreamHeap!Judge does not accept is reported with the clause
   it breaks (panic / frame / definition) and its subtree is skipped.                         *)
EXTENDS StreamHeap, Json, IOUtils
Trace == ndJsonDeserialize(IOEnv.VERIF_TRACE)
MaxBad == 60
VARIABLES l, stack, skip, nbad
vars == <<l, stack, skip, nbad>>
Init == l = 1 /\ stack = <<>> /\ skip = 0 /\ nbad = 0
Next ==
  /\ l <= Len(Trace) /\ nbad < MaxBad
  /\ l' = l + 1
  /\ LET e == Trace[l] IN
     IF e.d = 0 THEN stack' = <<e.heap>> /\ skip' = 0 /\ nbad' = nbad
     ELSE IF skip > 0 /\ e.d > skip THEN UNCHANGED <<stack, skip, nbad>>
     ELSE IF e.d <= Len(stack) /\ e.res.k # "panic" /\ Judge(stack[e.d], e.c, e.res, e.heap)
       THEN stack' = Append(SubSeq(stack, 1, e.d), e.heap) /\ skip' = 0 /\ nbad' = nbad
       ELSE /\ PrintT(<<"MISMATCH", l, IF e.d <= Len(stack) THEN Why(stack[e.d], e.c, e.res, e.heap) ELSE "orphan">>)
            /\ stack' = SubSeq(stack, 1, IF e.d <= Len(stack) THEN e.d ELSE Len(stack))
            /\ skip' = e.d /\ nbad' = nbad + 1
Spec == Init /\ [][Next]_vars
Consumed == PrintT(<<"CONSUMED", TLCGet("stats").diameter - 1, Len(Trace)>>)
=============================================================================
