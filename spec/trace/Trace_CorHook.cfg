SPECIFICATION TSpec
CONSTANTS
  Callers <- TCallers
  NReq <- TNReq
  NServe <- TNServe
  OpCap = 5
  ResCap = 5
  ReplyLocksTarget = FALSE
  SafeCompletion = TRUE
INVARIANT NotDone
POSTCONDITION TraceAccepted
CHECK_DEADLOCK FALSE
