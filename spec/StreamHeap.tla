------------------------------ MODULE StreamHeap ------------------------------
(* C04 — Stream / MapSet / StreamSet are persistent.

   The state is a heap H of collection objects (a sequence; the object id is its
   index):  [k |-> "stream", v |-> sequence]          Stream / StreamForInterface
            [k |-> "set",    v |-> <<key, value>> pairs sorted by key]   MapSet / SetForInterface
            [k |-> "sset",   v |-> <<key, sequence>> pairs sorted by key] StreamSet(ForInterface)
   A call  c = [fam, op, recv, o, xs, x, f]  (fam "G" generic / "I" interface{};
   recv, o object ids; xs element list; x element / index / key; f function name)
   returns either a collection — a NEW object (id Len(H)+1) or an ALIAS of a live
   one (the code returns the receiver itself for Minus(empty), Concat(), ...) —
   or an observation (bool / int / seq / pairs).

   Judge(H, c, res, H2) is the property for one step:
     Def    the returned collection holds what the operation's definition prescribes;
     Frame  every object alive before still has exactly its value, except the
            receiver of a documented in-place mutator (Set on a set; Remove on the
            interface{} stream, which must leave the receiver equal to the result);
     Obs    Len/Get/Contains/ToArray/Keys/... agree with the value.
   Values of new keys: the generic Add stores the zero value (0), the interface{}
   Add stores true (projected as -1).                                         *)
EXTENDS Integers, Sequences, FiniteSets, SequencesExt, TLC

Elems(s)  == {s[i] : i \in DOMAIN s}
Sel(s, Keep(_, _)) == LET idx == SetToSortSeq({j \in 1..Len(s) : Keep(s[j], j - 1)}, LAMBDA p, q : p < q)
                      IN [j \in DOMAIN idx |-> s[idx[j]]]
FirstOcc(s) == Sel(s, LAMBDA e, i : \A h \in 1..i : s[h] # e)
Rev(s)    == [i \in 1..Len(s) |-> s[Len(s) + 1 - i]]
Asc(s)    == SortSeq(s, LAMBDA p, q : p < q)
Desc(s)   == SortSeq(s, LAMBDA p, q : p > q)
SortedSet(S) == SetToSortSeq(S, LAMBDA p, q : p < q)
PKeys(ps) == {ps[j][1] : j \in DOMAIN ps}
PGet(ps, key) == ps[CHOOSE j \in DOMAIN ps : ps[j][1] = key][2]
PFun(ps)  == [key \in PKeys(ps) |-> PGet(ps, key)]
FPairs(fn) == LET ks == SortedSet(DOMAIN fn) IN [j \in DOMAIN ks |-> <<ks[j], fn[ks[j]]>>]
RECURSIVE Flat(_)
Flat(ss) == IF ss = <<>> THEN <<>> ELSE Head(ss) \o Flat(Tail(ss))

\* function family (fn(T, int) T / fn(T, int) bool / fn(T) T) — the same table is in the driver
PredI(f, e, i) == CASE f = "valEven" -> e % 2 = 0 [] f = "idxEven" -> i % 2 = 0 [] f = "valGt1" -> e > 1 [] f = "constT" -> TRUE
TrI(f, e, i)   == CASE f = "plusIdx" -> e + i [] f = "times2" -> 2 * e [] f = "const7" -> 7
Tr(f, e)       == CASE f = "plus10" -> e + 10 [] f = "times2" -> 2 * e [] f = "neg" -> 0 - e

NewVal(fam) == IF fam = "G" THEN 0 ELSE -1

StreamOps == {"Map", "Filter", "Reject", "FilterNotNil", "Distinct", "Append", "Concat", "Extend", "Remove", "RemoveItem",
              "Reverse", "Sort", "SortByIndex", "Minus", "Intersection", "Clone"}
StreamObs == {"Len", "Get", "Contains", "ToArray", "IsSubset", "IsSuperset"}
SetOps    == {"Add", "RemoveKeys", "RemoveValues", "Union", "Intersection", "Minus", "MapKey", "MapValue", "Clone"}
SetObs    == {"Size", "Keys", "Values", "Get", "ContainsKey", "ContainsValue", "AsMap"}
SSetOps   == {"Union", "Intersection", "MinusStreams", "Minus", "Clone"}

\* -------------------------------------------------------- definitions (values)
StreamDef(H, c) ==
  LET s == H[c.recv].v  L == Len(H[c.recv].v) IN
  CASE c.op = "Map"          -> [i \in 1..L |-> TrI(c.f, s[i], i - 1)]
    [] c.op = "Filter"       -> Sel(s, LAMBDA e, i : PredI(c.f, e, i))
    [] c.op = "Reject"       -> Sel(s, LAMBDA e, i : ~PredI(c.f, e, i))
    [] c.op = "FilterNotNil" -> s
    [] c.op = "Distinct"     -> FirstOcc(s)
    [] c.op = "Append"       -> s \o c.xs
    [] c.op = "Concat"       -> s \o Flat(c.xss)
    [] c.op = "Extend"       -> s \o H[c.o].v
    [] c.op = "Remove"       -> IF c.x >= 0 /\ c.x < L THEN SubSeq(s, 1, c.x) \o SubSeq(s, c.x + 2, L) ELSE s
    [] c.op = "RemoveItem"   -> Sel(s, LAMBDA e, i : e \notin Elems(c.xs))
    [] c.op = "Reverse"      -> Rev(s)
    [] c.op \in {"Sort", "SortByIndex"} -> IF c.f = "asc" THEN Asc(s) ELSE Desc(s)
    [] c.op = "Minus"        -> Sel(s, LAMBDA e, i : e \notin Elems(H[c.o].v))
    [] c.op = "Intersection" -> FirstOcc(Sel(s, LAMBDA e, i : e \in Elems(H[c.o].v)))
    [] c.op = "Clone"        -> s

SetDefn(H, c) ==
  LET m == PFun(H[c.recv].v)  K == DOMAIN PFun(H[c.recv].v) IN
  CASE c.op = "Add"          -> FPairs([key \in K \cup Elems(c.xs) |-> IF key \in K THEN m[key] ELSE NewVal(c.fam)])
    [] c.op = "RemoveKeys"   -> FPairs([key \in K \ Elems(c.xs) |-> m[key]])
    [] c.op = "RemoveValues" -> FPairs([key \in {q \in K : m[q] \notin Elems(c.xs)} |-> m[key]])
    [] c.op = "Union"        -> LET m2 == PFun(H[c.o].v) IN
                                FPairs([key \in K \cup DOMAIN m2 |-> IF key \in DOMAIN m2 THEN m2[key] ELSE m[key]])
    [] c.op = "Intersection" -> FPairs([key \in K \cap PKeys(H[c.o].v) |-> m[key]])
    [] c.op = "Minus"        -> FPairs([key \in K \ PKeys(H[c.o].v) |-> m[key]])
    [] c.op = "MapKey"       -> FPairs([key \in {Tr(c.f, q) : q \in K} |-> m[CHOOSE q \in K : Tr(c.f, q) = key]])   \* f injective
    [] c.op = "MapValue"     -> FPairs([key \in K |-> Tr(c.f, m[key])])
    [] c.op = "Clone"        -> H[c.recv].v

\* StreamSet: keys are fixed by the definition; per-key contents are fixed (as element sets) for keys
\* whose streams are non-empty in both operands, and equal to the receiver's for Clone / untouched keys
SSetOK(H, c, val) ==
  LET s == H[c.recv].v  K1 == PKeys(H[c.recv].v) IN
  IF c.op = "Clone" THEN val = s
  ELSE LET s2 == H[c.o].v  K2 == PKeys(H[c.o].v)
           Both == {key \in K1 \cap K2 : PGet(s, key) # <<>> /\ PGet(s2, key) # <<>>}
           Empty2 == s2 = <<>>                       \* doc-silent: empty argument (pinned: new empty set / receiver)
       IN
       CASE c.op = "Union" -> /\ PKeys(val) = K1 \cup K2
                              /\ \A key \in Both : Elems(PGet(val, key)) = Elems(PGet(s, key)) \cup Elems(PGet(s2, key))
                              /\ \A key \in K1 \ K2 : PGet(val, key) = PGet(s, key)
                              /\ \A key \in K2 \ K1 : PGet(val, key) = PGet(s2, key)
         [] c.op = "Intersection" -> /\ PKeys(val) = K1 \cap K2
                                     /\ \A key \in Both : Elems(PGet(val, key)) = Elems(PGet(s, key)) \cap Elems(PGet(s2, key))
         [] c.op = "MinusStreams" -> \/ Empty2 /\ val = <<>>
                                     \/ /\ PKeys(val) = K1
                                        /\ \A key \in Both : PGet(val, key) = Sel(PGet(s, key), LAMBDA e, i : e \notin Elems(PGet(s2, key)))
                                        /\ \A key \in K1 \ K2 : PGet(val, key) = PGet(s, key)
         [] c.op = "Minus" -> /\ PKeys(val) = K1 \ K2
                              /\ \A key \in K1 \ K2 : PGet(val, key) = PGet(s, key)

IsCollectionOp(H, c) ==
  \/ H[c.recv].k = "stream" /\ c.op \in StreamOps
  \/ H[c.recv].k = "set" /\ c.op \in SetOps
  \/ H[c.recv].k = "sset" /\ c.op \in SSetOps

ValueOK(H, c, val) ==
  CASE H[c.recv].k = "stream" -> val = StreamDef(H, c)
    [] H[c.recv].k = "set"    -> val = SetDefn(H, c)
    [] H[c.recv].k = "sset"   -> SSetOK(H, c, val)

\* ----------------------------------------------------------------- mutators
\* the only calls allowed to change a live object, and what the receiver must become
IsMutator(H, c) == \/ H[c.recv].k = "set" /\ c.op = "Set"
                   \/ H[c.recv].k = "stream" /\ c.op = "Remove" /\ c.fam = "I"
MutatedValue(H, c) ==
  IF c.op = "Set" THEN LET m == PFun(H[c.recv].v) IN FPairs([key \in DOMAIN m \cup {c.x} |-> IF key = c.x THEN c.y ELSE m[key]])
  ELSE StreamDef(H, c)

\* --------------------------------------------------------------- observers
ObsOK(H, c, res) ==
  LET v == H[c.recv].v IN
  CASE c.op = "Len"        -> res.k = "int" /\ res.v = Len(v)
    [] c.op = "Get" /\ H[c.recv].k = "stream" -> res.k = "int" /\ res.v = v[c.x + 1]        \* only generated in range
    [] c.op = "Contains"   -> res.k = "bool" /\ res.v = (c.x \in Elems(v))
    [] c.op = "ToArray"    -> res.k = "seq" /\ res.v = v
    [] c.op = "IsSubset"   -> res.k = "bool" /\ (H[c.o].v # <<>> /\ v # <<>> => res.v = (Elems(v) \subseteq Elems(H[c.o].v)))
    [] c.op = "IsSuperset" -> res.k = "bool" /\ (H[c.o].v # <<>> /\ v # <<>> => res.v = (Elems(H[c.o].v) \subseteq Elems(v)))
    [] c.op = "Size"       -> res.k = "int" /\ res.v = Len(v)
    [] c.op = "Keys"       -> res.k = "seq" /\ res.v = SortedSet(PKeys(v))                  \* projected sorted
    [] c.op = "Values"     -> res.k = "seq" /\ res.v = Asc([j \in DOMAIN v |-> v[j][2]])
    [] c.op = "Get"        -> res.k = "int" /\ res.v = (IF c.x \in PKeys(v) THEN PGet(v, c.x) ELSE 0)
    [] c.op = "ContainsKey" -> res.k = "bool" /\ res.v = (c.x \in PKeys(v))
    [] c.op = "ContainsValue" -> res.k = "bool" /\ res.v = (\E j \in DOMAIN v : v[j][2] = c.x)
    [] c.op = "AsMap"      -> res.k = "pairs" /\ res.v = v

\* ------------------------------------------------------------------ the step
\* Heap slots are references: every collection-returning call adds one slot (slot Len(H)+1), whose
\* object identity token oid tells whether the code returned a new object or an alias of a live one.
SameObj(H, j) == {q \in DOMAIN H : H[q].oid = H[j].oid}

Judge(H, c, res, H2) ==
  IF H[c.recv].k = "set" /\ c.op = "Set" THEN
       /\ Len(H2) = Len(H)
       /\ \A j \in DOMAIN H : IF j \in SameObj(H, c.recv)
                               THEN H2[j].k = H[j].k /\ H2[j].oid = H[j].oid /\ H2[j].v = MutatedValue(H, c)
                               ELSE H2[j] = H[j]
  ELSE IF IsCollectionOp(H, c) THEN
       LET n == Len(H) + 1
           mut == IF IsMutator(H, c) THEN SameObj(H, c.recv) ELSE {} IN
       /\ res.k = "coll" /\ Len(H2) = n
       /\ \A j \in DOMAIN H : IF j \in mut
                               THEN H2[j].k = H[j].k /\ H2[j].oid = H[j].oid /\ H2[j].v = StreamDef(H, c)
                               ELSE H2[j] = H[j]                                   \* frame
       /\ H2[n].k = H[c.recv].k /\ ValueOK(H, c, H2[n].v)                          \* definition
       /\ IsMutator(H, c) => H2[n].v = H2[c.recv].v                                \* receiver = returned stream
  ELSE /\ Len(H2) = Len(H) /\ \A j \in DOMAIN H : H2[j] = H[j]
       /\ ObsOK(H, c, res)

FrameHolds(H, c, H2) ==
  LET mut == IF IsMutator(H, c) THEN SameObj(H, c.recv) ELSE {} IN
  Len(H2) >= Len(H) /\ \A j \in DOMAIN H : j \notin mut => H2[j] = H[j]
Why(H, c, res, H2) ==
  IF res.k = "panic" THEN "panic" ELSE IF ~FrameHolds(H, c, H2) THEN "frame" ELSE "definition"
=============================================================================
