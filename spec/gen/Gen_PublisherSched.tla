-------------------------- MODULE Gen_PublisherSched --------------------------
(* Direction A for the Publisher: TLC enumerates EVERY complete behaviour of Publisher.tla for a small configuration (hist is part
   of the state, so the explored graph is the tree of behaviours) and writes each one, when EndPublish is taken, as a SCHEDULE:
     [steps |-> sequence of [a |-> "start" | "deliver" | "unsub" | "sub" | "end", s |-> subscription ("-" for start/end)],
      log   |-> the deliveries the model makes, in order,
      final |-> the registered list after the call (what a second Publish must deliver, in order)]
   The director (drv c10 direct) makes the real publisher take exactly these steps: the publishing goroutine is parked at the hook
   points p.publish.snap / p.publish.deliver, list changes are made while it is parked (by another goroutine, or from inside the
   callback that was just run), and what really happened is written as a trace that Trace_PublisherDirect replays through
   Publisher.tla's own actions.                                                                                              *)
EXTENDS MC_Publisher, Json, CSV, IOUtils
VARIABLE hist
EmitFile == IOEnv.VERIF_EMIT
Step(a, s) == hist' = Append(hist, [a |-> a, s |-> s])
GNext ==
  \/ (StartPublish /\ Step("start", "-"))
  \/ (Deliver /\ Step("deliver", arrays[snap.arr][idx]))
  \/ (DoSub /\ Step("sub", Extra))
  \/ (\E s \in SubSet \cup {Extra} : DoUnsub(s) /\ Step("unsub", s))
  \/ (EndPublish /\ Step("end", "-"))
GInit == Init /\ hist = <<>>
GSpec == GInit /\ [][GNext]_<<vars, hist>>
EmitDone == (pc' = "done" /\ pc # "done") =>
              CSVWrite("%1$s", <<ToJson([steps |-> hist', log |-> log', final |-> SubSeq(arrays'[subs'.arr], 1, subs'.len)])>>, EmitFile)
=============================================================================
