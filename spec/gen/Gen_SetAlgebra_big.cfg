INIT Init
NEXT Next
CONSTANTS
  E = {0, 1, 2, 3}
  MaxLen = 3
  MaxLen3 = 2
  SKeys = {1, 2}
  SVals = {1, 2, 3}
  SMaxLen = 2
