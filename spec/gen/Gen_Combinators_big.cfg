INIT Init
NEXT Next
CONSTANTS
  FSet = {"a1", "a2", "dup", "rev", "drop1"}
  MaxFs = 5
  MaxScript = 5
