INIT Init
NEXT Next
