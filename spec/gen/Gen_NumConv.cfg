INIT Init
NEXT Next
