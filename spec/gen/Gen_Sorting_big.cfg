INIT Init
NEXT Next
CONSTANTS
  Keys = {1, 2}
  MaxLen = 5
  MaxLenD = 2
  DKeys = {"k1", "k2", "k3"}
  MaxStack = 3
