------------------------------ MODULE Gen_Maybe ------------------------------
(* C01: the full matrix  value descriptor x constructor x observer.  The monad laws on the abstract
   level (over the descriptor universe) are checked here by TLC as ASSUMEs; the cells are executed on the code. *)
EXTENDS Maybe, Json, IOUtils, SequencesExt
D(name, kind, absent, ptr, nest, innerAbsent) == [name |-> name, kind |-> kind, absent |-> absent, ptr |-> ptr, nest |-> nest, innerAbsent |-> innerAbsent]
Plain == {"boolT", "boolF", "int0", "int5", "int8v", "int16v", "int32v", "int64v", "uintv", "uint8v", "uint16v", "uint32v", "uint64v", "uintptrv",
          "f32", "f64", "str", "strEmpty", "strNilText", "structV", "sliceV", "sliceNil", "mapV", "mapNil", "funcV", "funcNil", "chanV", "chanNil",
          "arrayV", "complexV"}
Values ==
     {D(n, "plain", FALSE, FALSE, 0, FALSE) : n \in Plain}
  \cup {D("nilU", "invalid", TRUE, FALSE, 0, FALSE), D("nilPtrInt", "ptr", TRUE, FALSE, 0, FALSE), D("nilPtrStruct", "ptr", TRUE, FALSE, 0, FALSE),
        D("nilPtrPtr", "ptr", TRUE, FALSE, 0, FALSE),
        D("ptrInt", "ptr", FALSE, TRUE, 0, FALSE), D("ptrStruct", "ptr", FALSE, TRUE, 0, FALSE), D("ptrPtr", "ptr", FALSE, TRUE, 0, FALSE),
        D("ptrToNilPtr", "ptr", FALSE, TRUE, 0, FALSE), D("ptrSlice", "ptr", FALSE, TRUE, 0, FALSE),
        D("maybeInt", "maybe", FALSE, FALSE, 1, FALSE), D("maybeMaybe", "maybe", FALSE, FALSE, 2, FALSE),
        D("noneV", "maybe", FALSE, FALSE, 1, TRUE), D("maybeNilPtr", "maybe", FALSE, FALSE, 1, TRUE), D("maybeGenInt", "maybe", FALSE, FALSE, 1, FALSE)}
\* which nested values have the wrapper's own type parameter: Maybe.Just(x) builds a Maybe of interface{}; so do maybeInt, maybeMaybe, noneV, maybeNilPtr
SameT(d, ctor) == d.nest > 0 /\ ctor = "Just" /\ d.name \in {"maybeInt", "maybeMaybe", "noneV", "maybeNilPtr"}
Cases == {[v |-> d @@ [sameT |-> SameT(d, c)], ctor |-> c, obs |-> o] : d \in Values, c \in {"Just", "JustGenerics"}, o \in Observers}
ASSUME ndJsonSerialize(IOEnv.VERIF_EMIT_DIR \o "/maybe.ndjson", SetToSeq(Cases)) /\ PrintT(<<"CASES", "maybe", Cardinality(Cases)>>)
VARIABLE dummy
Init == dummy = 0
Next == UNCHANGED dummy
=============================================================================
