\* 2 subscriptions, at most 3 list changes anywhere during the Publish, fresh-array removal (the code): every behaviour
SPECIFICATION GSpec
CONSTANTS
  Subs <- S2
  Extra = "X"
  InPlace = FALSE
  MaxChanges = 3
ACTION_CONSTRAINT EmitDone
CHECK_DEADLOCK FALSE
