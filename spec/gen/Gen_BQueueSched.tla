--------------------------- MODULE Gen_BQueueSched ---------------------------
(* Direction A for the concurrent queue: TLC explores BQueue.tla exhaustively for a small configuration and writes one
   SCHEDULE per edge of the state graph (a shortest path to the edge's source state followed by the edge): the
   transition cover.  Each schedule is a sequence of steps [a: action, t: thread, k: kind, and the model state after the
   step: ch, pool, lval, lpc, lock, wake, pres, cres].  The director (drv c07 direct) makes the real goroutines take exactly
   these steps - every goroutine is parked at each verif hook point and released one step at a time - and compares the
   real queue with the model state after every step.
   hist is hidden by the VIEW, so the explored graph is BQueue's own.                                                  *)
EXTENDS BQueue, Json, CSV, IOUtils
VARIABLE hist
EmitFile == IOEnv.VERIF_EMIT
Enc(x) == IF x.k = "val" THEN 1000 * (CASE x.p = "p1" -> 1 [] x.p = "p2" -> 2 [] x.p = "p3" -> 3) + x.i ELSE (IF x.k = "closed" THEN -1 ELSE IF x.k = "zero" THEN -2 ELSE -3)
EncSeq(s) == [i \in 1..Len(s) |-> Enc(s[i])]
Step(a, t, k) == hist' = Append(hist, [a |-> a, t |-> t, k |-> k,
                     ch |-> EncSeq(ch'), pool |-> EncSeq(pool'), lval |-> EncSeq(lval'), lpc |-> lpc', lock |-> lock', wake |-> wake',
                     pres |-> [p \in Producers |-> pres'[p]], cres |-> [c \in Consumers |-> EncSeq(cres'[c])]])
GNext ==
  \/ \E p \in Producers : \/ (OfferLock(p) /\ Step("OfferLock", p, "-"))
                          \/ (OfferBody(p) /\ Step("OfferBody", p, "-"))
                          \/ (OfferUnlock(p) /\ Step("OfferUnlock", p, "-"))
  \/ \E c \in Consumers : \/ (\E k \in Kinds : ConsStart(c, k) /\ Step("ConsStart", c, k))
                          \/ (ConsNotify(c) /\ Step("ConsNotify", c, ckind[c]))
                          \* (a timed take gives up only on an empty channel here: with an item ready the real select may take either branch)
                          \/ (ConsRecv(c) /\ ((ckind[c] = "ttake" /\ cres'[c] = cres[c]) => Len(ch) = 0) /\ Step("ConsRecv", c, ckind[c]))
  \/ (LoaderWake /\ Step("LoaderWake", "loader", "-")) \/ (LoaderCheck /\ Step("LoaderCheck", "loader", "-"))
  \/ (LoaderLock /\ Step("LoaderLock", "loader", "-")) \/ (LoaderPoll /\ Step("LoaderPoll", "loader", "-"))
  \/ (LoaderPush /\ Step("LoaderPush", "loader", "-")) \/ (LoaderSleep /\ Step("LoaderSleep", "loader", "-"))
GInit == Init /\ hist = <<>>
GSpec == GInit /\ [][GNext]_<<vars, hist>>
View == vars
EmitEdge == CSVWrite("%1$s", <<ToJson([steps |-> hist'])>>, EmitFile)
=============================================================================
