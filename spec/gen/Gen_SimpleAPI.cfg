INIT Init
NEXT Next
