INIT Init
NEXT Next
CONSTANTS
  E = {0, 1, 2}
  MaxLen = 4
  MaxLen2 = 3
