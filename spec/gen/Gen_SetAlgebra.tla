--------------------------- MODULE Gen_SetAlgebra ---------------------------
(* C05, direction A: TLC enumerates the complete bounded operand domain for every
   set operation of both API families and writes the calls; the Go driver runs the
   generic side and the interface{} twin of each call on the real code and logs both
   outcomes; Trace_SetAlgebra.tla (TLC again) judges every line with SetAlgebra!Judge. *)
EXTENDS SetAlgebra, Json, IOUtils
CONSTANTS E, MaxLen, MaxLen3, SKeys, SVals, SMaxLen

Lists(k) == UNION {[1..j -> E] : j \in 0..k}
MapOut(mf) == LET ks == SortedSet(DOMAIN mf) IN [j \in DOMAIN ks |-> <<ks[j], mf[ks[j]]>>]
Maps == {MapOut(mf) : mf \in UNION {[D -> {0, 1}] : D \in SUBSET E}}
SStreams == UNION {[1..j -> SVals] : j \in 0..SMaxLen}
SSets == {MapOut(mf) : mf \in UNION {[D -> SStreams] : D \in SUBSET SKeys}}

Base == [fam |-> "-", op |-> "-", n |-> 2, a |-> <<>>, b |-> <<>>, c3 |-> <<>>, xs |-> <<>>, x |-> 0,
         m |-> <<>>, m2 |-> <<>>, s |-> <<>>, s2 |-> <<>>]

Bin(fam, op)  == {[Base EXCEPT !.fam = fam, !.op = op, !.a = a, !.b = b] : a \in Lists(MaxLen), b \in Lists(MaxLen)}
Tri(fam, op)  == {[Base EXCEPT !.fam = fam, !.op = op, !.n = 3, !.a = a, !.b = b, !.c3 = c] :
                    a \in Lists(MaxLen3), b \in Lists(MaxLen3), c \in Lists(MaxLen3)}
Un(fam, op)   == {[Base EXCEPT !.fam = fam, !.op = op, !.a = a] : a \in Lists(MaxLen)}
UnX(fam, op)  == {[Base EXCEPT !.fam = fam, !.op = op, !.a = a, !.x = x] : a \in Lists(MaxLen), x \in E}
UnXs(fam, op) == {[Base EXCEPT !.fam = fam, !.op = op, !.a = a, !.xs = xs] : a \in Lists(MaxLen), xs \in Lists(2)}
M1(fam, op)   == {[Base EXCEPT !.fam = fam, !.op = op, !.m = m] : m \in Maps}
M1X(fam, op)  == {[Base EXCEPT !.fam = fam, !.op = op, !.m = m, !.x = x] : m \in Maps, x \in E}
M1Xs(fam, op) == {[Base EXCEPT !.fam = fam, !.op = op, !.m = m, !.xs = xs] : m \in Maps, xs \in Lists(2)}
M2(fam, op)   == {[Base EXCEPT !.fam = fam, !.op = op, !.m = m, !.m2 = m2] : m \in Maps, m2 \in Maps}
S1(op)        == {[Base EXCEPT !.fam = "streamset", !.op = op, !.s = s] : s \in SSets}
S2(op)        == {[Base EXCEPT !.fam = "streamset", !.op = op, !.s = s, !.s2 = s2] : s \in SSets, s2 \in SSets}

Groups == <<
  <<"slice2",  UNION {Bin("slice", op) : op \in {"Union", "Intersection", "Difference", "Minus", "IsSubset", "IsSuperset"}}>>,
  <<"slice3",  UNION {Tri("slice", op) : op \in {"Union", "Intersection", "Difference"}}>>,
  <<"slice1",  Un("slice", "Distinct") \cup UnX("slice", "Exists") \cup UnX("slice", "SliceToMap")>>,
  <<"slicemap", UNION {M1("slice", op) : op \in {"Keys", "Values", "DuplicateMap"}}
               \cup UNION {M2("slice", op) : op \in {"Merge", "IntersectionMapByKey", "MinusMapByKey", "IsSubsetMapByKey", "IsSupersetMapByKey"}}>>,
  <<"stream2", UNION {Bin("stream", op) : op \in {"Intersection", "Minus", "IsSubset", "IsSuperset", "Extend"}}>>,
  <<"stream1", UNION {Un("stream", op) : op \in {"Distinct", "Clone", "Reverse"}} \cup UnX("stream", "Contains")
               \cup UnXs("stream", "RemoveItem") \cup UnXs("stream", "Append")>>,
  <<"mapset",  UNION {M2("mapset", op) : op \in {"Union", "Intersection", "Minus", "IsSubsetByKey", "IsSupersetByKey"}}
               \cup M1X("mapset", "ContainsKey") \cup M1X("mapset", "ContainsValue") \cup M1("mapset", "Clone")
               \cup UNION {M1Xs("mapset", op) : op \in {"Add", "RemoveKeys", "RemoveValues"}}>>,
  <<"streamset", UNION {S2(op) : op \in {"Union", "Intersection", "MinusStreams", "Minus", "IsSubsetByKey", "IsSupersetByKey"}}
               \cup S1("Clone")>> >>

File(g) == IOEnv.VERIF_EMIT_DIR \o "/" \o g \o ".ndjson"
Emit(j) == LET cs == SetToSeq(Groups[j][2]) IN
           ndJsonSerialize(File(Groups[j][1]), cs) /\ PrintT(<<"CASES", Groups[j][1], Len(cs)>>)
ASSUME \A j \in DOMAIN Groups : Emit(j)
VARIABLE dummy
Init == dummy = 0
Next == UNCHANGED dummy
=============================================================================
