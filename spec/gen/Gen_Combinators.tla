--------------------------- MODULE Gen_Combinators ---------------------------
(* C20 inputs: function lists with every regrouping, adapter arities, trampoline runs, CurryDef scripts,
   every permutation of every subset of the five pattern kinds x every probe.                          *)
EXTENDS Combinators, Json, IOUtils, SequencesExt
CONSTANTS FSet, MaxFs, MaxScript

FLists == UNION {[1..j -> FSet] : j \in 1..MaxFs}
\* all cuts of fs into consecutive non-empty groups
RECURSIVE Cuts(_)
Cuts(fs) == IF Len(fs) = 1 THEN {<<fs>>}
            ELSE UNION {{<<SubSeq(fs, 1, k)>> \o rest : rest \in Cuts(SubSeq(fs, k + 1, Len(fs)))} : k \in 1..(Len(fs) - 1)} \cup {<<fs>>}
ComposeCases == {[part |-> "compose", fn |-> fn, groups |-> g, x |-> x] :
                   fn \in {"Compose", "Pipe", "ComposeInterface", "PipeInterface"}, g \in UNION {Cuts(fs) : fs \in FLists}, x \in {<<>>, <<9>>}}
ASSUME \A fs \in FLists, x \in {<<>>, <<9>>, <<8, 9>>} : ComposeIsPipeReversed(fs, x)

Bound == <<11, 12, 13, 14, 15, 16>>
Supp  == <<21, 22, 23, 24, 25, 26, 27>>
AdapterCases ==
     {[part |-> "adapter", fn |-> "CurryParam", n |-> n, bound |-> SubSeq(Bound, 1, n), args |-> SubSeq(Supp, 1, k)] : n \in 1..6, k \in 0..3}
  \cup {[part |-> "adapter", fn |-> "CurryParam1ForSlice1", n |-> 1, bound |-> <<11>>, args |-> SubSeq(Supp, 1, k)] : k \in 0..3}
  \cup {[part |-> "adapter", fn |-> "MakeVariadicParam", n |-> n, bound |-> <<>>, args |-> SubSeq(Supp, 1, n + k)] : n \in 1..6, k \in 0..1}
  \cup {[part |-> "adapter", fn |-> "MakeVariadicReturn", n |-> n, bound |-> <<>>, args |-> SubSeq(Supp, 1, k)] : n \in 1..6, k \in {0, 6}}
  \cup {[part |-> "adapter", fn |-> "MakeNumericReturnBool", n |-> n, bound |-> <<>>, args |-> <<v>>] : n \in {0, 1}, v \in 1..3}
TrampCases == {[part |-> "trampoline", x |-> <<n, 0>>, errAt |-> k, errDone |-> d] : n \in 0..4, k \in 0..6, d \in BOOLEAN}

ScriptOps == {[op |-> "Call", args |-> <<1>>], [op |-> "Call", args |-> <<2, 3>>], [op |-> "Call", args |-> <<>>],
              [op |-> "MarkDone", args |-> <<>>], [op |-> "Result", args |-> <<>>]}
CurryCases == {[part |-> "curryseq", calls |-> sc] : sc \in UNION {[1..j -> ScriptOps] : j \in 1..MaxScript}}

\* --- pattern matching
TypeA == [t |-> "sum", of |-> <<[t |-> "nil"], [t |-> "product", kinds |-> <<"int", "string">>], [t |-> "product", kinds |-> <<"string">>]>>]
TypeS == [t |-> "sum", of |-> <<[t |-> "product", kinds |-> <<"struct">>]>>]
NoObj == <<>>
D(name, kind, nil, text, eq) == [name |-> name, kind |-> kind, nil |-> nil, text |-> text, eq |-> eq, ptrToStruct |-> FALSE,
                                 comp |-> "none", objs |-> NoObj, pointee |-> 0]
CompVal(name, objs) == [D(name, "struct", FALSE, "-", 0) EXCEPT !.comp = "data", !.objs = objs]
PtrTo(name, d) == [D(name, "ptr", FALSE, "-", 0) EXCEPT !.ptrToStruct = TRUE, !.pointee = d]
O(kind, nil) == [kind |-> kind, nil |-> nil]
Probes == {
  D("int42", "int", FALSE, "-", 1), D("int7", "int", FALSE, "-", 2), D("strHello", "string", FALSE, "hello", 3),
  D("strCcc", "string", FALSE, "ccc", 4), D("nilU", "invalid", TRUE, "-", 5), D("nilPtr", "ptr", TRUE, "-", 6),
  D("structS", "struct", FALSE, "-", 7), PtrTo("ptrS", D("structS", "struct", FALSE, "-", 7)),
  D("slice", "slice", FALSE, "-", 0), D("float", "float64", FALSE, "-", 9), D("boolT", "bool", FALSE, "-", 10),
  D("ptrInt", "ptr", FALSE, "-", 12), D("structP", "struct", FALSE, "-", 13),   \* equality is ==: a pointer equals only itself (12), a struct with a pointer field
                                                                                 \* only one holding the same pointer (13); look-alikes with equal pointees are 11 / 14
  PtrTo("compA1", CompVal("compA1v", <<O("int", FALSE), O("string", FALSE)>>)),
  PtrTo("compA2", CompVal("compA2v", <<O("string", FALSE)>>)),
  PtrTo("compNil", CompVal("compNilv", <<O("invalid", TRUE)>>)),
  CompVal("compA1v", <<O("int", FALSE), O("string", FALSE)>>) }

Pat(p, kind, eq, re, ty) == [p |-> p, kind |-> kind, eq |-> eq, re |-> re, ty |-> ty]
NoTy == [t |-> "nil"]
BasePats == {Pat("kind", "int", 0, "-", NoTy), Pat("equal", "-", 3, "-", NoTy), Pat("regex", "-", 0, "cplus", NoTy),
             Pat("sum", "-", 0, "-", TypeA), Pat("otherwise", "-", 0, "-", NoTy)}
AltPats == {Pat("kind", "string", 0, "-", NoTy), Pat("kind", "struct", 0, "-", NoTy), Pat("kind", "ptr", 0, "-", NoTy),
            Pat("equal", "-", 1, "-", NoTy), Pat("equal", "-", 7, "-", NoTy), Pat("equal", "-", 5, "-", NoTy), Pat("equal", "-", 6, "-", NoTy),
            Pat("equal", "-", 11, "-", NoTy), Pat("equal", "-", 12, "-", NoTy), Pat("equal", "-", 13, "-", NoTy), Pat("equal", "-", 14, "-", NoTy),
            Pat("regex", "-", 0, "hdoto", NoTy), Pat("regex", "-", 0, "invalid", NoTy), Pat("regex", "-", 0, "any", NoTy),
            Pat("sum", "-", 0, "-", TypeS)}
\* all permutations of all non-empty subsets of the five base kinds, plus every single alternative pattern in front of Otherwise / alone
PermLists(S) == {s \in UNION {[1..j -> S] : j \in 1..Cardinality(S)} : \A a, b \in DOMAIN s : a # b => s[a] # s[b]}
PatLists == PermLists(BasePats) \cup {<<a>> : a \in AltPats} \cup {<<a, Pat("otherwise", "-", 0, "-", NoTy)>> : a \in AltPats}
                                \cup {<<a, b>> : a \in AltPats, b \in BasePats}
\* nilEff: the effects return nil (handlers called for their side effect): the accepting pattern's effect still runs and nothing panics
MatchCases == {[part |-> "match", fn |-> fn, ps |-> ps, probe |-> pr, nilEff |-> FALSE] : fn \in {"MatchFor", "Either"}, ps \in PatLists, pr \in Probes}
              \cup {[part |-> "match", fn |-> fn, ps |-> ps, probe |-> pr, nilEff |-> TRUE] : fn \in {"MatchFor", "Either"}, ps \in {q \in PatLists : Len(q) <= 2}, pr \in Probes}
ObjLists == {<<>>, <<O("int", FALSE)>>, <<O("string", FALSE)>>, <<O("int", FALSE), O("string", FALSE)>>, <<O("string", FALSE), O("int", FALSE)>>,
             <<O("invalid", TRUE)>>, <<O("int", FALSE), O("int", FALSE)>>, <<O("struct", FALSE)>>, <<O("invalid", TRUE), O("invalid", TRUE)>>}
NewCases == {[part |-> "newcompdata", ty |-> ty, objs |-> os] : ty \in {TypeA, TypeS, [t |-> "nil"], [t |-> "product", kinds |-> <<>>]}, os \in ObjLists}

Groups == << <<"compose", ComposeCases>>, <<"adapter", AdapterCases>>, <<"trampoline", TrampCases>>, <<"curryseq", CurryCases>>,
             <<"match", MatchCases>>, <<"newcompdata", NewCases>> >>
File(g) == IOEnv.VERIF_EMIT_DIR \o "/" \o g \o ".ndjson"
Emit(j) == LET cs == SetToSeq(Groups[j][2]) IN ndJsonSerialize(File(Groups[j][1]), cs) /\ PrintT(<<"CASES", Groups[j][1], Len(cs)>>)
ASSUME \A j \in DOMAIN Groups : Emit(j)
VARIABLE dummy
Init == dummy = 0
Next == UNCHANGED dummy
=============================================================================
