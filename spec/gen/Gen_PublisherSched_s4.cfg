\* 4 subscriptions, at most 2 list changes anywhere during the Publish, fresh-array removal (the code): every behaviour
SPECIFICATION GSpec
CONSTANTS
  Subs <- S4
  Extra = "X"
  InPlace = FALSE
  MaxChanges = 2
ACTION_CONSTRAINT EmitDone
CHECK_DEADLOCK FALSE
