INIT Init
NEXT Next
CONSTANTS
  E = {0, 1, 2}
  MaxLen = 5
  MaxLen2 = 4
