--------------------------- MODULE Gen_Collections ---------------------------
(* C03, direction A: TLC evaluates Collections!Outcomes on the whole bounded input
   domain and writes one ndjson line per call:  the call and its admissible
   outcome set.  The Go driver executes every line on the real generic function
   (instantiated at int, string and a struct type; nil and empty slices/maps both
   stand for the empty sequence) and checks membership.                        *)
EXTENDS Collections, Json, IOUtils

CONSTANTS E,        \* abstract elements
          MaxLen,   \* maximum list length (unary functions)
          MaxLen2   \* maximum list length where two lists vary independently

Lists(k) == UNION {[1..j -> E] : j \in 0..k}
MapsFns  == UNION {[D -> {0, 1, 2}] : D \in SUBSET E}     \* value 0 = the Go zero value
Maps     == {MapOut(mf) : mf \in MapsFns}

Base == [fn |-> "-", a |-> <<>>, b |-> <<>>, c |-> <<>>, m |-> <<>>, m2 |-> <<>>, n |-> 0, n2 |-> 0, n3 |-> 0, f |-> "-"]

A1(fn)        == {[Base EXCEPT !.fn = fn, !.a = a] : a \in Lists(MaxLen)}
AF(fn, names) == {[Base EXCEPT !.fn = fn, !.a = a, !.f = f] : a \in Lists(MaxLen), f \in names}
AN(fn, ns)    == {[Base EXCEPT !.fn = fn, !.a = a, !.n = n] : a \in Lists(MaxLen), n \in ns}
ACount(fn)    == UNION {{[Base EXCEPT !.fn = fn, !.a = a, !.n = n] : n \in (-3)..(Len(a) + 3)} : a \in Lists(MaxLen)}

CasesOf(fn) ==
  CASE fn = "Map"           -> AF(fn, TrNames)
    [] fn = "MapIndexed"    -> AF(fn, TrINames)
    [] fn = "Reduce"        -> {[Base EXCEPT !.fn = fn, !.a = a, !.f = f, !.n = n] : a \in Lists(MaxLen), f \in RedNames, n \in {0, 1}}
    [] fn = "ReduceIndexed" -> {[Base EXCEPT !.fn = fn, !.a = a, !.f = f, !.n = n] : a \in Lists(MaxLen), f \in RedINames, n \in {0, 1}}
    [] fn \in {"Filter", "Reject"} -> AF(fn, PredINames)
    [] fn = "Concat"        -> {[Base EXCEPT !.fn = fn, !.a = a, !.c = cc] : a \in Lists(2), cc \in UNION {[1..j -> Lists(2)] : j \in 0..2}}
    [] fn = "Flatten"       -> {[Base EXCEPT !.fn = fn, !.c = cc] : cc \in UNION {[1..j -> Lists(2)] : j \in 0..2} \cup [1..3 -> Lists(1)]}
    [] fn \in {"Distinct", "Dedupe", "Reverse", "IsDistinct", "Min", "Max", "MinMax", "Head", "Tail", "DuplicateSlice"} -> A1(fn)
    [] fn \in {"DropEq", "Exists", "Prepend"} -> AN(fn, E \cup {3})
    [] fn \in {"Drop", "DropLast", "Take", "TakeLast", "SplitEvery"} -> ACount(fn)
    [] fn \in {"DropWhile", "Every", "Some"} -> AF(fn, PredNames \cup {"nil"})
    [] fn = "Partition"     -> AF(fn, PredNames)
    [] fn \in {"GroupBy", "UniqBy"} -> AF(fn, {"mod2", "id", "const7", "plus1"})
    [] fn \in {"Zip", "IsEqual"} -> {[Base EXCEPT !.fn = fn, !.a = a, !.b = b] : a \in Lists(MaxLen2), b \in Lists(MaxLen2)}
    [] fn = "Range"         -> {[Base EXCEPT !.fn = fn, !.n = lo, !.n3 = hi, !.n2 = hop, !.f = "hop"] : lo \in (-3)..3, hi \in (-3)..4, hop \in (-1)..3}
                               \cup {[Base EXCEPT !.fn = fn, !.n = lo, !.n3 = hi, !.f = "nohop"] : lo \in (-3)..3, hi \in (-3)..4}
    [] fn \in {"Keys", "Values", "DuplicateMap"} -> {[Base EXCEPT !.fn = fn, !.m = m] : m \in Maps}
    [] fn \in {"Merge", "IsEqualMap"} -> {[Base EXCEPT !.fn = fn, !.m = m, !.m2 = m2] : m \in Maps, m2 \in Maps}
    [] fn = "SliceToMap"    -> AN(fn, {0, 5})

File(fn) == IOEnv.VERIF_EMIT_DIR \o "/" \o fn \o ".ndjson"
Emit(fn) == LET cs == SetToSeq(CasesOf(fn)) IN
            /\ ndJsonSerialize(File(fn), [i \in DOMAIN cs |-> [case |-> cs[i], exp |-> Outcomes(cs[i])]])
            /\ PrintT(<<"CASES", fn, Len(cs)>>)
ASSUME \A fn \in Fns : Emit(fn)

VARIABLE dummy
Init == dummy = 0
Next == UNCHANGED dummy
=============================================================================
