INIT Init
NEXT Next
CONSTANTS
  FSet = {"a1", "a2", "dup", "rev"}
  MaxFs = 4
  MaxScript = 4
