\* one producer x 2 offers, one consumer x 2 calls (poll / timed take), C = 1, B = 1: every edge of the state graph as a schedule
SPECIFICATION GSpec
CONSTANTS
  C = 1
  B = 1
  Producers = {"p1"}
  Consumers = {"c1"}
  NOffer = 2
  NTake = 2
  Kinds = {"poll", "ttake"}
  WithWaiters = FALSE
  OneShot = FALSE
  LoaderFreeOnly = FALSE
  WithClose = FALSE
  GuardedClose = TRUE
VIEW View
ACTION_CONSTRAINT EmitEdge
CHECK_DEADLOCK FALSE
