----------------------------- MODULE Gen_NumConv -----------------------------
EXTENDS NumConv, Json, IOUtils, SequencesExt
Base == [src |-> "-", kind |-> "-", a |-> "Zero", d |-> 0, rel |-> "-", tgt |-> "-"]
IntCases   == UNION {{[Base EXCEPT !.src = s, !.kind = "int", !.a = Anchors[p[1]], !.d = p[2], !.tgt = t] : p \in SrcPts(s), t \in Targets} : s \in IntTypes}
FloatCases == UNION {{[Base EXCEPT !.src = ft, !.kind = "float", !.a = Anchors[fp[1]], !.rel = fp[2], !.tgt = t] : fp \in FPts(ft), t \in Targets} : ft \in FloatTypes}
SpecCases  == {[Base EXCEPT !.src = ft, !.kind = k, !.tgt = t] : ft \in FloatTypes, k \in {"nan", "pinf", "ninf", "negzero"}, t \in Targets}
              \cup {[Base EXCEPT !.src = "float64", !.kind = k, !.tgt = t] : k \in {"huge", "nhuge", "halfbelow", "nhalfbelow", "odd52", "nodd52"}, t \in Targets}
BoolCases  == {[Base EXCEPT !.src = "bool", !.kind = "bool", !.d = b, !.tgt = t] : b \in {0, 1}, t \in Targets}
StrCases   == {[Base EXCEPT !.src = "string", !.kind = "strint", !.a = Anchors[p[1]], !.d = p[2], !.tgt = t] : p \in AllPts, t \in Targets}
              \cup {[Base EXCEPT !.src = "string", !.kind = "strbad", !.d = v, !.tgt = t] : v \in {0, 1}, t \in Targets}
              \cup {[Base EXCEPT !.src = "string", !.kind = "strfloatbig", !.d = v, !.tgt = t] : v \in 0..5, t \in Targets}
              \cup {[Base EXCEPT !.src = "string", !.kind = "strlead0", !.d = v, !.tgt = t] : v \in 0..7, t \in Targets}
              \* strfloat: "1.5", "1e3" and eight long decimal strings a hair above / below the midpoint of two adjacent float32 (float64) values
              \cup {[Base EXCEPT !.src = "string", !.kind = "strfloat", !.d = v, !.tgt = t] : v \in 0..9, t \in Targets}
UnsCases   == {[Base EXCEPT !.src = s, !.kind = "unsupported", !.tgt = t] : s \in {"struct", "slice", "map", "func", "chan", "complex"}, t \in Targets}
Groups == << <<"int", IntCases>>, <<"float", FloatCases>>, <<"special", SpecCases \cup BoolCases \cup UnsCases>>, <<"string", StrCases>> >>
File(g) == IOEnv.VERIF_EMIT_DIR \o "/" \o g \o ".ndjson"
Emit(j) == LET cs == SetToSeq(Groups[j][2]) IN ndJsonSerialize(File(Groups[j][1]), cs) /\ PrintT(<<"CASES", Groups[j][1], Len(cs)>>)
ASSUME \A j \in DOMAIN Groups : Emit(j)
VARIABLE dummy
Init == dummy = 0
Next == UNCHANGED dummy
=============================================================================
