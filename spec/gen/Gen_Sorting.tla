----------------------------- MODULE Gen_Sorting -----------------------------
(* C19, inputs: all lists of records with duplicate keys, all comparators, all descriptor stacks. *)
EXTENDS Sorting, Json, IOUtils, SequencesExt
CONSTANTS Keys, MaxLen, MaxLenD, DKeys, MaxStack
Elem == Keys \X Keys                                   \* (k1, k2); k3 is derived: k3 = 3 - k1 (so it disagrees with k1)
Recs(k) == UNION {[1..j -> Elem] : j \in 0..k}
AsIn(l) == [i \in DOMAIN l |-> <<l[i][1], l[i][2], 3 - l[i][1], i>>]
Vals(k) == UNION {[1..j -> Keys \cup {3}] : j \in 0..k}
AsVals(l) == [i \in DOMAIN l |-> <<l[i], 0, 0, i>>]

Desc == [key : DKeys, asc : BOOLEAN, via : {"functor", "field"}, ty : {"ordered", "string"}]
Stacks == UNION {{s \in [1..j -> Desc] : \A p, q \in 1..j : p # q => s[p].key # s[q].key} : j \in 1..MaxStack}

Base == [fn |-> "-", cmp |-> "-", ds |-> <<>>, in |-> <<>>]
CmpCases == {[Base EXCEPT !.fn = fn, !.cmp = c, !.in = AsIn(l)] :
               fn \in {"Sort", "SortSlice", "Stream.Sort", "StreamI.Sort", "Stream.SortByIndex", "StreamI.SortByIndex"}, c \in Cmps, l \in Recs(MaxLen)}
OrdCases == {[Base EXCEPT !.fn = fn, !.cmp = c, !.in = AsVals(l), !.ds = <<[key |-> ty, asc |-> TRUE, via |-> "-", ty |-> ty]>>] :
               fn \in {"SortOrdered", "SortOrderedAscending", "SortOrderedDescending"}, c \in {"valAsc", "valDesc"}, l \in Vals(MaxLen), ty \in {"int", "string"}}
OrdCasesOK == {c \in OrdCases : (c.fn = "SortOrderedAscending" => c.cmp = "valAsc") /\ (c.fn = "SortOrderedDescending" => c.cmp = "valDesc")}
DescCases == {[Base EXCEPT !.fn = fn, !.ds = s, !.in = AsIn(l)] : fn \in DescFns, s \in Stacks, l \in Recs(MaxLenD)}

Groups == << <<"cmp", CmpCases>>, <<"ordered", OrdCasesOK>>, <<"desc", DescCases>> >>
File(g) == IOEnv.VERIF_EMIT_DIR \o "/" \o g \o ".ndjson"
Emit(j) == LET cs == SetToSeq(Groups[j][2]) IN ndJsonSerialize(File(Groups[j][1]), cs) /\ PrintT(<<"CASES", Groups[j][1], Len(cs)>>)
ASSUME \A j \in DOMAIN Groups : Emit(j)
VARIABLE dummy
Init == dummy = 0
Next == UNCHANGED dummy
=============================================================================
