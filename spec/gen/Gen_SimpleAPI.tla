---------------------------- MODULE Gen_SimpleAPI ----------------------------
EXTENDS SimpleAPI, Json, IOUtils, SequencesExt
L(s) == [t |-> "lit", s |-> s]
P(k) == [t |-> "ph", s |-> k]
Templates == {<<L("plain")>>, <<L("u/"), P("a")>>, <<L("u/"), P("a"), L("/p/"), P("b")>>, <<P("a"), P("a")>>,
              <<P("a"), L("/"), P("b"), L("/"), P("c")>>, <<P("a"), L("/"), P("b"), L("/"), P("c"), L("/"), P("a")>>}
Keys == {"a", "b", "c", "x"}
Vals == {"1", "v-w", "a/b"}                \* "a/b": a value that spans two path segments is inserted verbatim
KeyOrder == <<"a", "b", "c", "x">>
PairsOf(D, f) == LET ks == SelectSeq(KeyOrder, LAMBDA k : k \in D) IN [i \in DOMAIN ks |-> <<ks[i], f[ks[i]]>>]
ParamMaps == {PairsOf(D, f) : D \in SUBSET Keys, f \in [Keys -> Vals]}
Ctors == {<<"Get", "-">>, <<"Delete", "-">>, <<"PostJSON", "-">>, <<"PutJSON", "-">>, <<"PatchJSON", "-">>, <<"PostMultipart", "-">>,
          <<"PutMultipart", "-">>, <<"PatchMultipart", "-">>, <<"DoNewRequest", "OPTIONS">>, <<"DoNewRequest", "GET">>,
          <<"WithBodySerializer", "PUT">>, <<"WithBodySerializer", "POST">>, <<"WithMultipartSerializer", "PATCH">>}
Hdrs == {<< <<"X-A", "1">> >>, << <<"X-A", "1">>, <<"X-B", "2">> >>, <<>>, << <<"Content-Type", "text/plain">>, <<"X-A", "1">> >>}
Base == [ctor |-> "Get", m |-> "-", tmpl |-> <<L("plain")>>, params |-> <<>>, hdr |-> << <<"X-A", "1">> >>, hdrNil |-> FALSE,
         fault |-> "none", evals |-> 1, body |-> "B"]
\* values that a path-cleaning step would change: empty, ".", "..", a doubled and a trailing slash - all inserted verbatim
OddVals == {"", ".", "..", "a//b", "a/"}
OddMaps == {PairsOf({"a"}, [k \in Keys |-> v]) : v \in OddVals} \cup {PairsOf({"a", "b"}, [k \in Keys |-> IF k = "a" THEN v ELSE "1"]) : v \in OddVals}
           \cup {PairsOf({"a", "b", "c"}, [k \in Keys |-> IF k = "b" THEN v ELSE "1"]) : v \in OddVals}
UrlCases == {[Base EXCEPT !.ctor = ct, !.tmpl = t, !.params = pm] : ct \in {"Get", "PostJSON", "PostMultipart"}, t \in Templates, pm \in ParamMaps}
            \cup {[Base EXCEPT !.ctor = ct, !.tmpl = t, !.params = pm] : ct \in {"Get", "Delete", "PostJSON"}, t \in Templates, pm \in OddMaps}
CtorCases == {[Base EXCEPT !.ctor = cm[1], !.m = cm[2], !.tmpl = t, !.params = pm, !.hdr = h, !.fault = f, !.evals = n] :
                cm \in Ctors, t \in {<<L("plain")>>, <<L("u/"), P("a")>>}, pm \in {<<>>, << <<"a", "1">> >>}, h \in Hdrs,
                f \in {"none", "ser", "transport", "decode", "decodeNilErr"}, n \in 0..2}
             \cup {[Base EXCEPT !.ctor = cm[1], !.m = cm[2], !.hdrNil = TRUE, !.hdr = <<>>, !.evals = n] : cm \in Ctors, n \in 1..2}
Groups == << <<"url", UrlCases>>, <<"ctor", CtorCases>> >>
File(g) == IOEnv.VERIF_EMIT_DIR \o "/" \o g \o ".ndjson"
Emit(j) == LET cs == SetToSeq(Groups[j][2]) IN ndJsonSerialize(File(Groups[j][1]), cs) /\ PrintT(<<"CASES", Groups[j][1], Len(cs)>>)
ASSUME \A j \in DOMAIN Groups : Emit(j)
VARIABLE dummy
Init == dummy = 0
Next == UNCHANGED dummy
=============================================================================
