-------------------------------- MODULE Curry --------------------------------
(* C20, CurryDef.Call at lock grain.  Each caller thread t performs
     Acquire -> Check(done) -> Append(args) -> [EnterFn -> ReturnFn] -> Release
   with fn inside the mutex (FnUnderLock = TRUE, the pinned code) or after the
   Release (FALSE: the shape of an "avoid re-entrant deadlock" refactor).
   MarkDone is a separate thread that may fire at any moment.               *)
EXTENDS Integers, Sequences, FiniteSets
CONSTANTS Thread, FnUnderLock
VARIABLES pc, lock, args, result, done, seen, fnlog, calls
vars == <<pc, lock, args, result, done, seen, fnlog, calls>>
NoOne == 0
Init == /\ pc = [t \in Thread |-> "idle"] /\ lock = NoOne /\ args = <<>> /\ result = 0 /\ done = FALSE
        /\ seen = [t \in Thread |-> <<>>] /\ fnlog = <<>> /\ calls = 0
Acquire(t) == pc[t] = "idle" /\ lock = NoOne /\ lock' = t /\ pc' = [pc EXCEPT ![t] = "locked"] /\ UNCHANGED <<args, result, done, seen, fnlog, calls>>
Check(t)   == /\ pc[t] = "locked"
              /\ IF done THEN pc' = [pc EXCEPT ![t] = "release"] /\ UNCHANGED args
                 ELSE pc' = [pc EXCEPT ![t] = IF FnUnderLock THEN "enter" ELSE "release_then_fn"] /\ args' = Append(args, t)
              /\ UNCHANGED <<lock, result, done, seen, fnlog, calls>>
EnterFn(t) == /\ pc[t] = "enter" /\ pc' = [pc EXCEPT ![t] = "infn"] /\ seen' = [seen EXCEPT ![t] = args]
              /\ fnlog' = Append(fnlog, args) /\ calls' = calls + 1 /\ UNCHANGED <<lock, args, result, done>>
ReturnFn(t) == /\ pc[t] = "infn" /\ result' = Len(seen[t])
               /\ pc' = [pc EXCEPT ![t] = IF FnUnderLock THEN "release" ELSE "finished"] /\ UNCHANGED <<lock, args, done, seen, fnlog, calls>>
Release(t) == /\ pc[t] \in {"release", "release_then_fn"} /\ lock = t /\ lock' = NoOne
              /\ pc' = [pc EXCEPT ![t] = IF pc[t] = "release" THEN "finished" ELSE "enter"]
              /\ UNCHANGED <<args, result, done, seen, fnlog, calls>>
MarkDone == ~done /\ done' = TRUE /\ UNCHANGED <<pc, lock, args, result, seen, fnlog, calls>>
Next == (\E t \in Thread : Acquire(t) \/ Check(t) \/ EnterFn(t) \/ ReturnFn(t) \/ Release(t)) \/ MarkDone
Spec == Init /\ [][Next]_vars

InFn == {t \in Thread : pc[t] = "infn"}
Inv_FnSerial == Cardinality(InFn) <= 1
\* every invocation sees the previous invocation's list extended (arguments accumulate in a real-time consistent order)
Inv_ArgsAccumulate == \A i \in 1..(Len(fnlog) - 1) : Len(fnlog[i + 1]) = Len(fnlog[i]) + 1 /\ SubSeq(fnlog[i + 1], 1, Len(fnlog[i])) = fnlog[i]
\* when all callers are finished the result is the value for ALL accumulated arguments
Inv_FinalResult == (\A t \in Thread : pc[t] = "finished") => result = Len(args)
\* once done is set and nobody is past the done check, the result is frozen
Quiet == done /\ \A t \in Thread : pc[t] \in {"idle", "finished", "locked", "release"}
Act_Frozen == [][Quiet => result' = result]_vars
=============================================================================
