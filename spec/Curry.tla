-------------------------------- MODULE Curry --------------------------------
(* C20, CurryDef.Call at lock grain.  Each caller thread t performs
     Acquire -> Check(done) -> Append(args) -> [EnterFn -> ReturnFn] -> Release
   with fn inside the mutex (FnUnderLock = TRUE, the pinned code) or after the
   Release (FALSE: the shape of an "avoid re-entrant deadlock" refactor).
   MarkDone is a separate thread that may fire at any moment, or (FnMarksDone) it is called by the first invocation of fn itself -
   i.e. under the mutex: then no later Call may invoke fn or change Result, even a Call that began while that first invocation
   was still running.  DoneCheckFirst = TRUE is the variant that tests the done flag BEFORE taking the mutex ("fast path") and not
   again afterwards: a Call that passed the test while the first invocation was running still appends, invokes and overwrites.  *)
EXTENDS Integers, Sequences, FiniteSets
CONSTANTS Thread, FnUnderLock, FnMarksDone, DoneCheckFirst
VARIABLES pc, lock, args, result, done, seen, fnlog, calls
vars == <<pc, lock, args, result, done, seen, fnlog, calls>>
NoOne == 0
Init == /\ pc = [t \in Thread |-> "idle"] /\ lock = NoOne /\ args = <<>> /\ result = 0 /\ done = FALSE
        /\ seen = [t \in Thread |-> <<>>] /\ fnlog = <<>> /\ calls = 0
PreCheck(t) == /\ DoneCheckFirst /\ pc[t] = "idle"
               /\ pc' = [pc EXCEPT ![t] = IF done THEN "finished" ELSE "prechecked"] /\ UNCHANGED <<lock, args, result, done, seen, fnlog, calls>>
Acquire(t) == pc[t] = (IF DoneCheckFirst THEN "prechecked" ELSE "idle") /\ lock = NoOne /\ lock' = t /\ pc' = [pc EXCEPT ![t] = "locked"] /\ UNCHANGED <<args, result, done, seen, fnlog, calls>>
Check(t)   == /\ pc[t] = "locked"
              /\ IF done /\ ~DoneCheckFirst THEN pc' = [pc EXCEPT ![t] = "release"] /\ UNCHANGED args
                 ELSE pc' = [pc EXCEPT ![t] = IF FnUnderLock THEN "enter" ELSE "release_then_fn"] /\ args' = Append(args, t)
              /\ UNCHANGED <<lock, result, done, seen, fnlog, calls>>
EnterFn(t) == /\ pc[t] = "enter" /\ pc' = [pc EXCEPT ![t] = "infn"] /\ seen' = [seen EXCEPT ![t] = args]
              /\ fnlog' = Append(fnlog, args) /\ calls' = calls + 1 /\ UNCHANGED <<lock, args, result, done>>
ReturnFn(t) == /\ pc[t] = "infn" /\ result' = Len(seen[t])
               /\ done' = (done \/ (FnMarksDone /\ calls = 1))                  \* the first invocation calls MarkDone before it returns
               /\ pc' = [pc EXCEPT ![t] = IF FnUnderLock THEN "release" ELSE "finished"] /\ UNCHANGED <<lock, args, seen, fnlog, calls>>
Release(t) == /\ pc[t] \in {"release", "release_then_fn"} /\ lock = t /\ lock' = NoOne
              /\ pc' = [pc EXCEPT ![t] = IF pc[t] = "release" THEN "finished" ELSE "enter"]
              /\ UNCHANGED <<args, result, done, seen, fnlog, calls>>
MarkDone == ~FnMarksDone /\ ~done /\ done' = TRUE /\ UNCHANGED <<pc, lock, args, result, seen, fnlog, calls>>
Next == (\E t \in Thread : PreCheck(t) \/ Acquire(t) \/ Check(t) \/ EnterFn(t) \/ ReturnFn(t) \/ Release(t)) \/ MarkDone
Spec == Init /\ [][Next]_vars

InFn == {t \in Thread : pc[t] = "infn"}
Inv_FnSerial == Cardinality(InFn) <= 1
\* every invocation sees the previous invocation's list extended (arguments accumulate in a real-time consistent order)
Inv_ArgsAccumulate == \A i \in 1..(Len(fnlog) - 1) : Len(fnlog[i + 1]) = Len(fnlog[i]) + 1 /\ SubSeq(fnlog[i + 1], 1, Len(fnlog[i])) = fnlog[i]
\* when all callers are finished the result is the value for ALL accumulated arguments
Inv_FinalResult == (\A t \in Thread : pc[t] = "finished") => result = Len(args)
\* once done is set and nobody is past the done check, the result is frozen
Quiet == done /\ \A t \in Thread : pc[t] \in {"idle", "finished", "locked", "release", "prechecked"}
\* MarkDone called by the first invocation itself: that invocation is the only one
Inv_OnlyFirstInvocation == FnMarksDone => (calls <= 1 /\ (done => result = 1))
Act_Frozen == [][Quiet => result' = result]_vars
=============================================================================
