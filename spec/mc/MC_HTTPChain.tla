---------------------------- MODULE MC_HTTPChain ----------------------------
(* The registration list as a state machine; TLC explores all histories up to Depth and writes them
   (one behaviour per edge) for the driver to execute on a real SimpleHTTP with logging interceptors
   and stub transports.  Inv_* are the design-level facts.                                         *)
EXTENDS HTTPChain, Json, CSV, IOUtils
CONSTANTS Depth, Emit
VARIABLES ics, hist, last
vars == <<ics, hist, last>>
Verbs == {"Get", "Head", "Options", "Delete", "Post", "Put", "Patch", "APIGet", "APIPost"}
Base == [op |-> "-", xs |-> <<>>, c |-> 0, verb |-> "-", fail |-> <<>>]
Calls == {[Base EXCEPT !.op = "Add", !.xs = xs] : xs \in {<<1>>, <<2>>, <<3>>, <<1, 2>>, <<2, 2>>}}
    \cup {[Base EXCEPT !.op = "Remove", !.xs = xs] : xs \in {<<1>>, <<2>>, <<2, 3>>}}
    \cup {[Base EXCEPT !.op = "Clear"]}
    \cup {[Base EXCEPT !.op = "SetClient", !.c = c] : c \in {1, 2}}
    \cup {[Base EXCEPT !.op = "Request", !.verb = v, !.fail = f] : v \in Verbs, f \in {<<>>, <<2>>, <<3>>}}
\* what a correct implementation observes
Obs(i, c) == IF c.op # "Request" THEN [kind |-> "ok", log |-> <<>>, err |-> FALSE, seen |-> <<>>]
             ELSE LET k == FirstFail(i, c.fail) IN
                  IF k = 0 THEN [kind |-> "ok", log |-> i \o <<0>>, err |-> FALSE, seen |-> i]
                  ELSE [kind |-> "ok", log |-> SubSeq(i, 1, k), err |-> TRUE, seen |-> <<>>]
Init == ics = <<>> /\ hist = <<>> /\ last = [kind |-> "ok", log |-> <<>>, err |-> FALSE, seen |-> <<>>]
Next == /\ Len(hist) < Depth
        /\ \E c \in Calls : ics' = NextIcs(ics, c) /\ hist' = Append(hist, c) /\ last' = Obs(ics, c)
Spec == Init /\ [][Next]_vars
\* design facts: the transport is reached at most once per request, never after a failing interceptor; no id is invoked more often than registered
Inv_TransportOnce == Cardinality({i \in DOMAIN last.log : last.log[i] = 0}) <= 1
Inv_NoRunaway == Len(last.log) <= Len(ics) + 1 \/ Len(hist) = 0 \/ hist[Len(hist)].op # "Request"
Inv_AbortOnError == last.err => 0 \notin Elems(last.log)
EmitEdge == Emit => CSVWrite("%1$s", <<ToJson(hist')>>, IOEnv.VERIF_EMIT)
=============================================================================
