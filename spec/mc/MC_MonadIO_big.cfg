INIT Init
NEXT Next
CONSTANTS
  Effects = {1, 2, 3}
  Js = {0, 1}
  Depth = 3
