\* C15 window: a sender between its closed check and its send while Close runs: TLC must find the send on the closed channel
SPECIFICATION Spec
CONSTANTS
  Senders = {"a", "b"}
  NMsg = 2
  K = 1
  WithClose = TRUE
  SendRecovers = FALSE
INVARIANTS Inv_NoPanic Inv_AtMostOnce Inv_PerSenderFIFO Inv_NothingAfterClose
CHECK_DEADLOCK FALSE
