SPECIFICATION Spec
CONSTANTS
  Base <- B4
  Unsubs = {"a", "c"}
  News = {"x", "y"}
  AtomicChange = FALSE
INVARIANTS Inv_Membership Inv_OrderKept
CHECK_DEADLOCK FALSE
