SPECIFICATION Spec
CONSTANTS
  Depth = 4
  Emit = TRUE
INVARIANTS Inv_TransportOnce Inv_AbortOnError
ACTION_CONSTRAINT EmitEdge
CHECK_DEADLOCK FALSE
