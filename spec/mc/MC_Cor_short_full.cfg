SPECIFICATION Spec
CONSTANTS
  Callers = {"a", "b", "c"}
  NReq = 1
  NServe = 1
  OpCap = 1
  ResCap = 2
  ReplyLocksTarget = FALSE
  SafeCompletion = TRUE
INVARIANTS Inv_NoPanic Inv_Pairing Inv_PerCallerOrder Inv_NoStuck
CHECK_DEADLOCK FALSE
