\* the pinned tree's link discipline (stale back/forward links): TLC must find an observable
\* counterexample (wrong result / panic / hang); it is the discriminating replay of the check
SPECIFICATION Spec
CONSTANTS
  Ops <- OpsCore
  N = 4
  Val = {1, 2}
  FIXED = FALSE
  MaxLen = 3
  Emit = FALSE
VIEW View
INVARIANTS Inv_NoPanic Inv_Result
ACTION_CONSTRAINT EmitEdge
CHECK_DEADLOCK FALSE
