SPECIFICATION Spec
CONSTANTS
  Thread = {1, 2, 3}
  FnMarksDone = FALSE
  DoneCheckFirst = FALSE
  FnUnderLock = TRUE
INVARIANTS Inv_FnSerial Inv_ArgsAccumulate Inv_FinalResult
PROPERTY Act_Frozen
CHECK_DEADLOCK FALSE
