----------------------------- MODULE MC_ConcWrap -----------------------------
EXTENDS ConcWrap
ModeAllX == [m \in {"Offer", "Put", "Push", "Poll", "Take", "Pop"} |-> "X"]
ModeRemS == [m \in {"Offer", "Put", "Push", "Poll", "Take", "Pop"} |-> IF m \in {"Poll", "Take", "Pop"} THEN "S" ELSE "X"]
ModeInsS == [m \in {"Offer", "Put", "Push", "Poll", "Take", "Pop"} |-> IF m = "Put" THEN "S" ELSE "X"]
ScriptQ == [t \in {1, 2, 3} |-> IF t = 1 THEN <<"Offer", "Put", "Offer">> ELSE <<"Poll", "Take">>]
ScriptS == [t \in {1, 2, 3} |-> IF t = 1 THEN <<"Push", "Push", "Push">> ELSE <<"Pop", "Pop">>]
ScriptP == [t \in {1, 2, 3} |-> IF t = 3 THEN <<"Poll", "Take">> ELSE <<"Put", "Offer">>]
=============================================================================
