SPECIFICATION FairSpec
CONSTANTS
  NJobs = 3
  PanicJobs = {1}
  MaxW = 1
  Standby = 1
  Batch = 0
  QCap = 3
  WN = 2
  WithExpiry = FALSE
  WithClose = FALSE
  QueueGuardedClose = TRUE
  AtomicExpiry = TRUE
  LeaverPolls = FALSE
  NotifyFirst = TRUE
  NotifyOnExit = "panic"
INVARIANTS Inv_AtMostOnce Inv_RejectedNeverRun Inv_MaxConcurrent Inv_Counts Inv_HandlerOnlyJobPanics
PROPERTY Live_ExactlyOnce
CHECK_DEADLOCK FALSE
