SPECIFICATION Spec
CONSTANTS
  Subs <- S3
  Extra = "X"
  InPlace = TRUE
  MaxChanges = 2
INVARIANTS Inv_AtMostOnce Inv_ExactlyOnceIfStable Inv_Order Inv_NoGarbage
CHECK_DEADLOCK FALSE
