SPECIFICATION Spec
CONSTANTS
  Depth = 3
  Emit = TRUE
INVARIANTS Inv_TransportOnce Inv_AbortOnError
ACTION_CONSTRAINT EmitEdge
CHECK_DEADLOCK FALSE
