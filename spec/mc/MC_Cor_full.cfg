SPECIFICATION Spec
CONSTANTS
  Callers = {"a", "b", "c"}
  NReq = 2
  NServe = 6
  OpCap = 1
  ResCap = 2
  ReplyLocksTarget = FALSE
INVARIANTS Inv_NoPanic Inv_Pairing Inv_PerCallerOrder Inv_NoStuck
CHECK_DEADLOCK FALSE
