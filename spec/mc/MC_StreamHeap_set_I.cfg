SPECIFICATION Spec
CONSTANTS
  Universe = "set"
  Fam = "I"
  Depth = 2
  Emit = TRUE
PROPERTY Act_Persistent
ACTION_CONSTRAINT EmitEdge
CHECK_DEADLOCK FALSE
