SPECIFICATION Spec
CONSTANTS
  Askers = {"a1", "a2", "a3"}
  WithTimeout = TRUE
  RK = 0
  CloseReplyOnReturn = TRUE
  ReplyRecovers = TRUE
INVARIANTS Inv_Correlation Inv_NoPanic Inv_ActorNotStuck
CHECK_DEADLOCK FALSE
