SPECIFICATION Spec
CONSTANTS
  Callers = {"a", "b"}
  NReq = 2
  NServe = 4
  OpCap = 2
  ResCap = 2
  ReplyLocksTarget = FALSE
  SafeCompletion = TRUE
INVARIANTS Inv_NoPanic Inv_Pairing Inv_PerCallerOrder Inv_NoStuck
CHECK_DEADLOCK FALSE
