SPECIFICATION Spec
CONSTANTS
  NJobs = 3
  PanicJobs = {}
  MaxW = 2
  Standby = 1
  Batch = 0
  QCap = 3
  WN = 3
  WithExpiry = TRUE
  WithClose = FALSE
  QueueGuardedClose = TRUE
  AtomicExpiry = TRUE
  LeaverPolls = FALSE
  NotifyFirst = FALSE
  NotifyOnExit = "panic"
INVARIANTS Inv_AtMostOnce Inv_RejectedNeverRun Inv_MaxConcurrent Inv_Counts Inv_HandlerOnlyJobPanics
CHECK_DEADLOCK FALSE
