SPECIFICATION Spec
CONSTANTS
  NJobs = 3
  PanicJobs = {2}
  MaxW = 2
  Standby = 1
  Batch = 1
  QCap = 3
  WN = 3
  WithExpiry = FALSE
  WithClose = TRUE
  QueueGuardedClose = TRUE
  AtomicExpiry = TRUE
  LeaverPolls = FALSE
  NotifyFirst = FALSE
  NotifyOnExit = "panic"
INVARIANTS Inv_AtMostOnce Inv_RejectedNeverRun Inv_MaxConcurrent Inv_Counts Inv_HandlerOnlyJobPanics
CHECK_DEADLOCK FALSE
