----------------------------- MODULE MC_MonadIO -----------------------------
(* All programs up to Depth over the effect and continuation families; the laws are checked on the
   denotation by TLC, the programs x evaluation scripts are written for the driver.                *)
EXTENDS MonadIO, Json, IOUtils, SequencesExt
CONSTANTS Effects, Js, Depth
Fs == [k : {"just", "new", "chain"}, j : Js]
Bases == {Prog("just", 1, <<>>), Prog("just", 2, <<>>)} \cup {Prog("new", e, <<>>) : e \in Effects}
All == {[b EXCEPT !.fs = fs] : b \in Bases, fs \in UNION {[1..n -> Fs] : n \in 0..Depth}}
Short == {[b EXCEPT !.fs = fs] : b \in Bases, fs \in UNION {[1..n -> Fs] : n \in 0..1}}
ASSUME \A x \in {1, 2}, f \in Fs : LeftIdentity(x, f)
ASSUME \A m \in All : RightIdentity(m)
ASSUME \A m \in Short, f \in Fs, g \in Fs : Assoc(m, f, g)
Handlers == {"nil", "h1", "h2"}
E(kind, n, a, b, busy) == [kind |-> kind, onNext |-> n, obOn |-> a, subOn |-> b, busy |-> busy]
EvalStep == E("Eval", FALSE, "nil", "nil", FALSE)
\* busy = TRUE: the subscribe handler is occupied while the effect runs (a schedule, not a different requirement)
Scripts == {<<EvalStep>>, <<EvalStep, EvalStep>>, <<>>}
           \cup {<<E("Subscribe", n, a, b, FALSE)>> : n \in BOOLEAN, a \in Handlers, b \in Handlers}
           \cup {<<E("Subscribe", TRUE, a, b, FALSE), EvalStep, E("Subscribe", TRUE, a, b, FALSE)>> : a \in Handlers, b \in Handlers}
BusyScripts == {<<E("Subscribe", TRUE, a, b, TRUE)>> : a \in Handlers, b \in {"h1", "h2"}}
Cases == {[prog |-> p, script |-> s] : p \in All, s \in Scripts} \cup {[prog |-> p, script |-> s] : p \in Short, s \in BusyScripts}
ASSUME ndJsonSerialize(IOEnv.VERIF_EMIT_DIR \o "/monadio.ndjson", SetToSeq(Cases)) /\ PrintT(<<"CASES", "monadio", Cardinality(Cases), Cardinality(All)>>)
VARIABLE dummy
Init == dummy = 0
Next == UNCHANGED dummy
=============================================================================
