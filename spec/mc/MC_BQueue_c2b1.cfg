SPECIFICATION Spec
CONSTANTS
  C = 2
  B = 1
  Producers = {"p1", "p2"}
  Consumers = {"c1", "c2"}
  NOffer = 2
  NTake = 2
  Kinds = {"take", "poll"}
  WithWaiters = FALSE
  OneShot = FALSE
  LoaderFreeOnly = FALSE
  WithClose = FALSE
  GuardedClose = TRUE
INVARIANTS Inv_NoPanic Inv_Bound Inv_Conservation Inv_NoDup Inv_ProducerOrder Inv_ConsumerSeesProducerOrder
CHECK_DEADLOCK FALSE
