---------------------------- MODULE MC_StreamHeap ----------------------------
(* The ideal persistent heap as a state machine: every call of the API on any live
   object, applied with value semantics.  TLC explores all programs up to Depth and
   (ACTION_CONSTRAINT EmitEdge) writes each one — the direction-A inputs that the
   driver executes on the real objects; Act_Persistent is the property on the model. *)
EXTENDS StreamHeap, Json, CSV, IOUtils
CONSTANTS Universe,   \* "stream" | "set" | "sset"
          Fam,        \* "G" | "I"
          Depth, Emit

VARIABLES heap, hist
vars == <<heap, hist>>

Obj(k, v, oid) == [k |-> k, v |-> v, oid |-> oid]
InitHeap == CASE Universe = "stream" -> <<Obj("stream", <<1, 2, 3, 2>>, 1), Obj("stream", <<2, 0>>, 2), Obj("stream", <<>>, 3)>>
              [] Universe = "set"    -> <<Obj("set", <<<<1, 1>>, <<2, 0>>>>, 1), Obj("set", <<<<2, 5>>, <<3, 1>>>>, 2), Obj("set", <<>>, 3)>>
              [] Universe = "sset"   -> <<Obj("sset", <<<<1, <<1, 2>>>>, <<2, <<3>>>>>>, 1),
                                          Obj("sset", <<<<1, <<2>>>>, <<2, <<>>>>, <<3, <<4>>>>>>, 2), Obj("sset", <<>>, 3)>>

Call0 == [fam |-> Fam, op |-> "-", recv |-> 0, o |-> 0, xs |-> <<>>, xss |-> <<>>, x |-> 0, y |-> 0, f |-> "-"]
Slots(H) == DOMAIN H

StreamCalls(H, r) ==
  LET L == Len(H[r].v)  B == [Call0 EXCEPT !.recv = r] IN
     {[B EXCEPT !.op = "Map", !.f = f] : f \in {"plusIdx", "const7"}}
  \cup {[B EXCEPT !.op = "Filter", !.f = f] : f \in {"valEven", "idxEven"}}
  \cup {[B EXCEPT !.op = "Reject", !.f = "valGt1"]}
  \cup {[B EXCEPT !.op = op] : op \in {"FilterNotNil", "Distinct", "Reverse", "Clone", "Len", "ToArray"}}
  \cup {[B EXCEPT !.op = "Append", !.xs = xs] : xs \in {<<7>>, <<>>}}
  \cup {[B EXCEPT !.op = "Concat", !.xss = xss] : xss \in {<< <<8>>, <<9, 8>> >>, <<>>}}
  \cup {[B EXCEPT !.op = op, !.o = o] : op \in {"Extend", "Minus", "Intersection", "IsSubset", "IsSuperset"}, o \in Slots(H)}
  \cup {[B EXCEPT !.op = "Remove", !.x = x] : x \in {-1, 0, 1, L - 1, L}}
  \cup {[B EXCEPT !.op = "RemoveItem", !.xs = xs] : xs \in {<<2>>, <<>>, <<3, 2>>}}
  \cup {[B EXCEPT !.op = "Sort", !.f = f] : f \in {"asc", "desc"}}
  \cup {[B EXCEPT !.op = "SortByIndex", !.f = "asc"]}
  \cup {[B EXCEPT !.op = "Contains", !.x = 2]}
  \cup (IF L > 0 THEN {[B EXCEPT !.op = "Get", !.x = x] : x \in {0, L - 1}} ELSE {})

SetCalls(H, r) ==
  LET B == [Call0 EXCEPT !.recv = r] IN
     {[B EXCEPT !.op = op, !.xs = xs] : op \in {"Add", "RemoveKeys", "RemoveValues"}, xs \in {<<1>>, <<>>, <<4, 0>>}}
  \cup {[B EXCEPT !.op = op, !.o = o] : op \in {"Union", "Intersection", "Minus"}, o \in Slots(H)}
  \cup {[B EXCEPT !.op = "MapKey", !.f = f] : f \in {"plus10", "times2"}}
  \cup {[B EXCEPT !.op = "MapValue", !.f = f] : f \in {"plus10", "neg"}}
  \cup {[B EXCEPT !.op = op] : op \in {"Clone", "Size", "Keys", "Values", "AsMap"}}
  \cup {[B EXCEPT !.op = "Set", !.x = x, !.y = 9] : x \in {2, 6}}
  \cup {[B EXCEPT !.op = op, !.x = x] : op \in {"Get", "ContainsKey", "ContainsValue"}, x \in {1, 5}}

SSetCalls(H, r) ==
  LET B == [Call0 EXCEPT !.recv = r] IN
     {[B EXCEPT !.op = op, !.o = o] : op \in {"Union", "Intersection", "MinusStreams", "Minus"}, o \in Slots(H)}
  \cup {[B EXCEPT !.op = "Clone"]}

Calls(H) == UNION {CASE H[r].k = "stream" -> StreamCalls(H, r) [] H[r].k = "set" -> SetCalls(H, r) [] H[r].k = "sset" -> SSetCalls(H, r)
                   : r \in Slots(H)}

\* ideal (value-semantics) effect of a call; for StreamSets one canonical admissible value is taken
SSetIdeal(H, c) ==
  LET s == PFun(H[c.recv].v) IN
  IF c.op = "Clone" THEN H[c.recv].v ELSE
  LET s2 == PFun(H[c.o].v)  K1 == DOMAIN s  K2 == DOMAIN s2 IN
  CASE c.op = "Union" -> FPairs([key \in K1 \cup K2 |-> IF key \in K1 /\ key \in K2 THEN s[key] \o s2[key] ELSE IF key \in K1 THEN s[key] ELSE s2[key]])
    [] c.op = "Intersection" -> FPairs([key \in K1 \cap K2 |-> FirstOcc(Sel(s[key], LAMBDA e, i : e \in Elems(s2[key])))])
    [] c.op = "MinusStreams" -> FPairs([key \in K1 |-> IF key \in K2 THEN Sel(s[key], LAMBDA e, i : e \notin Elems(s2[key])) ELSE s[key]])
    [] c.op = "Minus" -> FPairs([key \in K1 \ K2 |-> s[key]])

Ideal(H, c) ==
  IF H[c.recv].k = "set" /\ c.op = "Set" THEN [H EXCEPT ![c.recv].v = MutatedValue(H, c)]
  ELSE IF IsMutator(H, c)      \* interface{} Stream.Remove: shrinks the receiver (every slot of that object) and returns it
    THEN Append([j \in DOMAIN H |-> IF j \in SameObj(H, c.recv) THEN [H[j] EXCEPT !.v = StreamDef(H, c)] ELSE H[j]],
                Obj("stream", StreamDef(H, c), H[c.recv].oid))
  ELSE IF IsCollectionOp(H, c)
    THEN Append(H, Obj(H[c.recv].k,
                       CASE H[c.recv].k = "stream" -> StreamDef(H, c) [] H[c.recv].k = "set" -> SetDefn(H, c) [] H[c.recv].k = "sset" -> SSetIdeal(H, c),
                       Len(H) + 1))
    ELSE H

Init == heap = InitHeap /\ hist = <<>>
Next == /\ Len(hist) < Depth
        /\ \E c \in Calls(heap) : heap' = Ideal(heap, c) /\ hist' = Append(hist, c)
Spec == Init /\ [][Next]_vars

\* the ideal machine is persistent by construction; stated so that TLC checks the definitions are total
Act_Persistent == [][\A j \in DOMAIN heap : heap'[j] = heap[j] \/ (LET c == hist'[Len(hist')] IN
                                              (c.op = "Set" \/ IsMutator(heap, c)) /\ j \in SameObj(heap, c.recv))]_vars
EmitFile == IOEnv.VERIF_EMIT
EmitEdge == Emit => CSVWrite("%1$s", <<ToJson([init |-> InitHeap, prog |-> hist'])>>, EmitFile)
=============================================================================
