\* transition cover of the repaired model: one behaviour per edge, written to $VERIF_EMIT
SPECIFICATION Spec
CONSTANTS
  Ops <- OpsCore
  N = 4
  Val = {1, 2}
  FIXED = TRUE
  MaxLen = 2
  Emit = TRUE
VIEW View
INVARIANTS Inv_NoPanic Inv_Result Inv_Abs Inv_Back Inv_Count
ACTION_CONSTRAINT EmitEdge
CHECK_DEADLOCK FALSE
