SPECIFICATION Spec
CONSTANTS
  Thread = {1, 2, 3}
  FnMarksDone = TRUE
  DoneCheckFirst = TRUE
  FnUnderLock = TRUE
INVARIANTS Inv_OnlyFirstInvocation Inv_FnSerial Inv_ArgsAccumulate Inv_FinalResult
CHECK_DEADLOCK FALSE
