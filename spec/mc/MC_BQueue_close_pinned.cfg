\* C15: a closer thread; TLC must find the notify on the closed wake channel / the loader pushing to the closed channel
SPECIFICATION Spec
CONSTANTS
  C = 1
  B = 1
  Producers = {"p1"}
  Consumers = {"c1"}
  NOffer = 2
  NTake = 1
  Kinds = {"take", "poll"}
  WithWaiters = FALSE
  OneShot = FALSE
  LoaderFreeOnly = FALSE
  WithClose = TRUE
  GuardedClose = FALSE
INVARIANTS Inv_NoPanic
CHECK_DEADLOCK FALSE
