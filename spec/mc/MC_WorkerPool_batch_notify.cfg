SPECIFICATION FairSpec
CONSTANTS
  NJobs = 3
  PanicJobs = {1}
  MaxW = 2
  Standby = 0
  Batch = 1
  QCap = 3
  WN = 3
  WithExpiry = FALSE
  WithClose = FALSE
  QueueGuardedClose = TRUE
  AtomicExpiry = TRUE
  LeaverPolls = FALSE
  NotifyFirst = FALSE
  NotifyOnExit = "panic"
INVARIANTS Inv_AtMostOnce Inv_RejectedNeverRun Inv_MaxConcurrent Inv_Counts Inv_HandlerOnlyJobPanics
PROPERTY Live_ExactlyOnce
CHECK_DEADLOCK FALSE
