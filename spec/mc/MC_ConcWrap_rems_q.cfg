SPECIFICATION Spec
CONSTANTS
  Thread = {1, 2, 3}
  Script <- ScriptQ
  Mode <- ModeRemS
  IsStack = FALSE
INVARIANTS Inv_Exclusion Inv_NoDuplicate Inv_NoLoss
CHECK_DEADLOCK FALSE
