SPECIFICATION FairSpec
CONSTANTS
  N = 3
  FixedPool = 2
  Ordered = TRUE
  CloserAfterSpawn = TRUE
INVARIANTS Inv_AppliedAtMostOnce Inv_Concurrency Inv_NoPanic Inv_ReturnComplete
PROPERTY Live_Terminates
CHECK_DEADLOCK FALSE
