SPECIFICATION Spec
CONSTANTS
  Universe = "stream"
  Fam = "G"
  Depth = 2
  Emit = TRUE
PROPERTY Act_Persistent
ACTION_CONSTRAINT EmitEdge
CHECK_DEADLOCK FALSE
