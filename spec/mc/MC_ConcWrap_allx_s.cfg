SPECIFICATION Spec
CONSTANTS
  Thread = {1, 2, 3}
  Script <- ScriptS
  Mode <- ModeAllX
  IsStack = TRUE
INVARIANTS Inv_Exclusion Inv_NoDuplicate Inv_NoLoss
CHECK_DEADLOCK FALSE
