------------------------------- MODULE MC_LLQ -------------------------------
(* Exhaustive configuration of LLQ.tla and transition-cover generator.
   VIEW hides hist; the ACTION_CONSTRAINT EmitEdge is evaluated by TLC for every
   generated transition (also those into already known states), so the file
   receives one behaviour per edge of the VIEW-reduced graph: a shortest path to
   the source state followed by that edge ("one implementation test per
   transition").  With Emit = FALSE nothing is written.                       *)
EXTENDS LLQ, Json, CSV, IOUtils
CONSTANT Emit
EmitFile == IF "VERIF_EMIT" \in DOMAIN IOEnv THEN IOEnv.VERIF_EMIT ELSE "cover.ndjson"
EmitEdge == Emit => CSVWrite("%1$s", <<ToJson([ops |-> hist', res |-> res', ares |-> ares', snap |-> Snap(h')])>>, EmitFile)
OpsAll  == AllOpNames
OpsCore == {"Offer", "Unshift", "Shift", "Pop", "Peek", "Count", "Clear", "ClearNodePool", "KeepNodePoolCount"}
=============================================================================
