SPECIFICATION Spec
CONSTANTS
  Callers = {"a"}
  NReq = 3
  NServe = 3
  OpCap = 1
  ResCap = 2
  ReplyLocksTarget = FALSE
  SafeCompletion = TRUE
INVARIANTS Inv_NoPanic Inv_Pairing Inv_PerCallerOrder Inv_NoStuck
CHECK_DEADLOCK FALSE
