SPECIFICATION FairSpec
CONSTANTS
  C = 1
  B = 2
  Producers = {"p1"}
  Consumers = {"c1", "c2"}
  NOffer = 3
  NTake = 2
  Kinds = {"take", "poll"}
  WithWaiters = FALSE
  OneShot = FALSE
  LoaderFreeOnly = FALSE
  WithClose = FALSE
  GuardedClose = TRUE
PROPERTY Live_AllDelivered
CHECK_DEADLOCK FALSE
