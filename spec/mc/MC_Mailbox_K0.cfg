SPECIFICATION FairSpec
CONSTANTS
  Senders = {"a", "b", "c"}
  NMsg = 2
  K = 0
  WithClose = FALSE
  SendRecovers = TRUE
INVARIANTS Inv_NoPanic Inv_Serial Inv_AtMostOnce Inv_PerSenderFIFO
PROPERTY Live_ExactlyOnce
CHECK_DEADLOCK FALSE
