\* exhaustive: the repaired link discipline refines Deque (thorough bound)
SPECIFICATION Spec
CONSTANTS
  Ops <- OpsAll
  N = 5
  Val = {1, 2, 3}
  FIXED = TRUE
  MaxLen = 3
  Emit = FALSE
VIEW View
INVARIANTS Inv_NoPanic Inv_Result Inv_Abs Inv_Back Inv_Count Inv_PoolDisjoint Inv_Ends
ACTION_CONSTRAINT EmitEdge
CHECK_DEADLOCK FALSE
