SPECIFICATION Spec
CONSTANTS
  Callers = {"a", "b", "c"}
  NReq = 1
  NServe = 3
  OpCap = 1
  ResCap = 2
  ReplyLocksTarget = TRUE
  SafeCompletion = TRUE
INVARIANTS Inv_NoPanic Inv_Pairing Inv_PerCallerOrder Inv_NoStuck
CHECK_DEADLOCK FALSE
