-------------------------------- MODULE PMap --------------------------------
(* C16 — PMap is Map run in parallel (fp.go PMap / pMapPreserveOrder / pMapNoOrder).
   Goroutines: a feeder pushing the indices into the jobs channel (capacity n) and closing it; W workers
   (W = n without a pool size, min(FixedPool, n) with one) looping  take job -> apply f -> send result;
   a closer that waits for all workers and closes the results channel (capacity W \div 3); the caller
   collecting results until the channel is closed, then assembling the output.
   CloserAfterSpawn = FALSE models the closer goroutine started before the workers are registered
   (the WaitGroup counter still 0): it may close the results channel at once.                       *)
EXTENDS Integers, Sequences, FiniteSets, TLC
CONSTANTS N, FixedPool, Ordered, CloserAfterSpawn
W == IF FixedPool > 0 /\ FixedPool < N THEN FixedPool ELSE N
Idx == 1..N
Worker == 1..W
RCap == W \div 3
VARIABLES fed, jobs, jobsClosed, wpc, wjob, registered, results, resClosed, collected, applied, returned, panicked
vars == <<fed, jobs, jobsClosed, wpc, wjob, registered, results, resClosed, collected, applied, returned, panicked>>
Init == /\ fed = 0 /\ jobs = <<>> /\ jobsClosed = FALSE
        /\ wpc = [w \in Worker |-> "unborn"] /\ wjob = [w \in Worker |-> 0] /\ registered = 0
        /\ results = <<>> /\ resClosed = FALSE /\ collected = <<>> /\ applied = [i \in Idx |-> 0]
        /\ returned = FALSE /\ panicked = FALSE
Feed == /\ fed < N /\ fed' = fed + 1 /\ jobs' = Append(jobs, fed + 1)
        /\ UNCHANGED <<jobsClosed, wpc, wjob, registered, results, resClosed, collected, applied, returned, panicked>>
CloseJobs == /\ fed = N /\ ~jobsClosed /\ jobsClosed' = TRUE
             /\ UNCHANGED <<fed, jobs, wpc, wjob, registered, results, resClosed, collected, applied, returned, panicked>>
\* the caller's spawn loop: wg.Add(1); go worker   (workers are born in order)
Spawn(w) == /\ wpc[w] = "unborn" /\ \A v \in Worker : v < w => wpc[v] # "unborn"
            /\ wpc' = [wpc EXCEPT ![w] = "idle"] /\ registered' = registered + 1
            /\ UNCHANGED <<fed, jobs, jobsClosed, wjob, results, resClosed, collected, applied, returned, panicked>>
Take(w) == /\ wpc[w] = "idle" /\ jobs # <<>>
           /\ wjob' = [wjob EXCEPT ![w] = Head(jobs)] /\ jobs' = Tail(jobs) /\ wpc' = [wpc EXCEPT ![w] = "running"]
           /\ UNCHANGED <<fed, jobsClosed, registered, results, resClosed, collected, applied, returned, panicked>>
Apply(w) == /\ wpc[w] = "running" /\ applied' = [applied EXCEPT ![wjob[w]] = @ + 1] /\ wpc' = [wpc EXCEPT ![w] = "sending"]
            /\ UNCHANGED <<fed, jobs, jobsClosed, wjob, registered, results, resClosed, collected, returned, panicked>>
Send(w) == /\ wpc[w] = "sending"
           /\ IF resClosed THEN panicked' = TRUE /\ wpc' = [wpc EXCEPT ![w] = "dead"] /\ UNCHANGED results   \* send on closed channel
              ELSE /\ Len(results) < RCap \/ RCap = 0          \* RCap = 0: rendezvous with the collecting caller (always receiving until closed)
                   /\ ~returned
                   /\ results' = Append(results, wjob[w]) /\ wpc' = [wpc EXCEPT ![w] = "idle"] /\ UNCHANGED panicked
           /\ UNCHANGED <<fed, jobs, jobsClosed, wjob, registered, resClosed, collected, applied, returned>>
Exit(w) == /\ wpc[w] = "idle" /\ jobs = <<>> /\ jobsClosed /\ wpc' = [wpc EXCEPT ![w] = "exited"] /\ registered' = registered - 1
           /\ UNCHANGED <<fed, jobs, jobsClosed, wjob, results, resClosed, collected, applied, returned, panicked>>
\* closer: wg.Wait(); close(results).  With CloserAfterSpawn it exists only after every worker was registered.
AllSpawned == \A w \in Worker : wpc[w] # "unborn"
CloseResults == /\ ~resClosed /\ registered = 0 /\ (CloserAfterSpawn => AllSpawned)
                /\ resClosed' = TRUE
                /\ UNCHANGED <<fed, jobs, jobsClosed, wpc, wjob, registered, results, collected, applied, returned, panicked>>
Collect == /\ ~returned /\ results # <<>> /\ collected' = Append(collected, Head(results)) /\ results' = Tail(results)
           /\ UNCHANGED <<fed, jobs, jobsClosed, wpc, wjob, registered, resClosed, applied, returned, panicked>>
Return == /\ ~returned /\ results = <<>> /\ resClosed /\ AllSpawned /\ returned' = TRUE
          /\ UNCHANGED <<fed, jobs, jobsClosed, wpc, wjob, registered, results, resClosed, collected, applied, panicked>>
Next == Feed \/ CloseJobs \/ CloseResults \/ Collect \/ Return
        \/ \E w \in Worker : Spawn(w) \/ Take(w) \/ Apply(w) \/ Send(w) \/ Exit(w)
Spec == Init /\ [][Next]_vars
FairSpec == Spec /\ WF_vars(Next)

Running == {w \in Worker : wpc[w] \in {"running"}}
Inv_AppliedAtMostOnce == \A i \in Idx : applied[i] <= 1
Inv_Concurrency == Cardinality(Running) <= W
Inv_NoPanic == ~panicked
\* at return: every element applied exactly once and collected exactly once (ordered mode reassembles by index)
Inv_ReturnComplete == returned => /\ \A i \in Idx : applied[i] = 1
                                  /\ Len(collected) = N /\ {collected[j] : j \in DOMAIN collected} = Idx
Live_Terminates == <>returned
=============================================================================
