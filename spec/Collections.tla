----------------------------- MODULE Collections -----------------------------
(* C03 — the slice/map helpers of fp.go, written from their doc comments (not
   from the code).  Outcomes(c) is the SET of admissible outcomes of one call
   c = [fn, a, b, c, m, m2, n, n2, f]:  a singleton where the documentation
   fixes the answer, two elements where it is silent on an edge (literal
   reading / pinned legacy behaviour, DESIGN.md appendix A).  The outcomes
   "panic", "mutated" (an input changed) and "aliased" (a Duplicate* result
   shares storage with its input) are never admissible.

   Elements are abstract integers; the driver concretises them as int, string
   and struct values.  Go indices are 0-based: index i of Go is i+1 here.
   Maps travel as sequences of <<key, value>> pairs sorted by key.           *)
EXTENDS Integers, Sequences, FiniteSets, SequencesExt, TLC

\* ------------------------------------------------------------ function family
Pred(f, e) == CASE f = "isEven" -> e % 2 = 0
                [] f = "gt1"    -> e > 1
                [] f = "lt3"    -> e < 3
                [] f = "constT" -> TRUE
                [] f = "constF" -> FALSE
PredNames == {"isEven", "gt1", "lt3", "constT", "constF"}

PredI(f, e, i) == CASE f = "valEven"  -> e % 2 = 0       \* i is the Go (0-based) index
                  [] f = "idxEven"  -> i % 2 = 0
                  [] f = "idxLt2"   -> i < 2
                  [] f = "valGtIdx" -> e > i
                  [] f = "constT"   -> TRUE
PredINames == {"valEven", "idxEven", "idxLt2", "valGtIdx", "constT"}

Tr(f, e) == CASE f = "plus1"  -> e + 1
              [] f = "times2" -> 2 * e
              [] f = "mod2"   -> e % 2
              [] f = "id"     -> e
              [] f = "const7" -> 7
TrNames == {"plus1", "times2", "mod2", "id", "const7"}

TrI(f, e, i) == CASE f = "plusIdx" -> e + i
                  [] f = "idx"     -> i
                  [] f = "val"     -> e
TrINames == {"plusIdx", "idx", "val"}

Red(f, memo, e) == CASE f = "sum"  -> memo + e
                     [] f = "poly" -> memo * 3 + e            \* order sensitive
RedNames == {"sum", "poly"}
RedI(f, memo, e, i) == CASE f = "sumIdx" -> memo + e * (i + 1)
                         [] f = "polyIdx" -> memo * 3 + e + i
RedINames == {"sumIdx", "polyIdx"}

\* --------------------------------------------------------------- small helpers
Elems(s) == {s[i] : i \in DOMAIN s}
Min2(a, b) == IF a < b THEN a ELSE b
\* SelI(s, i0, Keep(_, _)): subsequence of the s[j], j >= i0, with Keep(s[j], j-1)  (j-1 = Go index)
SelI(s, i0, Keep(_, _)) == LET idx == SetToSortSeq({j \in i0..Len(s) : Keep(s[j], j - 1)}, LAMBDA x, y : x < y)
                           IN [j \in DOMAIN idx |-> s[idx[j]]]
RECURSIVE FlatAll(_)
FlatAll(ss) == IF ss = <<>> THEN <<>> ELSE Head(ss) \o FlatAll(Tail(ss))
\* FoldL(s, i0, memo, Step(_, _, _)): left fold, Step(memo, element, Go index)
FoldL(s, i0, memo, Step(_, _, _)) == LET F[i \in 0..Len(s)] == IF i = 0 THEN memo ELSE Step(F[i - 1], s[i], i - 1)
                                     IN F[Len(s)]
FirstOcc(s) == SelI(s, 1, LAMBDA e, i : \A j \in 1..i : s[j] # e)           \* i is 0-based: j ranges over earlier positions
RevSeq(s) == [i \in 1..Len(s) |-> s[Len(s) + 1 - i]]
SeqMin(s) == CHOOSE x \in Elems(s) : \A y \in Elems(s) : x <= y
SeqMax(s) == CHOOSE x \in Elems(s) : \A y \in Elems(s) : x >= y
SortedSeq(S) == SetToSortSeq(S, LAMBDA x, y : x < y)
SortBag(s) == SortSeq(s, LAMBDA x, y : x < y)

\* maps: pair sequences <-> functions
MapIn(ps)  == [k \in {ps[i][1] : i \in DOMAIN ps} |-> ps[CHOOSE i \in DOMAIN ps : ps[i][1] = k][2]]
MapOut(mf) == LET ks == SortedSeq(DOMAIN mf) IN [i \in DOMAIN ks |-> <<ks[i], mf[ks[i]]>>]

\* ------------------------------------------------------------------- outcomes
OSeq(s)    == [k |-> "seq",    v |-> s]
OSeqSeq(s) == [k |-> "seqseq", v |-> s]
OBool(b)   == [k |-> "bool",   v |-> b]
OInt(n)    == [k |-> "int",    v |-> n]
OPair(a, b) == [k |-> "int2",  v |-> <<a, b>>]
OMap(mf)   == [k |-> "map",    v |-> MapOut(mf)]       \* values are ints or sequences (GroupBy)
OBag(s)    == [k |-> "bag",    v |-> SortBag(s)]       \* order unspecified: compared as sorted

Chunks(k, s) == [j \in 1..((Len(s) + k - 1) \div k) |-> SubSeq(s, (j - 1) * k + 1, Min2(j * k, Len(s)))]
RECURSIVE RangeSeq(_, _, _)
RangeSeq(lo, hi, hop) == IF lo >= hi THEN <<>> ELSE <<lo>> \o RangeSeq(lo + hop, hi, hop)
RECURSIVE DedupeSeq(_)
DedupeSeq(s) == IF Len(s) <= 1 THEN s
                ELSE IF s[1] = s[2] THEN DedupeSeq(Tail(s)) ELSE <<s[1]>> \o DedupeSeq(Tail(s))
RECURSIVE DropWhileSeq(_, _)
DropWhileSeq(f, s) == IF s = <<>> THEN <<>> ELSE IF Pred(f, Head(s)) THEN DropWhileSeq(f, Tail(s)) ELSE s

Outcomes(c) ==
  LET a == c.a  b == c.b  n == c.n  f == c.f  L == Len(c.a) IN
  CASE c.fn = "Map"           -> {OSeq([i \in 1..L |-> Tr(f, a[i])])}
    [] c.fn = "MapIndexed"    -> {OSeq([i \in 1..L |-> TrI(f, a[i], i - 1)])}
    [] c.fn = "Reduce"        -> {OInt(FoldL(a, 1, n, LAMBDA memo, e, i : Red(f, memo, e)))}
    [] c.fn = "ReduceIndexed" -> {OInt(FoldL(a, 1, n, LAMBDA memo, e, i : RedI(f, memo, e, i)))}
    [] c.fn = "Filter"        -> {OSeq(SelI(a, 1, LAMBDA e, i : PredI(f, e, i)))}
    [] c.fn = "Reject"        -> {OSeq(SelI(a, 1, LAMBDA e, i : ~PredI(f, e, i)))}
    [] c.fn = "Concat"        -> {OSeq(a \o FlatAll(c.c))}
    [] c.fn = "Flatten"       -> {OSeq(FlatAll(c.c))}
    [] c.fn = "Distinct"      -> {OSeq(FirstOcc(a))}
    [] c.fn = "Dedupe"        -> {OSeq(DedupeSeq(a))}
    [] c.fn = "DropEq"        -> {OSeq(SelI(a, 1, LAMBDA e, i : e # n))}
    [] c.fn = "Drop"          -> (IF n <= 0 THEN {OSeq(a)} ELSE IF n >= L THEN {OSeq(<<>>)} ELSE {OSeq(SubSeq(a, n + 1, L))})
                                 \cup (IF L = 1 /\ n <= 0 THEN {OSeq(<<>>)} ELSE {})    \* "empty if only one item"
    [] c.fn = "DropLast"      -> (IF n <= 0 THEN {OSeq(a)} ELSE IF n >= L THEN {OSeq(<<>>)} ELSE {OSeq(SubSeq(a, 1, L - n))})
                                 \cup (IF L = 1 /\ n <= 0 THEN {OSeq(<<>>)} ELSE {})
    [] c.fn = "DropWhile"     -> IF f = "nil" THEN {OSeq(<<>>)} ELSE {OSeq(DropWhileSeq(f, a))}
    [] c.fn = "Take"          -> IF n >= L THEN {OSeq(a)} ELSE IF n > 0 THEN {OSeq(SubSeq(a, 1, n))}
                                 ELSE {OSeq(<<>>), OSeq(a)}                             \* doc: first n; code: whole list
    [] c.fn = "TakeLast"      -> IF n >= L THEN {OSeq(a)} ELSE IF n > 0 THEN {OSeq(SubSeq(a, L - n + 1, L))}
                                 ELSE {OSeq(<<>>), OSeq(a)}
    [] c.fn = "Head"          -> {OInt(IF L = 0 THEN 0 ELSE a[1])}                      \* zero value on empty
    [] c.fn = "Tail"          -> {OSeq(IF L <= 1 THEN <<>> ELSE SubSeq(a, 2, L))}
    [] c.fn = "Reverse"       -> {OSeq(RevSeq(a))}
    [] c.fn = "Prepend"       -> {OSeq(<<n>> \o a)}
    [] c.fn = "Partition"     -> {OSeqSeq(<<SelI(a, 1, LAMBDA e, i : Pred(f, e)), SelI(a, 1, LAMBDA e, i : ~Pred(f, e))>>)}
    [] c.fn = "SplitEvery"    -> IF L = 0 THEN {OSeqSeq(<< <<>> >>), OSeqSeq(<<>>)}
                                 ELSE IF n <= 0 \/ L <= 1 THEN {OSeqSeq(<<a>>)} ELSE {OSeqSeq(Chunks(n, a))}
    [] c.fn = "GroupBy"       -> {OMap([id \in {Tr(f, a[i]) : i \in 1..L} |-> SelI(a, 1, LAMBDA e, i : Tr(f, e) = id)])}
    [] c.fn = "UniqBy"        -> {OSeq(SelI(a, 1, LAMBDA e, i : \A j \in 1..i : Tr(f, a[j]) # Tr(f, e)))}
    [] c.fn = "Zip"           -> LET k == Min2(L, Len(b)) IN
                                 {OMap([x \in {a[i] : i \in 1..k} |-> b[CHOOSE i \in 1..k : a[i] = x /\ \A j \in (i + 1)..k : a[j] # x]])}
    [] c.fn = "Range"         -> IF f = "hop" /\ c.n2 <= 0 THEN {OSeq(<<>>)}
                                 ELSE {OSeq(RangeSeq(n, c.n3, IF f = "hop" THEN c.n2 ELSE 1))}
    [] c.fn = "Keys"          -> {OBag([i \in DOMAIN c.m |-> c.m[i][1]])}
    [] c.fn = "Values"        -> {OBag([i \in DOMAIN c.m |-> c.m[i][2]])}
    [] c.fn = "Merge"         -> LET m1 == MapIn(c.m)  m2 == MapIn(c.m2) IN
                                 {OMap([x \in DOMAIN m1 \cup DOMAIN m2 |-> IF x \in DOMAIN m2 THEN m2[x] ELSE m1[x]])}
    [] c.fn = "Min"           -> {OInt(IF L = 0 THEN 0 ELSE SeqMin(a))}
    [] c.fn = "Max"           -> {OInt(IF L = 0 THEN 0 ELSE SeqMax(a))}
    [] c.fn = "MinMax"        -> {IF L = 0 THEN OPair(0, 0) ELSE OPair(SeqMin(a), SeqMax(a))}
    [] c.fn = "Every"         -> {OBool(f # "nil" /\ L > 0 /\ \A i \in 1..L : Pred(f, a[i]))}   \* documented: false on nil / empty
    [] c.fn = "Some"          -> {OBool(f # "nil" /\ \E i \in 1..L : Pred(f, a[i]))}
    [] c.fn = "Exists"        -> {OBool(n \in Elems(a))}
    [] c.fn = "IsEqual"       -> IF L = 0 /\ Len(b) = 0 THEN {OBool(TRUE), OBool(FALSE)} ELSE {OBool(a = b)}
    [] c.fn = "IsEqualMap"    -> IF c.m = <<>> /\ c.m2 = <<>> THEN {OBool(TRUE), OBool(FALSE)} ELSE {OBool(MapIn(c.m) = MapIn(c.m2))}
    [] c.fn = "IsDistinct"    -> IF L = 0 THEN {OBool(TRUE), OBool(FALSE)} ELSE {OBool(Cardinality(Elems(a)) = L)}
    [] c.fn = "SliceToMap"    -> {OMap([x \in Elems(a) |-> n])}
    [] c.fn = "DuplicateSlice" -> {OSeq(a)}
    [] c.fn = "DuplicateMap"  -> {OMap(MapIn(c.m))}

Fns == {"Map", "MapIndexed", "Reduce", "ReduceIndexed", "Filter", "Reject", "Concat", "Flatten", "Distinct", "Dedupe",
        "DropEq", "Drop", "DropLast", "DropWhile", "Take", "TakeLast", "Head", "Tail", "Reverse", "Prepend", "Partition",
        "SplitEvery", "GroupBy", "UniqBy", "Zip", "Range", "Keys", "Values", "Merge", "Min", "Max", "MinMax", "Every",
        "Some", "Exists", "IsEqual", "IsEqualMap", "IsDistinct", "SliceToMap", "DuplicateSlice", "DuplicateMap"}
=============================================================================
