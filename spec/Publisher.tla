------------------------------ MODULE Publisher ------------------------------
(* C10 — Publisher (publisher.go) with Go slice semantics.

   publisherSelf.subscribers is a slice = (backing array id, len); Publish takes a snapshot of the slice VALUE
   under the mutex (it shares the backing array) and then delivers outside the mutex, element by element.
   Subscribe = append (in place when capacity allows, else a new doubled array); Unsubscribe removes the first
   occurrence, either by shifting inside the backing array (InPlace = TRUE, the pinned code:
   append(s[:i], s[i+1:]...)) or by building a fresh array.
   One publishing thread; between two deliveries anything may happen to the subscriber list: the callback just
   delivered may unsubscribe itself or another subscription or subscribe a new one (re-entrancy), and other
   goroutines may do the same, each as one locked step.                                                    *)
EXTENDS Integers, Sequences, FiniteSets, TLC
CONSTANTS Subs,             \* the initial subscriptions, in subscription order (a sequence)
          Extra,            \* a subscription that may be added during the publish
          InPlace,
          MaxChanges        \* bound on list changes during one publish
VARIABLES arrays, subs, nextArr, pc, snap, idx, log, removed, added, changes
vars == <<arrays, subs, nextArr, pc, snap, idx, log, removed, added, changes>>
SubSet == {Subs[i] : i \in DOMAIN Subs}

\* append(sl, s) on (arrays, slice)
AppendTo(arrs, sl, na, s) ==
  LET cap == Len(arrs[sl.arr]) IN
  IF sl.len < cap THEN [arrays |-> [arrs EXCEPT ![sl.arr][sl.len + 1] = s], subs |-> [sl EXCEPT !.len = @ + 1], na |-> na]
  ELSE LET ncap == IF cap = 0 THEN 1 ELSE 2 * cap
           newa == [i \in 1..ncap |-> IF i <= sl.len THEN arrs[sl.arr][i] ELSE IF i = sl.len + 1 THEN s ELSE "-"] IN
       [arrays |-> [a \in DOMAIN arrs \cup {na} |-> IF a = na THEN newa ELSE arrs[a]], subs |-> [arr |-> na, len |-> sl.len + 1], na |-> na + 1]
RECURSIVE Build(_, _, _, _)
Build(arrs, sl, na, rest) == IF rest = <<>> THEN [arrays |-> arrs, subs |-> sl, na |-> na]
                             ELSE LET r == AppendTo(arrs, sl, na, Head(rest)) IN Build(r.arrays, r.subs, r.na, Tail(rest))
Unsub(s, arrs, sl, na) ==
  LET cur == SubSeq(arrs[sl.arr], 1, sl.len)
      pos == {i \in 1..sl.len : cur[i] = s} IN
  IF pos = {} THEN [arrays |-> arrs, subs |-> sl, na |-> na]
  ELSE LET i == CHOOSE i \in pos : \A j \in pos : i <= j
           rest == SubSeq(cur, 1, i - 1) \o SubSeq(cur, i + 1, sl.len) IN
       IF InPlace
         THEN [arrays |-> [arrs EXCEPT ![sl.arr] = [k \in 1..Len(@) |-> IF k <= Len(rest) THEN rest[k] ELSE @[k]]],
               subs |-> [sl EXCEPT !.len = @ - 1], na |-> na]
         ELSE [arrays |-> [a \in DOMAIN arrs \cup {na} |-> IF a = na THEN rest ELSE arrs[a]], subs |-> [arr |-> na, len |-> Len(rest)], na |-> na + 1]

Init == LET r == Build([a \in {0} |-> <<>>], [arr |-> 0, len |-> 0], 1, Subs) IN
        /\ arrays = r.arrays /\ subs = r.subs /\ nextArr = r.na
        /\ pc = "idle" /\ snap = [arr |-> 0, len |-> 0] /\ idx = 0 /\ log = <<>> /\ removed = {} /\ added = {} /\ changes = 0
StartPublish == /\ pc = "idle" /\ snap' = subs /\ idx' = 1 /\ pc' = "delivering"
                /\ UNCHANGED <<arrays, subs, nextArr, log, removed, added, changes>>
Deliver == /\ pc = "delivering" /\ idx <= snap.len
           /\ log' = Append(log, arrays[snap.arr][idx]) /\ idx' = idx + 1
           /\ UNCHANGED <<arrays, subs, nextArr, pc, snap, removed, added, changes>>
\* a list change between two deliveries (from the callback just run, or from another goroutine): one locked step
DoUnsub(s) == /\ pc = "delivering" /\ changes < MaxChanges /\ s \in (SubSet \cup added) \ removed
              /\ LET r == Unsub(s, arrays, subs, nextArr) IN arrays' = r.arrays /\ subs' = r.subs /\ nextArr' = r.na
              /\ removed' = removed \cup {s} /\ changes' = changes + 1 /\ UNCHANGED <<pc, snap, idx, log, added>>
DoSub == /\ pc = "delivering" /\ changes < MaxChanges /\ Extra \notin added
         /\ LET r == AppendTo(arrays, subs, nextArr, Extra) IN arrays' = r.arrays /\ subs' = r.subs /\ nextArr' = r.na
         /\ added' = added \cup {Extra} /\ changes' = changes + 1 /\ UNCHANGED <<pc, snap, idx, log, removed>>
EndPublish == /\ pc = "delivering" /\ idx > snap.len /\ pc' = "done"
              /\ UNCHANGED <<arrays, subs, nextArr, snap, idx, log, removed, added, changes>>
Next == StartPublish \/ Deliver \/ EndPublish \/ DoSub \/ \E s \in SubSet \cup {Extra} : DoUnsub(s)
Spec == Init /\ [][Next]_vars

\* the registered list now (what a later Publish snapshots)
Current == SubSeq(arrays[subs.arr], 1, subs.len)
Count(s) == Cardinality({i \in 1..Len(log) : log[i] = s})
\* never twice for one value, whoever it is
Inv_AtMostOnce == \A s \in SubSet \cup {Extra} : Count(s) <= 1
\* registered before the call and still registered when it ends: exactly once
Inv_ExactlyOnceIfStable == pc = "done" => \A s \in SubSet \ removed : Count(s) = 1
\* in subscription order
Inv_Order == \A i, j \in 1..Len(log) : (i < j /\ log[i] \in SubSet /\ log[j] \in SubSet) =>
               (CHOOSE p \in DOMAIN Subs : Subs[p] = log[i]) <= (CHOOSE p \in DOMAIN Subs : Subs[p] = log[j])
Inv_NoGarbage == \A i \in 1..Len(log) : log[i] # "-"
=============================================================================
