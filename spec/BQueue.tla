------------------------------ MODULE BQueue ------------------------------
(* C07 / C15 — fpgo.BufferedChannelQueue (queue.go) at hook grain.

   State = the Go fields: ch (blockingQueue, capacity C), pool (the overflow LinkedListQueue, at most B items,
   C06 says it is a deque), wake (loadWorkerCh, capacity 1), the closed flag, the two channels' closed state,
   the owner of q.lock; the loader goroutine (lpc, and lval = the item it holds between pool.Poll and
   blockingQueue.Offer), producers, consumers (take = blocking, poll), an optional closer.
   One action per segment between two verifPoint hooks of the code.
   In this module a Poll that finds the channel empty does not count as one of the consumer's NTake calls
   (consumers keep calling until they got NTake values), which makes the liveness property meaningful.     *)
EXTENDS Integers, Sequences, FiniteSets, TLC

CONSTANTS C,          \* channelCapacity
          B,          \* bufferSizeMaximum
          Producers, Consumers,
          NOffer,     \* offers per producer
          NTake,      \* take/poll calls per consumer
          Kinds,      \* consumer call kinds used: subset of {"take", "poll", "ttake"} (Take, Poll, TakeWithTimeout / <-GetChannel() with the caller's timer)
          WithWaiters, \* BOOLEAN: model consumers BLOCKED in the channel receive (Take / timed take on an empty channel): a send hands the
                       \*   item straight to a waiting receiver without using a buffer slot (Go channel rendezvous)
          OneShot,     \* BOOLEAN: a consumer makes calls only until it has received one result (a goroutine that calls Take() once)
          LoaderFreeOnly, \* BOOLEAN variant: a loader pass moves at most max(1, free slots) items (strands blocked takers); FALSE: the code
          WithClose,  \* BOOLEAN: a closer thread exists
          GuardedClose \* TRUE: notifyWorkers runs under the read lock and re-checks closed, the loader re-checks closed under
                       \*       the lock (the fixed code); FALSE: the pinned code (flag checked once, outside the lock)

VARIABLES ch, pool, wake, closed, wakeClosed, chClosed, lock,
          lpc, lval, lbudget,  \* loader (lbudget: pushes left in this pass - only the LoaderFreeOnly variant bounds it)
          ppc, pidx, pres,     \* producers
          cpc, cidx, cres, ckind, \* consumers
          xpc,                 \* closer
          panicked

vars == <<ch, pool, wake, closed, wakeClosed, chClosed, lock, lpc, lval, lbudget,
          ppc, pidx, pres, cpc, cidx, cres, ckind, xpc, panicked>>

Val(p, i) == [k |-> "val", p |-> p, i |-> i]
Tag(t) == [k |-> t, p |-> "-", i |-> 0]

Init ==
  /\ ch = <<>> /\ pool = <<>> /\ wake = 0
  /\ closed = FALSE /\ wakeClosed = FALSE /\ chClosed = FALSE
  /\ lock = "free"
  /\ lpc = "idle" /\ lval = <<>> /\ lbudget = 0
  /\ ppc = [p \in Producers |-> "start"] /\ pidx = [p \in Producers |-> 1]
  /\ pres = [p \in Producers |-> <<>>]
  /\ cpc = [c \in Consumers |-> "start"] /\ cidx = [c \in Consumers |-> 1]
  /\ cres = [c \in Consumers |-> <<>>]
  /\ ckind = [c \in Consumers |-> "none"]
  /\ xpc = IF WithClose THEN "start" ELSE "done"
  /\ panicked = {}

\* ---------------------------------------------------------------- producers
OfferLock(p) ==
  /\ ppc[p] = "start" /\ pidx[p] <= NOffer /\ lock = "free"
  /\ lock' = p /\ ppc' = [ppc EXCEPT ![p] = "locked"]
  /\ UNCHANGED <<ch, pool, wake, closed, wakeClosed, chClosed, lpc, lval, lbudget, pidx, pres,
                 cpc, cidx, cres, ckind, xpc, panicked>>

Waiting == IF WithWaiters THEN {c \in Consumers : cpc[c] = "waiting"} ELSE {}
\* a non-blocking channel send succeeds when the buffer has room OR a receiver is waiting (then the value goes to that receiver)
HandOff(w, v) == cres' = [cres EXCEPT ![w] = Append(@, v)] /\ cpc' = [cpc EXCEPT ![w] = "start"]
OfferBody(p) ==
  /\ ppc[p] = "locked"
  /\ LET v == Val(p, pidx[p]) IN
     \/ /\ closed
        /\ pres' = [pres EXCEPT ![p] = Append(@, "closed")]
        /\ UNCHANGED <<ch, pool, wake, cpc, cres>>
     \/ /\ ~closed /\ Len(pool) = 0 /\ Waiting # {}
        /\ \E w \in Waiting : HandOff(w, v)
        /\ pres' = [pres EXCEPT ![p] = Append(@, "ok")]
        /\ UNCHANGED <<ch, pool, wake>>
     \/ /\ ~closed /\ Len(pool) = 0 /\ Waiting = {} /\ Len(ch) < C
        /\ ch' = Append(ch, v)
        /\ pres' = [pres EXCEPT ![p] = Append(@, "ok")]
        /\ UNCHANGED <<pool, wake, cpc, cres>>
     \/ /\ ~closed /\ ~(Len(pool) = 0 /\ (Waiting # {} \/ Len(ch) < C)) /\ Len(pool) >= B
        /\ pres' = [pres EXCEPT ![p] = Append(@, "full")]
        /\ UNCHANGED <<ch, pool, wake, cpc, cres>>
     \/ /\ ~closed /\ ~(Len(pool) = 0 /\ (Waiting # {} \/ Len(ch) < C)) /\ Len(pool) < B
        /\ pool' = Append(pool, v)
        /\ wake' = 1
        /\ pres' = [pres EXCEPT ![p] = Append(@, "ok")]
        /\ UNCHANGED <<ch, cpc, cres>>
  /\ pidx' = [pidx EXCEPT ![p] = @ + 1]
  /\ ppc' = [ppc EXCEPT ![p] = "bodydone"]
  /\ UNCHANGED <<lock, closed, wakeClosed, chClosed, lpc, lval, lbudget, cidx, ckind, xpc, panicked>>

\* the deferred Unlock (the item sent into the channel is visible to consumers before this step)
OfferUnlock(p) ==
  /\ ppc[p] = "bodydone"
  /\ lock' = "free" /\ ppc' = [ppc EXCEPT ![p] = "start"]
  /\ UNCHANGED <<ch, pool, wake, closed, wakeClosed, chClosed, lpc, lval, lbudget, pidx, pres,
                 cpc, cidx, cres, ckind, xpc, panicked>>

\* ---------------------------------------------------------------- consumers
\* kind: "take" (blocking) or "poll"
ConsStart(c, k) ==
  /\ cpc[c] = "start" /\ cidx[c] <= NTake /\ (OneShot => cres[c] = <<>>)
  /\ ckind' = [ckind EXCEPT ![c] = k]
  /\ IF closed
       THEN /\ cres' = [cres EXCEPT ![c] = Append(@, Tag("closed"))]
            /\ cidx' = [cidx EXCEPT ![c] = @ + 1]
            /\ UNCHANGED cpc
       ELSE /\ cpc' = [cpc EXCEPT ![c] = "checked"]
            /\ UNCHANGED <<cres, cidx>>
  /\ UNCHANGED <<ch, pool, wake, closed, wakeClosed, chClosed, lock, lpc, lval, lbudget,
                 ppc, pidx, pres, xpc, panicked>>

\* GuardedClose: RLock; re-check; offer; RUnlock is one step: no writer can interleave and readers' notifies commute
ConsNotify(c) ==
  /\ cpc[c] = "checked"
  /\ GuardedClose => lock = "free"
  /\ IF GuardedClose /\ closed
       THEN /\ cpc' = [cpc EXCEPT ![c] = "notified"] /\ UNCHANGED <<wake, panicked>>
     ELSE IF wakeClosed
       THEN /\ panicked' = panicked \cup {c}
            /\ cpc' = [cpc EXCEPT ![c] = "dead"]
            /\ UNCHANGED wake
       ELSE /\ wake' = 1
            /\ cpc' = [cpc EXCEPT ![c] = "notified"]
            /\ UNCHANGED panicked
  /\ UNCHANGED <<ch, pool, closed, wakeClosed, chClosed, lock, lpc, lval, lbudget,
                 ppc, pidx, pres, cidx, cres, ckind, xpc>>

ConsRecv(c) ==
  /\ cpc[c] = "notified"
  /\ \/ /\ Len(ch) > 0
        /\ cres' = [cres EXCEPT ![c] = Append(@, Head(ch))]
        /\ ch' = Tail(ch)
     \/ /\ Len(ch) = 0 /\ chClosed
        /\ cres' = [cres EXCEPT ![c] = Append(@, IF ckind[c] = "take" THEN Tag("closed") ELSE Tag("zero"))]
        /\ UNCHANGED ch
     \/ /\ Len(ch) = 0 /\ ~chClosed /\ ckind[c] = "poll"
        /\ UNCHANGED <<cres, ch>>
     \/ /\ ckind[c] = "ttake" /\ ~chClosed            \* the timer wins the select (possible even when an item is ready)
        /\ UNCHANGED <<cres, ch>>
  /\ cpc' = [cpc EXCEPT ![c] = "start"]
  /\ UNCHANGED <<cidx, pool, wake, closed, wakeClosed, chClosed, lock, lpc, lval, lbudget,
                 ppc, pidx, pres, ckind, xpc, panicked>>

\* a blocking take (or a timed one) that finds the channel empty blocks in the receive: from then on only a sender's hand-off, the
\* timer (timed take) or the close of the channel completes the call
ConsWait(c) ==
  /\ WithWaiters /\ cpc[c] = "notified" /\ ckind[c] \in {"take", "ttake"} /\ Len(ch) = 0 /\ ~chClosed
  /\ cpc' = [cpc EXCEPT ![c] = "waiting"]
  /\ UNCHANGED <<ch, pool, wake, closed, wakeClosed, chClosed, lock, lpc, lval, lbudget, ppc, pidx, pres, cidx, cres, ckind, xpc, panicked>>
ConsWaitEnd(c) ==
  /\ cpc[c] = "waiting"
  /\ \/ ckind[c] = "ttake" /\ ~chClosed /\ UNCHANGED cres                                        \* the timer fires
     \/ chClosed /\ cres' = [cres EXCEPT ![c] = Append(@, IF ckind[c] = "take" THEN Tag("closed") ELSE Tag("zero"))]
  /\ cpc' = [cpc EXCEPT ![c] = "start"]
  /\ UNCHANGED <<ch, pool, wake, closed, wakeClosed, chClosed, lock, lpc, lval, lbudget, ppc, pidx, pres, cidx, ckind, xpc, panicked>>

\* ---------------------------------------------------------------- loader
LoaderWake ==
  /\ lpc = "idle"
  /\ \/ /\ wake = 1 /\ wake' = 0 /\ lpc' = "woken"
     \/ /\ wake = 0 /\ wakeClosed /\ lpc' = "exited" /\ UNCHANGED wake
  /\ UNCHANGED <<ch, pool, closed, wakeClosed, chClosed, lock, lval, lbudget,
                 ppc, pidx, pres, cpc, cidx, cres, ckind, xpc, panicked>>

LoaderCheck ==
  /\ lpc = "woken"
  /\ lpc' = IF closed THEN "exited" ELSE "checked"
  /\ UNCHANGED <<ch, pool, wake, closed, wakeClosed, chClosed, lock, lval, lbudget,
                 ppc, pidx, pres, cpc, cidx, cres, ckind, xpc, panicked>>

LoaderLock ==
  /\ lpc = "checked" /\ lock = "free"
  /\ IF GuardedClose /\ closed
       THEN lpc' = "exited" /\ UNCHANGED <<lock, lbudget>>      \* re-check under the lock: unlock and leave
       ELSE /\ lock' = "loader" /\ lpc' = "locked"
            /\ lbudget' = IF LoaderFreeOnly THEN (IF C - Len(ch) < 1 THEN 1 ELSE C - Len(ch)) ELSE 0
  /\ UNCHANGED <<ch, pool, wake, closed, wakeClosed, chClosed, lval,
                 ppc, pidx, pres, cpc, cidx, cres, ckind, xpc, panicked>>

\* (the LoaderFreeOnly variant stops the pass when its budget is used up, as if the pool were empty)
LoaderPoll ==
  /\ lpc = "locked"
  /\ IF Len(pool) > 0 /\ (LoaderFreeOnly => lbudget > 0)
       THEN /\ lval' = <<Head(pool)>> /\ pool' = Tail(pool) /\ lpc' = "polled"
            /\ UNCHANGED lock
       ELSE /\ lock' = "free" /\ lpc' = "unlocked" /\ UNCHANGED <<lval, pool>>
  /\ UNCHANGED <<ch, wake, closed, wakeClosed, chClosed, lbudget,
                 ppc, pidx, pres, cpc, cidx, cres, ckind, xpc, panicked>>

LoaderPush ==
  /\ lpc = "polled"
  /\ \/ /\ chClosed
        /\ panicked' = panicked \cup {"loader"} /\ lpc' = "dead"
        /\ UNCHANGED <<ch, pool, lval, lbudget, lock, cpc, cres>>
     \/ /\ ~chClosed /\ Waiting # {}
        /\ \E w \in Waiting : HandOff(w, lval[1])
        /\ lval' = <<>> /\ lpc' = "locked" /\ lbudget' = IF LoaderFreeOnly THEN lbudget - 1 ELSE lbudget
        /\ UNCHANGED <<ch, pool, lock, panicked>>
     \/ /\ ~chClosed /\ Waiting = {} /\ Len(ch) < C
        /\ ch' = Append(ch, lval[1]) /\ lval' = <<>> /\ lpc' = "locked" /\ lbudget' = IF LoaderFreeOnly THEN lbudget - 1 ELSE lbudget
        /\ UNCHANGED <<pool, lock, panicked, cpc, cres>>
     \/ /\ ~chClosed /\ Waiting = {} /\ Len(ch) >= C
        /\ pool' = <<lval[1]>> \o pool /\ lval' = <<>>
        /\ lock' = "free" /\ lpc' = "unlocked"
        /\ UNCHANGED <<ch, panicked, cpc, cres, lbudget>>
  /\ UNCHANGED <<wake, closed, wakeClosed, chClosed,
                 ppc, pidx, pres, cidx, ckind, xpc>>

LoaderSleep ==
  /\ lpc = "unlocked" /\ lpc' = "idle"
  /\ UNCHANGED <<ch, pool, wake, closed, wakeClosed, chClosed, lock, lval, lbudget,
                 ppc, pidx, pres, cpc, cidx, cres, ckind, xpc, panicked>>

\* ---------------------------------------------------------------- closer
CloseLock ==
  /\ xpc = "start" /\ lock = "free" /\ lock' = "closer" /\ xpc' = "locked"
  /\ UNCHANGED <<ch, pool, wake, closed, wakeClosed, chClosed, lpc, lval, lbudget,
                 ppc, pidx, pres, cpc, cidx, cres, ckind, panicked>>
CloseFlag ==
  /\ xpc = "locked" /\ closed' = TRUE /\ xpc' = "flagged"
  /\ UNCHANGED <<ch, pool, wake, wakeClosed, chClosed, lock, lpc, lval, lbudget,
                 ppc, pidx, pres, cpc, cidx, cres, ckind, panicked>>
CloseWake ==
  /\ xpc = "flagged" /\ wakeClosed' = TRUE /\ xpc' = "wakeclosed"
  /\ UNCHANGED <<ch, pool, wake, closed, chClosed, lock, lpc, lval, lbudget,
                 ppc, pidx, pres, cpc, cidx, cres, ckind, panicked>>
CloseCh ==
  /\ xpc = "wakeclosed" /\ chClosed' = TRUE /\ lock' = "free" /\ xpc' = "done"
  /\ UNCHANGED <<ch, pool, wake, closed, wakeClosed, lpc, lval, lbudget,
                 ppc, pidx, pres, cpc, cidx, cres, ckind, panicked>>

Next ==
  \/ \E p \in Producers : OfferLock(p) \/ OfferBody(p) \/ OfferUnlock(p)
  \/ \E c \in Consumers : (\E k \in Kinds : ConsStart(c, k)) \/ ConsNotify(c) \/ ConsRecv(c) \/ ConsWait(c) \/ ConsWaitEnd(c)
  \/ LoaderWake \/ LoaderCheck \/ LoaderLock \/ LoaderPoll \/ LoaderPush \/ LoaderSleep
  \/ CloseLock \/ CloseFlag \/ CloseWake \/ CloseCh

Spec == Init /\ [][Next]_vars
FairSpec == Init /\ [][Next]_vars /\ (\A p \in Producers : WF_vars(OfferLock(p) \/ OfferBody(p) \/ OfferUnlock(p))) /\ (\A c \in Consumers : WF_vars((\E k \in Kinds : ConsStart(c, k)) \/ ConsNotify(c) \/ ConsRecv(c) \/ ConsWait(c) \/ ConsWaitEnd(c))) /\ WF_vars(LoaderWake \/ LoaderCheck \/ LoaderLock \/ LoaderPoll \/ LoaderPush \/ LoaderSleep)

\* ---------------------------------------------------------------- properties
Accepted == UNION {{Val(p, i) : i \in {j \in 1..Len(pres[p]) : pres[p][j] = "ok"}} : p \in Producers}
IsVal(x) == x.k = "val"
DeliveredSeq(c) == SelectSeq(cres[c], IsVal)
Delivered == UNION {{DeliveredSeq(c)[i] : i \in 1..Len(DeliveredSeq(c))} : c \in Consumers}
InFlight == {ch[i] : i \in 1..Len(ch)} \cup {pool[i] : i \in 1..Len(pool)} \cup {lval[i] : i \in 1..Len(lval)}

Inv_NoPanic == panicked = {}
Inv_NoLoaderPanic == "loader" \notin panicked          \* the library goroutine: a panic there kills the process
Inv_NoUserPanic == panicked \subseteq {"loader"}
Inv_WaitersOnlyWhenEmpty == Waiting # {} => Len(ch) = 0      \* a receiver blocks only on an empty channel; a send never buffers past a waiting receiver
Inv_Bound == Len(ch) <= C /\ Len(pool) + Len(lval) <= B /\ Len(ch) + Len(pool) + Len(lval) <= C + B
Inv_Conservation == Accepted = Delivered \cup InFlight
Inv_NoDup ==
  /\ \A c1, c2 \in Consumers : c1 # c2 =>
        {DeliveredSeq(c1)[i] : i \in 1..Len(DeliveredSeq(c1))} \cap {DeliveredSeq(c2)[i] : i \in 1..Len(DeliveredSeq(c2))} = {}
  /\ \A c \in Consumers : \A i, j \in 1..Len(DeliveredSeq(c)) : i # j => DeliveredSeq(c)[i] # DeliveredSeq(c)[j]
  /\ Delivered \cap InFlight = {}
\* logical FIFO content is ch \o lval \o pool and keeps each producer's order
Logical == ch \o lval \o pool
Inv_ProducerOrder ==
  \A i, j \in 1..Len(Logical) : (i < j /\ Logical[i].p = Logical[j].p) => Logical[i].i < Logical[j].i
Inv_ConsumerSeesProducerOrder ==
  \A c \in Consumers : \A i, j \in 1..Len(DeliveredSeq(c)) :
     (i < j /\ DeliveredSeq(c)[i].p = DeliveredSeq(c)[j].p) => DeliveredSeq(c)[i].i < DeliveredSeq(c)[j].i
Live_AllDelivered == <>[](Accepted = Delivered)
=============================================================================
