-------------------------------- MODULE Cor --------------------------------
(* C14 / C15 — fpgo.CorDef (cor.go) at hook grain: one target coroutine T serving NServe YieldRefs, caller coroutines
   each doing NReq YieldFrom(T, x).  YieldFrom = done check of itself, receive(): done check of the target
   (doCloseSafe), lock the target's closedM, send on the target's opCh (capacity OpCap, blocking while full and
   still holding the mutex), unlock, then wait on its own resultCh.  YieldRef = take a request, reply on the
   requester's resultCh under the requester's closedM (after its done check), return the request's value.
   A coroutine whose effect returns sets done, then takes its own closedM and closes its channels.
   ReplyLocksTarget = TRUE is the variant where YieldRef additionally holds the TARGET's own closedM while it
   replies (a plausible "protect the reply" refactor): with a full opCh that deadlocks.                     *)
EXTENDS Integers, Sequences, FiniteSets, TLC
CONSTANTS Callers, NReq, NServe, OpCap, ResCap, ReplyLocksTarget,
          SafeCompletion   \* TRUE (the fixed code): senders re-check done under closedM, an undeliverable YieldFrom returns the zero
                           \*   value, a completing coroutine answers the requests left in its mailbox with the zero value;
                           \* FALSE (the pinned code): done checked once outside the lock, an undelivered request waits forever
T == "T"
Cors == Callers \cup {T}
VARIABLES done, opq, opClosed, resq, resClosed, mtx,
          tpc, tk, tcur, tgot,        \* target: pc, #served, current op, xs seen
          cpc, ck, cgot,              \* callers: pc, #requests done, ys received
          panicked
vars == <<done, opq, opClosed, resq, resClosed, mtx, tpc, tk, tcur, tgot, cpc, ck, cgot, panicked>>
Y(k) == 100 + k                    \* k-th yielded value
X(c, i) == [c |-> c, i |-> i]      \* i-th request of caller c
NoOp == [c |-> "-", i |-> 0]

Init ==
  /\ done = [c \in Cors |-> FALSE]
  /\ opq = <<>> /\ opClosed = FALSE           \* T.opCh
  /\ resq = [c \in Callers |-> <<>>] /\ resClosed = [c \in Callers |-> FALSE]
  /\ mtx = [c \in Cors |-> "free"]
  /\ tpc = "check" /\ tk = 0 /\ tcur = NoOp /\ tgot = <<>>
  /\ cpc = [c \in Callers |-> "checkself"] /\ ck = [c \in Callers |-> 0] /\ cgot = [c \in Callers |-> <<>>]
  /\ panicked = {}

\* ------------------------------------------------------------ caller: YieldFrom(T, X(c, ck+1))
CCheckSelf(c) == /\ cpc[c] = "checkself" /\ ck[c] < NReq
                 /\ cpc' = [cpc EXCEPT ![c] = "checktarget"]
                 /\ UNCHANGED <<done, opq, opClosed, resq, resClosed, mtx, tpc, tk, tcur, tgot, ck, cgot, panicked>>
Undelivered(c) == /\ cgot' = [cgot EXCEPT ![c] = Append(@, 0)] /\ ck' = [ck EXCEPT ![c] = @ + 1]   \* YieldFrom returns the zero value
                  /\ cpc' = [cpc EXCEPT ![c] = "checkself"]
CCheckTarget(c) == /\ cpc[c] = "checktarget"
                   /\ IF done[T] /\ SafeCompletion THEN Undelivered(c)
                      ELSE cpc' = [cpc EXCEPT ![c] = IF done[T] THEN "recv" ELSE "lock"] /\ UNCHANGED <<ck, cgot>>
                   /\ UNCHANGED <<done, opq, opClosed, resq, resClosed, mtx, tpc, tk, tcur, tgot, panicked>>
CLock(c) == /\ cpc[c] = "lock" /\ mtx[T] = "free"
            /\ IF SafeCompletion /\ done[T] THEN Undelivered(c) /\ UNCHANGED mtx                          \* re-check under the lock
               ELSE mtx' = [mtx EXCEPT ![T] = c] /\ cpc' = [cpc EXCEPT ![c] = "send"] /\ UNCHANGED <<ck, cgot>>
            /\ UNCHANGED <<done, opq, opClosed, resq, resClosed, tpc, tk, tcur, tgot, panicked>>
CSend(c) == /\ cpc[c] = "send"
            /\ IF opClosed
                 THEN /\ panicked' = panicked \cup {c} /\ cpc' = [cpc EXCEPT ![c] = "dead"]
                      /\ mtx' = [mtx EXCEPT ![T] = "free"]   \* (no defer: actually stays locked; see note)
                      /\ UNCHANGED opq
                 ELSE /\ Len(opq) < OpCap
                      /\ opq' = Append(opq, X(c, ck[c] + 1))
                      /\ mtx' = [mtx EXCEPT ![T] = "free"]
                      /\ cpc' = [cpc EXCEPT ![c] = "recv"]
                      /\ UNCHANGED panicked
            /\ UNCHANGED <<done, opClosed, resq, resClosed, tpc, tk, tcur, tgot, ck, cgot>>
CRecv(c) == /\ cpc[c] = "recv"
            /\ \/ /\ resq[c] # <<>>
                  /\ cgot' = [cgot EXCEPT ![c] = Append(@, Head(resq[c]))]
                  /\ resq' = [resq EXCEPT ![c] = Tail(@)]
               \/ /\ resq[c] = <<>> /\ resClosed[c]
                  /\ cgot' = [cgot EXCEPT ![c] = Append(@, 0)] /\ UNCHANGED resq
            /\ ck' = [ck EXCEPT ![c] = @ + 1]
            /\ cpc' = [cpc EXCEPT ![c] = "checkself"]
            /\ UNCHANGED <<done, opq, opClosed, resClosed, mtx, tpc, tk, tcur, tgot, panicked>>
\* caller effect returns after NReq requests: close()
CFinish(c) == /\ cpc[c] = "checkself" /\ ck[c] = NReq
              /\ done' = [done EXCEPT ![c] = TRUE] /\ cpc' = [cpc EXCEPT ![c] = "closelock"]
              /\ UNCHANGED <<opq, opClosed, resq, resClosed, mtx, tpc, tk, tcur, tgot, ck, cgot, panicked>>
CCloseLock(c) == /\ cpc[c] = "closelock" /\ mtx[c] = "free"
                 /\ resClosed' = [resClosed EXCEPT ![c] = TRUE]
                 /\ cpc' = [cpc EXCEPT ![c] = "finished"]
                 /\ UNCHANGED <<done, opq, opClosed, resq, mtx, tpc, tk, tcur, tgot, ck, cgot, panicked>>

\* ------------------------------------------------------------ target: YieldRef(Y(tk+1))
TCheck == /\ tpc = "check" /\ tk < NServe /\ tpc' = "take"
          /\ UNCHANGED <<done, opq, opClosed, resq, resClosed, mtx, tk, tcur, tgot, cpc, ck, cgot, panicked>>
TTake == /\ tpc = "take" /\ opq # <<>>
         /\ tcur' = Head(opq) /\ opq' = Tail(opq) /\ tpc' = "replycheck"
         /\ UNCHANGED <<done, opClosed, resq, resClosed, mtx, tk, tgot, cpc, ck, cgot, panicked>>
TReplyCheck == /\ tpc = "replycheck"
               /\ tpc' = IF done[tcur.c] THEN "ret" ELSE "replylock"
               /\ UNCHANGED <<done, opq, opClosed, resq, resClosed, mtx, tk, tcur, tgot, cpc, ck, cgot, panicked>>
TReplyLock == /\ tpc = "replylock" /\ mtx[tcur.c] = "free" /\ (ReplyLocksTarget => mtx[T] = "free")
              /\ mtx' = [mtx EXCEPT ![tcur.c] = T, ![T] = IF ReplyLocksTarget THEN T ELSE @] /\ tpc' = "replysend"
              /\ UNCHANGED <<done, opq, opClosed, resq, resClosed, tk, tcur, tgot, cpc, ck, cgot, panicked>>
TReplySend == /\ tpc = "replysend"
              /\ IF SafeCompletion /\ done[tcur.c] THEN tpc' = "ret" /\ UNCHANGED <<resq, panicked>>   \* re-check under the lock
                 ELSE IF resClosed[tcur.c]
                   THEN /\ panicked' = panicked \cup {T} /\ tpc' = "dead" /\ UNCHANGED resq
                   ELSE /\ Len(resq[tcur.c]) < ResCap
                        /\ resq' = [resq EXCEPT ![tcur.c] = Append(@, Y(tk + 1))]
                        /\ tpc' = "ret" /\ UNCHANGED panicked
              /\ mtx' = [mtx EXCEPT ![tcur.c] = "free", ![T] = IF ReplyLocksTarget THEN "free" ELSE @]
              /\ UNCHANGED <<done, opq, opClosed, resClosed, tk, tcur, tgot, cpc, ck, cgot>>
TRet == /\ tpc = "ret" /\ tgot' = Append(tgot, tcur) /\ tk' = tk + 1 /\ tpc' = "check"
        /\ UNCHANGED <<done, opq, opClosed, resq, resClosed, mtx, tcur, cpc, ck, cgot, panicked>>
TFinish == /\ tpc = "check" /\ tk = NServe /\ done' = [done EXCEPT ![T] = TRUE] /\ tpc' = "closelock"
           /\ UNCHANGED <<opq, opClosed, resq, resClosed, mtx, tk, tcur, tgot, cpc, ck, cgot, panicked>>
TCloseLock == /\ tpc = "closelock" /\ mtx[T] = "free" /\ opClosed' = TRUE
              /\ tpc' = IF SafeCompletion THEN "drain" ELSE "finished"
              /\ UNCHANGED <<done, opq, resq, resClosed, mtx, tk, tcur, tgot, cpc, ck, cgot, panicked>>
\* the fixed close(): answer every request left in the closed mailbox with the zero value (done check + the caller's closedM + send, one step:
\* the stranded caller is parked in its receive and cannot complete meanwhile)
TDrain == /\ tpc = "drain"
          /\ IF opq = <<>> THEN tpc' = "finished" /\ UNCHANGED <<opq, resq>>
             ELSE LET r == Head(opq) IN
                  /\ mtx[r.c] = "free" /\ Len(resq[r.c]) < ResCap
                  /\ opq' = Tail(opq) /\ resq' = [resq EXCEPT ![r.c] = IF done[r.c] THEN @ ELSE Append(@, 0)]
                  /\ UNCHANGED tpc
          /\ UNCHANGED <<done, opClosed, resClosed, mtx, tk, tcur, tgot, cpc, ck, cgot, panicked>>

Next == \/ \E c \in Callers : CCheckSelf(c) \/ CCheckTarget(c) \/ CLock(c) \/ CSend(c) \/ CRecv(c) \/ CFinish(c) \/ CCloseLock(c)
        \/ TCheck \/ TTake \/ TReplyCheck \/ TReplyLock \/ TReplySend \/ TRet \/ TFinish \/ TCloseLock \/ TDrain
Spec == Init /\ [][Next]_vars

Inv_NoPanic == panicked = {}
\* pairing: the k-th request taken (tgot[k]) belongs to caller c as its i-th request  =>  c's i-th answer is Y(k)
Inv_Pairing == \A k \in 1..Len(tgot) : LET r == tgot[k] IN
                  Len(cgot[r.c]) >= r.i => cgot[r.c][r.i] = Y(k)
Inv_PerCallerOrder == \A k1, k2 \in 1..Len(tgot) : (k1 < k2 /\ tgot[k1].c = tgot[k2].c) => tgot[k1].i < tgot[k2].i
\* premise "target has YieldRefs left": total requests <= NServe. Otherwise callers may hang (reported separately)
AllDone == tpc = "finished" /\ \A c \in Callers : cpc[c] = "finished"
Stuck == ~AllDone /\ ~ENABLED Next
Inv_NoStuck == ~Stuck
=============================================================================
