--------------------------------- MODULE Ask ---------------------------------
(* C13 — Ask / Reply over an actor mailbox (actor.go).  Each asker sends a request that carries its OWN reply
   channel; the actor handles one request at a time and replies F(msg) on that request's channel.
   Steps: ASend (rendezvous with the actor), Reply / Skip (the actor answers or never answers this request),
   Timeout (the asker's timer fires), AskerReturn (the asker returns; AskOnce* then closes the reply channel).
   Variant constants name how the code can be written:
     CloseReplyOnReturn  the asker closes the reply channel when it returns (pinned code: TRUE)
     RK                  capacity of the reply channel (pinned: 0)
     ReplyRecovers       Reply swallows "send on closed channel" (the repaired code)                     *)
EXTENDS Integers, Sequences, FiniteSets, TLC
CONSTANTS Askers, WithTimeout, RK, CloseReplyOnReturn, ReplyRecovers
VARIABLES apc, got, rch, rclosed, actpc, cur, panicked, served, discarded
vars == <<apc, got, rch, rclosed, actpc, cur, panicked, served, discarded>>
F(a) == <<"reply", a>>
Init == /\ apc = [a \in Askers |-> "send"] /\ got = [a \in Askers |-> <<>>]
        /\ rch = [a \in Askers |-> <<>>] /\ rclosed = [a \in Askers |-> FALSE]
        /\ actpc = "recv" /\ cur = "-" /\ panicked = {} /\ served = {} /\ discarded = {}
ASend(a) == /\ apc[a] = "send" /\ actpc = "recv" /\ actpc' = "handling" /\ cur' = a
            /\ apc' = [apc EXCEPT ![a] = "waiting"]
            /\ UNCHANGED <<got, rch, rclosed, panicked, served, discarded>>
Reply == /\ actpc = "handling"
         /\ \/ /\ rclosed[cur]                                            \* send on the channel the asker closed
               /\ IF ReplyRecovers THEN actpc' = "recv" /\ discarded' = discarded \cup {cur} /\ cur' = "-" /\ UNCHANGED panicked
                  ELSE panicked' = panicked \cup {"actor"} /\ actpc' = "dead" /\ UNCHANGED <<cur, discarded>>
               /\ UNCHANGED <<rch, apc, got, served>>
            \/ /\ ~rclosed[cur] /\ apc[cur] = "waiting" /\ RK = 0          \* rendezvous with the waiting asker
               /\ got' = [got EXCEPT ![cur] = <<F(cur), "nil">>]
               /\ apc' = [apc EXCEPT ![cur] = "closing"]
               /\ actpc' = "recv" /\ served' = served \cup {cur} /\ cur' = "-"
               /\ UNCHANGED <<rch, panicked, discarded>>
            \/ /\ ~rclosed[cur] /\ RK > 0 /\ Len(rch[cur]) < RK
               /\ rch' = [rch EXCEPT ![cur] = Append(@, F(cur))]
               /\ actpc' = "recv" /\ served' = served \cup {cur} /\ cur' = "-"
               /\ UNCHANGED <<apc, got, panicked, discarded>>
         /\ UNCHANGED rclosed
Skip == /\ actpc = "handling" /\ actpc' = "recv" /\ cur' = "-" /\ UNCHANGED <<apc, got, rch, rclosed, panicked, served, discarded>>
RecvBuffered(a) == /\ apc[a] = "waiting" /\ rch[a] # <<>>
                   /\ got' = [got EXCEPT ![a] = <<Head(rch[a]), "nil">>] /\ rch' = [rch EXCEPT ![a] = Tail(@)]
                   /\ apc' = [apc EXCEPT ![a] = "closing"]
                   /\ UNCHANGED <<rclosed, actpc, cur, panicked, served, discarded>>
Timeout(a) == /\ WithTimeout /\ apc[a] = "waiting"
              /\ got' = [got EXCEPT ![a] = <<<<"zero", "-">>, "timeout">>] /\ apc' = [apc EXCEPT ![a] = "closing"]
              /\ UNCHANGED <<rch, rclosed, actpc, cur, panicked, served, discarded>>
AskerReturn(a) == /\ apc[a] = "closing" /\ apc' = [apc EXCEPT ![a] = "returned"]
                  /\ rclosed' = [rclosed EXCEPT ![a] = CloseReplyOnReturn]
                  /\ UNCHANGED <<got, rch, actpc, cur, panicked, served, discarded>>
Next == (\E a \in Askers : ASend(a) \/ RecvBuffered(a) \/ Timeout(a) \/ AskerReturn(a)) \/ Reply \/ Skip
Spec == Init /\ [][Next]_vars

Inv_NoPanic == panicked = {}
\* every asker gets its own answer (or a clean timeout): replies are never crossed
Inv_Correlation == \A a \in Askers : got[a] # <<>> => (got[a] = <<F(a), "nil">> \/ got[a] = <<<<"zero", "-">>, "timeout">>)
\* the actor can always finish the request it is handling once the asker has returned (a late reply never blocks it forever)
Inv_ActorNotStuck == (actpc = "handling" /\ apc[cur] = "returned") => ENABLED Reply
=============================================================================
