------------------------------- MODULE Deque -------------------------------
(* C06 — the ideal double-ended sequence that LinkedListQueue must behave as.
   This module *is* the property: every public call of the real queue must
   return what DequeStep returns on the abstract sequence.  It is used
   (a) by LLQ.tla as the refinement target, (b) by Trace_Deque.tla to validate
   recorded histories of the real code, (c) by BQueue/ConcWrap as the meaning
   of the overflow pool / the wrapped queue.                                  *)
EXTENDS Sequences, Integers

\* Results are tagged records with one shape, so TLC never compares unlike values.
ROk      == [k |-> "ok",            v |-> 0]   \* nil error, no value
RVal(x)  == [k |-> "val",           v |-> x]   \* (x, nil)
REmptyQ  == [k |-> "errQueueEmpty", v |-> 0]   \* (zero, ErrQueueIsEmpty)
REmptyS  == [k |-> "errStackEmpty", v |-> 0]   \* (zero, ErrStackIsEmpty)
RInt(n)  == [k |-> "int",           v |-> n]
RNone    == [k |-> "none",          v |-> 0]   \* no result (void method)
RPanic   == [k |-> "panic",         v |-> 0]   \* never admissible

AppendOps == {"Offer", "Put", "Push"}      \* append at tail
HeadOps   == {"Poll", "Take", "Shift"}     \* remove head
PoolOps   == {"KeepNodePoolCount", "ClearNodePool"}   \* node-pool maintenance: no abstract effect
AllOps    == AppendOps \cup HeadOps \cup PoolOps \cup {"Unshift", "Pop", "Peek", "Count", "Clear"}

Last(q)  == q[Len(q)]
Front(q) == SubSeq(q, 1, Len(q) - 1)

\* DequeStep(q, op, arg) = [q |-> successor sequence, r |-> result of the call]
DequeStep(q, op, arg) ==
  CASE op \in AppendOps -> [q |-> Append(q, arg), r |-> ROk]
    [] op = "Unshift"   -> [q |-> <<arg>> \o q,   r |-> ROk]
    [] op \in HeadOps   -> IF q = <<>> THEN [q |-> q, r |-> REmptyQ]
                                       ELSE [q |-> Tail(q), r |-> RVal(Head(q))]
    [] op = "Pop"       -> IF q = <<>> THEN [q |-> q, r |-> REmptyS]
                                       ELSE [q |-> Front(q), r |-> RVal(Last(q))]
    [] op = "Peek"      -> IF q = <<>> THEN [q |-> q, r |-> REmptyQ]
                                       ELSE [q |-> q, r |-> RVal(Head(q))]
    [] op = "Count"     -> [q |-> q, r |-> RInt(Len(q))]
    [] op = "Clear"     -> [q |-> <<>>, r |-> RNone]
    [] op \in PoolOps   -> [q |-> q, r |-> RNone]

-----------------------------------------------------------------------------
\* The abstract deque as a state machine (for refinement checks).
CONSTANT Val
VARIABLES dq, dres
dvars == <<dq, dres>>
DInit == dq = <<>> /\ dres = RNone
DDo(op, arg) == LET st == DequeStep(dq, op, arg) IN dq' = st.q /\ dres' = st.r
DNext == \E op \in AllOps, x \in Val : DDo(op, x)
DSpec == DInit /\ [][DNext]_dvars
=============================================================================
