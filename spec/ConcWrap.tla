------------------------------ MODULE ConcWrap ------------------------------
(* C08 — ConcurrentQueue / ConcurrentStack (queue.go): an RWMutex around a wrapped Queue/Stack that is NOT
   thread-safe.  Mode[m] says which side of the RWMutex method m takes: "X" (Lock) or "S" (RLock); it is
   extracted from the real code by the driver.  The wrapped structure's operations are not atomic: an insertion
   reads the current length and then writes at that position; a removal reads the element and then unlinks it.
   Removals take the head (queue) or the tail (stack, IsStack = TRUE).                                     *)
EXTENDS Integers, Sequences, FiniteSets, TLC
CONSTANTS Thread, Script,      \* Script[t] = sequence of methods thread t calls ("Offer" / "Put" / "Push" insert; "Poll" / "Take" / "Pop" remove)
          Mode, IsStack
VARIABLES q, readers, writer, pc, idx, loc, out, stamp
vars == <<q, readers, writer, pc, idx, loc, out, stamp>>
Inserts == {"Offer", "Put", "Push"}
Cur(t) == Script[t][idx[t]]
NoOne == 0
Init == /\ q = <<>> /\ readers = {} /\ writer = NoOne /\ pc = [t \in Thread |-> "idle"] /\ idx = [t \in Thread |-> 1]
        /\ loc = [t \in Thread |-> 0] /\ out = <<>> /\ stamp = 0
Acquire(t) == /\ pc[t] = "idle" /\ idx[t] <= Len(Script[t])
              /\ IF Mode[Cur(t)] = "X" THEN writer = NoOne /\ readers = {} /\ writer' = t /\ UNCHANGED readers
                 ELSE writer = NoOne /\ readers' = readers \cup {t} /\ UNCHANGED writer
              /\ pc' = [pc EXCEPT ![t] = "in1"] /\ UNCHANGED <<q, idx, loc, out, stamp>>
\* first half of the wrapped operation: read
Inner1(t) == /\ pc[t] = "in1"
             /\ loc' = [loc EXCEPT ![t] = IF Cur(t) \in Inserts THEN Len(q)
                                           ELSE IF q = <<>> THEN 0 ELSE IF IsStack THEN q[Len(q)] ELSE Head(q)]
             /\ pc' = [pc EXCEPT ![t] = "in2"] /\ UNCHANGED <<q, readers, writer, idx, out, stamp>>
\* second half: write (with what was read before)
Inner2(t) == /\ pc[t] = "in2"
             /\ IF Cur(t) \in Inserts
                  THEN /\ q' = SubSeq(q, 1, IF loc[t] <= Len(q) THEN loc[t] ELSE Len(q)) \o <<stamp + 1>> /\ stamp' = stamp + 1
                       /\ out' = Append(out, [t |-> t, op |-> "ins", v |-> stamp + 1])
                  ELSE /\ IF loc[t] = 0 THEN q' = q
                          ELSE q' = (IF q = <<>> THEN q ELSE IF IsStack THEN SubSeq(q, 1, Len(q) - 1) ELSE Tail(q))
                       /\ out' = Append(out, [t |-> t, op |-> "rem", v |-> loc[t]]) /\ UNCHANGED stamp
             /\ pc' = [pc EXCEPT ![t] = "rel"] /\ UNCHANGED <<readers, writer, idx, loc>>
Release(t) == /\ pc[t] = "rel"
              /\ IF writer = t THEN writer' = NoOne /\ UNCHANGED readers ELSE readers' = readers \ {t} /\ UNCHANGED writer
              /\ pc' = [pc EXCEPT ![t] = "idle"] /\ idx' = [idx EXCEPT ![t] = @ + 1] /\ UNCHANGED <<q, loc, out, stamp>>
Next == \E t \in Thread : Acquire(t) \/ Inner1(t) \/ Inner2(t) \/ Release(t)
Spec == Init /\ [][Next]_vars

Inside == {t \in Thread : pc[t] \in {"in1", "in2"}}
\* at most one thread inside the wrapped structure (every operation of a queue/stack mutates or must not overlap a mutation)
Inv_Exclusion == Cardinality(Inside) <= 1
Removed == {out[i].v : i \in {j \in DOMAIN out : out[j].op = "rem" /\ out[j].v # 0}}
\* every inserted value is returned by at most one removal ...
Inv_NoDuplicate == \A i, j \in DOMAIN out : (i # j /\ out[i].op = "rem" /\ out[j].op = "rem" /\ out[i].v # 0) => out[i].v # out[j].v
\* ... and nothing is lost: at the end, inserted = removed + still stored
Done == \A t \in Thread : idx[t] > Len(Script[t])
Inv_NoLoss == Done => (1..stamp) = Removed \cup {q[i] : i \in DOMAIN q}
=============================================================================
