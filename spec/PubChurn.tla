------------------------------- MODULE PubChurn -------------------------------
(* C10, list changes racing with list changes (publisher.go Subscribe / Unsubscribe, no Publish in progress).
   Every change of the subscriber list is one critical section under the publisher's mutex: read the list, build the new
   one, store it.  AtomicChange = FALSE is the variant that reads the list in one critical section and stores the rebuilt
   list in a second one ("copy-on-write, so the search can run outside the lock"): a change completing in between is
   overwritten - a subscription registered meanwhile never receives anything, an Unsubscribe completed meanwhile is undone. *)
EXTENDS Integers, Sequences, FiniteSets, TLC
CONSTANTS Base,          \* sequence of initial subscriptions
          Unsubs,        \* set of subscriptions removed by one goroutine each
          News,          \* set of subscriptions added by one goroutine each
          AtomicChange
VARIABLES subs, pc, snap
vars == <<subs, pc, snap>>
Range(s) == {s[i] : i \in DOMAIN s}
Without(s, x) == SelectSeq(s, LAMBDA y : y # x)
Init == subs = Base /\ pc = [t \in Unsubs \cup News |-> "start"] /\ snap = [t \in Unsubs \cup News |-> <<>>]
Sub(t) == /\ t \in News /\ pc[t] = "start" /\ subs' = Append(subs, t) /\ pc' = [pc EXCEPT ![t] = "done"] /\ UNCHANGED snap
UnsubAtomic(t) == /\ AtomicChange /\ t \in Unsubs /\ pc[t] = "start"
                  /\ subs' = Without(subs, t) /\ pc' = [pc EXCEPT ![t] = "done"] /\ UNCHANGED snap
UnsubRead(t) == /\ ~AtomicChange /\ t \in Unsubs /\ pc[t] = "start"
                /\ snap' = [snap EXCEPT ![t] = subs] /\ pc' = [pc EXCEPT ![t] = "read"] /\ UNCHANGED subs
UnsubStore(t) == /\ ~AtomicChange /\ t \in Unsubs /\ pc[t] = "read"
                 /\ subs' = Without(snap[t], t) /\ pc' = [pc EXCEPT ![t] = "done"] /\ UNCHANGED snap
Next == \E t \in Unsubs \cup News : Sub(t) \/ UnsubAtomic(t) \/ UnsubRead(t) \/ UnsubStore(t)
Spec == Init /\ [][Next]_vars
AllDone == \A t \in Unsubs \cup News : pc[t] = "done"
\* when every change has returned the registered set is exactly: initial minus unsubscribed plus subscribed, in subscription order
Inv_Membership == AllDone => Range(subs) = (Range(Base) \ Unsubs) \cup News
Inv_OrderKept == \A i, j \in DOMAIN subs : (i < j /\ subs[i] \in Range(Base) /\ subs[j] \in Range(Base)) =>
                   (CHOOSE a \in DOMAIN Base : Base[a] = subs[i]) < (CHOOSE b \in DOMAIN Base : Base[b] = subs[j])
=============================================================================
