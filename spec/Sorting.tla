------------------------------- MODULE Sorting -------------------------------
(* C19 — sorting yields an ordered, stable permutation; descriptors sort by key list.

   Elements are records <<k1, k2, k3, tag>> (tag = position in the input: identity).
   A judged line e = [fn, cmp | ds, in, out, inAfter, kind]:
     in       the input list, out the returned / resulting list,
     inAfter  the input re-read after the call,
     cmp      comparator name (a strict "less"), or ds = descriptor stack
              <<[key, asc, via, ty]>>  (via "functor" | "field", ty "ordered" | "string").
   Judge(e): out is a permutation of in (by tag), ordered by the comparator (no element
   precedes one that the comparator places strictly before it), stable for the
   comparator-based sorts, ordered lexicographically by the key list for descriptors;
   the input is unmodified for the functions that return a new list and equals the result
   for the in-place ones.                                                     *)
EXTENDS Integers, Sequences, FiniteSets, TLC

K(e, key) == CASE key = "k1" -> e[1] [] key = "k2" -> e[2] [] key = "k3" -> e[3]
Tag(e) == e[4]

Less(cmp, a, b) ==
  CASE cmp = "k1Asc"  -> a[1] < b[1]
    [] cmp = "k1Desc" -> a[1] > b[1]
    [] cmp = "lexK1K2" -> a[1] < b[1] \/ (a[1] = b[1] /\ a[2] < b[2])
    [] cmp = "never"  -> FALSE
    [] cmp = "valAsc" -> a[1] < b[1]          \* plain ordered values travel as <<v, 0, 0, tag>>
    [] cmp = "valDesc" -> a[1] > b[1]
Cmps == {"k1Asc", "k1Desc", "lexK1K2", "never"}

RECURSIVE LexLess(_, _, _)
LexLess(ds, a, b) ==
  IF ds = <<>> THEN FALSE
  ELSE LET d == Head(ds)  x == K(a, d.key)  y == K(b, d.key) IN
       IF x = y THEN LexLess(Tail(ds), a, b)
       ELSE IF d.asc THEN x < y ELSE x > y

IsPerm(in, out) == /\ Len(in) = Len(out)
                   /\ \A i \in DOMAIN in : \E j \in DOMAIN out : out[j] = in[i]
                   /\ \A i, j \in DOMAIN out : i # j => Tag(out[i]) # Tag(out[j])
Ordered(out, L(_, _)) == \A i, j \in DOMAIN out : i < j => ~L(out[j], out[i])
\* elements the comparator does not distinguish keep their input order (tags are input positions)
Stable(out, L(_, _)) == \A i, j \in DOMAIN out : (i < j /\ ~L(out[i], out[j]) /\ ~L(out[j], out[i])) => Tag(out[i]) < Tag(out[j])

InPlaceFns == {"Sort", "SortSlice", "SortOrdered", "SortOrderedAscending", "SortOrderedDescending",
               "SortBySortDescriptors", "Builder.Sort"}
NewListFns == {"Stream.Sort", "Stream.SortByIndex", "StreamI.Sort", "StreamI.SortByIndex",
               "SortedListBySortDescriptors", "Builder.ToSortedList"}
DescFns == {"SortBySortDescriptors", "Builder.Sort", "SortedListBySortDescriptors", "Builder.ToSortedList"}

FrameOK(e) == IF e.fn \in InPlaceFns THEN e.inAfter = e.out ELSE e.inAfter = e.in

Judge(e) ==
  /\ e.kind = "ok"                                      \* not a panic
  /\ IsPerm(e.in, e.out)
  /\ FrameOK(e)
  /\ IF e.fn \in DescFns THEN Ordered(e.out, LAMBDA a, b : LexLess(e.ds, a, b))
     ELSE Ordered(e.out, LAMBDA a, b : Less(e.cmp, a, b)) /\ Stable(e.out, LAMBDA a, b : Less(e.cmp, a, b))

Why(e) == IF e.kind # "ok" THEN "panic"
          ELSE IF ~IsPerm(e.in, e.out) THEN "permutation"
          ELSE IF ~FrameOK(e) THEN "frame"
          ELSE IF e.fn \in DescFns THEN "descriptor-order"
          ELSE IF ~Ordered(e.out, LAMBDA a, b : Less(e.cmp, a, b)) THEN "order" ELSE "stability"
=============================================================================
