------------------------------- MODULE MonadIO -------------------------------
(* C11 — MonadIO is lazy, runs its effect once per evaluation, obeys the monad laws.

   Programs are  Just(x) | New(e)  followed by a chain of FlatMap continuations (nesting to the right happens
   inside the "chain" continuation), with effects e (each logs its id and returns 10*e) and continuations f = [k, j] drawn from a family of
   PROGRAM-VALUED functions (each logs 200+j when it is invoked):
     k = "just"  : v |-> Just(v + j)
     k = "new"   : v |-> New(effect 100+j that logs 100+j and returns 2*v + j)
     k = "chain" : v |-> Just(v).FlatMap([k |-> "new", j |-> j])
   Run(m) = [v, log] is the denotation: the value and the ordered list of user callbacks (effects and
   continuations) that one evaluation must invoke - each exactly once, in composition order.            *)
EXTENDS Integers, Sequences, FiniteSets, TLC

\* A program is a base followed by a chain of continuations:  base.FlatMap(f1).FlatMap(f2)...   (uniform record shape)
\*   [bt |-> "just" | "new", bx |-> x / effect id, fs |-> <<[k, j], ...>>]
Prog(bt, bx, fs) == [bt |-> bt, bx |-> bx, fs |-> fs]
RunBase(p) == IF p.bt = "just" THEN [v |-> p.bx, log |-> <<>>] ELSE [v |-> 10 * p.bx, log |-> <<p.bx>>]
\* what the program returned by continuation f for value v does when run (chain: Just(v).FlatMap(inner) - the inner continuation logs 300+j)
RunApply(f, v) == CASE f.k = "just"  -> [v |-> v + f.j, log |-> <<>>]
                    [] f.k = "new"   -> [v |-> 2 * v + f.j, log |-> <<100 + f.j>>]
                    [] f.k = "chain" -> [v |-> 2 * v + f.j, log |-> <<300 + f.j, 100 + f.j>>]
Bind(r, f) == LET r2 == RunApply(f, r.v) IN [v |-> r2.v, log |-> r.log \o <<200 + f.j>> \o r2.log]
Run(p) == LET F[i \in 0..Len(p.fs)] == IF i = 0 THEN RunBase(p) ELSE Bind(F[i - 1], p.fs[i]) IN F[Len(p.fs)]

\* ---- one evaluation of a built program, as observed on the real code:
\* e.ev = [kind |-> "Eval" | "Subscribe", onNext (bool), obOn, subOn \in {"nil", "h1", "h2"}]
\* e.log = <<[id, thr]>> callbacks invoked (thr \in {"caller", "h1", "h2"}), e.delivered = <<[v, thr]>> OnNext deliveries, e.ret = value returned by Eval
EffectThread(ev) == IF ev.kind = "Subscribe" /\ ev.obOn # "nil" THEN ev.obOn ELSE "caller"
OnNextThread(ev) == IF ev.subOn # "nil" THEN ev.subOn ELSE EffectThread(ev)
EvalOK(p, e) ==
  LET r == Run(p)  ev == e.ev IN
  IF ev.kind = "Eval"
    THEN /\ e.ret = r.v /\ e.delivered = <<>>
         /\ e.log = [i \in DOMAIN r.log |-> [id |-> r.log[i], thr |-> "caller"]]
    ELSE IF ~ev.onNext THEN e.log = <<>> /\ e.delivered = <<>>                 \* a Subscription without OnNext runs nothing
    ELSE /\ e.log = [i \in DOMAIN r.log |-> [id |-> r.log[i], thr |-> EffectThread(ev)]]   \* every effect once, in order, on h1's goroutine
         /\ e.delivered = <<[v |-> r.v, thr |-> OnNextThread(ev)]>>                      \* OnNext exactly once, on h2's goroutine

\* a judged line: [prog, afterBuild (callbacks seen during construction), evals |-> <<e>>, kind]
Judge(l) == /\ l.kind = "ok"
            /\ l.afterBuild = <<>>                                             \* building / composing runs no user effect
            /\ \A i \in DOMAIN l.evals : EvalOK(l.prog, l.evals[i])            \* each evaluation: Run(p), again and again

\* ---- overlapping evaluations of one monad (an effect whose k-th evaluation yields k): every Subscribe delivers exactly once the
\* value of ITS OWN evaluation, so the n deliveries are exactly the n values produced, each once, on the subscribe handler;
\* every evaluation runs on the observe handler (or on the subscribing goroutine).
\* l = [part |-> "conc", n, obOn, subOn, effects |-> <<[v, thr]>>, delivered |-> <<[v, thr]>>, kind]
JudgeConc(l) ==
  /\ l.kind = "ok"
  /\ Len(l.effects) = l.n /\ {l.effects[i].v : i \in DOMAIN l.effects} = 1..l.n
  /\ \A i \in DOMAIN l.effects : l.effects[i].thr = (IF l.obOn = "nil" THEN l.effects[i].thr ELSE l.obOn) /\ (l.obOn = "nil" => l.effects[i].thr \in {"caller", "other"})
  /\ Len(l.delivered) = l.n /\ {l.delivered[i].v : i \in DOMAIN l.delivered} = 1..l.n          \* each evaluation's value, exactly once
  /\ \A i \in DOMAIN l.delivered : l.delivered[i].thr = l.subOn
\* ---- a Subscribe made under ObserveOn(h1)/SubscribeOn(h2) keeps these handlers when the monad is reconfigured (SubscribeOn(newSub))
\* while its effect is still running
JudgeReconf(l) ==
  /\ l.kind = "ok"
  /\ l.effects = <<[v |-> 7, thr |-> l.obOn]>>
  /\ l.delivered = <<[v |-> 7, thr |-> l.subOn]>>
\* ---- two compositions branching off one prefix of depth n (effect 0 yields 1000, continuation j adds 1 and logs j, the left branch adds
\* 100 and logs 100, the right one adds 200 and logs 200): each evaluates to its own composition, callbacks in composition order
JudgeBranch(l) ==
  LET side(s) == SelectSeq(l.effects, LAMBDA e : e.thr = s)
      pre == [i \in 1..(l.n + 1) |-> i - 1] IN
  /\ l.kind = "ok"
  /\ l.delivered = <<[v |-> 1000 + l.n + 100, thr |-> "left"], [v |-> 1000 + l.n + 200, thr |-> "right"]>>
  /\ [i \in DOMAIN side("left") |-> side("left")[i].v] = pre \o <<100>>
  /\ [i \in DOMAIN side("right") |-> side("right")[i].v] = pre \o <<200>>
\* ---- sibling instances: a monad built by the same constructor call as one that was then configured with ObserveOn / SubscribeOn is still
\* unconfigured: its Subscribe runs the effect (constructors with an effect) and OnNext on the subscribing goroutine, before it returns
JudgeSibling(l) ==
  /\ l.kind = "ok"
  /\ l.delivered = <<[v |-> l.n, thr |-> "caller"]>>
  /\ l.effects = IF l.newSub \in {"New.method", "NewGenerics"} THEN <<[v |-> l.n, thr |-> "caller"]>> ELSE <<>>
\* ---- a Handler whose first Posts come from n goroutines at once still has ONE goroutine: all n effects observed on it run there, one at a time
JudgeFresh(l) ==
  /\ l.kind = "ok" /\ l.maxin = 1
  /\ Len(l.effects) = l.n /\ {l.effects[i].v : i \in DOMAIN l.effects} = 1..l.n /\ \A i \in DOMAIN l.effects : l.effects[i].thr = "g1"
  /\ Len(l.delivered) = l.n /\ {l.delivered[i].v : i \in DOMAIN l.delivered} = 1..l.n
\* ---- src.ObserveOn(h1).SubscribeOn(h2).FlatMap(f)... (n continuations) is a new, unconfigured monad: the source's effect (logged 0), the
\* continuations (1..n) and OnNext all run on the subscribing goroutine, in composition order, before Subscribe returns
JudgeInherit(l) ==
  /\ l.kind = "ok"
  /\ l.effects = [i \in 1..(l.n + 1) |-> [v |-> i - 1, thr |-> "caller"]]
  /\ l.delivered = <<[v |-> 1000 + l.n, thr |-> "caller"]>>
\* ---- evaluations of one monad that nest or overlap complete: the loop (effect runs 3 times, value 30), an effect evaluating its own monad
\* (runs twice, value 30), two evaluations that wait for each other (both see both inside: 22)
JudgeReentrant(l) ==
  /\ l.kind = "ok"
  /\ [i \in DOMAIN l.effects |-> l.effects[i].v] = (CASE l.obOn = "loop" -> <<1, 2, 3>> [] l.obOn = "self-eval" -> <<1, 2>> [] OTHER -> <<1, 1>>)
  /\ l.delivered = <<[v |-> (CASE l.obOn = "loop" -> 30 [] l.obOn = "self-eval" -> 30 [] OTHER -> 22), thr |-> "-"]>>
JudgePart(l) == CASE l.part = "conc" -> JudgeConc(l) [] l.part = "inherit" -> JudgeInherit(l) [] l.part = "reentrant" -> JudgeReentrant(l) [] l.part = "branch" -> JudgeBranch(l) [] l.part = "sibling" -> JudgeSibling(l)
                  [] l.part = "fresh" -> JudgeFresh(l) [] OTHER -> JudgeReconf(l)

\* ---- the monad laws on the denotation (checked by TLC over the bounded program space in MC_MonadIO)
\* left identity: Just(x).FlatMap(f) behaves as f(x) (plus the invocation of f itself)
LeftIdentity(x, f) == Run(Prog("just", x, <<f>>)) = [RunApply(f, x) EXCEPT !.log = <<200 + f.j>> \o @]
\* right identity: m.FlatMap(Just) behaves as m
RightIdentity(m) == LET r == Run([m EXCEPT !.fs = Append(@, [k |-> "just", j |-> 0])]) IN r.v = Run(m).v /\ r.log = Run(m).log \o <<200>>
\* associativity: (m >>= f) >>= g  =  m >>= (\x. f x >>= g): same value, same callbacks in the same order
Assoc(m, f, g) == LET lhs == Run([m EXCEPT !.fs = @ \o <<f, g>>])
                      r1 == Run(m)
                      inner == Bind(RunApply(f, r1.v), g)
                      rhs == [v |-> inner.v, log |-> r1.log \o <<200 + f.j>> \o inner.log] IN
                  lhs = rhs
=============================================================================
