------------------------------ MODULE SetAlgebra ------------------------------
(* C05 — the algebra of sets for Union / Intersection / Minus(Difference) /
   IsSubset / IsSuperset on plain slices, Stream, MapSet (by key) and StreamSet
   (by key, then per-key stream), and agreement of every generic function or
   method with its interface{} twin.

   A judged line is  e = [case |-> c, g |-> outcome of the generic side,
   i |-> outcome of the interface{} side]  with outcomes [k, v]:
     "seq"   v = the returned list as is          (slices, streams)
     "bool"  v = the returned boolean
     "keys"  v = sorted key list of the returned set
     "kmap"  v = <<key, stream-as-is>> pairs sorted by key (StreamSet results)
     "panic" v = 0,  "none" v = 0 (this side has no such function)
   Judge(e) is the whole property:  LawOK (for non-empty operands the result
   obeys the membership law, no duplicates where the result is a set, order of
   the first operand where documented) and TwinOK (same answer on the same data,
   for all operands, including empty and nil ones).                          *)
EXTENDS Integers, Sequences, FiniteSets, SequencesExt, TLC

Elems(s)  == {s[i] : i \in DOMAIN s}
NoDup(s)  == Cardinality(Elems(s)) = Len(s)
Sel(s, Keep(_)) == LET idx == SetToSortSeq({j \in 1..Len(s) : Keep(s[j])}, LAMBDA x, y : x < y)
                   IN [j \in DOMAIN idx |-> s[idx[j]]]
FirstOcc(s) == LET idx == SetToSortSeq({j \in 1..Len(s) : \A h \in 1..(j - 1) : s[h] # s[j]}, LAMBDA x, y : x < y)
               IN [j \in DOMAIN idx |-> s[idx[j]]]
Bag(s)    == SortSeq(s, LAMBDA x, y : x < y)
SortedSet(S) == SetToSortSeq(S, LAMBDA x, y : x < y)

\* pair lists <-> functions
PKeys(ps)  == {ps[j][1] : j \in DOMAIN ps}
PGet(ps, key) == ps[CHOOSE j \in DOMAIN ps : ps[j][1] = key][2]
PVals(ps)  == {ps[j][2] : j \in DOMAIN ps}

\* ------------------------------------------------------------------ operands
\* slices / streams: c.a, c.b, c.c3 (c3 = <<>> and c.n = 2 when there are two operands), c.xs element list, c.x element
\* mapsets: c.m, c.m2 pair lists key -> value;  streamsets: c.s, c.s2 pair lists key -> sequence
Operands(c) == IF c.n = 3 THEN <<c.a, c.b, c.c3>> ELSE <<c.a, c.b>>

LawOps == {"Union", "Intersection", "Difference", "Minus", "IsSubset", "IsSuperset"}

\* all operands non-empty (per-key streams are handled per key below)
InLawDomain(c) ==
  /\ c.op \in LawOps \cup {"IsSubsetByKey", "IsSupersetByKey", "MinusStreams"}
  /\ CASE c.fam \in {"slice", "stream"} -> \A j \in DOMAIN Operands(c) : Operands(c)[j] # <<>>
       [] c.fam = "mapset"    -> c.m # <<>> /\ c.m2 # <<>>
       [] c.fam = "streamset" -> c.s # <<>> /\ c.s2 # <<>>

\* ---------------------------------------------------------------------- laws
InAllOthers(c, x) == \A j \in 2..Len(Operands(c)) : x \in Elems(Operands(c)[j])
InNoOther(c, x)   == \A j \in 2..Len(Operands(c)) : x \notin Elems(Operands(c)[j])

SeqLaw(c, o) ==
  CASE c.op = "Union"        -> /\ o.k = "seq" /\ NoDup(o.v)
                                /\ Elems(o.v) = UNION {Elems(Operands(c)[j]) : j \in DOMAIN Operands(c)}
    [] c.op = "Intersection" -> o.k = "seq" /\ o.v = FirstOcc(Sel(c.a, LAMBDA x : InAllOthers(c, x)))
    [] c.op = "Difference"   -> o.k = "seq" /\ o.v = FirstOcc(Sel(c.a, LAMBDA x : InNoOther(c, x)))
    [] c.op = "Minus"        -> o.k = "seq" /\ o.v = Sel(c.a, LAMBDA x : x \notin Elems(c.b))   \* duplicates and order of a kept
    [] c.op = "IsSubset"     -> o.k = "bool" /\ o.v = (Elems(c.a) \subseteq Elems(c.b))
    [] c.op = "IsSuperset"   -> o.k = "bool" /\ o.v = (Elems(c.b) \subseteq Elems(c.a))

MapLaw(c, o) ==
  LET K1 == PKeys(c.m)  K2 == PKeys(c.m2) IN
  CASE c.op = "Union"           -> o.k = "keys" /\ o.v = SortedSet(K1 \cup K2)
    [] c.op = "Intersection"    -> o.k = "keys" /\ o.v = SortedSet(K1 \cap K2)
    [] c.op = "Minus"           -> o.k = "keys" /\ o.v = SortedSet(K1 \ K2)
    [] c.op = "IsSubsetByKey"   -> o.k = "bool" /\ o.v = (K1 \subseteq K2)
    [] c.op = "IsSupersetByKey" -> o.k = "bool" /\ o.v = (K2 \subseteq K1)

\* per-key clause applies to keys present in both operands with non-empty streams in both
PerKeyDomain(c) == {key \in PKeys(c.s) \cap PKeys(c.s2) : PGet(c.s, key) # <<>> /\ PGet(c.s2, key) # <<>>}
StreamSetLaw(c, o) ==
  LET K1 == PKeys(c.s)  K2 == PKeys(c.s2) IN
  CASE c.op = "Union"        -> /\ o.k = "kmap" /\ PKeys(o.v) = K1 \cup K2
                                /\ \A key \in PerKeyDomain(c) : Elems(PGet(o.v, key)) = Elems(PGet(c.s, key)) \cup Elems(PGet(c.s2, key))
    [] c.op = "Intersection" -> /\ o.k = "kmap" /\ PKeys(o.v) = K1 \cap K2
                                /\ \A key \in PerKeyDomain(c) : Elems(PGet(o.v, key)) = Elems(PGet(c.s, key)) \cap Elems(PGet(c.s2, key))
    [] c.op = "MinusStreams" -> /\ o.k = "kmap" /\ PKeys(o.v) = K1                   \* keys of the receiver are kept
                                /\ \A key \in PerKeyDomain(c) : Elems(PGet(o.v, key)) = Elems(PGet(c.s, key)) \ Elems(PGet(c.s2, key))
    [] c.op = "Minus"        -> o.k = "kmap" /\ PKeys(o.v) = K1 \ K2
    [] c.op = "IsSubsetByKey"   -> o.k = "bool" /\ o.v = (K1 \subseteq K2)
    [] c.op = "IsSupersetByKey" -> o.k = "bool" /\ o.v = (K2 \subseteq K1)

Law(c, o) == CASE c.fam \in {"slice", "stream"} -> SeqLaw(c, o)
               [] c.fam = "mapset"    -> MapLaw(c, o)
               [] c.fam = "streamset" -> StreamSetLaw(c, o)

LawOK(e) == InLawDomain(e.case) =>
              /\ Law(e.case, e.g)
              /\ e.i.k # "none" => Law(e.case, e.i)

\* --------------------------------------------------------------------- twins
\* where the order of the answer is not defined the twins are compared as bags / per-key bags
OrderFree(c) == c.fam = "slice" /\ c.op \in {"Keys", "Values"}
KmapBagEq(p, q) == /\ PKeys(p) = PKeys(q)
                   /\ \A key \in PKeys(p) : Bag(PGet(p, key)) = Bag(PGet(q, key))
TwinOK(e) == e.i.k # "none" =>
               /\ e.g.k = e.i.k
               /\ CASE e.g.k = "kmap" -> KmapBagEq(e.g.v, e.i.v)
                    [] e.g.k = "seq" /\ OrderFree(e.case) -> Bag(e.g.v) = Bag(e.i.v)
                    [] OTHER -> e.g.v = e.i.v

Judge(e) == LawOK(e) /\ TwinOK(e)
Verdict(e) == IF ~LawOK(e) THEN "law" ELSE IF ~TwinOK(e) THEN "twin" ELSE "ok"
=============================================================================
