------------------------------ MODULE SimpleAPI ------------------------------
(* C17 — SimpleAPI sends exactly the request it was defined with, lazily, and decodes it.

   A definition: ctor (+ method m for the generic constructors), the relative template as a sequence of
   [t |-> "lit" | "ph", s |-> text / key], the PathParam map as <<key, value>> pairs, DefaultHeader as
   <<name, value>> pairs (hdrNil: the header map is nil), a fault to inject and the number of evaluations.
   Ser / Deser are uninterpreted: the driver installs tagging (de)serializers, Ser(b) = "SER:" \o b,
   Deser(r) = "DES:" \o r; the stub transport answers "RESP".
   Observation: sentAfterMake, sentAfterBind, reqs (what the stub transport captured), results (per evaluation),
   defaultHeaderAfter.                                                                                  *)
EXTENDS Integers, Sequences, FiniteSets, TLC

BaseURL == "http://stub.invalid"
Method(c) == CASE c.ctor \in {"Get"} -> "GET" [] c.ctor = "Delete" -> "DELETE"
               [] c.ctor \in {"PostJSON", "PostMultipart"} -> "POST"
               [] c.ctor \in {"PutJSON", "PutMultipart"} -> "PUT"
               [] c.ctor \in {"PatchJSON", "PatchMultipart"} -> "PATCH"
               [] OTHER -> c.m                                         \* DoNewRequest / WithBodySerializer / WithMultipartSerializer
HasBody(c) == c.ctor \in {"PostJSON", "PutJSON", "PatchJSON", "WithBodySerializer"}
IsMultipart(c) == c.ctor \in {"PostMultipart", "PutMultipart", "PatchMultipart", "WithMultipartSerializer"}
ContentType(c) == IF c.ctor \in {"PostJSON", "PutJSON", "PatchJSON"} THEN <<"application/json">>
                  ELSE IF c.ctor = "WithBodySerializer" THEN <<"text/x-custom">>
                  ELSE IF IsMultipart(c) THEN <<"multipart/x; boundary=b">>           \* what the (tagging) multipart serializer declares
                  ELSE <<>>
PKeys(ps) == {ps[j][1] : j \in DOMAIN ps}
PGet(ps, key) == ps[CHOOSE j \in DOMAIN ps : ps[j][1] = key][2]
RECURSIVE Subst(_, _)
\* every supplied {key} replaced by its value, the others left as they are
Subst(tmpl, params) == IF tmpl = <<>> THEN ""
                       ELSE LET h == Head(tmpl) IN
                            (IF h.t = "lit" THEN h.s ELSE IF h.s \in PKeys(params) THEN PGet(params, h.s) ELSE "{" \o h.s \o "}")
                            \o Subst(Tail(tmpl), params)
URL(c) == BaseURL \o "/" \o Subst(c.tmpl, c.params)
Body(c) == IF HasBody(c) THEN "SER:" \o c.body ELSE IF IsMultipart(c) THEN "MP:" \o c.body ELSE ""
Sends(c) == IF c.fault = "ser" /\ (HasBody(c) \/ IsMultipart(c)) THEN 0 ELSE c.evals     \* a serializer failure sends nothing
Fails(c) == \/ c.fault \in {"transport", "decode", "decodeNilErr"}
            \/ c.fault = "ser" /\ (HasBody(c) \/ IsMultipart(c))

\* DefaultHeader may carry a Content-Type of its own.  The request then carries the DECLARED Content-Type (required: a multipart body cannot be
\* parsed without its boundary) and nothing but the default's and the declared values (whether the default's value travels along, as on the pinned
\* tree, or is replaced is left open).  r.hdr is the request header without Content-Type, c.hdr the default header.
Range(s) == {s[j] : j \in DOMAIN s}
NoCT(h) == SelectSeq(h, LAMBDA p : p[1] # "Content-Type")
DefCT(h) == {p[2] : p \in {q \in Range(h) : q[1] = "Content-Type"}}
CtOK(c, r) == LET d == IF c.hdrNil THEN {} ELSE DefCT(c.hdr) IN
              IF d = {} THEN r.ct = ContentType(c)
              ELSE Range(ContentType(c)) \subseteq Range(r.ct) /\ Range(r.ct) \subseteq d \cup Range(ContentType(c))
ReqOK(c, r) == /\ r.method = Method(c)
               /\ r.url = URL(c)
               /\ CtOK(c, r)
               /\ r.hdr = (IF c.hdrNil THEN <<>> ELSE NoCT(c.hdr))      \* a copy of DefaultHeader
               /\ r.body = Body(c)
Judge(e) ==
  LET c == e.case IN
  /\ e.sentAfterMake = 0 /\ e.sentAfterBind = 0                        \* nothing is sent until the MonadIO is evaluated
  /\ Len(e.reqs) = Sends(c)                                            \* one request per evaluation
  /\ \A j \in DOMAIN e.reqs : ReqOK(c, e.reqs[j])
  /\ Len(e.results) = c.evals
  /\ \A j \in DOMAIN e.results : /\ ~e.results[j].panic               \* failures come back as Err, never as a panic
                                 /\ e.results[j].err = Fails(c)
                                 /\ ~Fails(c) => e.results[j].target = "DES:RESP"
  /\ e.defaultHeaderAfter = (IF c.hdrNil THEN <<>> ELSE c.hdr)        \* the shared map itself is never handed out
Why(e) == LET c == e.case IN
  IF e.sentAfterMake # 0 \/ e.sentAfterBind # 0 THEN "eager"
  ELSE IF Len(e.reqs) # Sends(c) THEN "request-count"
  ELSE IF \E j \in DOMAIN e.reqs : e.reqs[j].method # Method(c) THEN "method"
  ELSE IF \E j \in DOMAIN e.reqs : e.reqs[j].url # URL(c) THEN "url"
  ELSE IF \E j \in DOMAIN e.reqs : ~CtOK(c, e.reqs[j]) \/ e.reqs[j].hdr # (IF c.hdrNil THEN <<>> ELSE NoCT(c.hdr)) THEN "header"
  ELSE IF \E j \in DOMAIN e.reqs : e.reqs[j].body # Body(c) THEN "body"
  ELSE IF e.defaultHeaderAfter # (IF c.hdrNil THEN <<>> ELSE c.hdr) THEN "default-header-mutated"
  ELSE IF \E j \in DOMAIN e.results : e.results[j].panic THEN "panic" ELSE "result"
\* ---- body values of other types (nil slice, empty slice, nil map, empty map, ...): every constructor with a body hands exactly the
\* given body to its serializer, once per evaluation, and the request carries the serializer's output
\* b = [part |-> "bodykind", ctor, kind, calls, seen (Go %T:%v of what the serializer got), body, err]
BodyRepr(kind) == CASE kind \in {"nilslice", "emptyslice", "custom-nilslice"} -> [t |-> "[]string", v |-> "[]"]
                    [] kind \in {"nilmap", "emptymap"} -> [t |-> "map[string]int", v |-> "map[]"]
                    [] kind = "slice" -> [t |-> "[]string", v |-> "[a b]"]
                    [] kind = "zeroint" -> [t |-> "int", v |-> "0"]
\* ---- the default serializers behind the API constructors (part "defaults"): every call's request body is the serializer's output for the
\* body given to THAT call (pairs: expected text - json.Marshal of that body, or the form's fields - and what the transport received; exactly one
\* request per call), no call fails, every response is decoded into its own target - sequentially, nested (an interceptor evaluates another
\* JSON API while the outer request is in flight) and when the first calls on a fresh SimpleAPI come from several goroutines at once
JudgeDefaults(b) == ~b.err /\ b.decoded /\ Len(b.pairs) = b.calls /\ \A i \in DOMAIN b.pairs : b.pairs[i].got = b.pairs[i].want
JudgeBodyKind(b) == IF b.part = "defaults" THEN JudgeDefaults(b) ELSE LET r == BodyRepr(b.kind) IN
  /\ ~b.err /\ b.calls = 1 /\ b.seen = r.t \o ":" \o r.v /\ b.body = "SER:" \o r.v
=============================================================================
