//go:build verif

package main

import (
	"fmt"
	"math/rand"
	"sync"
	"sync/atomic"
	"time"

	fpgo "github.com/TeaEntityLab/fpGo/v2"
	"github.com/TeaEntityLab/fpGo/v2/worker"
)

// C15 — shutdown at any moment.  Scripted schedules park a user goroutine at the verif hook right after its closed/done
// check, let the close run to completion and then release the user: exactly the counterexample schedules of the models.

func init() { commands["c15"] = c15Main }

type c15Obs struct {
	Scenario      string   `json:"scenario"`
	Object        string   `json:"object"`
	Panics        int      `json:"panics"`
	HandlerOther  int      `json:"handlerOther"`
	Blocked       bool     `json:"blocked"`
	AfterClose    []string `json:"afterClose"`
	LateCallbacks int      `json:"lateCallbacks"`
	Detail        string   `json:"detail"`
	Reached       bool     `json:"reached"` // the scripted window was actually entered
}

// gate: the first goroutine reaching `point` on `obj` parks until released
type hookGate struct {
	point   string
	obj     interface{}
	used    int32
	arrived chan struct{}
	release chan struct{}
}

func newGateAt(point string, obj interface{}) *hookGate {
	return &hookGate{point: point, obj: obj, arrived: make(chan struct{}, 1), release: make(chan struct{})}
}
func installGates(gs ...*hookGate) {
	fpgo.VerifHook = func(point string, obj interface{}) {
		for _, g := range gs {
			if g.point == point && (g.obj == nil || g.obj == obj) && atomic.CompareAndSwapInt32(&g.used, 0, 1) {
				g.arrived <- struct{}{}
				<-g.release
			}
		}
	}
}
func (g *hookGate) wait() bool {
	select {
	case <-g.arrived:
		return true
	case <-time.After(3 * time.Second):
		return false
	}
}

// runs fn in a goroutine under recover; returns channels
func guardedGo(fn func()) (done chan struct{}, pan *string) {
	done = make(chan struct{})
	msg := ""
	pan = &msg
	go func() {
		defer close(done)
		defer func() {
			if p := recover(); p != nil {
				*pan = fmt.Sprint(p)
			}
		}()
		fn()
	}()
	return
}
func waitDone(done chan struct{}, d time.Duration) bool {
	select {
	case <-done:
		return true
	case <-time.After(d):
		return false
	}
}

// runs the calls that begin after the close has returned; they must come back
func afterGuarded(o *c15Obs, after func() []string) {
	ch := make(chan []string, 1)
	go func() {
		defer func() {
			if p := recover(); p != nil {
				ch <- []string{"panic: " + fmt.Sprint(p)}
			}
		}()
		ch <- after()
	}()
	select {
	case r := <-ch:
		o.AfterClose = r
	case <-time.After(2 * time.Second):
		o.Blocked, o.Detail = true, "a call that began after the close had returned never came back"
	}
}

// user parked right after its closed check; Close completes; user released
func c15Window(scenario, object, point string, mk func() (obj interface{}, user func(), closeFn func(), after func() []string)) c15Obs {
	o := c15Obs{Scenario: scenario, Object: object, AfterClose: []string{}}
	obj, user, closeFn, after := mk()
	_, _ = user, closeFn
	g := newGateAt(point, obj)
	installGates(g)
	defer func() { fpgo.VerifHook = nil }()
	udone, upanic := guardedGo(user)
	if !g.wait() {
		close(g.release)
		o.Detail = "window not reached"
		return o
	}
	o.Reached = true
	cdone, cpanic := guardedGo(closeFn)
	closed := waitDone(cdone, 2*time.Second)
	close(g.release)
	if !closed {
		closed = waitDone(cdone, 3*time.Second)
	}
	if !waitDone(udone, 3*time.Second) {
		o.Blocked, o.Detail = true, "the user call did not return although the close completed"
	}
	if !closed {
		o.Blocked, o.Detail = true, "Close did not return"
	}
	if *upanic != "" {
		o.Panics++
		o.Detail = "user: " + *upanic
	}
	if *cpanic != "" {
		o.Panics++
		o.Detail = "closer: " + *cpanic
	}
	if after != nil && closed && !o.Blocked {
		afterGuarded(&o, after)
	}
	return o
}

func c15Scripted(w *ndWriter) int {
	n := 0
	emit := func(o c15Obs) { w.write(o); n++ }
	// Handler.Post / Actor.Send between the closed check and the channel send
	emit(c15Window("post-check|close|send", "Handler", "h.post.checked", func() (interface{}, func(), func(), func() []string) {
		h := fpgo.Handler.NewByCh(make(chan func(), 1))
		return h, func() { h.Post(func() {}) }, h.Close, nil
	}))
	emit(c15Window("send-check|close|send", "Actor", "a.send.checked", func() (interface{}, func(), func(), func() []string) {
		a := fpgo.ActorNewByOptionsGenerics(func(*fpgo.ActorDef[int], int) {}, make(chan int, 1), map[string]interface{}{})
		return a, func() { a.Send(1) }, a.Close, func() []string {
			r := "dropped"
			if !a.IsClosed() {
				r = "open"
			}
			return []string{r}
		}
	}))
	// BufferedChannelQueue consumers between the closed check and notifyWorkers
	for _, op := range []string{"Take", "TakeWithTimeout", "Poll"} {
		op := op
		emit(c15Window(op+"-check|close|notify", "BufferedChannelQueue", "bq.take.checked", func() (interface{}, func(), func(), func() []string) {
			q := fpgo.NewBufferedChannelQueue[int](1, 1, 1)
			q.Offer(1)
			user := func() {
				switch op {
				case "Take":
					q.Take()
				case "TakeWithTimeout":
					q.TakeWithTimeout(20 * time.Millisecond)
				default:
					q.Poll()
				}
			}
			return q, user, q.Close, func() []string {
				res := []string{}
				res = append(res, qerr(q.Offer(5)))
				_, e1 := q.Take()
				res = append(res, qerr(e1))
				_, e2 := q.Poll()
				res = append(res, qerr(e2))
				if !q.IsClosed() {
					res = append(res, "open")
				}
				return res
			}
		}))
	}
	emit(c15Window("GetChannel-enter|close|notify", "BufferedChannelQueue", "bq.getch.enter", func() (interface{}, func(), func(), func() []string) {
		q := fpgo.NewBufferedChannelQueue[int](1, 1, 1)
		return q, func() { q.GetChannel() }, q.Close, nil
	}))
	emit(c15Window("Offer-locked|close", "BufferedChannelQueue", "bq.offer.locked", func() (interface{}, func(), func(), func() []string) {
		q := fpgo.NewBufferedChannelQueue[int](1, 1, 1)
		return q, func() { q.Offer(1) }, q.Close, nil // Offer holds the lock: Close must simply wait
	}))
	// worker between its closed check and GetChannel(); the pool closes its queue
	emit(func() c15Obs {
		o := c15Obs{Scenario: "worker-loop-check|pool-close|GetChannel", Object: "WorkerPool", AfterClose: []string{}}
		var other int32
		q := fpgo.NewBufferedChannelQueue[func()](2, 2, 2)
		pool := worker.NewDefaultWorkerPool(q, nil).SetSpawnWorkerDuration(200 * time.Microsecond).SetWorkerExpiryDuration(time.Hour).
			SetWorkerSizeStandBy(1).SetWorkerSizeMaximum(1).SetWorkerBatchSize(0).
			SetPanicHandler(func(p interface{}) {
				if _, ok := p.(jobPanic); !ok {
					atomic.AddInt32(&other, 1)
				}
			})
		g := newGateAt("wp.worker.loop", pool)
		installGates(g)
		defer func() { fpgo.VerifHook = nil }()
		ran := make(chan struct{}, 1)
		pool.Schedule(func() { ran <- struct{}{} }) // brings the worker up; it takes the job only after the gate
		if !g.wait() {
			close(g.release)
			o.Detail = "window not reached"
			return o
		}
		o.Reached = true
		cdone, cpanic := guardedGo(pool.Close)
		if !waitDone(cdone, 3*time.Second) {
			o.Blocked, o.Detail = true, "pool.Close did not return"
		}
		close(g.release)
		time.Sleep(20 * time.Millisecond)
		if *cpanic != "" {
			o.Panics++
			o.Detail = "closer: " + *cpanic
		}
		o.HandlerOther = int(atomic.LoadInt32(&other))
		var late int32
		o.AfterClose = append(o.AfterClose, schedRes(pool.Schedule(func() { atomic.AddInt32(&late, 1) })))
		time.Sleep(5 * time.Millisecond)
		o.LateCallbacks = int(atomic.LoadInt32(&late))
		if !pool.IsClosed() {
			o.AfterClose = append(o.AfterClose, "open")
		}
		return o
	}())
	// plain sequence: work, Close, then submissions; with the job queue closed by Close (default) and left open (shared queue)
	for _, closeQueue := range []bool{true, false} {
		closeQueue := closeQueue
		emit(func() c15Obs {
			o := c15Obs{Scenario: fmt.Sprintf("run|Close|Schedule (queue closed by Close: %v)", closeQueue), Object: "WorkerPool", AfterClose: []string{}, Reached: true}
			q := fpgo.NewBufferedChannelQueue[func()](2, 2, 2)
			pool := worker.NewDefaultWorkerPool(q, nil).SetSpawnWorkerDuration(200 * time.Microsecond).SetWorkerExpiryDuration(time.Hour).
				SetWorkerSizeStandBy(2).SetWorkerSizeMaximum(2).SetWorkerBatchSize(0).SetIsJobQueueClosedWhenClose(closeQueue)
			ran := make(chan struct{}, 2)
			pool.Schedule(func() { ran <- struct{}{} })
			pool.Schedule(func() { ran <- struct{}{} })
			for i := 0; i < 2; i++ {
				select {
				case <-ran:
				case <-time.After(2 * time.Second):
					o.Blocked, o.Detail = true, "jobs scheduled before the close did not run"
				}
			}
			time.Sleep(2 * time.Millisecond) // the workers are idle in their select
			pool.Close()
			var late int32
			o.AfterClose = append(o.AfterClose, schedRes(pool.Schedule(func() { atomic.AddInt32(&late, 1) })))
			o.AfterClose = append(o.AfterClose, schedRes(pool.ScheduleWithTimeout(func() { atomic.AddInt32(&late, 1) }, 2*time.Millisecond)))
			time.Sleep(10 * time.Millisecond)
			o.LateCallbacks = int(atomic.LoadInt32(&late))
			if !pool.IsClosed() {
				o.AfterClose = append(o.AfterClose, "open")
			}
			return o
		}())
	}
	// Schedule between its closed check and the queue Offer
	emit(c15Window("Schedule-check|pool-close|Offer", "WorkerPool", "wp.schedule.checked", func() (interface{}, func(), func(), func() []string) {
		q := fpgo.NewBufferedChannelQueue[func()](2, 2, 2)
		pool := worker.NewDefaultWorkerPool(q, nil).SetWorkerSizeStandBy(0).SetWorkerBatchSize(0)
		return pool, func() { pool.Schedule(func() {}) }, pool.Close, func() []string { return []string{schedRes(pool.Schedule(func() {}))} }
	}))
	// YieldFrom between the target's done check and the send; the target completes meanwhile
	emit(func() c15Obs {
		o := c15Obs{Scenario: "YieldFrom-donecheck|target-completes|send", Object: "Cor", AfterClose: []string{}}
		var target *fpgo.CorDef[int]
		finish := make(chan struct{})
		target = fpgo.CorNewGenerics[int](func() { <-finish })
		target.Start()
		g := newGateAt("cor.safe.checked", target)
		installGates(g)
		defer func() { fpgo.VerifHook = nil }()
		upanic := ""
		udone := make(chan struct{})
		var caller *fpgo.CorDef[int]
		caller = fpgo.CorNewGenerics[int](func() {
			defer close(udone)
			defer func() {
				if p := recover(); p != nil {
					upanic = fmt.Sprint(p)
				}
			}()
			caller.YieldFrom(target, 1)
		})
		caller.Start()
		if !g.wait() {
			close(g.release)
			close(finish)
			o.Detail = "window not reached"
			return o
		}
		o.Reached = true
		close(finish) // the target's effect returns: close() runs
		deadline := time.Now().Add(2 * time.Second)
		for !target.IsDone() && time.Now().Before(deadline) {
			time.Sleep(100 * time.Microsecond)
		}
		time.Sleep(2 * time.Millisecond)
		close(g.release)
		if !waitDone(udone, 1500*time.Millisecond) {
			// a YieldFrom whose target is gone has nobody to answer it; the statement asks for "no panic, no deadlock":
			o.Blocked, o.Detail = true, "YieldFrom never returned after the target completed"
		}
		if upanic != "" {
			o.Panics++
			o.Detail = "YieldFrom: " + upanic
		}
		if !target.IsDone() {
			o.AfterClose = append(o.AfterClose, "open")
		} else {
			o.AfterClose = append(o.AfterClose, "done")
		}
		return o
	}())
	// YieldFrom to a target that has already completed
	emit(func() c15Obs {
		o := c15Obs{Scenario: "YieldFrom-after-completion", Object: "Cor", AfterClose: []string{}, Reached: true}
		target := fpgo.CorNewGenerics[int](func() {})
		target.Start()
		deadline := time.Now().Add(2 * time.Second)
		for !target.IsDone() && time.Now().Before(deadline) {
			time.Sleep(100 * time.Microsecond)
		}
		time.Sleep(time.Millisecond)
		udone := make(chan struct{})
		upanic := ""
		var caller *fpgo.CorDef[int]
		caller = fpgo.CorNewGenerics[int](func() {
			defer close(udone)
			defer func() {
				if p := recover(); p != nil {
					upanic = fmt.Sprint(p)
				}
			}()
			caller.YieldFrom(target, 1)
		})
		caller.Start()
		if !waitDone(udone, 1500*time.Millisecond) {
			o.Blocked, o.Detail = true, "YieldFrom to a completed target never returned"
		}
		if upanic != "" {
			o.Panics++
			o.Detail = upanic
		}
		return o
	}())
	// requests still queued when the target completes without serving them (k callers; the mailbox holds 5)
	for _, kk := range []int{1, 3, 6, -1, -3} { // negative: the target is started with StartWithVal and never takes that value either
		k, withVal := kk, false
		if kk < 0 {
			k, withVal = -kk, true
		}
		emit(func() c15Obs {
			name := fmt.Sprintf("%d-YieldFrom-queued|target-completes-unserved", k)
			if withVal {
				name = fmt.Sprintf("%d-YieldFrom-queued|target(StartWithVal)-completes-unserved", k)
			}
			o := c15Obs{Scenario: name, Object: "Cor", AfterClose: []string{}, Reached: true}
			finish := make(chan struct{})
			target := fpgo.CorNewGenerics[int](func() { <-finish })
			if withVal {
				target.StartWithVal(7)
			} else {
				target.Start()
			}
			var wg sync.WaitGroup
			var pmu sync.Mutex
			for i := 0; i < k; i++ {
				wg.Add(1)
				var caller *fpgo.CorDef[int]
				caller = fpgo.CorNewGenerics[int](func() {
					defer wg.Done()
					defer func() {
						if p := recover(); p != nil {
							pmu.Lock()
							o.Panics++
							o.Detail = fmt.Sprint(p)
							pmu.Unlock()
						}
					}()
					caller.YieldFrom(target, 1)
				})
				caller.Start()
			}
			time.Sleep(5 * time.Millisecond) // the callers have queued their requests (the 6th is blocked on the full mailbox)
			close(finish)
			udone := make(chan struct{})
			go func() { wg.Wait(); close(udone) }()
			if !waitDone(udone, 1500*time.Millisecond) {
				o.Blocked, o.Detail = true, fmt.Sprintf("%d YieldFrom calls queued at a target that completed without serving them: not all returned", k)
			}
			return o
		}())
	}
	return n
}

// ---- one-preemption closure: every hook point of every operation x the close, both ways round -----------------------
// side "user":   the user operation (or library goroutine) is parked at `point`, the close runs (to completion, or until
//
//	it blocks on a lock the parked goroutine holds), then the parked goroutine is released
//
// side "closer": the closing goroutine is parked at `point` inside Close, the user operation runs, then the closer is released
type c15Inst struct {
	objs         []interface{}
	op           func()
	closeFn      func()
	after        func() []string
	handlerOther *int32
}

func c15GateAny(point string, objs []interface{}) *hookGate {
	g := newGateAt(point, nil)
	fpgo.VerifHook = func(pt string, obj interface{}) {
		if pt != g.point {
			return
		}
		for _, o := range objs {
			if o == obj && atomic.CompareAndSwapInt32(&g.used, 0, 1) {
				g.arrived <- struct{}{}
				<-g.release
				return
			}
		}
	}
	return g
}

func c15Preempt1(object, opName, side, point string, mk func() *c15Inst) (c15Obs, bool) {
	o := c15Obs{Scenario: fmt.Sprintf("%s|%s-parked@%s", opName, side, point), Object: object, AfterClose: []string{}}
	in := mk()
	g := c15GateAny(point, in.objs)
	defer func() { fpgo.VerifHook = nil }()
	first, second := in.op, in.closeFn
	if side == "closer" {
		first, second = in.closeFn, in.op
	}
	fdone, fpanic := guardedGo(first)
	arrived := false
	select {
	case <-g.arrived:
		arrived = true
	case <-fdone:
		// the operation returned: a library goroutine it woke may still be on its way to the point
		select {
		case <-g.arrived:
			arrived = true
		case <-time.After(30 * time.Millisecond):
		}
	case <-time.After(150 * time.Millisecond):
	}
	if !arrived && !atomic.CompareAndSwapInt32(&g.used, 0, 1) {
		<-g.arrived // arrived just now
		arrived = true
	}
	if !arrived {
		// this operation does not pass that point: run the other side anyway and finish (no line)
		sdone, _ := guardedGo(second)
		waitDone(sdone, time.Second)
		waitDone(fdone, time.Second)
		if side != "closer" {
			return o, false
		}
		return o, false
	}
	o.Reached = true
	sdone, spanic := guardedGo(second)
	finished := waitDone(sdone, 120*time.Millisecond) // may legitimately block on a lock the parked goroutine holds
	close(g.release)
	if !finished {
		finished = waitDone(sdone, 3*time.Second)
	}
	firstDone := waitDone(fdone, 3*time.Second)
	if !finished || !firstDone {
		o.Blocked = true
		o.Detail = fmt.Sprintf("after the parked goroutine was released: %s returned=%v, %s returned=%v",
			map[bool]string{true: "Close", false: opName}[side == "closer"], firstDone, map[bool]string{true: opName, false: "Close"}[side == "closer"], finished)
	}
	for _, pm := range []*string{fpanic, spanic} {
		if *pm != "" {
			o.Panics++
			o.Detail = "panic: " + *pm
		}
	}
	time.Sleep(2 * time.Millisecond)
	if in.handlerOther != nil {
		o.HandlerOther = int(atomic.LoadInt32(in.handlerOther))
	}
	if in.after != nil && !o.Blocked {
		afterGuarded(&o, in.after)
	}
	return o, true
}

func c15Preempt(w *ndWriter) (int, int) {
	n, unreached := 0, 0
	run := func(object, opName string, userPts, closerPts []string, mk func() *c15Inst) {
		for _, side := range []string{"user", "closer"} {
			pts := userPts
			if side == "closer" {
				pts = closerPts
			}
			for _, pt := range pts {
				o, ok := c15Preempt1(object, opName, side, pt, mk)
				if !ok {
					unreached++
					continue
				}
				w.write(o)
				w.w.Flush()
				n++
			}
		}
	}
	// Handler / Actor
	run("Handler", "Post", []string{"h.post.checked"}, []string{"h.close.flagged"}, func() *c15Inst {
		h := fpgo.Handler.NewByCh(make(chan func(), 1))
		var late int32
		return &c15Inst{objs: []interface{}{h}, op: func() { h.Post(func() {}) }, closeFn: h.Close, after: func() []string {
			h.Post(func() { atomic.AddInt32(&late, 1) })
			time.Sleep(time.Millisecond)
			if atomic.LoadInt32(&late) > 0 {
				return []string{"ran"}
			}
			return []string{"dropped"}
		}}
	})
	run("Actor", "Send", []string{"a.send.checked"}, []string{"a.close.flagged"}, func() *c15Inst {
		var late int32
		var closedAt int32
		a := fpgo.ActorNewByOptionsGenerics(func(_ *fpgo.ActorDef[int], m int) {
			if m == 99 && atomic.LoadInt32(&closedAt) == 1 {
				atomic.AddInt32(&late, 1)
			}
		}, make(chan int, 1), map[string]interface{}{})
		return &c15Inst{objs: []interface{}{a}, op: func() { a.Send(1) }, closeFn: a.Close, after: func() []string {
			atomic.StoreInt32(&closedAt, 1)
			a.Send(99)
			time.Sleep(time.Millisecond)
			if atomic.LoadInt32(&late) > 0 || !a.IsClosed() {
				return []string{"ran"}
			}
			return []string{"dropped"}
		}}
	})
	// BufferedChannelQueue: user operations and the loader goroutine
	bqUser := []string{"bq.offer.locked", "bq.offer.done", "bq.take.checked", "bq.notify.checked", "bq.take.notified", "bq.getch.enter", "bq.getch.notified",
		"bq.loader.woken", "bq.loader.checked", "bq.loader.locked", "bq.loader.polled", "bq.loader.unlocking", "bq.loader.unlocked", "bq.freenode.locked"}
	bqCloser := []string{"bq.close.locked", "bq.close.flagged", "bq.close.wakeclosed", "bq.close.done"}
	for _, opName := range []string{"Offer", "Offer-overflow", "Take", "TakeWithTimeout", "Poll", "GetChannel", "Count"} {
		opName := opName
		run("BufferedChannelQueue", opName, bqUser, bqCloser, func() *c15Inst {
			q := fpgo.NewBufferedChannelQueue[int](1, 2, 1).SetLoadFromPoolDuration(time.Microsecond)
			if opName != "Offer" {
				q.Offer(1)
			}
			if opName != "Offer" && opName != "Offer-overflow" {
				q.Offer(2) // the loader has something to move once a consumer has made room
			}
			op := map[string]func(){
				"Offer": func() { q.Offer(7) }, "Offer-overflow": func() { q.Offer(7) },
				"Take": func() { q.Take() }, "TakeWithTimeout": func() { q.TakeWithTimeout(5 * time.Millisecond) },
				"Poll": func() { q.Poll() }, "GetChannel": func() {
					select {
					case <-q.GetChannel():
					default:
					}
				}, "Count": func() { q.Count() },
			}[opName]
			return &c15Inst{objs: []interface{}{q}, op: op, closeFn: q.Close, after: func() []string {
				res := []string{qerr(q.Offer(5))}
				_, e1 := q.TakeWithTimeout(time.Millisecond)
				_, e2 := q.Poll()
				res = append(res, qerr(e1), qerr(e2))
				if !q.IsClosed() || q.Count() != 0 {
					res = append(res, "open")
				}
				return res
			}}
		})
	}
	// WorkerPool: Schedule, the workers and the spawn loop against pool.Close (which closes the queue)
	wpUser := []string{"wp.schedule.checked", "wp.schedule.offered", "wp.worker.loop", "wp.worker.got", "wp.worker.jobdone", "wp.spawn.woken", "wp.spawn.decided", "wp.gen.counted",
		"wp.worker.exit.pre", "wp.worker.exit.post", "bq.offer.locked", "bq.getch.enter", "bq.notify.checked", "bq.getch.notified", "bq.loader.checked", "bq.loader.locked", "bq.loader.polled"}
	wpCloser := []string{"wp.close.flagged", "bq.close.locked", "bq.close.flagged", "bq.close.wakeclosed", "bq.close.done"}
	for _, variant := range []string{"Schedule", "Schedule-panicking-job", "Schedule-queue-left-open"} {
		name := variant
		withPanic := variant == "Schedule-panicking-job"
		closeQueue := variant != "Schedule-queue-left-open"
		run("WorkerPool", name, wpUser, wpCloser, func() *c15Inst {
			other := new(int32)
			q := fpgo.NewBufferedChannelQueue[func()](1, 3, 1).SetLoadFromPoolDuration(time.Microsecond)
			pool := worker.NewDefaultWorkerPool(q, nil).SetSpawnWorkerDuration(100 * time.Microsecond).SetWorkerExpiryDuration(time.Hour).
				SetWorkerSizeStandBy(1).SetWorkerSizeMaximum(2).SetWorkerBatchSize(0).SetIsJobQueueClosedWhenClose(closeQueue).
				SetPanicHandler(func(p interface{}) {
					if _, ok := p.(jobPanic); !ok {
						atomic.AddInt32(other, 1)
					}
				})
			var late int32
			return &c15Inst{objs: []interface{}{pool, q}, handlerOther: other, op: func() {
				pool.Schedule(func() {
					if withPanic {
						panic(jobPanic{1})
					}
				})
				pool.Schedule(func() {})
				pool.Schedule(func() {})
			}, closeFn: pool.Close, after: func() []string {
				r := schedRes(pool.Schedule(func() { atomic.AddInt32(&late, 1) }))
				time.Sleep(2 * time.Millisecond)
				res := []string{r}
				if atomic.LoadInt32(&late) > 0 {
					res = append(res, "ran")
				}
				if !pool.IsClosed() {
					res = append(res, "open")
				}
				return res
			}}
		})
	}
	// Cor: YieldFrom against the target's completion ("close" = the target's effect returning)
	for _, serve := range []int{0, 1} {
		serve := serve
		run("Cor", fmt.Sprintf("YieldFrom(target serving %d)", serve), []string{"cor.safe.checked", "cor.safe.locked"}, []string{"cor.close.flagged", "cor.close.locked", "cor.yieldref.taken"}, func() *c15Inst {
			finish := make(chan struct{})
			var target *fpgo.CorDef[int]
			target = fpgo.CorNewGenerics[int](func() {
				for i := 0; i < serve; i++ {
					target.YieldRef(100 + i)
				}
				<-finish
			})
			target.Start()
			var once sync.Once
			return &c15Inst{objs: []interface{}{target}, op: func() {
				done := make(chan struct{})
				pmsg := ""
				var caller *fpgo.CorDef[int]
				caller = fpgo.CorNewGenerics[int](func() {
					defer close(done)
					defer func() {
						if p := recover(); p != nil {
							pmsg = fmt.Sprint(p)
						}
					}()
					caller.YieldFrom(target, 1)
					caller.YieldFrom(target, 2)
				})
				caller.Start()
				<-done
				if pmsg != "" {
					panic(pmsg)
				}
			}, closeFn: func() {
				once.Do(func() { close(finish) })
				for i := 0; i < 20000 && !target.IsDone(); i++ {
					time.Sleep(50 * time.Microsecond)
				}
				if !target.IsDone() {
					select {} // reported as "Close did not return"
				}
			}, after: func() []string {
				if target.IsDone() {
					return []string{"done"}
				}
				return []string{"open"}
			}}
		})
	}
	// Cor: a YieldFrom that arrives while the completing target is answering the requests left in its mailbox (the closer is parked inside
	// that drain, at the hook points of the stranded requester): the late caller gets the zero value, nothing is sent on a closed channel
	run("Cor", "YieldFrom(target draining its mailbox)", []string{}, []string{"cor.safe.checked", "cor.safe.locked"}, func() *c15Inst {
		finish := make(chan struct{})
		var target *fpgo.CorDef[int]
		target = fpgo.CorNewGenerics[int](func() { <-finish })
		target.Start()
		firstDone := make(chan struct{})
		var first *fpgo.CorDef[int]
		first = fpgo.CorNewGenerics[int](func() {
			defer close(firstDone)
			defer func() { recover() }()
			first.YieldFrom(target, 1) // queued, never served: answered (zero) by the target's completion
		})
		first.Start()
		time.Sleep(3 * time.Millisecond) // the request is in the target's mailbox
		var once sync.Once
		return &c15Inst{objs: []interface{}{first}, op: func() {
			done := make(chan struct{})
			pmsg := ""
			var caller *fpgo.CorDef[int]
			caller = fpgo.CorNewGenerics[int](func() {
				defer close(done)
				defer func() {
					if p := recover(); p != nil {
						pmsg = fmt.Sprint(p)
					}
				}()
				caller.YieldFrom(target, 2)
			})
			caller.Start()
			<-done
			if pmsg != "" {
				panic(pmsg)
			}
		}, closeFn: func() {
			once.Do(func() { close(finish) })
			for i := 0; i < 20000 && !target.IsDone(); i++ {
				time.Sleep(50 * time.Microsecond)
			}
			select {
			case <-firstDone:
			case <-time.After(2 * time.Second):
				select {} // the stranded requester was never answered: reported as "Close did not return"
			}
		}, after: func() []string {
			if target.IsDone() {
				return []string{"done"}
			}
			return []string{"open"}
		}}
	})
	return n, unreached
}

// the loader between its closed check and its push; runs in its own process: the panic is in a library goroutine
func c15Loader(w *ndWriter) int {
	o := c15Obs{Scenario: "loader-check|close|push", Object: "BufferedChannelQueue", AfterClose: []string{}}
	var q *fpgo.BufferedChannelQueue[int]
	g := newGateAt("bq.loader.checked", nil)
	installGates(g)
	q = fpgo.NewBufferedChannelQueue[int](1, 2, 1).SetLoadFromPoolDuration(time.Microsecond)
	q.Offer(1)
	q.Offer(2) // overflow part non-empty: the loader is woken
	if !g.wait() {
		o.Detail = "window not reached"
		close(g.release)
		w.write(o)
		return 1
	}
	o.Reached = true
	cdone, cpanic := guardedGo(q.Close)
	if !waitDone(cdone, 3*time.Second) {
		o.Blocked, o.Detail = true, "Close did not return"
	}
	if *cpanic != "" {
		o.Panics++
		o.Detail = *cpanic
	}
	w.write(o)
	w.w.Flush()
	close(g.release) // if the loader now pushes to the closed channel the whole process dies (observed by the runner)
	time.Sleep(50 * time.Millisecond)
	return 1
}

// free-running: users hammer an object while one goroutine closes it at a random moment
func c15Stress(w *ndWriter, rng *rand.Rand, rounds int) int {
	fpgo.VerifHook = perturbHook
	defer func() { fpgo.VerifHook = nil }()
	n := 0
	for r := 0; r < rounds; r++ {
		obj := []string{"Handler", "Actor", "BufferedChannelQueue", "WorkerPool"}[r%4]
		o := c15Obs{Scenario: "stress", Object: obj, AfterClose: []string{}, Reached: true}
		var panics, other int32
		var pmu sync.Mutex
		users := 1 + rng.Intn(8)
		var wg sync.WaitGroup
		stop := make(chan struct{})
		var closeFn func()
		var userOp func(i int)
		switch obj {
		case "Handler":
			h := fpgo.Handler.NewByCh(make(chan func(), rng.Intn(3)))
			closeFn, userOp = h.Close, func(i int) { h.Post(func() {}) }
		case "Actor":
			a := fpgo.ActorNewByOptionsGenerics(func(*fpgo.ActorDef[int], int) {}, make(chan int, rng.Intn(3)), map[string]interface{}{})
			closeFn, userOp = a.Close, func(i int) { a.Send(i) }
		case "BufferedChannelQueue":
			q := fpgo.NewBufferedChannelQueue[int](1+rng.Intn(2), rng.Intn(3), 1).SetLoadFromPoolDuration(time.Microsecond)
			closeFn = q.Close
			userOp = func(i int) {
				switch i % 5 {
				case 0:
					q.Offer(i)
				case 1:
					q.Poll()
				case 2:
					q.TakeWithTimeout(50 * time.Microsecond)
				case 3:
					q.Count()
				default:
					select {
					case <-q.GetChannel():
					default:
					}
				}
			}
		default:
			q := fpgo.NewBufferedChannelQueue[func()](2, 4, 2).SetLoadFromPoolDuration(time.Microsecond)
			pool := worker.NewDefaultWorkerPool(q, nil).SetSpawnWorkerDuration(50 * time.Microsecond).SetWorkerExpiryDuration(time.Hour).
				SetWorkerSizeStandBy(2).SetWorkerSizeMaximum(3).SetWorkerBatchSize(1).SetIsJobQueueClosedWhenClose(r%8 != 7).
				SetPanicHandler(func(p interface{}) {
					if _, ok := p.(jobPanic); !ok {
						atomic.AddInt32(&other, 1)
						pmu.Lock()
						o.Detail = "handler: " + fmt.Sprint(p)
						pmu.Unlock()
					}
				})
			closeFn, userOp = pool.Close, func(i int) { pool.Schedule(func() {}) }
		}
		for u := 0; u < users; u++ {
			wg.Add(1)
			go func(u int) {
				defer wg.Done()
				for i := 0; ; i++ {
					select {
					case <-stop:
						return
					default:
					}
					func() {
						defer func() {
							if p := recover(); p != nil {
								atomic.AddInt32(&panics, 1)
								pmu.Lock()
								o.Detail = "user: " + fmt.Sprint(p)
								pmu.Unlock()
							}
						}()
						userOp(u*1000 + i)
					}()
				}
			}(u)
		}
		time.Sleep(time.Duration(50+rng.Intn(400)) * time.Microsecond)
		cdone, cpanic := guardedGo(closeFn)
		if !waitDone(cdone, 3*time.Second) {
			o.Blocked, o.Detail = true, "Close did not return"
		}
		time.Sleep(300 * time.Microsecond)
		close(stop)
		udone := make(chan struct{})
		go func() { wg.Wait(); close(udone) }()
		if !waitDone(udone, 3*time.Second) {
			o.Blocked, o.Detail = true, "a user goroutine is still blocked after the close"
		}
		if *cpanic != "" {
			atomic.AddInt32(&panics, 1)
			o.Detail = "closer: " + *cpanic
		}
		time.Sleep(200 * time.Microsecond)
		o.Panics, o.HandlerOther = int(atomic.LoadInt32(&panics)), int(atomic.LoadInt32(&other))
		w.write(o)
		w.w.Flush()
		n++
	}
	return n
}

func c15Main(args []string) error {
	w, err := newNDWriter(flagVal(args, "out", "c15.trace.ndjson"))
	if err != nil {
		return err
	}
	defer w.close()
	switch args[0] {
	case "scripted":
		fmt.Printf("{\"runs\":%d}\n", c15Scripted(w))
		return nil
	case "preempt":
		n, u := c15Preempt(w)
		fmt.Printf("{\"runs\":%d,\"unreached\":%d}\n", n, u)
		return nil
	case "loader":
		fmt.Printf("{\"runs\":%d}\n", c15Loader(w))
		return nil
	case "stress":
		rng := rand.New(rand.NewSource(int64(envInt("VERIF_SEED", 1))))
		fmt.Printf("{\"runs\":%d}\n", c15Stress(w, rng, flagInt(args, "rounds", 200)))
		return nil
	}
	return fmt.Errorf("c15: scripted|loader|stress")
}
