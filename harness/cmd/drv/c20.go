//go:build verif

package main

import (
	"encoding/json"
	"errors"
	"fmt"
	"reflect"
	"sort"
	"sync"
	"sync/atomic"
	"time"

	fpgo "github.com/TeaEntityLab/fpGo/v2"
)

// C20 — combinators, adapters, Trampoline, CurryDef, pattern matching. Vocabulary: Combinators.tla.

func init() { commands["c20"] = c20Main }

type c20Type struct {
	T     string    `json:"t"`
	Kinds []string  `json:"kinds"`
	Of    []c20Type `json:"of"`
}

func (t c20Type) MarshalJSON() ([]byte, error) {
	k, of := t.Kinds, t.Of
	if k == nil {
		k = []string{}
	}
	if of == nil {
		of = []c20Type{}
	}
	return json.Marshal(struct {
		T     string    `json:"t"`
		Kinds []string  `json:"kinds"`
		Of    []c20Type `json:"of"`
	}{t.T, k, of})
}

type c20Obj struct {
	Kind string `json:"kind"`
	Nil  bool   `json:"nil"`
}
type c20Pat struct {
	P    string  `json:"p"`
	Kind string  `json:"kind"`
	Eq   int     `json:"eq"`
	Re   string  `json:"re"`
	Ty   c20Type `json:"ty"`
}
type c20Call struct {
	Op   string `json:"op"`
	Args []int  `json:"args"`
}
type c20Case struct {
	Part    string          `json:"part"`
	Fn      string          `json:"fn,omitempty"`
	Groups  [][]string      `json:"groups,omitempty"`
	X       []int           `json:"x,omitempty"`
	N       int             `json:"n"`
	Bound   []int           `json:"bound,omitempty"`
	Args    []int           `json:"args,omitempty"`
	ErrAt   int             `json:"errAt"`
	ErrDone bool            `json:"errDone"` // the failing step also reports done
	NilEff  bool            `json:"nilEff"`  // match: the effects return nil (side effects only)
	Calls   []c20Call       `json:"calls,omitempty"`
	Ps      []c20Pat        `json:"ps,omitempty"`
	Probe   json.RawMessage `json:"probe,omitempty"`
	Ty      *c20Type        `json:"ty,omitempty"`
	Objs    []c20Obj        `json:"objs,omitempty"`
}

func nzi(s []int) []int {
	if s == nil {
		return []int{}
	}
	return s
}

func c20F(name string) func(...int) []int {
	switch name {
	case "a1", "a2", "a3", "a4":
		k := int(name[1] - '0')
		return func(xs ...int) []int { return append(append([]int{}, xs...), k) }
	case "dup":
		return func(xs ...int) []int { return append(append([]int{}, xs...), xs...) }
	case "rev":
		return func(xs ...int) []int {
			r := make([]int, len(xs))
			for i, x := range xs {
				r[len(xs)-1-i] = x
			}
			return r
		}
	case "drop1":
		return func(xs ...int) []int {
			if len(xs) == 0 {
				return []int{}
			}
			return append([]int{}, xs[1:]...)
		}
	}
	panic("fn " + name)
}

// which named function is f? (functions are not comparable: probe it)
func c20Name(f func(...int) []int) string {
	for _, n := range []string{"a1", "a2", "a3", "a4", "dup", "rev", "drop1"} {
		if reflect.DeepEqual(f(5, 6), c20F(n)(5, 6)) {
			return n
		}
	}
	return "?"
}

func ii(xs []int) []interface{} {
	r := make([]interface{}, len(xs))
	for i, x := range xs {
		r[i] = x
	}
	return r
}

func c20Compose(c *c20Case) map[string]interface{} {
	out := map[string]interface{}{"part": c.Part, "fn": c.Fn, "groups": c.Groups, "x": nzi(c.X), "kind": "ok", "out": []int{}, "fsAfter": []string{}}
	defer func() {
		if p := recover(); p != nil {
			out["kind"] = "panic"
		}
	}()
	iface := c.Fn == "ComposeInterface" || c.Fn == "PipeInterface"
	isCompose := c.Fn == "Compose" || c.Fn == "ComposeInterface"
	// every call receives its function list as a spread slice the caller keeps
	var keep [][]func(...int) []int
	combineG := func(fs []func(...int) []int) func(...int) []int {
		keep = append(keep, fs)
		if isCompose {
			return fpgo.Compose(fs...)
		}
		return fpgo.Pipe(fs...)
	}
	wrapI := func(f func(...int) []int) func(...interface{}) []interface{} {
		return func(xs ...interface{}) []interface{} {
			in := make([]int, len(xs))
			for i, x := range xs {
				in[i] = x.(int)
			}
			return ii(f(in...))
		}
	}
	var keepI [][]func(...interface{}) []interface{}
	combineI := func(fs []func(...interface{}) []interface{}) func(...interface{}) []interface{} {
		keepI = append(keepI, fs)
		if isCompose {
			return fpgo.ComposeInterface(fs...)
		}
		return fpgo.PipeInterface(fs...)
	}
	var res []int
	if !iface {
		var top []func(...int) []int
		for _, g := range c.Groups {
			fs := make([]func(...int) []int, 0, len(g)+2)
			for _, n := range g {
				fs = append(fs, c20F(n))
			}
			if len(c.Groups) == 1 {
				top = fs
			} else {
				top = append(top, combineG(fs))
			}
		}
		var h func(...int) []int
		if len(c.Groups) == 1 {
			h = combineG(top)
		} else {
			keep = append(keep, nil) // the outer list holds composites, not named functions
			if isCompose {
				h = fpgo.Compose(top...)
			} else {
				h = fpgo.Pipe(top...)
			}
		}
		res = h(c.X...)
		res = h(c.X...) // a second application must give the same (the combinator must not consume its list)
		var after []string
		for _, fs := range keep {
			for _, f := range fs {
				after = append(after, c20Name(f))
			}
		}
		out["fsAfter"] = after
	} else {
		var top []func(...interface{}) []interface{}
		for _, g := range c.Groups {
			fs := make([]func(...interface{}) []interface{}, 0, len(g)+2)
			for _, n := range g {
				fs = append(fs, wrapI(c20F(n)))
			}
			if len(c.Groups) == 1 {
				top = fs
			} else {
				top = append(top, combineI(fs))
			}
		}
		var h func(...interface{}) []interface{}
		if len(c.Groups) == 1 {
			h = combineI(top)
		} else if isCompose {
			h = fpgo.ComposeInterface(top...)
		} else {
			h = fpgo.PipeInterface(top...)
		}
		r := h(ii(c.X)...)
		r = h(ii(c.X)...)
		for _, x := range r {
			res = append(res, x.(int))
		}
		var after []string
		for _, fs := range keepI {
			for _, f := range fs {
				rr := f(5, 6)
				in := make([]int, len(rr))
				for i, x := range rr {
					in[i] = x.(int)
				}
				name := "?"
				for _, n := range []string{"a1", "a2", "a3", "a4", "dup", "rev", "drop1"} {
					if reflect.DeepEqual(in, c20F(n)(5, 6)) {
						name = n
					}
				}
				after = append(after, name)
			}
		}
		out["fsAfter"] = after
	}
	out["out"] = nzi(res)
	if out["fsAfter"] == nil || len(out["fsAfter"].([]string)) == 0 {
		out["fsAfter"] = []string{}
	}
	return out
}

func c20Adapter(c *c20Case) map[string]interface{} {
	out := map[string]interface{}{"part": c.Part, "fn": c.Fn, "n": c.N, "bound": nzi(c.Bound), "args": nzi(c.Args), "kind": "ok", "seen": []int{}, "out": []int{}}
	defer func() {
		if p := recover(); p != nil {
			out["kind"] = "panic"
		}
	}()
	var seen []int
	rec := func(bound []int, rest []int) []int {
		seen = append(append([]int{}, bound...), rest...)
		return seen
	}
	b := c.Bound
	var res []int
	switch c.Fn {
	case "CurryParam":
		switch c.N {
		case 1:
			res = fpgo.CurryParam1(func(a int, xs ...int) []int { return rec([]int{a}, xs) }, b[0])(c.Args...)
		case 2:
			res = fpgo.CurryParam2(func(a, b2 int, xs ...int) []int { return rec([]int{a, b2}, xs) }, b[0], b[1])(c.Args...)
		case 3:
			res = fpgo.CurryParam3(func(a, b2, c3 int, xs ...int) []int { return rec([]int{a, b2, c3}, xs) }, b[0], b[1], b[2])(c.Args...)
		case 4:
			res = fpgo.CurryParam4(func(a, b2, c3, d int, xs ...int) []int { return rec([]int{a, b2, c3, d}, xs) }, b[0], b[1], b[2], b[3])(c.Args...)
		case 5:
			res = fpgo.CurryParam5(func(a, b2, c3, d, e int, xs ...int) []int { return rec([]int{a, b2, c3, d, e}, xs) }, b[0], b[1], b[2], b[3], b[4])(c.Args...)
		case 6:
			res = fpgo.CurryParam6(func(a, b2, c3, d, e, f int, xs ...int) []int { return rec([]int{a, b2, c3, d, e, f}, xs) }, b[0], b[1], b[2], b[3], b[4], b[5])(c.Args...)
		}
	case "CurryParam1ForSlice1":
		res = fpgo.CurryParam1ForSlice1(func(a int, xs []int) []int { return rec([]int{a}, xs) }, b[0])(c.Args...)
	case "MakeVariadicParam":
		switch c.N {
		case 1:
			res = fpgo.MakeVariadicParam1(func(a int) []int { return rec([]int{a}, nil) })(c.Args...)
		case 2:
			res = fpgo.MakeVariadicParam2(func(a, b2 int) []int { return rec([]int{a, b2}, nil) })(c.Args...)
		case 3:
			res = fpgo.MakeVariadicParam3(func(a, b2, c3 int) []int { return rec([]int{a, b2, c3}, nil) })(c.Args...)
		case 4:
			res = fpgo.MakeVariadicParam4(func(a, b2, c3, d int) []int { return rec([]int{a, b2, c3, d}, nil) })(c.Args...)
		case 5:
			res = fpgo.MakeVariadicParam5(func(a, b2, c3, d, e int) []int { return rec([]int{a, b2, c3, d, e}, nil) })(c.Args...)
		case 6:
			res = fpgo.MakeVariadicParam6(func(a, b2, c3, d, e, f int) []int { return rec([]int{a, b2, c3, d, e, f}, nil) })(c.Args...)
		}
	case "MakeVariadicReturn":
		at := func(xs []int, i int) int {
			if i < len(xs) {
				return xs[i]
			}
			return 0
		}
		switch c.N {
		case 1:
			res = fpgo.MakeVariadicReturn1(func(xs ...int) int { rec(nil, xs); return at(xs, 0) })(c.Args...)
		case 2:
			res = fpgo.MakeVariadicReturn2(func(xs ...int) (int, int) { rec(nil, xs); return at(xs, 0), at(xs, 1) })(c.Args...)
		case 3:
			res = fpgo.MakeVariadicReturn3(func(xs ...int) (int, int, int) { rec(nil, xs); return at(xs, 0), at(xs, 1), at(xs, 2) })(c.Args...)
		case 4:
			res = fpgo.MakeVariadicReturn4(func(xs ...int) (int, int, int, int) {
				rec(nil, xs)
				return at(xs, 0), at(xs, 1), at(xs, 2), at(xs, 3)
			})(c.Args...)
		case 5:
			res = fpgo.MakeVariadicReturn5(func(xs ...int) (int, int, int, int, int) {
				rec(nil, xs)
				return at(xs, 0), at(xs, 1), at(xs, 2), at(xs, 3), at(xs, 4)
			})(c.Args...)
		case 6:
			res = fpgo.MakeVariadicReturn6(func(xs ...int) (int, int, int, int, int, int) {
				rec(nil, xs)
				return at(xs, 0), at(xs, 1), at(xs, 2), at(xs, 3), at(xs, 4), at(xs, 5)
			})(c.Args...)
		}
	case "MakeNumericReturnBool":
		want := c.N == 1
		switch c.Args[0] {
		case 1:
			res = fpgo.MakeNumericReturnForVariadicParamReturnBool1[int, int](func(...int) bool { return want })(1, 2)
		case 2:
			res = fpgo.MakeNumericReturnForSliceParamReturnBool1[int, int](func([]int) bool { return want })(1, 2)
		default:
			res = fpgo.MakeNumericReturnForParam1ReturnBool1[int, int](func(int) bool { return want })(1)
		}
	}
	out["seen"], out["out"] = nzi(seen), nzi(res)
	return out
}

func c20Trampoline(c *c20Case) map[string]interface{} {
	out := map[string]interface{}{"part": c.Part, "x": c.X, "errAt": c.ErrAt, "errDone": c.ErrDone, "kind": "ok", "out": []int{}, "steps": 0}
	defer func() {
		if p := recover(); p != nil {
			out["kind"] = "panic"
		}
	}()
	steps := 0
	res, err := fpgo.Trampoline(func(st ...int) ([]int, bool, error) {
		steps++
		if steps == c.ErrAt {
			return []int{-1, -1}, c.ErrDone, errors.New("boom")
		}
		if st[0] == 0 {
			return st, true, nil
		}
		return []int{st[0] - 1, st[1] + st[0]}, false, nil
	}, c.X...)
	out["steps"] = steps
	if err != nil {
		out["kind"] = "err"
		if res != nil {
			out["kind"] = "err-with-value"
		}
		return out
	}
	out["out"] = nzi(res)
	return out
}

func sum(xs []int) int {
	t := 0
	for _, x := range xs {
		t += x
	}
	return t
}

func c20CurrySeq(c *c20Case) map[string]interface{} {
	out := map[string]interface{}{"part": c.Part, "calls": c.Calls, "kind": "ok", "fnlog": [][]int{}, "results": []int{}}
	defer func() {
		if p := recover(); p != nil {
			out["kind"] = "panic"
		}
	}()
	fnlog := [][]int{}
	results := []int{}
	buf := make([]int, 0, 16)
	cur := fpgo.CurryNewGenerics(func(cd *fpgo.CurryDef[int, int], args ...int) int {
		fnlog = append(fnlog, append([]int{}, args...))
		return sum(args)
	})
	for i := range c.Calls {
		if c.Calls[i].Args == nil {
			c.Calls[i].Args = []int{}
		}
		switch c.Calls[i].Op {
		case "Call":
			// the caller spreads a slice of its own (with spare capacity) and re-uses that buffer afterwards: what the curry has
			// accumulated must not change with it
			a := append(buf[:0], c.Calls[i].Args...)
			cur.Call(a...)
			for j := range a {
				a[j] = 99
			}
			_ = append(a, 98, 97)
		case "MarkDone":
			cur.MarkDone()
		case "Result":
			results = append(results, cur.Result())
		}
	}
	out["fnlog"], out["results"] = fnlog, results
	return out
}

// concurrent Calls. mode "gate": the first invocation of fn is parked while the other callers are started;
// an overlap is the positive observation "a second fn began before the first ended". mode "free": plain stress.
func c20CurryConc(callargs [][]int, gate bool) map[string]interface{} {
	out := map[string]interface{}{"part": "curryconc", "callargs": callargs, "kind": "ok", "gate": gate}
	type ev struct {
		Ev   string `json:"ev"`
		ID   int    `json:"id"`
		Args []int  `json:"args"`
	}
	var mu sync.Mutex
	var events []ev
	var ids int32
	release := make(chan struct{})
	firstIn := make(chan struct{}, 1)
	var first int32
	cur := fpgo.CurryNewGenerics(func(cd *fpgo.CurryDef[int, int], args ...int) int {
		id := int(atomic.AddInt32(&ids, 1))
		mu.Lock()
		events = append(events, ev{"begin", id, append([]int{}, args...)})
		mu.Unlock()
		if gate && atomic.CompareAndSwapInt32(&first, 0, 1) {
			firstIn <- struct{}{}
			<-release
		} else if !gate {
			time.Sleep(time.Duration(50+id*13%90) * time.Microsecond)
		}
		mu.Lock()
		events = append(events, ev{"end", id, []int{}})
		mu.Unlock()
		return sum(args)
	})
	var wg sync.WaitGroup
	start := func(i int) {
		wg.Add(1)
		go func() {
			defer wg.Done()
			defer func() { recover() }()
			cur.Call(callargs[i]...)
		}()
	}
	if gate {
		start(0)
		select {
		case <-firstIn:
		case <-time.After(5 * time.Second):
			out["kind"] = "stuck"
			return out
		}
		for i := 1; i < len(callargs); i++ {
			start(i)
		}
		time.Sleep(30 * time.Millisecond) // give an unprotected second invocation the chance to begin (positive event if it does)
		close(release)
	} else {
		for i := range callargs {
			start(i)
		}
	}
	done := make(chan struct{})
	go func() { wg.Wait(); close(done) }()
	select {
	case <-done:
	case <-time.After(10 * time.Second):
		out["kind"] = "stuck"
		return out
	}
	out["events"] = events
	out["result"] = cur.Result()
	return out
}

// the first invocation of fn calls MarkDone itself (under the Call mutex) while k further Calls have already been started:
// fn must have been invoked exactly once and Result must stay the first invocation's value (Curry.tla, FnMarksDone)
func c20CurryMarksDone(k int) map[string]interface{} {
	out := map[string]interface{}{"part": "currydone", "k": k, "kind": "ok"}
	var invocations int32
	firstIn := make(chan struct{}, 1)
	release := make(chan struct{})
	cur := fpgo.CurryNewGenerics(func(cd *fpgo.CurryDef[int, int], args ...int) int {
		if atomic.AddInt32(&invocations, 1) == 1 {
			firstIn <- struct{}{}
			<-release // the other Calls are started meanwhile
			cd.MarkDone()
		}
		return sum(args)
	})
	var wg sync.WaitGroup
	start := func(v int) {
		wg.Add(1)
		go func() {
			defer wg.Done()
			defer func() { recover() }()
			cur.Call(v)
		}()
	}
	start(1)
	select {
	case <-firstIn:
	case <-time.After(5 * time.Second):
		out["kind"] = "stuck"
		return out
	}
	for i := 0; i < k; i++ {
		start(10 + i)
	}
	time.Sleep(5 * time.Millisecond) // the later Calls are past any test they make before taking the mutex
	close(release)
	done := make(chan struct{})
	go func() { wg.Wait(); close(done) }()
	select {
	case <-done:
	case <-time.After(10 * time.Second):
		out["kind"] = "stuck"
		return out
	}
	out["invocations"] = int(atomic.LoadInt32(&invocations))
	out["result"] = cur.Result()
	out["done"] = cur.IsDone()
	return out
}

// ---- pattern matching
type probeS struct{ A int }
type probeP struct{ P *int }

var c20TypeA fpgo.CompType
var c20Probes map[string]interface{}
var c20EqValues map[int]interface{}

func c20Kind(k string) reflect.Kind {
	return map[string]reflect.Kind{"int": reflect.Int, "string": reflect.String, "struct": reflect.Struct, "ptr": reflect.Ptr,
		"slice": reflect.Slice, "float64": reflect.Float64, "bool": reflect.Bool, "invalid": reflect.Invalid}[k]
}
func c20MkType(t c20Type) fpgo.CompType {
	switch t.T {
	case "nil":
		return fpgo.NilType
	case "product":
		ks := make([]reflect.Kind, len(t.Kinds))
		for i, k := range t.Kinds {
			ks[i] = c20Kind(k)
		}
		return fpgo.DefProduct(ks...)
	}
	var of []fpgo.CompType
	for _, x := range t.Of {
		of = append(of, c20MkType(x))
	}
	return fpgo.DefSum(of...)
}
func c20ObjValue(o c20Obj) interface{} {
	if o.Nil {
		return nil
	}
	switch o.Kind {
	case "int":
		return 1
	case "string":
		return "1"
	case "struct":
		return probeS{1}
	}
	return 1.5
}

func c20InitProbes() {
	c20TypeA = fpgo.DefSum(fpgo.NilType, fpgo.DefProduct(reflect.Int, reflect.String), fpgo.DefProduct(reflect.String))
	x, y := 5, 5
	var np *int
	c20Probes = map[string]interface{}{
		"int42": 42, "int7": 7, "strHello": "hello", "strCcc": "ccc", "nilU": nil, "nilPtr": np,
		"structS": probeS{1}, "ptrS": &probeS{1}, "slice": []int{1}, "float": 1.5, "boolT": true, "ptrInt": &x, "structP": probeP{&x},
		"compA1": fpgo.NewCompData(c20TypeA, 1, "1"), "compA2": fpgo.NewCompData(c20TypeA, "2"), "compNil": fpgo.NewCompData(c20TypeA, nil),
		"compA1v": *fpgo.NewCompData(c20TypeA, 1, "1"),
	}
	c20EqValues = map[int]interface{}{1: 42, 2: 7, 3: "hello", 4: "ccc", 5: nil, 6: np, 7: probeS{1}, 9: 1.5, 10: true,
		11: &y, 12: &x, 13: probeP{&x}, 14: probeP{&y}} // 11 / 14: look-alikes of 12 / 13 (equal pointees, other pointers): not equal
}

func c20Match(c *c20Case) map[string]interface{} {
	var probe struct {
		Name string `json:"name"`
	}
	json.Unmarshal(c.Probe, &probe)
	var praw interface{}
	json.Unmarshal(c.Probe, &praw)
	out := map[string]interface{}{"part": c.Part, "fn": c.Fn, "ps": c.Ps, "probe": praw, "out": 0, "applied": true, "nilEff": c.NilEff}
	ran := 0
	v, ok := c20Probes[probe.Name]
	if !ok {
		panic("probe " + probe.Name)
	}
	var pats []fpgo.Pattern
	for i, p := range c.Ps {
		idx := i + 1
		eff := func(got interface{}) interface{} {
			ran = idx
			if c.NilEff { // a handler called for its side effect only
				return nil
			}
			return idx
		}
		switch p.P {
		case "kind":
			pats = append(pats, fpgo.InCaseOfKind(c20Kind(p.Kind), eff))
		case "equal":
			pats = append(pats, fpgo.InCaseOfEqual(c20EqValues[p.Eq], eff))
		case "regex":
			re := map[string]string{"cplus": "^c+$", "hdoto": "^h.*o$", "any": ".*", "invalid": "("}[p.Re]
			pats = append(pats, fpgo.InCaseOfRegex(re, eff))
		case "sum":
			pats = append(pats, fpgo.InCaseOfSumType(c20MkType(p.Ty), eff))
		case "otherwise":
			pats = append(pats, fpgo.Otherwise(eff))
		}
	}
	func() {
		defer func() {
			if p := recover(); p != nil {
				out["out"] = 0
				out["panic"] = fmt.Sprint(p)
			}
		}()
		var r interface{}
		if c.Fn == "Either" {
			r = fpgo.Either(v, pats...)
		} else {
			// ONE PatternMatching value serves many probes: every other probe first (their outcomes are judged in their own cases), then
			// this one - what a matcher did for earlier values must not decide what it does for this one
			pm := fpgo.DefPattern(pats...)
			names := make([]string, 0, len(c20Probes))
			for n := range c20Probes {
				names = append(names, n)
			}
			sort.Strings(names)
			for _, n := range names {
				if n != probe.Name {
					func() {
						defer func() { recover() }()
						pm.MatchFor(c20Probes[n])
					}()
				}
			}
			ran = 0
			r = pm.MatchFor(v)
		}
		if c.NilEff {
			if r != nil {
				ran = -1 // the match must hand back what the effect returned
			}
			out["out"] = ran
		} else {
			out["out"] = r.(int)
		}
	}()
	return out
}

func c20NewCompData(c *c20Case) map[string]interface{} {
	out := map[string]interface{}{"part": c.Part, "ty": c.Ty, "objs": c.Objs, "kind": "ok", "nonnil": false}
	if c.Objs == nil {
		out["objs"] = []c20Obj{}
	}
	defer func() {
		if p := recover(); p != nil {
			out["kind"] = "panic"
		}
	}()
	var vals []interface{}
	for _, o := range c.Objs {
		vals = append(vals, c20ObjValue(o))
	}
	out["nonnil"] = fpgo.NewCompData(c20MkType(*c.Ty), vals...) != nil
	return out
}

func c20Exec(c *c20Case) map[string]interface{} {
	switch c.Part {
	case "compose":
		return c20Compose(c)
	case "adapter":
		return c20Adapter(c)
	case "trampoline":
		return c20Trampoline(c)
	case "curryseq":
		return c20CurrySeq(c)
	case "match":
		return c20Match(c)
	case "newcompdata":
		return c20NewCompData(c)
	}
	panic("c20 part " + c.Part)
}

func c20Main(args []string) error {
	c20InitProbes()
	switch args[0] {
	case "exec":
		prefix := flagVal(args, "out", "c20.trace")
		maxl := flagInt(args, "maxlines", 30000)
		var w *ndWriter
		var files []string
		n := 0
		for _, f := range args[1:] {
			if f == "--out" || f == "--maxlines" {
				break
			}
			err := readLines(f, func(b []byte) error {
				var c c20Case
				if err := json.Unmarshal(b, &c); err != nil {
					return fmt.Errorf("%v: %s", err, string(b[:120]))
				}
				if w == nil || w.n >= maxl {
					if w != nil {
						w.close()
					}
					name := fmt.Sprintf("%s.%03d.ndjson", prefix, len(files)+1)
					var err error
					if w, err = newNDWriter(name); err != nil {
						return err
					}
					files = append(files, name)
				}
				w.write(c20Exec(&c))
				n++
				return nil
			})
			if err != nil {
				return err
			}
		}
		if w != nil {
			w.close()
		}
		b, _ := json.Marshal(map[string]interface{}{"files": files, "events": n})
		fmt.Println(string(b))
		return nil
	case "curry": // concurrent CurryDef.Call: gate runs + free stress
		n := flagInt(args, "n", 200)
		w, err := newNDWriter(flagVal(args, "out", "c20.curry.ndjson"))
		if err != nil {
			return err
		}
		defer w.close()
		sets := [][][]int{{{1}, {2}}, {{1}, {2}, {3}}, {{1, 2}, {3}}, {{1}, {2}, {3}, {4}}}
		cnt := 0
		for _, s := range sets {
			w.write(c20CurryConc(s, true))
			cnt++
		}
		for k := 1; k <= 3; k++ {
			w.write(c20CurryMarksDone(k))
			cnt++
		}
		for i := 0; i < n; i++ {
			w.write(c20CurryConc(sets[i%len(sets)], false))
			cnt++
		}
		fmt.Printf("{\"events\":%d}\n", cnt)
		return nil
	}
	return fmt.Errorf("c20: exec|curry")
}
