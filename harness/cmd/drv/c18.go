//go:build verif

package main

import (
	"bytes"
	"context"
	"encoding/json"
	"errors"
	"fmt"
	"io"
	"math/rand"
	"net/http"
	"os"
	"runtime/debug"
	"strconv"

	"github.com/TeaEntityLab/fpGo/v2/network"
)

// C18 — interceptor chain of SimpleHTTP.  Vocabulary shared with HTTPChain.tla.

func init() { commands["c18"] = c18Main }

type c18Call struct {
	Op   string `json:"op"`
	Xs   []int  `json:"xs"`
	C    int    `json:"c"`
	Verb string `json:"verb"`
	Fail []int  `json:"fail"`
}
type c18Obs struct {
	Kind string `json:"kind"`
	Log  []int  `json:"log"`
	Err  bool   `json:"err"`
	Seen []int  `json:"seen"`
}
type c18Line struct {
	D int     `json:"d"`
	C c18Call `json:"c"`
	O c18Obs  `json:"o"`
}

type stubTransport struct {
	env  *c18Env
	body string
	fail bool
}

func (t *stubTransport) RoundTrip(r *http.Request) (*http.Response, error) {
	t.env.log = append(t.env.log, 0)
	for _, v := range r.Header.Values("X-Seen") {
		n, _ := strconv.Atoi(v)
		t.env.seen = append(t.env.seen, n)
	}
	t.env.captured = append(t.env.captured, captureReq(r))
	if t.fail {
		return nil, errors.New("transport down")
	}
	return &http.Response{StatusCode: 200, Header: http.Header{"Content-Type": []string{"application/json"}},
		Body: io.NopCloser(&ctxReader{ctx: r.Context(), r: bytes.NewBufferString(t.body)}), Request: r}, nil
}

// like net/http's transport: the response body can be read only while the request's context is alive
type ctxReader struct {
	ctx context.Context
	r   io.Reader
}

func (c *ctxReader) Read(p []byte) (int, error) {
	if err := c.ctx.Err(); err != nil {
		return 0, err
	}
	return c.r.Read(p)
}

type capturedReq struct {
	Method string              `json:"method"`
	URL    string              `json:"url"`
	Header map[string][]string `json:"header"`
	Body   string              `json:"body"`
}

func captureReq(r *http.Request) capturedReq {
	c := capturedReq{Method: r.Method, URL: r.URL.String(), Header: map[string][]string{}}
	for k, v := range r.Header {
		c.Header[k] = append([]string{}, v...)
	}
	if r.Body != nil {
		b, _ := io.ReadAll(r.Body)
		c.Body = string(b)
	}
	return c
}

type c18Env struct {
	s        *network.SimpleHTTPDef
	ics      map[int]*network.Interceptor
	clients  map[int]*http.Client
	log      []int
	seen     []int
	fail     map[int]bool
	calls    int
	captured []capturedReq
}

func newC18Env() *c18Env {
	e := &c18Env{ics: map[int]*network.Interceptor{}, clients: map[int]*http.Client{}, fail: map[int]bool{}}
	for id := 1; id <= 6; id++ {
		id := id
		f := network.Interceptor(func(r *http.Request) error {
			e.calls++
			if e.calls > 200 {
				panic("runaway interceptor chain")
			}
			e.log = append(e.log, id)
			r.Header.Add("X-Seen", strconv.Itoa(id))
			if e.fail[id] {
				return fmt.Errorf("interceptor %d refuses", id)
			}
			return nil
		})
		e.ics[id] = &f
	}
	for c := 1; c <= 3; c++ {
		e.clients[c] = &http.Client{Transport: &stubTransport{env: e, body: `{"ok":true}`}}
	}
	e.s = network.NewSimpleHTTPWithClientAndInterceptors(e.clients[1])
	return e
}

func (e *c18Env) do(c *c18Call) (o c18Obs) {
	o = c18Obs{Kind: "ok", Log: []int{}, Seen: []int{}}
	defer func() {
		if p := recover(); p != nil {
			o.Kind = "panic"
			o.Log, o.Seen = append([]int{}, e.log...), append([]int{}, e.seen...)
		}
	}()
	ptrs := func(xs []int) []*network.Interceptor {
		r := make([]*network.Interceptor, len(xs))
		for i, x := range xs {
			r[i] = e.ics[x]
		}
		return r
	}
	switch c.Op {
	case "Add":
		e.s.AddInterceptor(ptrs(c.Xs)...)
	case "Remove":
		e.s.RemoveInterceptor(ptrs(c.Xs)...)
	case "Clear":
		e.s.ClearInterceptor()
	case "SetClient":
		e.s.SetHTTPClient(e.clients[c.C])
	case "Request":
		e.log, e.seen, e.calls = nil, nil, 0
		e.fail = map[int]bool{}
		for _, f := range c.Fail {
			e.fail[f] = true
		}
		url := "http://stub.invalid/x"
		var err error
		switch c.Verb {
		case "Get":
			err = e.s.Get(url).Err
		case "Head":
			err = e.s.Head(url).Err
		case "Options":
			err = e.s.Options(url).Err
		case "Delete":
			err = e.s.Delete(url).Err
		case "Post":
			err = e.s.Post(url, "text/plain", bytes.NewBufferString("b")).Err
		case "Put":
			err = e.s.Put(url, "text/plain", bytes.NewBufferString("b")).Err
		case "Patch":
			err = e.s.Patch(url, "text/plain", bytes.NewBufferString("b")).Err
		case "APIGet":
			api := network.NewSimpleAPIWithSimpleHTTP("http://stub.invalid", e.s)
			var target map[string]interface{}
			err = network.APIMakeGet[map[string]interface{}](api, "x")(nil, &target).Eval().Err
		case "APIPost":
			api := network.NewSimpleAPIWithSimpleHTTP("http://stub.invalid", e.s)
			var target map[string]interface{}
			err = network.APIMakePostJSONBody[map[string]int, map[string]interface{}](api, "x")(nil, map[string]int{"a": 1}, &target).Eval().Err
		default:
			panic("verb " + c.Verb)
		}
		o.Err = err != nil
		o.Log = append([]int{}, e.log...)
		o.Seen = append([]int{}, e.seen...)
	}
	return o
}

// two SimpleHTTP instances built from the SAME interceptor slice (with spare capacity): each has its own registration list - what
// one instance adds, removes or clears is never seen by the other (HTTPChain!Judge applied per instance)
type c18SibStep struct {
	Inst int     `json:"inst"`
	C    c18Call `json:"c"`
	O    c18Obs  `json:"o"`
}

func c18Siblings(w *ndWriter) int {
	n := 0
	type st struct {
		inst int
		c    c18Call
	}
	req := func(i int) st { return st{i, c18Call{Op: "Request", Verb: "Get"}} }
	scripts := [][]st{
		{{1, c18Call{Op: "Clear"}}, {1, c18Call{Op: "Add", Xs: []int{3}}}, req(2), req(1)},
		{{1, c18Call{Op: "Add", Xs: []int{3}}}, {2, c18Call{Op: "Add", Xs: []int{4}}}, req(1), req(2)},
		{{1, c18Call{Op: "Remove", Xs: []int{1}}}, req(2), req(1)},
		{{2, c18Call{Op: "Add", Xs: []int{5}}}, {1, c18Call{Op: "Add", Xs: []int{6}}}, {1, c18Call{Op: "Add", Xs: []int{3}}}, req(2), req(1), {1, c18Call{Op: "Clear"}}, req(2), req(1)},
		{req(1), {2, c18Call{Op: "Clear"}}, {2, c18Call{Op: "Add", Xs: []int{4, 4}}}, req(1), req(2)},
	}
	for _, capExtra := range []int{0, 2, 6} {
		for _, initLen := range []int{1, 2, 3} {
			for _, sc := range scripts {
				e := newC18Env()
				base := make([]*network.Interceptor, initLen, initLen+capExtra)
				init := []int{}
				for i := 0; i < initLen; i++ {
					base[i] = e.ics[i+1]
					init = append(init, i+1)
				}
				inst := map[int]*network.SimpleHTTPDef{
					1: network.NewSimpleHTTPWithClientAndInterceptors(e.clients[1], base...),
					2: network.NewSimpleHTTPWithClientAndInterceptors(e.clients[2], base...),
				}
				steps := []c18SibStep{}
				for _, x := range sc {
					c := x.c
					normC18(&c)
					e.s = inst[x.inst]
					steps = append(steps, c18SibStep{Inst: x.inst, C: c, O: e.do(&c)})
				}
				w.write(map[string]interface{}{"part": "siblings", "init": init, "steps": steps, "how": "one-slice"})
				n++
			}
		}
	}
	// default constructors: NewSimpleHTTP() / NewSimpleAPI() build their own client over http.DefaultTransport (replaced by the stub for
	// the duration): instances made this way are as independent as any others
	failReq := func(i int, fail ...int) st { return st{i, c18Call{Op: "Request", Verb: "Get", Fail: fail}} }
	dscripts := append(append([][]st{}, scripts...),
		[]st{{1, c18Call{Op: "Add", Xs: []int{1}}}, {2, c18Call{Op: "Add", Xs: []int{2}}}, failReq(2, 1), failReq(1, 2), failReq(1, 1)},
		[]st{{2, c18Call{Op: "Add", Xs: []int{2, 3}}}, req(1), {1, c18Call{Op: "Add", Xs: []int{1}}}, req(2), req(1)})
	for _, how := range []string{"NewSimpleHTTP", "NewSimpleAPI"} {
		for _, sc := range dscripts {
			e := newC18Env()
			old := http.DefaultTransport
			http.DefaultTransport = &stubTransport{env: e, body: `{"ok":true}`}
			mk := func() *network.SimpleHTTPDef {
				if how == "NewSimpleAPI" {
					return network.NewSimpleAPI("http://stub.invalid").GetSimpleHTTP()
				}
				return network.NewSimpleHTTP()
			}
			inst := map[int]*network.SimpleHTTPDef{1: mk(), 2: mk()}
			steps := []c18SibStep{}
			for _, x := range sc {
				c := x.c
				normC18(&c)
				e.s = inst[x.inst]
				steps = append(steps, c18SibStep{Inst: x.inst, C: c, O: e.do(&c)})
			}
			http.DefaultTransport = old
			w.write(map[string]interface{}{"part": "siblings", "init": []int{}, "steps": steps, "how": how})
			n++
		}
	}
	// nested requests: interceptor 9 makes a request of its own through the SAME SimpleHTTP while the outer one is in flight (a token
	// refresh); the nested request runs the whole chain like any other (9 does not nest again: it sees its own X-Nested header)
	type ctxKey struct{}
	for _, ctxHow := range []string{"outer", "derived", "background"} {
		for _, ics := range [][]int{{9}, {1, 9}, {9, 2}, {1, 9, 2}, {1, 2, 9, 3}} {
			e := newC18Env()
			nestedErr := false
			nine := network.Interceptor(func(r *http.Request) error {
				e.calls++
				if e.calls > 200 {
					panic("runaway interceptor chain")
				}
				e.log = append(e.log, 9)
				r.Header.Add("X-Seen", "9")
				if r.Header.Get("X-Nested") == "" {
					var ctx context.Context
					switch ctxHow {
					case "outer":
						ctx = r.Context()
					case "derived":
						ctx = context.WithValue(r.Context(), ctxKey{}, 1)
					default:
						ctx = context.Background()
					}
					if res := e.s.DoNewRequest(ctx, http.Header{"X-Nested": []string{"1"}}, "GET", "http://stub.invalid/token"); res.Err != nil {
						nestedErr = true
					}
				}
				return nil
			})
			e.ics[9] = &nine
			ptrs := []*network.Interceptor{}
			for _, id := range ics {
				ptrs = append(ptrs, e.ics[id])
			}
			e.s = network.NewSimpleHTTPWithClientAndInterceptors(e.clients[1], ptrs...)
			c := c18Call{Op: "Request", Verb: "Get"}
			normC18(&c)
			o := e.do(&c)
			w.write(map[string]interface{}{"part": "nested", "init": ics, "steps": []c18SibStep{{Inst: 1, C: c, O: o}}, "how": ctxHow, "nestedErr": nestedErr})
			n++
		}
	}
	return n
}

func normC18(c *c18Call) {
	if c.Xs == nil {
		c.Xs = []int{}
	}
	if c.Fail == nil {
		c.Fail = []int{}
	}
}

func c18Main(args []string) error {
	debug.SetMaxStack(64 << 20) // an unbounded transport recursion must die quickly (the crash is the observation)
	switch args[0] {
	case "siblings":
		w, err := newNDWriter(flagVal(args, "out", "c18.sib.ndjson"))
		if err != nil {
			return err
		}
		defer w.close()
		fmt.Printf("{\"runs\":%d}\n", c18Siblings(w))
		return nil
	case "exec": // exec <histories.ndjson> --out prefix
		prefix := flagVal(args, "out", "c18.trace")
		maxl := flagInt(args, "maxlines", 120000)
		var w *ndWriter
		var files []string
		n, hists := 0, 0
		err := readLines(args[1], func(b []byte) error {
			b, err := unquoteTLA(b)
			if err != nil {
				return err
			}
			var h []c18Call
			if err := json.Unmarshal(b, &h); err != nil {
				return err
			}
			if w == nil || w.n >= maxl {
				if w != nil {
					w.close()
				}
				name := fmt.Sprintf("%s.%03d.ndjson", prefix, len(files)+1)
				if w, err = newNDWriter(name); err != nil {
					return err
				}
				files = append(files, name)
			}
			fmt.Fprintf(os.Stderr, "H %s\n", string(b))
			env := newC18Env()
			for i := range h {
				normC18(&h[i])
				w.write(c18Line{D: i + 1, C: h[i], O: env.do(&h[i])})
				n++
			}
			hists++
			return nil
		})
		if err != nil {
			return err
		}
		if w != nil {
			w.close()
		}
		b, _ := json.Marshal(map[string]interface{}{"files": files, "events": n, "histories": hists})
		fmt.Println(string(b))
		return nil
	case "random": // long random histories with up to 6 interceptors
		nh, ln := flagInt(args, "n", 300), flagInt(args, "len", 20)
		w, err := newNDWriter(flagVal(args, "out", "c18.rand.ndjson"))
		if err != nil {
			return err
		}
		defer w.close()
		rng := rand.New(rand.NewSource(int64(envInt("VERIF_SEED", 1))))
		verbs := []string{"Get", "Head", "Options", "Delete", "Post", "Put", "Patch", "APIGet", "APIPost"}
		ids := func(k int) []int {
			r := make([]int, 1+rng.Intn(k))
			for i := range r {
				r[i] = 1 + rng.Intn(6)
			}
			return r
		}
		n := 0
		for h := 0; h < nh; h++ {
			env := newC18Env()
			for d := 1; d <= ln; d++ {
				var c c18Call
				switch x := rng.Intn(10); {
				case x < 3:
					c = c18Call{Op: "Add", Xs: ids(3)}
				case x < 5:
					c = c18Call{Op: "Remove", Xs: ids(2)}
				case x == 5:
					if rng.Intn(3) == 0 {
						c = c18Call{Op: "Clear"}
					} else {
						c = c18Call{Op: "SetClient", C: 1 + rng.Intn(3)}
					}
				default:
					c = c18Call{Op: "Request", Verb: verbs[rng.Intn(len(verbs))]}
					if rng.Intn(2) == 0 {
						c.Fail = []int{1 + rng.Intn(6)}
					}
				}
				normC18(&c)
				w.write(c18Line{D: d, C: c, O: env.do(&c)})
				n++
			}
		}
		fmt.Printf("{\"events\":%d,\"histories\":%d}\n", n, nh)
		return nil
	}
	return fmt.Errorf("c18: exec|random")
}
