//go:build verif

package main

import (
	"encoding/json"
	"fmt"
	"math"
	"math/rand"
	"reflect"

	fpgo "github.com/TeaEntityLab/fpGo/v2"
)

// C19 — sorting.  Vocabulary shared with Sorting.tla: elements travel as [k1, k2, k3, tag].

func init() { commands["c19"] = c19Main }

type c19Desc struct {
	Key string `json:"key"`
	Asc bool   `json:"asc"`
	Via string `json:"via"`
	Ty  string `json:"ty"`
}

type c19Case struct {
	Fn  string    `json:"fn"`
	Cmp string    `json:"cmp"`
	Ds  []c19Desc `json:"ds"`
	In  [][4]int  `json:"in"`
}

type c19Line struct {
	c19Case
	Out     [][4]int `json:"out"`
	InAfter [][4]int `json:"inAfter"`
	Kind    string   `json:"kind"`
}

// SRec is the record type sorted by the descriptor functions (exported fields: FieldByName + Interface()).
type SRec struct {
	K1, K2, K3 fpgo.ComparableOrdered[int]
	S1, S2, S3 fpgo.ComparableString
	Tag        int
}

func keyStr(v int) string { return string(rune('a' + v)) }

// wide mode: the abstract key values travel as extreme ints (an order-preserving map), so that a comparison made by
// subtraction or through a narrower type shows; the output is mapped back before TLC sees it
var c19Wide bool
var c19WideVals = []int{math.MinInt64, math.MinInt64 + 1, 7, math.MaxInt64} // keys of the random records are 1..3

func wideOf(v int) int {
	if c19Wide && v >= 0 && v < len(c19WideVals) {
		return c19WideVals[v]
	}
	return v
}
func narrowOf(v int) int {
	if c19Wide {
		for i, x := range c19WideVals {
			if x == v {
				return i
			}
		}
	}
	return v
}
func mkRec(e [4]int) SRec {
	return SRec{K1: fpgo.NewComparableOrdered(wideOf(e[0])), K2: fpgo.NewComparableOrdered(wideOf(e[1])), K3: fpgo.NewComparableOrdered(wideOf(e[2])),
		S1: fpgo.NewComparableString(keyStr(e[0])), S2: fpgo.NewComparableString(keyStr(e[1])), S3: fpgo.NewComparableString(keyStr(e[2])), Tag: e[3]}
}
func unRec(r SRec) [4]int {
	return [4]int{narrowOf(r.K1.Val), narrowOf(r.K2.Val), narrowOf(r.K3.Val), r.Tag}
}
func recs(in [][4]int) []SRec {
	r := make([]SRec, len(in), len(in)+2)
	for i, e := range in {
		r[i] = mkRec(e)
	}
	return r
}
func unRecs(rs []SRec) [][4]int {
	r := make([][4]int, len(rs))
	for i, x := range rs {
		r[i] = unRec(x)
	}
	return r
}

func c19Less(cmp string) func(a, b SRec) bool {
	switch cmp {
	case "k1Asc":
		return func(a, b SRec) bool { return a.K1.Val < b.K1.Val }
	case "k1Desc":
		return func(a, b SRec) bool { return a.K1.Val > b.K1.Val }
	case "lexK1K2":
		return func(a, b SRec) bool {
			return a.K1.Val < b.K1.Val || (a.K1.Val == b.K1.Val && a.K2.Val < b.K2.Val)
		}
	case "never":
		return func(a, b SRec) bool { return false }
	}
	panic("cmp " + cmp)
}

// c19Add appends one descriptor to a builder (the builder methods return the extended builder)
func c19Add(b fpgo.SortDescriptorsBuilder[SRec], d c19Desc) fpgo.SortDescriptorsBuilder[SRec] {
	field := map[string]string{"k1": "1", "k2": "2", "k3": "3"}[d.Key]
	if d.Ty == "ordered" {
		field = "K" + field
	} else {
		field = "S" + field
	}
	if d.Via == "field" {
		return b.ThenWithFieldName(field, d.Asc)
	}
	return b.ThenWithTransformerFunctor(func(r SRec) fpgo.Comparable[interface{}] {
		switch field {
		case "K1":
			return r.K1
		case "K2":
			return r.K2
		case "K3":
			return r.K3
		case "S1":
			return r.S1
		case "S2":
			return r.S2
		}
		return r.S3
	}, d.Asc)
}

// The stack is built as  prefix.Then(last)  and then TWO MORE stacks are derived from the same prefix builder (the last
// descriptor with the opposite direction, and a different key): builders derived from a common prefix are independent, so the
// stack returned here must still sort by its own descriptors.
func c19Builder(ds []c19Desc) fpgo.SortDescriptorsBuilder[SRec] {
	b := fpgo.NewSortDescriptorsBuilder[SRec]()
	if len(ds) == 0 {
		return b
	}
	for _, d := range ds[:len(ds)-1] {
		b = c19Add(b, d)
	}
	last := ds[len(ds)-1]
	s1 := c19Add(b, last)
	flipped := last
	flipped.Asc = !last.Asc
	_ = c19Add(b, flipped)
	other := last
	other.Key = map[string]string{"k1": "k2", "k2": "k3", "k3": "k1"}[last.Key]
	_ = c19Add(b, other)
	return s1
}

// a second record type with the SAME field names at DIFFERENT positions: sorting it by field name right before the judged call must
// not influence how SRec's fields are found (field lookup is per type)
type SRecM struct {
	Tag        int
	S3, S2, S1 fpgo.ComparableString
	K3, K2, K1 fpgo.ComparableOrdered[int]
}

func c19Decoy(ds []c19Desc) {
	defer func() { recover() }()
	b := fpgo.NewSortDescriptorsBuilder[SRecM]()
	n := 0
	for _, d := range ds {
		if d.Via != "field" {
			continue
		}
		field := map[string]string{"k1": "1", "k2": "2", "k3": "3"}[d.Key]
		if d.Ty == "ordered" {
			field = "K" + field
		} else {
			field = "S" + field
		}
		b = b.ThenWithFieldName(field, d.Asc)
		n++
	}
	if n == 0 {
		return
	}
	mk := func(a, bb, c, tag int) SRecM {
		return SRecM{Tag: tag, K1: fpgo.NewComparableOrdered(a), K2: fpgo.NewComparableOrdered(bb), K3: fpgo.NewComparableOrdered(c),
			S1: fpgo.NewComparableString(keyStr(a)), S2: fpgo.NewComparableString(keyStr(bb)), S3: fpgo.NewComparableString(keyStr(c))}
	}
	b.ToSortedList(mk(2, 1, 2, 1), mk(1, 2, 1, 2), mk(2, 2, 1, 3))
}

func c19Exec(c *c19Case) (l c19Line) {
	l.c19Case = *c
	if l.Ds == nil {
		l.Ds = []c19Desc{}
	}
	l.Out, l.InAfter, l.Kind = [][4]int{}, [][4]int{}, "ok"
	defer func() {
		if p := recover(); p != nil {
			l.Kind = "panic"
		}
	}()
	in := recs(c.In)
	switch c.Fn {
	case "Sort":
		fpgo.Sort(c19Less(c.Cmp), in)
		l.Out, l.InAfter = unRecs(in), unRecs(in)
	case "SortSlice":
		out := fpgo.SortSlice(c19Less(c.Cmp), in...)
		l.Out, l.InAfter = unRecs(out), unRecs(in)
	case "Stream.Sort":
		s := fpgo.StreamFromArray(in)
		r := s.Sort(c19Less(c.Cmp))
		// the input "afterwards" is looked at through the caller's slice, which the stream was made from without a copy: Sort works
		// on a clone, so neither the stream nor anything else over the same records may have moved
		l.Out, l.InAfter = unRecs([]SRec(*r)), unRecs(in)
		if !reflect.DeepEqual(unRecs([]SRec(*s)), c.In) {
			l.InAfter = unRecs([]SRec(*s))
		}
	case "Stream.SortByIndex":
		s := fpgo.StreamFromArray(in)
		less := c19Less(c.Cmp)
		r := s.SortByIndex(func(i, j int) bool { return less((*s)[i], (*s)[j]) })
		l.Out, l.InAfter = unRecs([]SRec(*r)), unRecs([]SRec(*s))
	case "StreamI.Sort", "StreamI.SortByIndex":
		ii := make([]interface{}, len(in), len(in)+2)
		for i := range in {
			ii[i] = in[i]
		}
		s := fpgo.StreamForInterface.FromArray(ii)
		less := c19Less(c.Cmp)
		var r *fpgo.StreamForInterfaceDef
		if c.Fn == "StreamI.Sort" {
			r = s.Sort(func(a, b interface{}) bool { return less(a.(SRec), b.(SRec)) })
		} else {
			r = s.SortByIndex(func(i, j int) bool { return less((*s)[i].(SRec), (*s)[j].(SRec)) })
		}
		for _, x := range *r {
			l.Out = append(l.Out, unRec(x.(SRec)))
		}
		for _, x := range *s {
			l.InAfter = append(l.InAfter, unRec(x.(SRec)))
		}
		if c.Fn == "StreamI.Sort" && reflect.DeepEqual(l.InAfter, c.In) { // as above: through the caller's slice
			l.InAfter = [][4]int{}
			for _, x := range ii {
				l.InAfter = append(l.InAfter, unRec(x.(SRec)))
			}
		}
	case "SortOrdered", "SortOrderedAscending", "SortOrderedDescending":
		asc := c.Cmp == "valAsc"
		if c.Ds[0].Ty == "int" {
			vals := make([]int, len(c.In))
			for i, e := range c.In {
				vals[i] = e[0]
			}
			var out []int
			switch c.Fn {
			case "SortOrdered":
				out = fpgo.SortOrdered(asc, vals...)
			case "SortOrderedAscending":
				out = fpgo.SortOrderedAscending(vals...)
			default:
				out = fpgo.SortOrderedDescending(vals...)
			}
			// plain values carry no identity: tags are re-attached by matching equal values in input order
			l.Out, l.InAfter = retag(c.In, out), retag(c.In, vals)
		} else {
			vals := make([]string, len(c.In))
			for i, e := range c.In {
				vals[i] = keyStr(e[0])
			}
			var out []string
			switch c.Fn {
			case "SortOrdered":
				out = fpgo.SortOrdered(asc, vals...)
			case "SortOrderedAscending":
				out = fpgo.SortOrderedAscending(vals...)
			default:
				out = fpgo.SortOrderedDescending(vals...)
			}
			un := func(ss []string) []int {
				r := make([]int, len(ss))
				for i, s := range ss {
					r[i] = int(s[0] - 'a')
				}
				return r
			}
			l.Out, l.InAfter = retag(c.In, un(out)), retag(c.In, un(vals))
		}
	case "SortBySortDescriptors":
		c19Decoy(c.Ds)
		fpgo.SortBySortDescriptors(c19Builder(c.Ds).GetSortDescriptors(), in)
		l.Out, l.InAfter = unRecs(in), unRecs(in)
	case "Builder.Sort":
		c19Decoy(c.Ds)
		c19Builder(c.Ds).Sort(in)
		l.Out, l.InAfter = unRecs(in), unRecs(in)
	case "SortedListBySortDescriptors":
		c19Decoy(c.Ds)
		out := fpgo.SortedListBySortDescriptors(c19Builder(c.Ds).GetSortDescriptors(), in...)
		l.Out, l.InAfter = unRecs(out), unRecs(in)
	case "Builder.ToSortedList":
		c19Decoy(c.Ds)
		out := c19Builder(c.Ds).ToSortedList(in...)
		l.Out, l.InAfter = unRecs(out), unRecs(in)
		if len(out) > 0 { // the returned list must not be the caller's slice
			out[0].Tag = -5
			if len(in) > 0 && in[0].Tag == -5 {
				l.InAfter[0][3] = -5
			}
		}
	default:
		panic("c19 fn " + c.Fn)
	}
	if l.Out == nil {
		l.Out = [][4]int{}
	}
	if l.InAfter == nil {
		l.InAfter = [][4]int{}
	}
	return l
}

// retag gives each plain value of vals the tag of the first not yet used input element with that value
func retag(in [][4]int, vals []int) [][4]int {
	used := make([]bool, len(in))
	out := make([][4]int, 0, len(vals))
	for _, v := range vals {
		tag := -1
		for i, e := range in {
			if !used[i] && e[0] == v {
				used[i], tag = true, e[3]
				break
			}
		}
		out = append(out, [4]int{v, 0, 0, tag})
	}
	return out
}

func c19Main(args []string) error {
	switch args[0] {
	case "exec":
		prefix := flagVal(args, "out", "c19.trace")
		maxl := flagInt(args, "maxlines", 40000)
		var w *ndWriter
		var files []string
		n := 0
		for _, f := range args[1:] {
			if f == "--out" || f == "--maxlines" {
				break
			}
			err := readLines(f, func(b []byte) error {
				var c c19Case
				if err := json.Unmarshal(b, &c); err != nil {
					return err
				}
				if w == nil || w.n >= maxl {
					if w != nil {
						w.close()
					}
					name := fmt.Sprintf("%s.%03d.ndjson", prefix, len(files)+1)
					var err error
					if w, err = newNDWriter(name); err != nil {
						return err
					}
					files = append(files, name)
				}
				w.write(c19Exec(&c))
				n++
				return nil
			})
			if err != nil {
				return err
			}
		}
		if w != nil {
			w.close()
		}
		b, _ := json.Marshal(map[string]interface{}{"files": files, "events": n})
		fmt.Println(string(b))
		return nil
	case "record": // random longer lists (ties everywhere; lengths beyond the small-slice path of the sort)
		n := flagInt(args, "n", 2000)
		w, err := newNDWriter(flagVal(args, "out", "c19.rand.ndjson"))
		if err != nil {
			return err
		}
		defer w.close()
		rng := rand.New(rand.NewSource(int64(envInt("VERIF_SEED", 1))))
		cmpFns := []string{"Sort", "SortSlice", "Stream.Sort", "StreamI.Sort", "Stream.SortByIndex", "StreamI.SortByIndex"}
		descFns := []string{"SortBySortDescriptors", "Builder.Sort", "SortedListBySortDescriptors", "Builder.ToSortedList"}
		cmps := []string{"k1Asc", "k1Desc", "lexK1K2", "never"}
		keys := []string{"k1", "k2", "k3"}
		for k := 0; k < n; k++ {
			ln := rng.Intn(40)
			c := c19Case{Ds: []c19Desc{}}
			for i := 0; i < ln; i++ {
				k1 := 1 + rng.Intn(3)
				c.In = append(c.In, [4]int{k1, 1 + rng.Intn(3), 1 + rng.Intn(3), i + 1})
			}
			if c.In == nil {
				c.In = [][4]int{}
			}
			if rng.Intn(2) == 0 {
				c.Fn, c.Cmp = cmpFns[rng.Intn(len(cmpFns))], cmps[rng.Intn(len(cmps))]
			} else {
				c.Fn, c.Cmp = descFns[rng.Intn(len(descFns))], "-"
				perm := rng.Perm(3)
				for j := 0; j < 1+rng.Intn(3); j++ {
					c.Ds = append(c.Ds, c19Desc{Key: keys[perm[j]], Asc: rng.Intn(2) == 0, Via: []string{"functor", "field"}[rng.Intn(2)], Ty: []string{"ordered", "string"}[rng.Intn(2)]})
				}
			}
			c19Wide = k%2 == 1
			w.write(c19Exec(&c))
			c19Wide = false
		}
		fmt.Printf("{\"events\":%d}\n", n)
		return nil
	}
	return fmt.Errorf("c19: exec|record")
}
