//go:build verif

package main

import (
	"encoding/json"
	"errors"
	"fmt"
	"io"
	"net/http"
	"net/url"
	"sort"
	"strings"

	"github.com/TeaEntityLab/fpGo/v2/network"
)

// C17 — SimpleAPI.  Vocabulary shared with SimpleAPI.tla.  Stub RoundTripper (c18.go), tagging serializers.

func init() { commands["c17"] = c17Main }

type c17Seg struct {
	T string `json:"t"`
	S string `json:"s"`
}
type c17Case struct {
	Ctor   string      `json:"ctor"`
	M      string      `json:"m"`
	Tmpl   []c17Seg    `json:"tmpl"`
	Params [][2]string `json:"params"`
	Hdr    [][2]string `json:"hdr"`
	HdrNil bool        `json:"hdrNil"`
	Fault  string      `json:"fault"`
	Evals  int         `json:"evals"`
	Body   string      `json:"body"`
}
type c17Req struct {
	Method string      `json:"method"`
	URL    string      `json:"url"`
	Ct     []string    `json:"ct"`
	Hdr    [][2]string `json:"hdr"`
	Body   string      `json:"body"`
}
type c17Res struct {
	Err    bool   `json:"err"`
	Target string `json:"target"`
	Panic  bool   `json:"panic"`
}

func hdrPairs(h http.Header) [][2]string {
	r := [][2]string{}
	for k, vs := range h {
		if k == "Content-Type" || k == "X-Mut" || k == "X-Seen" {
			continue
		}
		for _, v := range vs {
			r = append(r, [2]string{k, v})
		}
	}
	sort.Slice(r, func(i, j int) bool { return r[i][0] < r[j][0] || (r[i][0] == r[j][0] && r[i][1] < r[j][1]) })
	return r
}

// body values of other types than string: the request body is the serializer's output for exactly the body that was given -
// also for a nil slice, a nil map, an empty slice, an empty map (JSONBodySerializer would write null / [] / {})
type c17BodyOut struct {
	Part  string `json:"part"`
	Ctor  string `json:"ctor"`
	Kind  string `json:"kind"`
	Calls int    `json:"calls"` // serializer invocations during one evaluation
	Seen  string `json:"seen"`  // what the serializer was given
	Body  string `json:"body"`  // body the transport received
	Err   bool   `json:"err"`
	// part "defaults" (default serializers): per call the expected and the received request body; was every response decoded into its target?
	Pairs   []c17Pair `json:"pairs"`
	Decoded bool      `json:"decoded"`
}

func c17BodyKinds(w *ndWriter) int {
	n := 0
	one := func(ctor, kind string, run func(api *network.SimpleAPIDef) (func() bool, error)) {
		env := &c18Env{}
		st := &stubTransport{env: env, body: "RESP"}
		s := network.NewSimpleHTTPWithClientAndInterceptors(&http.Client{Transport: st})
		api := network.NewSimpleAPIWithSimpleHTTP("http://stub.invalid", s)
		o := c17BodyOut{Part: "bodykind", Ctor: ctor, Kind: kind, Pairs: []c17Pair{}}
		api.RequestSerializerForJSON = func(body interface{}) (io.Reader, error) {
			o.Calls++
			o.Seen = fmt.Sprintf("%T:%v", body, body)
			return strings.NewReader("SER:" + fmt.Sprintf("%v", body)), nil
		}
		api.ResponseDeserializer = func(body []byte, target interface{}) (interface{}, error) { return target, nil }
		eval, _ := run(api)
		o.Err = eval()
		if len(env.captured) > 0 {
			o.Body = env.captured[len(env.captured)-1].Body
		}
		w.write(o)
		n++
	}
	var target string
	post := func(kind string) {
		switch kind {
		case "nilslice":
			var b []string
			one("PostJSON", kind, func(api *network.SimpleAPIDef) (func() bool, error) {
				m := network.APIMakePostJSONBody[[]string, string](api, "/x")(network.PathParam{}, b, &target)
				return func() bool { return m.Eval().Err != nil }, nil
			})
		case "emptyslice":
			one("PutJSON", kind, func(api *network.SimpleAPIDef) (func() bool, error) {
				m := network.APIMakePutJSONBody[[]string, string](api, "/x")(network.PathParam{}, []string{}, &target)
				return func() bool { return m.Eval().Err != nil }, nil
			})
		case "nilmap":
			var b map[string]int
			one("PatchJSON", kind, func(api *network.SimpleAPIDef) (func() bool, error) {
				m := network.APIMakePatchJSONBody[map[string]int, string](api, "/x")(network.PathParam{}, b, &target)
				return func() bool { return m.Eval().Err != nil }, nil
			})
		case "emptymap":
			one("PostJSON", kind, func(api *network.SimpleAPIDef) (func() bool, error) {
				m := network.APIMakePostJSONBody[map[string]int, string](api, "/x")(network.PathParam{}, map[string]int{}, &target)
				return func() bool { return m.Eval().Err != nil }, nil
			})
		case "slice":
			one("PostJSON", kind, func(api *network.SimpleAPIDef) (func() bool, error) {
				m := network.APIMakePostJSONBody[[]string, string](api, "/x")(network.PathParam{}, []string{"a", "b"}, &target)
				return func() bool { return m.Eval().Err != nil }, nil
			})
		case "zeroint":
			one("PostJSON", kind, func(api *network.SimpleAPIDef) (func() bool, error) {
				m := network.APIMakePostJSONBody[int, string](api, "/x")(network.PathParam{}, 0, &target)
				return func() bool { return m.Eval().Err != nil }, nil
			})
		case "custom-nilslice":
			var b []string
			one("WithBodySerializer", kind, func(api *network.SimpleAPIDef) (func() bool, error) {
				m := network.APIMakeDoNewRequestWithBodySerializer[[]string, string](api, "POST", "/x", "text/x-custom", api.RequestSerializerForJSON)(network.PathParam{}, b, &target)
				return func() bool { return m.Eval().Err != nil }, nil
			})
		}
	}
	for _, k := range []string{"nilslice", "emptyslice", "nilmap", "emptymap", "slice", "zeroint", "custom-nilslice"} {
		post(k)
	}
	return n
}

func c17Exec(c *c17Case) map[string]interface{} {
	env := &c18Env{}
	st := &stubTransport{env: env, body: "RESP", fail: c.Fault == "transport"}
	client := &http.Client{Transport: st}
	mut := network.Interceptor(func(r *http.Request) error { r.Header.Set("X-Mut", "1"); return nil }) // a header change on the request must not reach DefaultHeader
	s := network.NewSimpleHTTPWithClientAndInterceptors(client, &mut)
	api := network.NewSimpleAPIWithSimpleHTTP("http://stub.invalid", s)
	if !c.HdrNil {
		api.DefaultHeader = http.Header{}
		for _, p := range c.Hdr {
			api.DefaultHeader.Add(p[0], p[1])
		}
	}
	serErr := c.Fault == "ser"
	api.RequestSerializerForJSON = func(body interface{}) (io.Reader, error) {
		if serErr {
			return nil, errors.New("ser failed")
		}
		return strings.NewReader("SER:" + fmt.Sprint(body)), nil
	}
	mpSer := func(form *network.MultipartForm) (io.Reader, string, error) {
		if serErr {
			return nil, "", errors.New("ser failed")
		}
		return strings.NewReader("MP:" + form.Value["k"][0]), "multipart/x; boundary=b", nil
	}
	api.RequestSerializerForMultipart = mpSer
	api.ResponseDeserializer = func(body []byte, target interface{}) (interface{}, error) {
		switch c.Fault {
		case "decode":
			return target, errors.New("decode failed")
		case "decodeNilErr":
			return nil, errors.New("decode failed")
		}
		*(target.(*string)) = "DES:" + string(body)
		return target, nil
	}
	tmpl := ""
	for _, sg := range c.Tmpl {
		if sg.T == "lit" {
			tmpl += sg.S
		} else {
			tmpl += "{" + sg.S + "}"
		}
	}
	params := network.PathParam{}
	for _, p := range c.Params {
		params[p[0]] = p[1]
	}
	out := map[string]interface{}{"case": c}
	var target string
	form := &network.MultipartForm{Value: map[string][]string{"k": {c.Body}}}
	type evalFn func() (bool, bool) // (err, panicked)
	var mk func() evalFn
	wrapNoBody := func(f network.APINoBody[string]) func() evalFn {
		return func() evalFn {
			m := f(params, &target)
			return func() (e bool, p bool) {
				defer func() {
					if r := recover(); r != nil {
						p = true
					}
				}()
				return m.Eval().Err != nil, false
			}
		}
	}
	wrapBody := func(f network.APIHasBody[string, string]) func() evalFn {
		return func() evalFn {
			m := f(params, c.Body, &target)
			return func() (e bool, p bool) {
				defer func() {
					if r := recover(); r != nil {
						p = true
					}
				}()
				return m.Eval().Err != nil, false
			}
		}
	}
	wrapMP := func(f network.APIMultipart[string]) func() evalFn {
		return func() evalFn {
			m := f(params, form, &target)
			return func() (e bool, p bool) {
				defer func() {
					if r := recover(); r != nil {
						p = true
					}
				}()
				return m.Eval().Err != nil, false
			}
		}
	}
	switch c.Ctor {
	case "Get":
		mk = wrapNoBody(network.APIMakeGet[string](api, tmpl))
	case "Delete":
		mk = wrapNoBody(network.APIMakeDelete[string](api, tmpl))
	case "DoNewRequest":
		mk = wrapNoBody(network.APIMakeDoNewRequest[string](api, c.M, tmpl))
	case "PostJSON":
		mk = wrapBody(network.APIMakePostJSONBody[string, string](api, tmpl))
	case "PutJSON":
		mk = wrapBody(network.APIMakePutJSONBody[string, string](api, tmpl))
	case "PatchJSON":
		mk = wrapBody(network.APIMakePatchJSONBody[string, string](api, tmpl))
	case "WithBodySerializer":
		mk = wrapBody(network.APIMakeDoNewRequestWithBodySerializer[string, string](api, c.M, tmpl, "text/x-custom", api.RequestSerializerForJSON))
	case "PostMultipart":
		mk = wrapMP(network.APIMakePostMultipartBody[string](api, tmpl))
	case "PutMultipart":
		mk = wrapMP(network.APIMakePutMultipartBody[string](api, tmpl))
	case "PatchMultipart":
		mk = wrapMP(network.APIMakePatchMultipartBody[string](api, tmpl))
	case "WithMultipartSerializer":
		mk = wrapMP(network.APIMakeDoNewRequestWithMultipartSerializer[string](api, c.M, tmpl, mpSer))
	default:
		panic("ctor " + c.Ctor)
	}
	out["sentAfterMake"] = len(env.captured)
	ev := mk()
	out["sentAfterBind"] = len(env.captured)
	results := []c17Res{}
	for i := 0; i < c.Evals; i++ {
		target = ""
		e, p := ev()
		results = append(results, c17Res{Err: e, Target: target, Panic: p})
	}
	reqs := []c17Req{}
	for _, r := range env.captured {
		// the URL is compared unescaped (scheme://host + decoded path)
		u := r.URL
		if pu, err := url.Parse(u); err == nil {
			// the path as it travels, except that the braces of a placeholder left in the template are shown unescaped; a value
			// such as "a/b" must arrive as two segments (a percent-escaped "a%2Fb" is a different URL)
			u = pu.Scheme + "://" + pu.Host + strings.NewReplacer("%7B", "{", "%7D", "}", "%7b", "{", "%7d", "}").Replace(pu.EscapedPath())
		}
		ct := r.Header["Content-Type"]
		if ct == nil {
			ct = []string{}
		}
		reqs = append(reqs, c17Req{Method: r.Method, URL: u, Ct: ct, Hdr: hdrPairs(http.Header(r.Header)), Body: r.Body})
	}
	out["reqs"], out["results"] = reqs, results
	out["defaultHeaderAfter"] = hdrPairsAll(api.DefaultHeader)
	return out
}

func hdrPairsAll(h http.Header) [][2]string {
	r := [][2]string{}
	for k, vs := range h {
		for _, v := range vs {
			r = append(r, [2]string{k, v})
		}
	}
	sort.Slice(r, func(i, j int) bool { return r[i][0] < r[j][0] || (r[i][0] == r[j][0] && r[i][1] < r[j][1]) })
	return r
}

func c17Main(args []string) error {
	switch args[0] {
	case "bodykinds":
		w, err := newNDWriter(flagVal(args, "out", "c17.body.ndjson"))
		if err != nil {
			return err
		}
		defer w.close()
		fmt.Printf("{\"runs\":%d}\n", c17BodyKinds(w)+c17Defaults(w))
		return nil
	case "exec":
		w, err := newNDWriter(flagVal(args, "out", "c17.trace.ndjson"))
		if err != nil {
			return err
		}
		defer w.close()
		n := 0
		for _, f := range args[1:] {
			if f == "--out" {
				break
			}
			err := readLines(f, func(b []byte) error {
				var c c17Case
				if err := json.Unmarshal(b, &c); err != nil {
					return err
				}
				if c.Params == nil {
					c.Params = [][2]string{}
				}
				if c.Hdr == nil {
					c.Hdr = [][2]string{}
				}
				w.write(c17Exec(&c))
				n++
				return nil
			})
			if err != nil {
				return err
			}
		}
		fmt.Printf("{\"events\":%d}\n", n)
		return nil
	}
	return fmt.Errorf("c17: exec")
}
