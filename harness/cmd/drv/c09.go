//go:build verif

package main

import (
	"fmt"
	"math/rand"
	"reflect"
	"sync"
	"sync/atomic"
	"time"

	fpgo "github.com/TeaEntityLab/fpGo/v2"
	"github.com/TeaEntityLab/fpGo/v2/worker"
)

// C09 — DefaultWorkerPool.  Jobs and the panic handler are harness code.

func init() { commands["c09"] = c09Main }

type c09Job struct {
	id    int
	kind  string        // ok | panic | slow | hold
	gate  chan struct{} // hold: parked until closed by the scenario
	entry chan struct{} // hold: closed when the job has started
}

type jobPanic struct{ id int }

type c09Env struct {
	rec   *recorder
	inv   *worker.DefaultInvokable[*c09Job]
	pool  *worker.DefaultWorkerPool
	max   int
	mu    sync.Mutex
	ran   map[int]int
	stale bool // the handler installed by newC09 has been replaced
}

func newC09(max, standby, batch, C, B int) *c09Env {
	e := &c09Env{rec: &recorder{}, max: max, ran: map[int]int{}}
	q := fpgo.NewBufferedChannelQueue[func()](C, B, 4).SetLoadFromPoolDuration(50 * time.Microsecond)
	e.pool = worker.NewDefaultWorkerPool(q, nil).
		SetSpawnWorkerDuration(200 * time.Microsecond).
		SetWorkerExpiryDuration(time.Hour).
		SetWorkerJamDuration(time.Hour).
		SetScheduleRetryInterval(500 * time.Microsecond).
		SetWorkerBatchSize(batch).
		SetWorkerSizeStandBy(standby).
		SetWorkerSizeMaximum(max).
		SetPanicHandler(func(p interface{}) {
			id := 0
			if jp, ok := p.(jobPanic); ok {
				id = jp.id
			}
			if e.stale {
				e.rec.ev(E{"ev": "stalehandler", "id": id, "r": fmt.Sprint(p)})
				return
			}
			e.rec.ev(E{"ev": "handler", "id": id, "r": fmt.Sprint(p)})
		})
	return e
}

func (e *c09Env) fn(j *c09Job) func() {
	return func() {
		e.rec.ev(E{"ev": "start", "id": j.id, "r": "-"})
		e.mu.Lock()
		e.ran[j.id]++
		e.mu.Unlock()
		switch j.kind {
		case "hold":
			close(j.entry)
			<-j.gate
		case "holdpanic":
			close(j.entry)
			<-j.gate
			e.rec.ev(E{"ev": "panic", "id": j.id, "r": "-"})
			panic(jobPanic{j.id})
		case "slow":
			time.Sleep(300 * time.Microsecond)
		case "panic":
			e.rec.ev(E{"ev": "panic", "id": j.id, "r": "-"})
			panic(jobPanic{j.id})
		}
		e.rec.ev(E{"ev": "end", "id": j.id, "r": "-"})
	}
}

func schedRes(err error) string {
	switch err {
	case nil:
		return "ok"
	case worker.ErrWorkerPoolJobQueueIsFull:
		return "full"
	case worker.ErrWorkerPoolIsClosed, fpgo.ErrQueueIsClosed:
		return "closed"
	case worker.ErrWorkerPoolScheduleTimeout:
		return "timeout"
	}
	return "err"
}

func (e *c09Env) schedule(j *c09Job, how int) string {
	var err error
	switch how {
	case 1:
		err = e.pool.ScheduleWithTimeout(e.fn(j), 2*time.Millisecond)
	case 2: // through an Invokable: the callee receives the job
		err = e.invokable().InvokeWithTimeout(j, 2*time.Millisecond)
	case 3: // Invoke reports nothing
		e.invokable().Invoke(j)
		e.rec.ev(E{"ev": "sched", "id": j.id, "r": "unknown"})
		return "unknown"
	default:
		err = e.pool.Schedule(e.fn(j))
	}
	r := schedRes(err)
	e.rec.ev(E{"ev": "sched", "id": j.id, "r": r})
	return r
}

func (e *c09Env) invokable() *worker.DefaultInvokable[*c09Job] {
	e.mu.Lock()
	defer e.mu.Unlock()
	if e.inv == nil {
		e.inv = worker.NewDefaultInvokable[*c09Job](nil, nil).SetWorkerPool(e.pool).SetCallee(func(j *c09Job) { e.fn(j)() })
	}
	return e.inv
}

// wait (bounded) until every accepted job has started
func (e *c09Env) quiesce(accepted map[int]bool, wait time.Duration) {
	deadline := time.Now().Add(wait)
	for time.Now().Before(deadline) {
		e.mu.Lock()
		all := true
		for id := range accepted {
			if e.ran[id] == 0 {
				all = false
			}
		}
		e.mu.Unlock()
		if all {
			break
		}
		time.Sleep(200 * time.Microsecond)
	}
	time.Sleep(time.Millisecond)
}

func (e *c09Env) finish(w *ndWriter, name string, quiesced bool) {
	e.rec.mu.Lock()
	evs := e.rec.evs
	e.rec.mu.Unlock()
	for _, x := range evs {
		delete(x, "seq")
	}
	w.write(E{"scenario": name, "max": e.max, "kind": "ok", "quiesced": quiesced, "events": evs})
	e.pool.Close()
}

func mkJob(id int, kind string) *c09Job {
	return &c09Job{id: id, kind: kind, gate: make(chan struct{}), entry: make(chan struct{})}
}

// the only worker runs a panicking job that is held until the spawn loop has used up its wake-up tokens
func c09PanicStrand(w *ndWriter, wait time.Duration) {
	e := newC09(1, 1, 0, 4, 4)
	acc := map[int]bool{}
	j1 := mkJob(1, "holdpanic")
	if e.schedule(j1, 0) == "ok" {
		acc[1] = true
	}
	select {
	case <-j1.entry:
	case <-time.After(3 * time.Second):
	}
	for id := 2; id <= 5; id++ {
		if e.schedule(mkJob(id, "ok"), 0) == "ok" {
			acc[id] = true
		}
	}
	time.Sleep(5 * time.Millisecond) // the spawn loop consumes the pending token and finds its one worker alive
	close(j1.gate)                   // now the job panics and the worker dies
	e.quiesce(acc, wait)
	e.finish(w, "panic-strand", true)
}

// the dying worker is slow between its panic handler and the decrement of workerCount (hook delay): the spawn loop must
// still be woken AFTER the worker is uncounted, or the jobs queued behind the panicking one are stranded (variant NotifyFirst)
func c09PanicStrandSlowExit(w *ndWriter, wait time.Duration) {
	e := newC09(1, 1, 0, 4, 4)
	fpgo.VerifHook = func(point string, obj interface{}) {
		if obj == interface{}(e.pool) && point == "wp.worker.exit.pre" {
			time.Sleep(8 * time.Millisecond)
		}
	}
	defer func() { fpgo.VerifHook = nil }()
	acc := map[int]bool{}
	j1 := mkJob(1, "holdpanic")
	if e.schedule(j1, 0) == "ok" {
		acc[1] = true
	}
	select {
	case <-j1.entry:
	case <-time.After(3 * time.Second):
	}
	for id := 2; id <= 4; id++ {
		if e.schedule(mkJob(id, "ok"), 0) == "ok" {
			acc[id] = true
		}
	}
	time.Sleep(5 * time.Millisecond) // the spawn loop consumes the pending token and finds its one worker alive
	close(j1.gate)
	e.quiesce(acc, wait)
	e.finish(w, "panic-strand-slow-exit", true)
}

// two workers (maximum 2, standby 1); one idle timer fires and that worker is parked before its expiry check; a burst of held jobs
// arrives; the parked worker is released and leaves.  Never more than 2 jobs may be executing (variant LeaverPolls runs a third).
func c09ExpiryBurst(w *ndWriter, wait time.Duration) {
	e := newC09(2, 1, 1, 4, 4)
	e.pool.SetWorkerExpiryDuration(time.Millisecond)
	var arrivals int32
	arrived := make(chan struct{}, 1)
	release := make(chan struct{})
	fpgo.VerifHook = func(point string, obj interface{}) {
		if obj == interface{}(e.pool) && point == "wp.worker.expired" && atomic.AddInt32(&arrivals, 1) == 1 {
			arrived <- struct{}{}
			<-release
		}
	}
	defer func() { fpgo.VerifHook = nil }()
	acc := map[int]bool{}
	j1, j2 := mkJob(1, "hold"), mkJob(2, "hold")
	for _, j := range []*c09Job{j1, j2} {
		if e.schedule(j, 0) == "ok" {
			acc[j.id] = true
		}
	}
	ok := true
	for _, j := range []*c09Job{j1, j2} {
		select {
		case <-j.entry:
		case <-time.After(3 * time.Second):
			ok = false
		}
	}
	close(j1.gate)
	close(j2.gate) // both workers idle now; the first idle timer to fire parks its worker
	if ok {
		select {
		case <-arrived:
		case <-time.After(3 * time.Second):
			ok = false
		}
	}
	e.pool.SetWorkerExpiryDuration(time.Hour) // the other worker stays
	var held []*c09Job
	if ok {
		for id := 3; id <= 6; id++ {
			j := mkJob(id, "hold")
			held = append(held, j)
			if e.schedule(j, 0) == "ok" {
				acc[id] = true
			}
		}
		time.Sleep(3 * time.Millisecond) // the other worker holds job 3; the spawn loop finds two workers counted
	}
	close(release) // the parked worker makes its expiry check (2 > standby) and leaves
	time.Sleep(2 * time.Millisecond)
	if e.schedule(mkJob(7, "ok"), 0) == "ok" { // wakes the spawn loop: it may refill to the maximum
		acc[7] = true
	}
	time.Sleep(10 * time.Millisecond)
	for _, j := range held {
		close(j.gate)
	}
	e.quiesce(acc, wait)
	e.finish(w, "expiry-burst", ok)
}

// the panic handler is replaced while workers are alive; a job submitted AFTER the replacement panics: the report belongs to the
// handler installed at that time, not to the one the worker saw when it was spawned
func c09HandlerReplaced(w *ndWriter, wait time.Duration) {
	e := newC09(2, 2, 0, 4, 4)
	acc := map[int]bool{}
	for id := 1; id <= 2; id++ { // both workers exist and have run something
		if e.schedule(mkJob(id, "ok"), 0) == "ok" {
			acc[id] = true
		}
	}
	e.quiesce(acc, wait)
	old := e.pool
	_ = old
	e.pool.SetPanicHandler(func(p interface{}) {
		id := 0
		if jp, ok := p.(jobPanic); ok {
			id = jp.id
		}
		e.rec.ev(E{"ev": "handler", "id": id, "r": "replacement"})
	})
	e.stale = true // from now on the first handler must not be called any more
	for id := 3; id <= 6; id++ {
		kind := "ok"
		if id%2 == 1 {
			kind = "panic"
		}
		if e.schedule(mkJob(id, kind), 0) == "ok" {
			acc[id] = true
		}
	}
	e.quiesce(acc, wait)
	time.Sleep(2 * time.Millisecond)
	e.finish(w, "handler-replaced", true)
}

// a job that is still running when Close() is called panics afterwards: it is reported to the handler, and neither the pool's
// goroutines nor the process die of it
func c09CloseThenPanic(w *ndWriter, wait time.Duration) {
	e := newC09(1, 1, 0, 4, 4)
	acc := map[int]bool{}
	j1 := mkJob(1, "holdpanic")
	if e.schedule(j1, 0) == "ok" {
		acc[1] = true
	}
	select {
	case <-j1.entry:
	case <-time.After(3 * time.Second):
	}
	e.pool.Close()
	e.schedule(mkJob(2, "ok"), 0) // rejected: the pool is closed
	close(j1.gate)
	time.Sleep(10 * time.Millisecond) // a panic outside the worker's recover would have killed the process by now
	e.rec.mu.Lock()
	evs := e.rec.evs
	e.rec.mu.Unlock()
	for _, x := range evs {
		delete(x, "seq")
	}
	w.write(E{"scenario": "close-then-panic", "max": e.max, "kind": "ok", "quiesced": false, "events": evs})
}

// PreAllocWorkerSize from several goroutines while the spawn loop is woken: never more than workerSizeMaximum workers (fresh pools
// until one shows more, at most 300)
func c09PreAllocRace(w *ndWriter, wait time.Duration) {
	var last *c09Env
	for it := 0; it < 300; it++ {
		e := newC09(2, 2, 0, 8, 8)
		var wg sync.WaitGroup
		var start int32
		for g := 0; g < 6; g++ {
			wg.Add(1)
			go func(g int) {
				defer wg.Done()
				for atomic.LoadInt32(&start) == 0 {
				}
				e.pool.PreAllocWorkerSize([]int{2, 7}[g%2]) // also far beyond the maximum: the bound holds all the same
			}(g)
		}
		acc := map[int]bool{}
		var held []*c09Job
		atomic.StoreInt32(&start, 1)
		for id := 1; id <= 6; id++ {
			j := mkJob(id, "hold")
			held = append(held, j)
			if e.schedule(j, 0) == "ok" {
				acc[id] = true
			}
		}
		wg.Wait()
		time.Sleep(2 * time.Millisecond) // every worker that exists has taken a job by now
		e.mu.Lock()
		running := 0
		for _, n := range e.ran {
			running += n
		}
		e.mu.Unlock()
		for _, j := range held {
			close(j.gate)
		}
		if last != nil {
			last.pool.Close()
		}
		last = e
		if running > 2 {
			break
		}
	}
	acc := map[int]bool{}
	for id := 1; id <= 6; id++ {
		acc[id] = true
	}
	last.quiesce(acc, wait)
	last.finish(w, "prealloc-race", false)
}

// a burst of max panicking jobs, then a trickle
func c09PanicBurst(w *ndWriter, wait time.Duration) {
	e := newC09(3, 3, 0, 8, 8)
	acc := map[int]bool{}
	var held []*c09Job
	for id := 1; id <= 3; id++ {
		j := mkJob(id, "holdpanic")
		held = append(held, j)
		if e.schedule(j, 0) == "ok" {
			acc[id] = true
		}
	}
	for _, j := range held {
		select {
		case <-j.entry:
		case <-time.After(3 * time.Second):
		}
	}
	for _, j := range held {
		close(j.gate)
	}
	time.Sleep(3 * time.Millisecond)
	for id := 4; id <= 8; id++ {
		if e.schedule(mkJob(id, "ok"), 0) == "ok" {
			acc[id] = true
		}
		time.Sleep(2 * time.Millisecond)
	}
	e.quiesce(acc, wait)
	e.finish(w, "panic-burst", true)
}

// full queue + dying worker + rejected submissions
func c09FullQueue(w *ndWriter, wait time.Duration) {
	e := newC09(1, 1, 0, 1, 1)
	acc := map[int]bool{}
	p := mkJob(1, "holdpanic")
	if e.schedule(p, 0) == "ok" {
		acc[1] = true
	}
	select {
	case <-p.entry:
	case <-time.After(3 * time.Second):
	}
	for id := 2; id <= 4; id++ { // two fit (channel 1 + buffer 1), the third is rejected
		if e.schedule(mkJob(id, "ok"), 0) == "ok" {
			acc[id] = true
		}
	}
	time.Sleep(5 * time.Millisecond)
	close(p.gate)
	time.Sleep(3 * time.Millisecond)
	if e.schedule(mkJob(5, "ok"), 1) == "ok" {
		acc[5] = true
	}
	for id := 6; id <= 15; id++ {
		if e.schedule(mkJob(id, "ok"), 0) == "ok" {
			acc[id] = true
		}
	}
	e.quiesce(acc, wait)
	e.finish(w, "full-queue", true)
}

// TLC's expiry counterexample on the real pool: two idle workers are parked at the hook right after their idle timers
// fired; a job is accepted meanwhile; both are released, both see workerCount(2) > standby(1) and both leave.
func c09DoubleExpiry(w *ndWriter, wait time.Duration) {
	e := newC09(2, 1, 1, 4, 4)
	e.pool.SetWorkerExpiryDuration(time.Millisecond)
	var arrivals, exits int32
	arrived := make(chan struct{}, 4)
	release := make(chan struct{})
	decided := make(chan struct{}, 4)
	release2 := make(chan struct{})
	fpgo.VerifHook = func(point string, obj interface{}) {
		if obj != interface{}(e.pool) {
			return
		}
		switch point {
		case "wp.worker.expired": // the idle timer fired; the expiry check has not been made yet
			if atomic.AddInt32(&arrivals, 1) <= 2 {
				arrived <- struct{}{}
				<-release
			}
		case "wp.worker.exit.pre": // the worker has decided to leave; workerCount is not decremented yet
			if atomic.AddInt32(&exits, 1) <= 2 {
				decided <- struct{}{}
				<-release2
			}
		}
	}
	defer func() { fpgo.VerifHook = nil }()
	acc := map[int]bool{}
	j1, j2 := mkJob(1, "hold"), mkJob(2, "hold")
	for _, j := range []*c09Job{j1, j2} {
		if e.schedule(j, 0) == "ok" {
			acc[j.id] = true
		}
	}
	ok := true
	for _, j := range []*c09Job{j1, j2} {
		select {
		case <-j.entry:
		case <-time.After(3 * time.Second):
			ok = false
		}
	}
	close(j1.gate)
	close(j2.gate)
	for i := 0; i < 2 && ok; i++ {
		select {
		case <-arrived:
		case <-time.After(3 * time.Second):
			ok = false
		}
	}
	if ok {
		wc, wb := e.pool.VerifCounters()
		e.rec.ev(E{"ev": "note", "id": wc*10 + wb, "r": "workerCount*10+busy with both workers parked after their idle timers fired"})
		if e.schedule(mkJob(3, "ok"), 0) == "ok" {
			acc[3] = true
		}
		time.Sleep(5 * time.Millisecond) // the spawn loop uses its token and finds two workers alive
	}
	close(release)
	both := ok
	for i := 0; i < 2 && both; i++ { // both workers must have passed the workerCount > standby check before either leaves
		select {
		case <-decided:
		case <-time.After(300 * time.Millisecond):
			both = false
		}
	}
	close(release2)
	if both {
		e.quiesce(acc, wait)
	}
	e.finish(w, "double-expiry", both)
}

// the pool's settings travel through reflection: the harness must still build when a change turns the embedded settings value into a
// pointer (or back) - such a change is then judged by what the pools do, not by a compile error of the harness
func wpSettingsValue(p *worker.DefaultWorkerPool) reflect.Value {
	fv := reflect.ValueOf(p).Elem().FieldByName("DefaultWorkerPoolSettings")
	if fv.Kind() == reflect.Ptr {
		return fv.Elem()
	}
	return fv
}
func wpSettingsCopy(p *worker.DefaultWorkerPool) *worker.DefaultWorkerPoolSettings {
	c := wpSettingsValue(p).Interface().(worker.DefaultWorkerPoolSettings)
	return &c
}
func wpSetSettings(p *worker.DefaultWorkerPool, from *worker.DefaultWorkerPool) *worker.DefaultWorkerPool {
	m := reflect.ValueOf(p).MethodByName("SetDefaultWorkerPoolSettings")
	arg := wpSettingsValue(from)
	if m.Type().In(0).Kind() == reflect.Ptr {
		arg = reflect.ValueOf(wpSettingsCopy(from))
	}
	m.Call([]reflect.Value{arg})
	return p
}

// sibling pools: a second pool is configured differently while the first is alive (before and after the first has run jobs); the
// first keeps ITS maximum and ITS panic handler.  One line for the first pool.
func c09Siblings(w *ndWriter, wait time.Duration) {
	e := newC09(1, 1, 1, 4, 4)
	warm := mkJob(1, "ok")
	acc := map[int]bool{}
	if e.schedule(warm, 0) == "ok" {
		acc[1] = true
	}
	e.quiesce(acc, wait)
	other := newC09(4, 4, 1, 4, 4) // maximum 4, standby 4, its own panic handler
	defer other.pool.Close()
	holds := []*c09Job{}
	for id := 2; id <= 5; id++ {
		j := mkJob(id, "hold")
		holds = append(holds, j)
		if e.schedule(j, 0) == "ok" {
			acc[id] = true
		}
	}
	time.Sleep(8 * time.Millisecond) // with a maximum of 1 only one of them can have started
	for _, j := range holds {
		close(j.gate)
	}
	if e.schedule(mkJob(6, "panic"), 0) == "ok" { // reported to THIS pool's handler
		acc[6] = true
	}
	if e.schedule(mkJob(7, "ok"), 0) == "ok" {
		acc[7] = true
	}
	e.quiesce(acc, wait)
	time.Sleep(2 * time.Millisecond)
	other.rec.mu.Lock()
	for _, x := range other.rec.evs { // a handler call that landed in the sibling's log belongs to this pool's panic
		if x["ev"] == "handler" {
			e.rec.ev(E{"ev": "siblinghandler", "id": x["id"], "r": "-"})
		}
	}
	other.rec.mu.Unlock()
	e.finish(w, "sibling-pools", true)
}

// a panic handler that takes its time and needs the pool itself: it schedules a follow-up job and waits until that job has run.
// While it runs, the pool goes on working for everybody else ("does not keep later accepted jobs from running").
func c09HandlerNeedsPool(w *ndWriter, wait time.Duration) {
	e := newC09(3, 1, 1, 8, 8)
	acc := map[int]bool{}
	var amu sync.Mutex
	followRan := make(chan struct{})
	e.pool.SetPanicHandler(func(p interface{}) {
		id := 0
		if jp, ok := p.(jobPanic); ok {
			id = jp.id
		}
		e.rec.ev(E{"ev": "handler", "id": id, "r": fmt.Sprint(p)})
		f := mkJob(50, "ok")
		inner := e.fn(f)
		if e.pool.Schedule(func() { inner(); close(followRan) }) == nil {
			e.rec.ev(E{"ev": "sched", "id": 50, "r": "ok"})
			amu.Lock()
			acc[50] = true
			amu.Unlock()
			select {
			case <-followRan:
			case <-time.After(3 * time.Second):
				e.rec.ev(E{"ev": "starved", "id": 50, "r": "-"}) // the pool did not run an accepted job while the handler was running
			}
		}
	})
	for id := 1; id <= 2; id++ {
		if e.schedule(mkJob(id, "ok"), 0) == "ok" {
			acc[id] = true
		}
	}
	if e.schedule(mkJob(3, "panic"), 0) == "ok" {
		acc[3] = true
	}
	time.Sleep(2 * time.Millisecond)
	for id := 4; id <= 6; id++ {
		if e.schedule(mkJob(id, "ok"), 0) == "ok" {
			amu.Lock()
			acc[id] = true
			amu.Unlock()
		}
	}
	select {
	case <-followRan:
	case <-time.After(4 * time.Second):
	}
	amu.Lock()
	a2 := map[int]bool{}
	for k, v := range acc {
		a2[k] = v
	}
	amu.Unlock()
	e.quiesce(a2, wait)
	e.finish(w, "handler-needs-pool", true)
}

// a closed pool refuses: after Close has returned every submission - Schedule, ScheduleWithTimeout, InvokeWithTimeout - reports
// ErrWorkerPoolIsClosed, whether Close also closes the job queue (the default) or leaves it open
func c09ClosedPool(w *ndWriter, wait time.Duration) {
	for _, leaveOpen := range []bool{false, true} {
		e := newC09(2, 1, 1, 4, 4)
		if leaveOpen {
			e.pool.SetIsJobQueueClosedWhenClose(false)
		}
		acc := map[int]bool{}
		if e.schedule(mkJob(1, "ok"), 0) == "ok" {
			acc[1] = true
		}
		e.quiesce(acc, wait)
		e.pool.Close()
		e.rec.ev(E{"ev": "closeret", "id": 0, "r": "-"})
		for id := 2; id <= 4; id++ {
			e.schedule(mkJob(id, "ok"), id-2) // Schedule, ScheduleWithTimeout, InvokeWithTimeout
		}
		time.Sleep(3 * time.Millisecond)
		name := "closed-pool"
		if leaveOpen {
			name = "closed-pool-queue-left-open"
		}
		e.finish(w, name, false)
	}
}

func c09Stress(w *ndWriter, rng *rand.Rand, wait time.Duration) {
	max := 1 + rng.Intn(4)
	standby := 1 + rng.Intn(max)
	batch := rng.Intn(3)
	if rng.Intn(4) == 0 {
		standby, batch = 0, 1+rng.Intn(2)
	}
	C, B := 1+rng.Intn(4), rng.Intn(5)
	e := newC09(max, standby, batch, C, B)
	switch rng.Intn(5) {
	case 0: // a second pool built from the first one's settings in one call, its job queue set before any use
		q2 := fpgo.NewBufferedChannelQueue[func()](C, B, 4).SetLoadFromPoolDuration(50 * time.Microsecond)
		tmpl := e.pool
		e.pool = wpSetSettings(worker.NewDefaultWorkerPool(fpgo.NewBufferedChannelQueue[func()](1, 1, 1), nil), tmpl).SetJobQueue(q2)
		tmpl.Close()
	case 1: // workers allocated up front (never more than the maximum)
		e.pool.PreAllocWorkerSize(1 + rng.Intn(2*max)) // also beyond the maximum: the bound must hold all the same
	}
	subs := 1 + rng.Intn(3)
	per := 2 + rng.Intn(8)
	acc := map[int]bool{}
	var amu sync.Mutex
	var wg sync.WaitGroup
	for s := 0; s < subs; s++ {
		wg.Add(1)
		go func(s int, seed int64) {
			defer wg.Done()
			r := rand.New(rand.NewSource(seed))
			burst := r.Intn(2) == 0
			for i := 1; i <= per; i++ {
				id := (s+1)*100 + i
				kind := []string{"ok", "ok", "ok", "slow", "panic"}[r.Intn(5)]
				if e.schedule(mkJob(id, kind), []int{0, 0, 1, 2, 3}[r.Intn(5)]) == "ok" {
					amu.Lock()
					acc[id] = true
					amu.Unlock()
				}
				if !burst {
					time.Sleep(time.Duration(r.Intn(400)) * time.Microsecond)
				}
			}
		}(s, rng.Int63())
	}
	wg.Wait()
	e.quiesce(acc, wait)
	e.finish(w, "stress", true)
}

func c09Main(args []string) error {
	switch args[0] {
	case "record":
		w, err := newNDWriter(flagVal(args, "out", "c09.trace.ndjson"))
		if err != nil {
			return err
		}
		defer w.close()
		rounds := flagInt(args, "rounds", 40)
		wait := time.Duration(flagInt(args, "waitms", 1500)) * time.Millisecond
		rng := rand.New(rand.NewSource(int64(envInt("VERIF_SEED", 1))))
		runs := 0
		c09PanicStrand(w, wait)
		c09PanicStrandSlowExit(w, wait)
		c09HandlerReplaced(w, wait)
		c09CloseThenPanic(w, wait)
		c09PreAllocRace(w, wait)
		c09Siblings(w, wait)
		c09ClosedPool(w, wait)
		c09HandlerNeedsPool(w, wait)
		runs += 7
		c09ExpiryBurst(w, wait)
		runs += 2
		c09PanicBurst(w, wait)
		c09FullQueue(w, wait)
		c09DoubleExpiry(w, wait)
		runs += 4
		for r := 0; r < rounds; r++ {
			c09Stress(w, rng, wait)
			runs++
		}
		fmt.Printf("{\"runs\":%d}\n", runs)
		return nil
	}
	if args[0] == "hooktrace" {
		return c09HookTrace(args)
	}
	return fmt.Errorf("c09: record|hooktrace")
}
