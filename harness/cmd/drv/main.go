//go:build verif

// Command drv is the Go side of /verif: it executes TLC-generated cases and behaviours on the
// real fpGo code (direction A) and records traces of the real code for TLC to validate
// (direction B).  It contains no oracle: expected values come from the TLA+ specifications.
package main

import (
	"fmt"
	"os"
)

var commands = map[string]func(args []string) error{}

func main() {
	if len(os.Args) < 2 {
		fmt.Fprintln(os.Stderr, "usage: drv <component> <subcommand> ...")
		os.Exit(2)
	}
	f, ok := commands[os.Args[1]]
	if !ok {
		fmt.Fprintln(os.Stderr, "unknown component", os.Args[1])
		os.Exit(2)
	}
	if err := f(os.Args[2:]); err != nil {
		fmt.Fprintln(os.Stderr, "drv:", err)
		os.Exit(3)
	}
}
