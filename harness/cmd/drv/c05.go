//go:build verif

package main

import (
	"encoding/json"
	"fmt"
	"math/rand"
	"sort"

	fpgo "github.com/TeaEntityLab/fpGo/v2"
)

// C05 — set algebra and generic / interface{} twins.  Vocabulary shared with SetAlgebra.tla.
// For each call the generic function (or method) and its interface{} twin are executed on the
// same data and both projected outcomes are logged; TLC judges (laws + twin agreement).

func init() { commands["c05"] = c05Main }

type kvSeq struct {
	K int
	V []int
}

func (p *kvSeq) UnmarshalJSON(b []byte) error {
	var raw []json.RawMessage
	if err := json.Unmarshal(b, &raw); err != nil {
		return err
	}
	if len(raw) != 2 {
		return fmt.Errorf("pair expected")
	}
	if err := json.Unmarshal(raw[0], &p.K); err != nil {
		return err
	}
	return json.Unmarshal(raw[1], &p.V)
}
func (p kvSeq) MarshalJSON() ([]byte, error) {
	v := p.V
	if v == nil {
		v = []int{}
	}
	return json.Marshal([]interface{}{p.K, v})
}

type c05Case struct {
	Fam  string   `json:"fam"`
	Op   string   `json:"op"`
	N    int      `json:"n"`
	A    []int    `json:"a"`
	B    []int    `json:"b"`
	C3   []int    `json:"c3"`
	Xs   []int    `json:"xs"`
	X    int      `json:"x"`
	M    [][2]int `json:"m"`
	M2   [][2]int `json:"m2"`
	S    []kvSeq  `json:"s"`
	S2   []kvSeq  `json:"s2"`
	NilV bool     `json:"nilv"`
}

type c05Out struct {
	K string      `json:"k"`
	V interface{} `json:"v"`
}

var c05None = c05Out{"none", 0}

// interface{} family, second concretisation ("print-alike"): distinct abstract elements become values of DIFFERENT Go types that
// print the same (1, "1", int64(1); "0"; abstract 0 travels as a nil element), so an implementation that identifies elements by their printed form is told apart
// from one that uses Go equality.  The generic twin keeps plain ints; results are compared in the abstract space.
var c05Alike bool

func cI(x int) interface{} {
	if !c05Alike {
		return x
	}
	switch x {
	case 0:
		return nil // a nil element is an element like any other
	case 2:
		return "1"
	case 3:
		return int64(1)
	case 4:
		return "0"
	}
	return x
}
func aI(v interface{}) int {
	if v == nil {
		return 0
	}
	switch t := v.(type) {
	case int:
		return t
	case string:
		if t == "1" {
			return 2
		}
		return 4
	case int64:
		return 3
	}
	panic(fmt.Sprintf("aI %T", v))
}

func ints(s []int, nilV bool) []int {
	if len(s) == 0 && nilV {
		return nil
	}
	return append(make([]int, 0, len(s)+2), s...)
}
func ifaces(s []int, nilV bool) []interface{} {
	if len(s) == 0 && nilV {
		return nil
	}
	r := make([]interface{}, 0, len(s)+2)
	for _, x := range s {
		r = append(r, cI(x))
	}
	return r
}
func unIfaces(s []interface{}) []int {
	r := make([]int, len(s))
	for i, x := range s {
		r[i] = aI(x)
	}
	return r
}
func nz(s []int) []int {
	if s == nil {
		return []int{}
	}
	return s
}
func gmap(ps [][2]int, nilV bool) map[int]int {
	if len(ps) == 0 && nilV {
		return nil
	}
	m := map[int]int{}
	for _, p := range ps {
		m[p[0]] = p[1]
	}
	return m
}
func imap(ps [][2]int, nilV bool) map[interface{}]interface{} {
	if len(ps) == 0 && nilV {
		return nil
	}
	m := map[interface{}]interface{}{}
	for _, p := range ps {
		m[cI(p[0])] = p[1]
	}
	return m
}
func gpairs(m map[int]int) [][]int {
	r := make([][]int, 0, len(m))
	for k, v := range m {
		r = append(r, []int{k, v})
	}
	sort.Slice(r, func(i, j int) bool { return r[i][0] < r[j][0] })
	return r
}
func ipairs(m map[interface{}]interface{}) [][]int {
	r := make([][]int, 0, len(m))
	for k, v := range m {
		vi, _ := v.(int)
		r = append(r, []int{aI(k), vi})
	}
	sort.Slice(r, func(i, j int) bool { return r[i][0] < r[j][0] })
	return r
}
func gkeys(m map[int]int) []int {
	r := make([]int, 0, len(m))
	for k := range m {
		r = append(r, k)
	}
	sort.Ints(r)
	return r
}
func ikeys(m map[interface{}]interface{}) []int {
	r := make([]int, 0, len(m))
	for k := range m {
		r = append(r, aI(k))
	}
	sort.Ints(r)
	return r
}

func guardOut(f func() c05Out) (o c05Out) {
	defer func() {
		if p := recover(); p != nil {
			o = c05Out{"panic", 0}
		}
	}()
	return f()
}

func seqO(s []int) c05Out     { return c05Out{"seq", nz(s)} }
func boolO(b bool) c05Out     { return c05Out{"bool", b} }
func keysO(s []int) c05Out    { return c05Out{"keys", nz(s)} }
func pairsO(p [][]int) c05Out { return c05Out{"pairs", p} }

// ---- slices
func c05SliceG(c *c05Case) c05Out {
	a, b, c3 := ints(c.A, c.NilV), ints(c.B, c.NilV), ints(c.C3, c.NilV)
	ops := [][]int{a, b}
	if c.N == 3 {
		ops = append(ops, c3)
	}
	switch c.Op {
	case "Union":
		return seqO(fpgo.Union(ops...))
	case "Intersection":
		return seqO(fpgo.Intersection(ops...))
	case "Difference":
		return seqO(fpgo.Difference(ops...))
	case "Minus":
		return seqO(fpgo.Minus(a, b))
	case "IsSubset":
		return boolO(fpgo.IsSubset(a, b))
	case "IsSuperset":
		return boolO(fpgo.IsSuperset(a, b))
	case "Distinct":
		return seqO(fpgo.Distinct(a...))
	case "Exists":
		return boolO(fpgo.Exists(c.X, a...))
	case "SliceToMap":
		return pairsO(gpairs(fpgo.SliceToMap(c.X, a...)))
	case "Keys":
		return seqO(fpgo.Keys(gmap(c.M, c.NilV)))
	case "Values":
		return seqO(fpgo.Values(gmap(c.M, c.NilV)))
	case "DuplicateMap":
		return pairsO(gpairs(fpgo.DuplicateMap(gmap(c.M, c.NilV))))
	case "Merge":
		return pairsO(gpairs(fpgo.Merge(gmap(c.M, c.NilV), gmap(c.M2, c.NilV))))
	case "IntersectionMapByKey":
		return pairsO(gpairs(fpgo.IntersectionMapByKey(gmap(c.M, c.NilV), gmap(c.M2, c.NilV))))
	case "MinusMapByKey":
		return pairsO(gpairs(fpgo.MinusMapByKey(gmap(c.M, c.NilV), gmap(c.M2, c.NilV))))
	case "IsSubsetMapByKey":
		return boolO(fpgo.IsSubsetMapByKey(gmap(c.M, c.NilV), gmap(c.M2, c.NilV)))
	case "IsSupersetMapByKey":
		return boolO(fpgo.IsSupersetMapByKey(gmap(c.M, c.NilV), gmap(c.M2, c.NilV)))
	}
	panic("c05 slice op " + c.Op)
}

func imapR(ps [][2]int, nilV bool) map[interface{}]int {
	if len(ps) == 0 && nilV {
		return nil
	}
	m := map[interface{}]int{}
	for _, p := range ps {
		m[cI(p[0])] = p[1]
	}
	return m
}
func ipairsR(m map[interface{}]int) [][]int {
	r := make([][]int, 0, len(m))
	for k, v := range m {
		r = append(r, []int{aI(k), v})
	}
	sort.Slice(r, func(i, j int) bool { return r[i][0] < r[j][0] })
	return r
}

func c05SliceI(c *c05Case) c05Out {
	a, b, c3 := ifaces(c.A, c.NilV), ifaces(c.B, c.NilV), ifaces(c.C3, c.NilV)
	ops := [][]interface{}{a, b}
	if c.N == 3 {
		ops = append(ops, c3)
	}
	switch c.Op {
	case "Union", "Difference":
		return c05None
	case "Intersection":
		return seqO(unIfaces(fpgo.IntersectionForInterface(ops...)))
	case "Minus":
		return seqO(unIfaces(fpgo.MinusForInterface(a, b)))
	case "IsSubset":
		return boolO(fpgo.IsSubsetForInterface(a, b))
	case "IsSuperset":
		return boolO(fpgo.IsSupersetForInterface(a, b))
	case "Distinct":
		return seqO(unIfaces(fpgo.DistinctForInterface(a...)))
	case "Exists":
		return boolO(fpgo.ExistsForInterface(cI(c.X), a...))
	case "SliceToMap":
		return pairsO(ipairsR(fpgo.SliceToMapForInterface(c.X, a...)))
	case "Keys":
		return seqO(unIfaces(fpgo.KeysForInterface(imapR(c.M, c.NilV))))
	case "Values":
		return seqO(fpgo.ValuesForInterface(imapR(c.M, c.NilV)))
	case "DuplicateMap":
		return pairsO(ipairsR(fpgo.DuplicateMapForInterface(imapR(c.M, c.NilV))))
	case "Merge":
		return pairsO(ipairsR(fpgo.MergeForInterface(imapR(c.M, c.NilV), imapR(c.M2, c.NilV))))
	case "IntersectionMapByKey":
		return pairsO(ipairsR(fpgo.IntersectionMapByKeyForInterface(imapR(c.M, c.NilV), imapR(c.M2, c.NilV))))
	case "MinusMapByKey":
		return c05None // no interface{} twin exists
	case "IsSubsetMapByKey":
		return boolO(fpgo.IsSubsetMapByKeyForInterface(imapR(c.M, c.NilV), imapR(c.M2, c.NilV)))
	case "IsSupersetMapByKey":
		return boolO(fpgo.IsSupersetMapByKeyForInterface(imapR(c.M, c.NilV), imapR(c.M2, c.NilV)))
	}
	panic("c05 slice op " + c.Op)
}

// ---- streams
func c05StreamG(c *c05Case) c05Out {
	s := fpgo.StreamFromArray(ints(c.A, c.NilV))
	in := fpgo.StreamFromArray(ints(c.B, c.NilV))
	arr := func(r *fpgo.StreamDef[int]) c05Out { return seqO(r.ToArray()) }
	switch c.Op {
	case "Intersection":
		return arr(s.Intersection(in))
	case "Minus":
		return arr(s.Minus(in))
	case "IsSubset":
		return boolO(s.IsSubset(in))
	case "IsSuperset":
		return boolO(s.IsSuperset(in))
	case "Extend":
		return arr(s.Extend(in))
	case "Distinct":
		return arr(s.Distinct())
	case "Clone":
		return arr(s.Clone())
	case "Reverse":
		return arr(s.Reverse())
	case "Contains":
		return boolO(s.Contains(c.X))
	case "RemoveItem":
		return arr(s.RemoveItem(ints(c.Xs, c.NilV)...))
	case "Append":
		return arr(s.Append(ints(c.Xs, c.NilV)...))
	}
	panic("c05 stream op " + c.Op)
}

func c05StreamI(c *c05Case) c05Out {
	s := fpgo.StreamForInterface.FromArray(ifaces(c.A, c.NilV))
	in := fpgo.StreamForInterface.FromArray(ifaces(c.B, c.NilV))
	arr := func(r *fpgo.StreamForInterfaceDef) c05Out { return seqO(unIfaces(r.ToArray())) }
	switch c.Op {
	case "Intersection":
		return arr(s.Intersection(in))
	case "Minus":
		return arr(s.Minus(in))
	case "IsSubset":
		return boolO(s.IsSubset(in))
	case "IsSuperset":
		return boolO(s.IsSuperset(in))
	case "Extend":
		return arr(s.Extend(in))
	case "Distinct":
		return arr(s.Distinct())
	case "Clone":
		return arr(s.Clone())
	case "Reverse":
		return arr(s.Reverse())
	case "Contains":
		return boolO(s.Contains(cI(c.X)))
	case "RemoveItem":
		return arr(s.RemoveItem(ifaces(c.Xs, c.NilV)...))
	case "Append":
		return arr(s.Append(ifaces(c.Xs, c.NilV)...))
	}
	panic("c05 stream op " + c.Op)
}

// ---- map sets (compared by key)
func c05MapSetG(c *c05Case) c05Out {
	s := fpgo.SetFromMap[int, int](gmap(c.M, c.NilV))
	in := fpgo.SetFromMap[int, int](gmap(c.M2, c.NilV))
	keys := func(r fpgo.SetDef[int, int]) c05Out { return keysO(gkeys(r.AsMap())) }
	switch c.Op {
	case "Union":
		return keys(s.Union(in))
	case "Intersection":
		return keys(s.Intersection(in))
	case "Minus":
		return keys(s.Minus(in))
	case "IsSubsetByKey":
		return boolO(s.IsSubsetByKey(in))
	case "IsSupersetByKey":
		return boolO(s.IsSupersetByKey(in))
	case "ContainsKey":
		return boolO(s.ContainsKey(c.X))
	case "ContainsValue":
		return boolO(s.ContainsValue(c.X))
	case "Clone":
		return keys(s.Clone())
	case "Add":
		return keys(s.Add(ints(c.Xs, c.NilV)...))
	case "RemoveKeys":
		return keys(s.RemoveKeys(ints(c.Xs, c.NilV)...))
	case "RemoveValues":
		return keys(s.RemoveValues(ints(c.Xs, c.NilV)...))
	}
	panic("c05 mapset op " + c.Op)
}

func isetFrom(ps [][2]int, nilV bool) *fpgo.SetForInterfaceDef {
	// same data as the generic side: keys with their values (SetForInterfaceFromMap keeps keys only,
	// so the values are stored with Set, which both families have)
	var s fpgo.SetForInterfaceDef
	if len(ps) == 0 && nilV {
		return &s
	}
	s = fpgo.SetForInterfaceDef{}
	for _, p := range ps {
		s.Set(cI(p[0]), p[1])
	}
	return &s
}

func c05MapSetI(c *c05Case) c05Out {
	s, in := isetFrom(c.M, c.NilV), isetFrom(c.M2, c.NilV)
	keys := func(r *fpgo.SetForInterfaceDef) c05Out { return keysO(ikeys(*r)) }
	switch c.Op {
	case "Union":
		return keys(s.Union(in))
	case "Intersection":
		return keys(s.Intersection(in))
	case "Minus":
		return keys(s.Minus(in))
	case "IsSubsetByKey":
		return boolO(s.IsSubsetByKey(in))
	case "IsSupersetByKey":
		return boolO(s.IsSupersetByKey(in))
	case "ContainsKey":
		return boolO(s.ContainsKey(cI(c.X)))
	case "ContainsValue":
		return boolO(s.ContainsValue(c.X))
	case "Clone":
		return keys(s.Clone())
	case "Add":
		return keys(s.Add(ifaces(c.Xs, c.NilV)...))
	case "RemoveKeys":
		return keys(s.RemoveKeys(ifaces(c.Xs, c.NilV)...))
	case "RemoveValues":
		vals := make([]interface{}, 0, len(c.Xs)) // values are plain ints in both concretisations
		for _, x := range c.Xs {
			vals = append(vals, x)
		}
		if len(c.Xs) == 0 && c.NilV {
			vals = nil
		}
		return keys(s.RemoveValues(vals...))
	}
	panic("c05 mapset op " + c.Op)
}

// ---- stream sets
func gss(ps []kvSeq, nilV bool) *fpgo.StreamSetDef[int, int] {
	m := map[int]*fpgo.StreamDef[int]{}
	for _, p := range ps {
		m[p.K] = fpgo.StreamFromArray(ints(p.V, nilV))
	}
	return fpgo.StreamSetFromMap(m)
}
func iss(ps []kvSeq, nilV bool) *fpgo.StreamSetForInterfaceDef {
	m := map[interface{}]*fpgo.StreamForInterfaceDef{}
	for _, p := range ps {
		m[cI(p.K)] = fpgo.StreamForInterface.FromArray(ifaces(p.V, nilV))
	}
	return fpgo.StreamSetForInterfaceFromMap(m)
}
func gkmap(m map[int]*fpgo.StreamDef[int]) c05Out {
	r := make([]kvSeq, 0, len(m))
	for k, v := range m {
		var arr []int
		if v != nil {
			arr = v.ToArray()
		}
		r = append(r, kvSeq{k, arr})
	}
	sort.Slice(r, func(i, j int) bool { return r[i].K < r[j].K })
	return c05Out{"kmap", r}
}
func ikmap(m map[interface{}]interface{}) c05Out {
	r := make([]kvSeq, 0, len(m))
	for k, v := range m {
		var arr []int
		if sp, ok := v.(*fpgo.StreamForInterfaceDef); ok && sp != nil {
			arr = unIfaces(sp.ToArray())
		}
		r = append(r, kvSeq{aI(k), arr})
	}
	sort.Slice(r, func(i, j int) bool { return r[i].K < r[j].K })
	return c05Out{"kmap", r}
}

func c05StreamSetG(c *c05Case) c05Out {
	s, in := gss(c.S, c.NilV), gss(c.S2, c.NilV)
	switch c.Op {
	case "Union":
		return gkmap(s.Union(in).MapSetDef)
	case "Intersection":
		return gkmap(s.Intersection(in).MapSetDef)
	case "MinusStreams":
		return gkmap(s.MinusStreams(in).MapSetDef)
	case "Clone":
		return gkmap(s.Clone().MapSetDef)
	case "Minus": // inherited from the embedded MapSetDef
		return gkmap(s.Minus(&in.MapSetDef).AsMap())
	case "IsSubsetByKey":
		return boolO(s.IsSubsetByKey(&in.MapSetDef))
	case "IsSupersetByKey":
		return boolO(s.IsSupersetByKey(&in.MapSetDef))
	}
	panic("c05 streamset op " + c.Op)
}

func c05StreamSetI(c *c05Case) c05Out {
	s, in := iss(c.S, c.NilV), iss(c.S2, c.NilV)
	switch c.Op {
	case "Union":
		return ikmap(s.Union(in).SetForInterfaceDef)
	case "Intersection":
		return ikmap(s.Intersection(in).SetForInterfaceDef)
	case "MinusStreams":
		return ikmap(s.MinusStreams(in).SetForInterfaceDef)
	case "Clone":
		return ikmap(s.Clone().SetForInterfaceDef)
	case "Minus":
		return ikmap(s.Minus(in).SetForInterfaceDef)
	case "IsSubsetByKey":
		return boolO(s.IsSubsetByKey(in))
	case "IsSupersetByKey":
		return boolO(s.IsSupersetByKey(in))
	}
	panic("c05 streamset op " + c.Op)
}

func c05Exec(c *c05Case) (g, i c05Out) {
	switch c.Fam {
	case "slice":
		return guardOut(func() c05Out { return c05SliceG(c) }), guardOut(func() c05Out { return c05SliceI(c) })
	case "stream":
		return guardOut(func() c05Out { return c05StreamG(c) }), guardOut(func() c05Out { return c05StreamI(c) })
	case "mapset":
		return guardOut(func() c05Out { return c05MapSetG(c) }), guardOut(func() c05Out { return c05MapSetI(c) })
	case "streamset":
		return guardOut(func() c05Out { return c05StreamSetG(c) }), guardOut(func() c05Out { return c05StreamSetI(c) })
	}
	panic("c05 fam " + c.Fam)
}

func c05Norm(c *c05Case) {
	if c.A == nil {
		c.A = []int{}
	}
	if c.B == nil {
		c.B = []int{}
	}
	if c.C3 == nil {
		c.C3 = []int{}
	}
	if c.Xs == nil {
		c.Xs = []int{}
	}
	if c.M == nil {
		c.M = [][2]int{}
	}
	if c.M2 == nil {
		c.M2 = [][2]int{}
	}
	if c.S == nil {
		c.S = []kvSeq{}
	}
	if c.S2 == nil {
		c.S2 = []kvSeq{}
	}
}

// the plain-slice interface{} helpers on unhashable elements (they panic; the caller recovers)
func c05Poison() {
	bad := []interface{}{3, 1, []int{1}, 2, []int{2}}
	try := func(f func()) {
		defer func() { recover() }()
		f()
	}
	try(func() { fpgo.DistinctForInterface(bad...) })
	try(func() { fpgo.IsSubsetForInterface(bad, bad) })
	try(func() { fpgo.IsSupersetForInterface(bad, bad) })
	try(func() { fpgo.IntersectionForInterface(bad, bad) })
	try(func() { fpgo.MinusForInterface(bad, bad) })
}

func c05Main(args []string) error {
	switch args[0] {
	case "exec": // exec <cases.ndjson>... --out prefix --maxlines N : run both sides of every case, both nil variants
		prefix := flagVal(args, "out", "c05.trace")
		maxl := flagInt(args, "maxlines", 60000)
		var w *ndWriter
		var files []string
		n := 0
		rot := func() {
			if w != nil {
				w.close()
			}
			name := fmt.Sprintf("%s.%03d.ndjson", prefix, len(files)+1)
			var err error
			if w, err = newNDWriter(name); err != nil {
				panic(err)
			}
			files = append(files, name)
		}
		for _, f := range args[1:] {
			if f == "--out" || f == "--maxlines" {
				break
			}
			err := readLines(f, func(b []byte) error {
				var c c05Case
				if err := json.Unmarshal(b, &c); err != nil {
					return err
				}
				c05Norm(&c)
				if n%50 == 0 { // failing calls in between (unhashable elements, recovered): nothing of them may leak into later calls
					c04Poison()
					c05Poison()
				}
				for _, nv := range []bool{false, true} {
					c.NilV = nv
					if w == nil || w.n >= maxl {
						rot()
					}
					g, i := c05Exec(&c)
					w.write(map[string]interface{}{"case": c, "g": g, "i": i})
					n++
				}
				c.NilV = false
				c05Alike = true // third pass: the interface{} family on print-alike values of different types
				g, i := c05Exec(&c)
				c05Alike = false
				w.write(map[string]interface{}{"case": c, "g": g, "i": i})
				n++
				return nil
			})
			if err != nil {
				return err
			}
		}
		if w != nil {
			w.close()
		}
		b, _ := json.Marshal(map[string]interface{}{"files": files, "events": n})
		fmt.Println(string(b))
		return nil
	case "record": // random larger operands
		n := flagInt(args, "n", 3000)
		w, err := newNDWriter(flagVal(args, "out", "c05.rand.ndjson"))
		if err != nil {
			return err
		}
		defer w.close()
		rng := rand.New(rand.NewSource(int64(envInt("VERIF_SEED", 1))))
		for k := 0; k < n; k++ {
			c := c05Random(rng)
			g, i := c05Exec(&c)
			w.write(map[string]interface{}{"case": c, "g": g, "i": i})
		}
		fmt.Printf("{\"events\":%d}\n", n)
		return nil
	}
	return fmt.Errorf("c05: exec|record")
}

var c05Ops = map[string][]string{
	"slice":     {"Union", "Intersection", "Difference", "Minus", "IsSubset", "IsSuperset", "Distinct", "Exists", "SliceToMap", "Keys", "Values", "DuplicateMap", "Merge", "IntersectionMapByKey", "MinusMapByKey", "IsSubsetMapByKey", "IsSupersetMapByKey"},
	"stream":    {"Intersection", "Minus", "IsSubset", "IsSuperset", "Extend", "Distinct", "Clone", "Reverse", "Contains", "RemoveItem", "Append"},
	"mapset":    {"Union", "Intersection", "Minus", "IsSubsetByKey", "IsSupersetByKey", "ContainsKey", "ContainsValue", "Clone", "Add", "RemoveKeys", "RemoveValues"},
	"streamset": {"Union", "Intersection", "MinusStreams", "Minus", "IsSubsetByKey", "IsSupersetByKey", "Clone"},
}

func c05Random(rng *rand.Rand) c05Case {
	fams := []string{"slice", "stream", "mapset", "streamset"}
	var c c05Case
	c.Fam = fams[rng.Intn(4)]
	ops := c05Ops[c.Fam]
	c.Op = ops[rng.Intn(len(ops))]
	c.N = 2
	list := func(maxLen int) []int {
		s := make([]int, rng.Intn(maxLen+1))
		for i := range s {
			s[i] = rng.Intn(7)
		}
		return s
	}
	pairs := func() [][2]int {
		m := map[int]int{}
		for i, n := 0, rng.Intn(6); i < n; i++ {
			m[rng.Intn(7)] = rng.Intn(3)
		}
		var ps [][2]int
		for _, k := range gkeys(m) {
			ps = append(ps, [2]int{k, m[k]})
		}
		return ps
	}
	sset := func() []kvSeq {
		m := map[int][]int{}
		for i, n := 0, rng.Intn(5); i < n; i++ {
			m[rng.Intn(5)] = list(5)
		}
		ks := make([]int, 0)
		for k := range m {
			ks = append(ks, k)
		}
		sort.Ints(ks)
		var r []kvSeq
		for _, k := range ks {
			r = append(r, kvSeq{k, m[k]})
		}
		return r
	}
	c.A, c.B, c.Xs, c.X = list(9), list(9), list(3), rng.Intn(7)
	if c.Fam == "slice" && (c.Op == "Union" || c.Op == "Intersection" || c.Op == "Difference") && rng.Intn(2) == 0 {
		c.N, c.C3 = 3, list(9)
	}
	c.M, c.M2, c.S, c.S2 = pairs(), pairs(), sset(), sset()
	c.NilV = rng.Intn(2) == 0
	c05Norm(&c)
	return c
}
