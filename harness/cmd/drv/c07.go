//go:build verif

package main

import (
	"fmt"
	"math/rand"
	"runtime"
	"sync"
	"sync/atomic"
	"time"

	fpgo "github.com/TeaEntityLab/fpGo/v2"
)

// C07 — BufferedChannelQueue / ChannelQueue.  Public inv/res histories for Trace_BQueueAbs.tla.
// The verif hook runs in "perturb" mode: at every hook point of the library (inside Offer, the loader, Take/Poll)
// the calling goroutine yields or sleeps a few microseconds (seeded), which widens the windows between the
// library's critical sections that a plain stress run almost never hits.

func init() { commands["c07"] = c07Main }

var perturbSeed uint64

func perturbHook(point string, obj interface{}) {
	x := atomic.AddUint64(&perturbSeed, 0x9E3779B97F4A7C15)
	x ^= x >> 29
	switch x % 7 {
	case 0, 1:
		runtime.Gosched()
	case 2:
		time.Sleep(time.Duration(1+x%40) * time.Microsecond)
	}
}

func qerr(err error) string {
	switch err {
	case nil:
		return "ok"
	case fpgo.ErrQueueIsFull:
		return "full"
	case fpgo.ErrQueueIsEmpty:
		return "empty"
	case fpgo.ErrQueueTakeTimeout:
		return "timeout"
	case fpgo.ErrQueueIsClosed:
		return "closed"
	case fpgo.ErrQueuePutTimeout:
		return "puttimeout"
	}
	return "err"
}

// wait for the goroutines of a round, but not for ever: a call that never returns must end as a "stuck" line, not as a hung driver
func waitBounded(wg *sync.WaitGroup, d time.Duration) bool {
	done := make(chan struct{})
	go func() { wg.Wait(); close(done) }()
	select {
	case <-done:
		return true
	case <-time.After(d):
		return false
	}
}

func c07Round(w *ndWriter, seed int64, C, B, P, Cn, n int, loaderUs int) int {
	rng := rand.New(rand.NewSource(seed))
	rec := &recorder{}
	q := fpgo.NewBufferedChannelQueue[int](C, B, 2).SetLoadFromPoolDuration(time.Duration(loaderUs) * time.Microsecond)
	rec.ev(E{"ev": "reset", "thr": "-", "op": "-", "v": 0, "r": "-", "c": C, "b": B})
	var wg sync.WaitGroup
	for p := 0; p < P; p++ {
		wg.Add(1)
		go func(p int, s int64) {
			defer wg.Done()
			r := rand.New(rand.NewSource(s))
			thr := fmt.Sprintf("p%d", p+1)
			for i := 1; i <= n; i++ {
				v := (p+1)*1000 + i
				op := "offer"
				if r.Intn(4) == 0 {
					op = "put"
				}
				rec.ev(E{"ev": "inv", "thr": thr, "op": op, "v": v, "r": "-"})
				var err error
				if op == "put" {
					err = q.Put(v)
				} else {
					err = q.Offer(v)
				}
				rec.ev(E{"ev": "res", "thr": thr, "op": op, "v": v, "r": qerr(err)})
				if r.Intn(3) == 0 {
					time.Sleep(time.Duration(r.Intn(20)) * time.Microsecond)
				}
				if r.Intn(5) == 0 {
					rec.ev(E{"ev": "count", "thr": thr, "op": "-", "v": q.Count(), "r": "-"})
				}
			}
		}(p, rng.Int63())
	}
	for c := 0; c < Cn; c++ {
		wg.Add(1)
		go func(c int, s int64) {
			defer wg.Done()
			r := rand.New(rand.NewSource(s))
			thr := fmt.Sprintf("c%d", c+1)
			for i := 0; i < n; i++ {
				switch r.Intn(3) {
				case 0:
					rec.ev(E{"ev": "inv", "thr": thr, "op": "poll", "v": 0, "r": "-"})
					v, err := q.Poll()
					rec.ev(E{"ev": "res", "thr": thr, "op": "poll", "v": v, "r": qerr(err)})
				case 1:
					rec.ev(E{"ev": "inv", "thr": thr, "op": "taketimeout", "v": 0, "r": "-"})
					v, err := q.TakeWithTimeout(time.Duration(50+r.Intn(200)) * time.Microsecond)
					rec.ev(E{"ev": "res", "thr": thr, "op": "taketimeout", "v": v, "r": qerr(err)})
				default: // receive on the channel handed out by GetChannel, with the caller's own timeout
					rec.ev(E{"ev": "inv", "thr": thr, "op": "recv", "v": 0, "r": "-"})
					select {
					case v := <-q.GetChannel():
						rec.ev(E{"ev": "res", "thr": thr, "op": "recv", "v": v, "r": "ok"})
					case <-time.After(time.Duration(50+r.Intn(150)) * time.Microsecond):
						rec.ev(E{"ev": "res", "thr": thr, "op": "recv", "v": 0, "r": "timeout"})
					}
				}
			}
		}(c, rng.Int63())
	}
	if !waitBounded(&wg, 10*time.Second) {
		rec.ev(E{"ev": "stuck", "thr": "-", "op": "call", "v": 1, "r": "-"}) // a call of this round never came back
		return rec.flush(w)
	}
	// producers have stopped: repeated Take/Poll must retrieve every accepted item without any further Offer
	if C >= 1 {
		deadline := time.Now().Add(5 * time.Second)
		for q.Count() > 0 && time.Now().Before(deadline) {
			rec.ev(E{"ev": "inv", "thr": "d", "op": "poll", "v": 0, "r": "-"})
			v, err := q.Poll()
			rec.ev(E{"ev": "res", "thr": "d", "op": "poll", "v": v, "r": qerr(err)})
			if err != nil {
				time.Sleep(20 * time.Microsecond)
			}
		}
		rec.ev(E{"ev": "quiesce", "thr": "-", "op": "-", "v": q.Count(), "r": "-"})
	}
	n2 := rec.flush(w)
	q.Close()
	return n2
}

// fresh queue: its FIRST calls come from K goroutines released together (invocations are logged before the barrier: the calls
// overlap each other completely), then one goroutine polls until everything accepted has been retrieved
func c07Fresh(w *ndWriter, C, B, K int, loaderUs int) int {
	rec := &recorder{}
	q := fpgo.NewBufferedChannelQueue[int](C, B, 2).SetLoadFromPoolDuration(time.Duration(loaderUs) * time.Microsecond)
	rec.ev(E{"ev": "reset", "thr": "-", "op": "-", "v": 0, "r": "-", "c": C, "b": B})
	var ready, start int32
	errs := make([]error, K)
	var wg sync.WaitGroup
	for p := 0; p < K; p++ {
		rec.ev(E{"ev": "inv", "thr": fmt.Sprintf("p%d", p+1), "op": "offer", "v": (p+1)*1000 + 1, "r": "-"})
		wg.Add(1)
		go func(p int) {
			defer wg.Done()
			atomic.AddInt32(&ready, 1)
			for atomic.LoadInt32(&start) == 0 {
			}
			errs[p] = q.Offer((p+1)*1000 + 1)
		}(p)
	}
	for atomic.LoadInt32(&ready) < int32(K) {
		runtime.Gosched()
	}
	atomic.StoreInt32(&start, 1)
	wg.Wait()
	for p := 0; p < K; p++ {
		rec.ev(E{"ev": "res", "thr": fmt.Sprintf("p%d", p+1), "op": "offer", "v": (p+1)*1000 + 1, "r": qerr(errs[p])})
	}
	deadline := time.Now().Add(3 * time.Second)
	for q.Count() > 0 && time.Now().Before(deadline) {
		rec.ev(E{"ev": "inv", "thr": "d", "op": "poll", "v": 0, "r": "-"})
		v, err := q.Poll()
		rec.ev(E{"ev": "res", "thr": "d", "op": "poll", "v": v, "r": qerr(err)})
		if err != nil {
			time.Sleep(20 * time.Microsecond)
		}
	}
	rec.ev(E{"ev": "quiesce", "thr": "-", "op": "-", "v": q.Count(), "r": "-"})
	n := rec.flush(w)
	q.Close()
	return n
}

// the overflow maximum is changed (SetBufferSizeMaximum) while a backlog is waiting: from then on the NEW maximum decides - with more
// items waiting than it allows every Offer is refused until the backlog has drained below it, a raised maximum admits more at once -
// nothing accepted is lost and the order is kept.  One goroutine, so the history is a plain sequence.
func c07Reconfigure(w *ndWriter, C, B, newB int, loaderUs int) int {
	rec := &recorder{}
	q := fpgo.NewBufferedChannelQueue[int](C, B, 2).SetLoadFromPoolDuration(time.Duration(loaderUs) * time.Microsecond)
	rec.ev(E{"ev": "reset", "thr": "-", "op": "-", "v": 0, "r": "-", "c": C, "b": B})
	next := 0
	offer := func(k int) {
		for i := 0; i < k; i++ {
			next++
			rec.ev(E{"ev": "inv", "thr": "d", "op": "offer", "v": next, "r": "-"})
			err := q.Offer(next)
			rec.ev(E{"ev": "res", "thr": "d", "op": "offer", "v": next, "r": qerr(err)})
		}
	}
	drain := func() {
		deadline := time.Now().Add(3 * time.Second)
		for q.Count() > 0 && time.Now().Before(deadline) {
			rec.ev(E{"ev": "inv", "thr": "d", "op": "poll", "v": 0, "r": "-"})
			v, err := q.Poll()
			rec.ev(E{"ev": "res", "thr": "d", "op": "poll", "v": v, "r": qerr(err)})
			if err != nil {
				time.Sleep(20 * time.Microsecond)
			}
		}
		rec.ev(E{"ev": "quiesce", "thr": "-", "op": "-", "v": q.Count(), "r": "-"})
	}
	offer(C + B + 1) // full, the last one refused
	time.Sleep(time.Duration(2*loaderUs+200) * time.Microsecond)
	q.SetBufferSizeMaximum(newB)
	rec.ev(E{"ev": "setmax", "thr": "-", "op": "-", "v": 0, "r": "-", "b": newB})
	offer(B + newB + 3)
	drain()
	rec.ev(E{"ev": "count", "thr": "-", "op": "-", "v": q.Count(), "r": "-"})
	offer(C + newB + 2) // the new maximum holds for an empty queue too
	rec.ev(E{"ev": "count", "thr": "-", "op": "-", "v": q.Count(), "r": "-"})
	drain()
	n := rec.flush(w)
	q.Close()
	return n
}

// the last item: one value is in the queue, K goroutines released together each call Poll once.  Exactly one gets it, the others
// report empty - and ALL of them return (Poll never blocks).  A call that has not come back within the wait is a stuck line.
func c07LastItem(w *ndWriter, plain bool, C, K int) int {
	rec := &recorder{}
	var poll func() (int, error)
	var offer func(int) error
	B := 0
	if plain {
		q := fpgo.NewChannelQueue[int](C)
		poll, offer = q.Poll, q.Offer
	} else {
		B = 2
		q := fpgo.NewBufferedChannelQueue[int](C, B, 2).SetLoadFromPoolDuration(50 * time.Microsecond)
		defer q.Close()
		poll, offer = q.Poll, q.Offer
	}
	rec.ev(E{"ev": "reset", "thr": "-", "op": "-", "v": 0, "r": "-", "c": C, "b": B})
	rec.ev(E{"ev": "inv", "thr": "p1", "op": "offer", "v": 1001, "r": "-"})
	err := offer(1001)
	rec.ev(E{"ev": "res", "thr": "p1", "op": "offer", "v": 1001, "r": qerr(err)})
	type pr struct {
		k   int
		v   int
		err error
	}
	var ready, start int32
	out := make(chan pr, K)
	for k := 0; k < K; k++ {
		rec.ev(E{"ev": "inv", "thr": fmt.Sprintf("c%d", k+1), "op": "poll", "v": 0, "r": "-"})
		go func(k int) {
			atomic.AddInt32(&ready, 1)
			for atomic.LoadInt32(&start) == 0 {
			}
			v, err := poll()
			out <- pr{k, v, err}
		}(k)
	}
	for atomic.LoadInt32(&ready) < int32(K) {
		runtime.Gosched()
	}
	atomic.StoreInt32(&start, 1)
	got := 0
	deadline := time.After(600 * time.Millisecond)
wait:
	for got < K {
		select {
		case r := <-out:
			got++
			rec.ev(E{"ev": "res", "thr": fmt.Sprintf("c%d", r.k+1), "op": "poll", "v": r.v, "r": qerr(r.err)})
		case <-deadline:
			break wait
		}
	}
	if got < K {
		rec.ev(E{"ev": "stuck", "thr": "-", "op": "poll", "v": K - got, "r": "-"}) // Poll calls that never came back
		for i := got; i < K; i++ {                                                 // release them
			offer(9000 + i)
		}
	} else {
		rec.ev(E{"ev": "quiesce", "thr": "-", "op": "-", "v": 0, "r": "-"})
	}
	return rec.flush(w)
}

// ---- hook-level recording for Trace_BQueueHook.tla: every hook point of the queue under test is logged with the role of
// the goroutine and, inside q.lock, the channel length and the pool count; the harness adds inv/res lines.
func c07HookRound(w *ndWriter, seed int64, C, B, P, Cn, n int, loaderUs int, first bool) int {
	rng := rand.New(rand.NewSource(seed))
	rec := &recorder{}
	var roles sync.Map // goroutine id -> role
	var ops sync.Map   // role -> current op
	var q *fpgo.BufferedChannelQueue[int]
	var cur atomic.Value
	inLock := map[string]bool{"bq.offer.locked": true, "bq.offer.done": true, "bq.loader.locked": true, "bq.loader.polled": true, "bq.loader.unlocking": true}
	fpgo.VerifHook = func(point string, obj interface{}) {
		qq, _ := cur.Load().(*fpgo.BufferedChannelQueue[int])
		if qq == nil || obj != interface{}(qq) || point == "bq.freenode.locked" {
			return
		}
		role := "loader"
		if len(point) < 10 || point[:10] != "bq.loader." {
			r, ok := roles.Load(gid())
			if !ok {
				return
			}
			role = r.(string)
		}
		rec.evf(func() E {
			e := E{"ev": "hook", "pt": point, "thr": role, "op": "-", "v": 0, "r": "-", "chl": -1, "pool": -1}
			if o, ok := ops.Load(role); ok {
				e["op"] = o
			}
			if inLock[point] { // read under the recorder's mutex: a stale length logged after a consumer's later line would misorder the trace
				chl, pool := qq.VerifSnapshotLocked()
				e["chl"], e["pool"] = chl, len(pool)
			}
			return e
		})
		perturbHook(point, obj)
	}
	rec.ev(E{"ev": "reset", "thr": "-", "op": "-", "v": 0, "r": "-", "c": C, "b": B, "pt": "-", "chl": 0, "pool": 0}) // first line of the round: the loader's hooks come after it
	q = fpgo.NewBufferedChannelQueue[int](C, B, 2).SetLoadFromPoolDuration(time.Duration(loaderUs) * time.Microsecond)
	cur.Store(q)
	line := func(ev, thr, op string, v int, r string) {
		rec.ev(E{"ev": ev, "thr": thr, "op": op, "v": v, "r": r, "pt": "-", "chl": -1, "pool": -1})
	}
	consume := func(thr string, r *rand.Rand) {
		switch r.Intn(3) {
		case 0:
			ops.Store(thr, "poll")
			line("inv", thr, "poll", 0, "-")
			v, err := q.Poll()
			line("res", thr, "poll", v, qerr(err))
		case 1:
			ops.Store(thr, "taketimeout")
			line("inv", thr, "taketimeout", 0, "-")
			v, err := q.TakeWithTimeout(time.Duration(50+r.Intn(200)) * time.Microsecond)
			line("res", thr, "taketimeout", v, qerr(err))
		default:
			ops.Store(thr, "recv")
			line("inv", thr, "recv", 0, "-")
			select {
			case v := <-q.GetChannel():
				line("res", thr, "recv", v, "ok")
			case <-time.After(time.Duration(50+r.Intn(150)) * time.Microsecond):
				line("res", thr, "recv", 0, "timeout")
			}
		}
	}
	var wg sync.WaitGroup
	for p := 0; p < P; p++ {
		wg.Add(1)
		go func(p int, s int64) {
			defer wg.Done()
			r := rand.New(rand.NewSource(s))
			thr := fmt.Sprintf("p%d", p+1)
			roles.Store(gid(), thr)
			for i := 1; i <= n; i++ {
				v := (p+1)*1000 + i
				ops.Store(thr, "offer")
				line("inv", thr, "offer", v, "-")
				err := q.Offer(v)
				line("res", thr, "offer", v, qerr(err))
				if r.Intn(3) == 0 {
					time.Sleep(time.Duration(r.Intn(20)) * time.Microsecond)
				}
			}
		}(p, rng.Int63())
	}
	for c := 0; c < Cn; c++ {
		wg.Add(1)
		go func(c int, s int64) {
			defer wg.Done()
			r := rand.New(rand.NewSource(s))
			thr := fmt.Sprintf("c%d", c+1)
			roles.Store(gid(), thr)
			for i := 0; i < n; i++ {
				consume(thr, r)
			}
		}(c, rng.Int63())
	}
	wg.Wait()
	if C >= 1 {
		roles.Store(gid(), "c1")
		r := rand.New(rand.NewSource(seed))
		deadline := time.Now().Add(3 * time.Second)
		for q.Count() > 0 && time.Now().Before(deadline) {
			consume("c1", r)
		}
	}
	time.Sleep(time.Duration(2*loaderUs+200) * time.Microsecond) // let the loader finish its pass: its hook lines belong to this round
	cur.Store((*fpgo.BufferedChannelQueue[int])(nil))
	n2 := rec.flush(w)
	q.Close()
	return n2
}

// One producer fills the channel and the overflow part (k items) and stops; then k consumers call Take() once each, at
// the same moment (their wake-up notifications collapse into one token while the loader sleeps).  Normally one loader pass
// hands items to all waiting receivers; if calls stay blocked the harness keeps calling Poll: repeated calls must retrieve all.  With offerFirst = false the takers block first and the offers follow.
func c07BlockedTakers(w *ndWriter, C, k int, loaderUs int, offerFirst bool) int {
	rec := &recorder{}
	q := fpgo.NewBufferedChannelQueue[int](C, k, 2).SetLoadFromPoolDuration(time.Duration(loaderUs) * time.Microsecond)
	rec.ev(E{"ev": "reset", "thr": "-", "op": "-", "v": 0, "r": "-", "c": C, "b": k})
	offer := func() {
		for i := 1; i <= k; i++ {
			v := 1000 + i
			rec.ev(E{"ev": "inv", "thr": "p1", "op": "offer", "v": v, "r": "-"})
			err := q.Offer(v)
			rec.ev(E{"ev": "res", "thr": "p1", "op": "offer", "v": v, "r": qerr(err)})
		}
	}
	if offerFirst {
		offer()
		time.Sleep(time.Duration(loaderUs/2+100) * time.Microsecond) // the loader has made its first (failing) pass and sleeps
	}
	var wg sync.WaitGroup
	var ready sync.WaitGroup
	gate := make(chan struct{})
	started := make(chan struct{}, k)
	for c := 0; c < k; c++ {
		wg.Add(1)
		ready.Add(1)
		go func(c int) {
			defer wg.Done()
			thr := fmt.Sprintf("c%d", c+1)
			ready.Done()
			<-gate
			rec.ev(E{"ev": "inv", "thr": thr, "op": "take", "v": 0, "r": "-"})
			started <- struct{}{}
			v, err := q.Take()
			if err == nil {
				rec.ev(E{"ev": "res", "thr": thr, "op": "take", "v": v, "r": "ok"})
			}
		}(c)
	}
	ready.Wait()
	close(gate)
	for c := 0; c < k; c++ {
		<-started
	}
	if !offerFirst {
		time.Sleep(300 * time.Microsecond) // the takers are blocked on the channel
		offer()
	}
	done := make(chan struct{})
	go func() { wg.Wait(); close(done) }()
	select {
	case <-done:
		rec.ev(E{"ev": "quiesce", "thr": "-", "op": "-", "v": q.Count(), "r": "-"})
	case <-time.After(800 * time.Millisecond):
		// Some Take() calls are still blocked.  The statement promises that REPEATED calls retrieve everything, not that a call
		// which blocked after the loader's last pass is woken (BQueue.tla, MC_BQueue_wait_oneshot: a legal schedule of the
		// unchanged code strands such a call until the next call notifies the loader).  So: note it, then keep calling.
		rec.ev(E{"ev": "blockedwait", "thr": "-", "op": "take", "v": q.Count(), "r": "-"})
		deadline := time.Now().Add(3 * time.Second)
		for q.Count() > 0 && time.Now().Before(deadline) {
			rec.ev(E{"ev": "inv", "thr": "d", "op": "poll", "v": 0, "r": "-"})
			v, err := q.Poll()
			rec.ev(E{"ev": "res", "thr": "d", "op": "poll", "v": v, "r": qerr(err)})
			time.Sleep(time.Duration(loaderUs+300) * time.Microsecond)
		}
		time.Sleep(2 * time.Millisecond)
		if q.Count() > 0 {
			rec.ev(E{"ev": "stuck", "thr": "-", "op": "take", "v": q.Count(), "r": "-"}) // repeated calls did not retrieve everything
		} else {
			rec.ev(E{"ev": "quiesce", "thr": "-", "op": "-", "v": 0, "r": "-"})
		}
	}
	n := rec.flush(w)
	q.Close() // releases whoever is still blocked
	return n
}

// plain ChannelQueue: capacity C, no overflow part
func c07ChanRound(w *ndWriter, seed int64, C, P, Cn, n int) int {
	rng := rand.New(rand.NewSource(seed))
	rec := &recorder{}
	q := fpgo.NewChannelQueue[int](C)
	rec.ev(E{"ev": "reset", "thr": "-", "op": "-", "v": 0, "r": "-", "c": C, "b": 0})
	var wg sync.WaitGroup
	for p := 0; p < P; p++ {
		wg.Add(1)
		go func(p int, s int64) {
			defer wg.Done()
			r := rand.New(rand.NewSource(s))
			thr := fmt.Sprintf("p%d", p+1)
			for i := 1; i <= n; i++ {
				v := (p+1)*1000 + i
				rec.ev(E{"ev": "inv", "thr": thr, "op": "offer", "v": v, "r": "-"})
				var err error
				if r.Intn(2) == 0 {
					err = q.Offer(v)
				} else {
					err = q.PutWithTimeout(v, time.Duration(50+r.Intn(100))*time.Microsecond)
					if err == fpgo.ErrQueuePutTimeout {
						err = fpgo.ErrQueueIsFull // a timed-out Put did not insert: same abstract outcome as a full Offer
					}
				}
				rec.ev(E{"ev": "res", "thr": thr, "op": "offer", "v": v, "r": qerr(err)})
			}
		}(p, rng.Int63())
	}
	for c := 0; c < Cn; c++ {
		wg.Add(1)
		go func(c int, s int64) {
			defer wg.Done()
			r := rand.New(rand.NewSource(s))
			thr := fmt.Sprintf("c%d", c+1)
			for i := 0; i < n; i++ {
				if r.Intn(2) == 0 {
					rec.ev(E{"ev": "inv", "thr": thr, "op": "poll", "v": 0, "r": "-"})
					v, err := q.Poll()
					rec.ev(E{"ev": "res", "thr": thr, "op": "poll", "v": v, "r": qerr(err)})
				} else {
					rec.ev(E{"ev": "inv", "thr": thr, "op": "taketimeout", "v": 0, "r": "-"})
					v, err := q.TakeWithTimeout(time.Duration(50+r.Intn(200)) * time.Microsecond)
					rec.ev(E{"ev": "res", "thr": thr, "op": "taketimeout", "v": v, "r": qerr(err)})
				}
			}
		}(c, rng.Int63())
	}
	if !waitBounded(&wg, 10*time.Second) {
		rec.ev(E{"ev": "stuck", "thr": "-", "op": "call", "v": 1, "r": "-"}) // a call of this round never came back
		return rec.flush(w)
	}
	for len(q) > 0 {
		rec.ev(E{"ev": "inv", "thr": "d", "op": "poll", "v": 0, "r": "-"})
		v, err := q.Poll()
		rec.ev(E{"ev": "res", "thr": "d", "op": "poll", "v": v, "r": qerr(err)})
	}
	rec.ev(E{"ev": "quiesce", "thr": "-", "op": "-", "v": len(q), "r": "-"})
	return rec.flush(w)
}

func c07Main(args []string) error {
	switch args[0] {
	case "record":
		prefix := flagVal(args, "out", "c07.trace")
		rounds := flagInt(args, "rounds", 300)
		perFile := flagInt(args, "perfile", 150)
		seed := int64(envInt("VERIF_SEED", 1))
		if flagVal(args, "perturb", "1") == "1" {
			fpgo.VerifHook = perturbHook
		}
		cfgs := [][2]int{{1, 1}, {1, 0}, {2, 1}, {1, 2}, {2, 2}, {3, 1}, {1, 3}}
		var files []string
		var w *ndWriter
		events := 0
		for r := 0; r < rounds; r++ {
			if r%perFile == 0 {
				if w != nil {
					w.close()
				}
				name := fmt.Sprintf("%s.%03d.ndjson", prefix, len(files)+1)
				var err error
				if w, err = newNDWriter(name); err != nil {
					return err
				}
				files = append(files, name)
			}
			c := cfgs[r%len(cfgs)]
			P, Cn := 1+r%3, 1+(r/3)%3
			if r%12 == 7 {
				m := r / 12
				b := 2 + m%4
				events += c07Reconfigure(w, 1+m%2, b, []int{b - 2, b + 3, 0, b - 1}[m%4], []int{1000, 1, 300}[m%3])
			} else if r%12 == 5 {
				m := r / 12
				events += c07BlockedTakers(w, 1+m%2, 3+m%4, []int{20000, 1000, 5000}[m%3], m%4 != 3)
			} else if r%9 == 2 {
				for t := 0; t < 40; t++ {
					events += c07LastItem(w, t%2 == 0, 1+t%3, 2+t%3)
				}
			} else if r%9 == 4 {
				events += c07Fresh(w, c[0], c[1]+5, 2+r%6, []int{0, 1, 1000}[r%3])
			} else if r%9 == 8 {
				events += c07ChanRound(w, seed*100003+int64(r), 1+r%3, P, Cn, 4)
			} else {
				events += c07Round(w, seed*100003+int64(r), c[0], c[1], P, Cn, 4, []int{0, 1, 1000}[r%3])
			}
		}
		if w != nil {
			w.close()
		}
		fmt.Printf("{\"files\":[%s],\"events\":%d,\"rounds\":%d}\n", quoteJoin(files), events, rounds)
		return nil
	case "direct":
		return c07DirectMain(args)
	case "hooktrace":
		prefix := flagVal(args, "out", "c07.hook")
		rounds := flagInt(args, "rounds", 20)
		seed := int64(envInt("VERIF_SEED", 1))
		cfgs := [][2]int{{1, 1}, {1, 0}, {2, 1}, {1, 2}, {2, 2}, {3, 1}, {1, 3}}
		var files []string
		events := 0
		for ci, c := range cfgs {
			name := fmt.Sprintf("%s.c%db%d.ndjson", prefix, c[0], c[1])
			w, err := newNDWriter(name)
			if err != nil {
				return err
			}
			for r := 0; r < rounds; r++ {
				events += c07HookRound(w, seed*7919+int64(ci*1000+r), c[0], c[1], 1+r%3, 1+(r/3)%3, 3, []int{0, 1, 300}[r%3], r == 0)
			}
			w.close()
			files = append(files, name)
		}
		fpgo.VerifHook = nil
		fmt.Printf("{\"files\":[%s],\"events\":%d,\"rounds\":%d}\n", quoteJoin(files), events, rounds*len(cfgs))
		return nil
	}
	return fmt.Errorf("c07: record|hooktrace")
}

func quoteJoin(xs []string) string {
	s := ""
	for i, x := range xs {
		if i > 0 {
			s += ","
		}
		s += fmt.Sprintf("%q", x)
	}
	return s
}
