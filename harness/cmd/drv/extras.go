//go:build verif

package main

import (
	"bytes"
	"fmt"
	"io"
	"mime"
	"mime/multipart"
	"sort"
	"sync/atomic"
	"time"

	fpgo "github.com/TeaEntityLab/fpGo/v2"
	"github.com/TeaEntityLab/fpGo/v2/network"
)

// extras: calls of the exported API that no listed property talks about, recorded for Extras.tla (advisory observations).

func init() { commands["extras"] = extrasMain }

type exRec struct {
	Fn   string `json:"fn"`
	Xs   []int  `json:"xs"`
	Ys   []int  `json:"ys"`
	N    int    `json:"n"`
	Out  []int  `json:"out"`
	Flag bool   `json:"flag"`
}

func exInts(xs ...int) []int {
	if xs == nil {
		return []int{}
	}
	return xs
}

func ifaceInts(s *fpgo.StreamForInterfaceDef) []int {
	out := []int{}
	for _, v := range *s {
		switch x := v.(type) {
		case int:
			out = append(out, x)
		case int8:
			out = append(out, int(x))
		case int16:
			out = append(out, int(x))
		case int32:
			out = append(out, int(x))
		case int64:
			out = append(out, int(x))
		case byte:
			out = append(out, int(x))
		case float32:
			out = append(out, int(x))
		case float64:
			out = append(out, int(x))
		case string:
			n := 0
			fmt.Sscanf(x, "%d", &n)
			out = append(out, n)
		case bool:
			if x {
				out = append(out, 1)
			} else {
				out = append(out, 0)
			}
		case fpgo.MaybeDef[interface{}]:
			n, _ := x.ToInt()
			out = append(out, n)
		default:
			out = append(out, -999)
		}
	}
	return out
}

func sortedKeys[V any](m map[int]V) []int {
	out := []int{}
	for k := range m {
		out = append(out, k)
	}
	sort.Ints(out)
	return out
}

func extrasMain(args []string) error {
	w, err := newNDWriter(flagVal(args, "out", "extras.ndjson"))
	if err != nil {
		return err
	}
	defer w.close()
	n := 0
	emit := func(fn string, xs, ys []int, num int, out []int, flag bool) {
		w.write(exRec{Fn: fn, Xs: exInts(xs...), Ys: exInts(ys...), N: num, Out: exInts(out...), Flag: flag})
		n++
	}
	lists := [][]int{{}, {0}, {3}, {1, 2}, {2, 2}, {0, 1, 0}, {3, 1, 2, 1}, {5, 4, 3, 2, 1, 0}}
	SI := &fpgo.StreamForInterface
	for _, xs := range lists {
		xs := append([]int{}, xs...)
		emit("StreamFrom", xs, nil, 0, []int(*fpgo.StreamFrom(xs...)), true)
		emit("StreamFromArray", xs, nil, 0, []int(*fpgo.StreamFromArray(xs)), true)
		ifs := make([]interface{}, len(xs))
		i8, i16, i32, i64 := make([]int8, len(xs)), make([]int16, len(xs)), make([]int32, len(xs)), make([]int64, len(xs))
		bs, f32, f64, ss := make([]byte, len(xs)), make([]float32, len(xs)), make([]float64, len(xs)), make([]string, len(xs))
		ms := make([]fpgo.MaybeDef[interface{}], len(xs))
		for i, x := range xs {
			ifs[i], i8[i], i16[i], i32[i], i64[i], bs[i], f32[i], f64[i], ss[i] = x, int8(x), int16(x), int32(x), int64(x), byte(x), float32(x), float64(x), fmt.Sprint(x)
			ms[i] = fpgo.Maybe.Just(x)
		}
		emit("StreamI.From", xs, nil, 0, ifaceInts(SI.From(ifs...)), true)
		emit("StreamI.FromArray", xs, nil, 0, ifaceInts(SI.FromArray(ifs)), true)
		emit("StreamI.FromArrayInt", xs, nil, 0, ifaceInts(SI.FromArrayInt(xs)), true)
		emit("StreamI.FromArrayInt8", xs, nil, 0, ifaceInts(SI.FromArrayInt8(i8)), true)
		emit("StreamI.FromArrayInt16", xs, nil, 0, ifaceInts(SI.FromArrayInt16(i16)), true)
		emit("StreamI.FromArrayInt32", xs, nil, 0, ifaceInts(SI.FromArrayInt32(i32)), true)
		emit("StreamI.FromArrayInt64", xs, nil, 0, ifaceInts(SI.FromArrayInt64(i64)), true)
		emit("StreamI.FromArrayByte", xs, nil, 0, ifaceInts(SI.FromArrayByte(bs)), true)
		emit("StreamI.FromArrayFloat32", xs, nil, 0, ifaceInts(SI.FromArrayFloat32(f32)), true)
		emit("StreamI.FromArrayFloat64", xs, nil, 0, ifaceInts(SI.FromArrayFloat64(f64)), true)
		emit("StreamI.FromArrayString", xs, nil, 0, ifaceInts(SI.FromArrayString(ss)), true)
		emit("StreamI.FromArrayMaybe", xs, nil, 0, ifaceInts(SI.FromArrayMaybe(ms)), true)
		bits, bools := make([]int, len(xs)), make([]bool, len(xs)) // booleans: the parity of each element, as 0 / 1
		for i, x := range xs {
			bits[i] = x & 1
			bools[i] = x&1 == 1
		}
		emit("StreamI.FromArrayBool", bits, nil, 0, ifaceInts(SI.FromArrayBool(bools)), true)
		// sets: keys + "all values are the zero value"
		gset := func(m *fpgo.MapSetDef[int, int]) ([]int, bool) {
			z := true
			for _, v := range *m {
				z = z && v == 0
			}
			return sortedKeys(map[int]int(*m)), z
		}
		k, z := gset(fpgo.SetFrom[int, int](xs...))
		emit("SetFrom", xs, nil, 0, k, z)
		k, z = gset(fpgo.SetFromArray[int, int](xs))
		emit("SetFromArray", xs, nil, 0, k, z)
		iset := func(m *fpgo.SetForInterfaceDef) ([]int, bool) {
			z := true
			mm := map[int]bool{}
			for kk, v := range *m {
				z = z && v == nil
				mm[kk.(int)] = true
			}
			return sortedKeys(mm), z
		}
		k, z = iset(fpgo.SetForInterfaceFrom(ifs...))
		emit("SetI.From", xs, nil, 0, k, z)
		k, z = iset(fpgo.SetForInterfaceFromArray(ifs))
		emit("SetI.FromArray", xs, nil, 0, k, z)
		im := map[interface{}]interface{}{}
		for _, x := range xs {
			im[x] = "v"
		}
		k, _ = iset(fpgo.SetForInterfaceFromMap(im))
		emit("SetI.FromMap", xs, nil, 0, k, true)
		gss := func(m *fpgo.StreamSetDef[int, int]) ([]int, bool) {
			z := true
			mm := map[int]bool{}
			for kk, v := range m.MapSetDef {
				z = z && v != nil && len(*v) == 0
				mm[kk] = true
			}
			return sortedKeys(mm), z
		}
		k, z = gss(fpgo.StreamSetFrom[int, int](xs...))
		emit("StreamSetFrom", xs, nil, 0, k, z)
		k, z = gss(fpgo.StreamSetFromArray[int, int](xs))
		emit("StreamSetFromArray", xs, nil, 0, k, z)
		iss := func(m *fpgo.StreamSetForInterfaceDef) ([]int, bool) {
			z := true
			mm := map[int]bool{}
			for kk, v := range m.SetForInterfaceDef {
				s, ok := v.(*fpgo.StreamForInterfaceDef)
				z = z && ok && s != nil && len(*s) == 0
				mm[kk.(int)] = true
			}
			return sortedKeys(mm), z
		}
		k, z = iss(fpgo.StreamSetForInterfaceFrom(ifs...))
		emit("StreamSetI.From", xs, nil, 0, k, z)
		k, z = iss(fpgo.StreamSetForInterfaceFromArray(ifs))
		emit("StreamSetI.FromArray", xs, nil, 0, k, z)
		k, z = iss(fpgo.StreamSetFromInterface(ifs...))
		emit("StreamSetFromInterface", xs, nil, 0, k, z)
		k, z = iss(fpgo.StreamSetFromArrayInterface(ifs))
		emit("StreamSetFromArrayInterface", xs, nil, 0, k, z)
		d := fpgo.DistinctRandom(xs...)
		sort.Ints(d)
		emit("DistinctRandom", xs, nil, 0, d, true)
	}
	for _, v := range []int{-2, -1, 0, 1, 7} {
		emit("IsNeg", nil, nil, v, nil, fpgo.IsNeg(v))
		emit("IsPos", nil, nil, v, nil, fpgo.IsPos(v))
		emit("IsZero", nil, nil, v, nil, fpgo.IsZero(v))
		p1, p2 := fpgo.PtrOf(v), fpgo.PtrOf(v)
		emit("PtrOf", nil, nil, v, []int{*p1}, p1 != p2)
		emit("IsNeg", nil, nil, v, nil, fpgo.IsNeg(float64(v)))
	}
	{
		c := fpgo.CurryNew(func(c *fpgo.CurryDef[interface{}, interface{}], args ...interface{}) interface{} { return len(args) })
		b2i := func(b bool) int {
			if b {
				return 1
			}
			return 0
		}
		before := b2i(c.IsDone())
		c.Call(1)
		c.MarkDone()
		emit("CurryNew.IsDone", nil, nil, 0, []int{before, b2i(c.IsDone())}, true)
	}
	// linked items
	for _, pair := range [][2][]int{{{1}, {2}}, {{1, 2, 3}, {4, 5}}, {{7}, {8, 9, 10}}} {
		xs, ys := pair[0], pair[1]
		mkL := func(vs []int) *fpgo.LinkedListItem[int] {
			var first, last *fpgo.LinkedListItem[int]
			for _, v := range vs {
				v := v
				it := &fpgo.LinkedListItem[int]{Val: &v}
				if first == nil {
					first = it
				} else {
					last.Next = it
				}
				last = it
			}
			return first
		}
		a, b := mkL(xs), mkL(ys)
		ret := a.AddLast(b)
		out := []int{a.Count(), *ret.Val}
		for it := a; it != nil; it = it.Next {
			out = append(out, *it.Val)
		}
		emit("LinkedListItem", xs, ys, xs[len(xs)-1], out, *a.Last().Val == ys[len(ys)-1])
		mkD := func(vs []int) *fpgo.DoublyListItem[int] {
			var first, last *fpgo.DoublyListItem[int]
			for _, v := range vs {
				v := v
				it := &fpgo.DoublyListItem[int]{Val: &v}
				if first == nil {
					first = it
				} else {
					last.Next, it.Prev = it, last
				}
				last = it
			}
			return last // deliberately not the first node: every method must work from any node
		}
		walk := func(n *fpgo.DoublyListItem[int]) ([]int, bool) {
			out := []int{}
			ok := true
			total := n.Count()
			for it := n.First(); it != nil; it = it.Next {
				out = append(out, *it.Val)
				ok = ok && it.Count() == total && it.First() == n.First() && it.Last() == n.Last()
			}
			return out, ok && len(out) == total
		}
		da, db := mkD(xs), mkD(ys)
		da.AddFirst(db)
		o, ok := walk(da)
		emit("DoublyListItem", xs, ys, 0, o, ok)
		da, db = mkD(xs), mkD(ys)
		da.AddLast(db)
		o, ok = walk(da)
		emit("DoublyListItem.AddLast", xs, ys, 0, o, ok)
	}
	// ChannelQueue.Put (blocking) within capacity, then FIFO takes
	for _, xs := range [][]int{{1}, {3, 1, 2}, {5, 5, 4, 6}} {
		q := fpgo.NewChannelQueue[int](len(xs))
		for _, x := range xs {
			q.Put(x)
		}
		out := []int{}
		for range xs {
			v, _ := q.Take()
			out = append(out, v)
		}
		emit("ChannelQueue.Put", xs, nil, 0, out, true)
	}
	{
		q := fpgo.NewBufferedChannelQueue[int](2, 3, 4)
		q.SetBufferSizeMaximum(7).SetNodeHookPoolSize(9).SetLoadFromPoolDuration(11 * time.Millisecond).SetFreeNodeHookPoolIntervalDuration(13 * time.Millisecond)
		emit("BQ.settings", []int{7, 9, 11, 13}, nil, 0, []int{q.GetBufferSizeMaximum(), q.GetNodeHookPoolSize(), int(q.GetLoadFromPoolDuration() / time.Millisecond), int(q.GetFreeNodeHookPoolIntervalDuration() / time.Millisecond)}, true)
		q.Close()
	}
	{
		type rec struct{ K1, K2 fpgo.Comparable[interface{}] }
		d1 := fpgo.NewFieldSortDescriptor[rec]("K1", true)
		d2 := fpgo.NewFieldSortDescriptor[rec]("K2", false)
		d3 := fpgo.NewFieldSortDescriptor[rec]("K1", false)
		b := fpgo.NewSortDescriptorsBuilder[rec]().ThenWithFieldName("K1", true)
		b2 := b.ThenWith(d2, d3)
		ids := []int{}
		for _, d := range b2.GetSortDescriptors() {
			id := 0
			if fd, ok := d.(fpgo.FieldSortDescriptor[rec]); ok {
				if fd.GetFieldName() == "K1" {
					id = 1
				} else {
					id = 2
				}
				if !fd.IsAscending() {
					id += 10
				}
			}
			ids = append(ids, id)
		}
		emit("Sort.ThenWith", []int{1}, []int{12, 11}, 0, ids, true)
		// the setters have value receivers: what do they do to the descriptor they are called on?
		d1.SetFieldName("K2")
		d1.SetAscending(false)
		emit("Sort.FieldName", nil, nil, 0, nil, d1.GetFieldName() == "K2" && !d1.IsAscending())
	}
	// instance-method constructors behave like the package-level ones
	{
		got := make(chan int, 4)
		a := fpgo.Actor.New(func(self *fpgo.ActorDef[interface{}], m interface{}) { got <- m.(int) })
		a.Send(5)
		a2 := fpgo.Actor.NewByOptions(func(self *fpgo.ActorDef[interface{}], m interface{}) { got <- m.(int) + 1 }, make(chan interface{}, 2), map[string]interface{}{})
		a2.Send(5)
		r := []int{}
		for i := 0; i < 2; i++ {
			select {
			case v := <-got:
				r = append(r, v)
			case <-time.After(time.Second):
			}
		}
		sort.Ints(r)
		emit("Actor.New", []int{5, 6}, nil, 0, r, true)
		a.Close()
		a2.Close()
	}
	{
		var ran int32
		c := fpgo.Cor.New(func() { atomic.AddInt32(&ran, 1) })
		c.Start()
		c2 := fpgo.Cor.NewAndStart(func() { atomic.AddInt32(&ran, 10) })
		deadline := time.Now().Add(time.Second)
		for (!c.IsDone() || !c2.IsDone()) && time.Now().Before(deadline) {
			time.Sleep(100 * time.Microsecond)
		}
		emit("Cor.New", []int{11}, nil, 0, []int{int(atomic.LoadInt32(&ran))}, c.IsStarted() && c.IsDone() && c2.IsDone())
	}
	{
		m := fpgo.MonadIO.Just(7)
		v1 := m.Eval().(int)
		calls := 0
		m2 := fpgo.MonadIO.New(func() interface{} { calls++; return 8 })
		lazy := calls == 0
		v2 := m2.Eval().(int)
		emit("MonadIO.Just", []int{7, 8}, nil, 0, []int{v1, v2}, lazy && calls == 1)
	}
	{
		p := fpgo.Publisher.New()
		got := []int{}
		s := p.Subscribe(fpgo.Subscription[interface{}]{OnNext: func(v interface{}) { got = append(got, v.(int)) }})
		p.Publish(1)
		p.Publish(2)
		p.Unsubscribe(s)
		p.Publish(3)
		emit("Publisher.New", []int{1, 2}, nil, 0, got, true)
	}
	{
		h := fpgo.Handler.GetDefault()
		done := make(chan int, 1)
		ok := h != nil
		if ok {
			h.Post(func() { done <- 4 })
			select {
			case v := <-done:
				emit("Handler.GetDefault", []int{4}, nil, 0, []int{v}, true)
			case <-time.After(time.Second):
				emit("Handler.GetDefault", []int{4}, nil, 0, nil, false)
			}
		} else {
			emit("Handler.GetDefault", []int{4}, nil, 0, nil, false)
		}
	}
	{
		sh := network.NewSimpleHTTP()
		emit("NewSimpleHTTP", nil, nil, 0, nil, sh != nil && sh.GetHTTPClient() != nil && sh.GetHTTPClient().Transport != nil)
		api := network.NewSimpleAPI("http://example.invalid/base")
		emit("NewSimpleAPI", nil, nil, 0, nil, api != nil && api.BaseURL == "http://example.invalid/base" && api.GetSimpleHTTP() != nil)
		form := &network.MultipartForm{Value: map[string][]string{"a": {"1", "2"}, "b": {"3"}}}
		rd, ctype, err := network.GeneralMultipartSerializer(form)
		ok := err == nil
		vals := []int{}
		if ok {
			_, params, perr := mime.ParseMediaType(ctype)
			body, _ := io.ReadAll(rd)
			ok = perr == nil
			if ok {
				mr := multipart.NewReader(bytes.NewReader(body), params["boundary"])
				f, rerr := mr.ReadForm(1 << 20)
				ok = rerr == nil
				if ok {
					for _, key := range []string{"a", "b"} {
						for _, v := range f.Value[key] {
							n := 0
							fmt.Sscanf(v, "%d", &n)
							vals = append(vals, n)
						}
					}
				}
			}
		}
		emit("GeneralMultipartSerializer", []int{1, 2, 3}, nil, 0, vals, ok)
	}
	fmt.Printf("{\"records\":%d}\n", n)
	return nil
}
