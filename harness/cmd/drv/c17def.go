//go:build verif

package main

import (
	"bytes"
	"encoding/json"
	"fmt"
	"io"
	"mime"
	"mime/multipart"
	"net/http"
	"strconv"
	"strings"
	"sync"
	"sync/atomic"

	"github.com/TeaEntityLab/fpGo/v2/network"
)

// The DEFAULT serializers (JSONBodySerializer, GeneralMultipartSerializer, JSONBodyDeserializer) behind real API constructors:
// every request's body is the serializer's output for the body given to THAT call - sequentially, when an interceptor evaluates
// another JSON API while the outer request is in flight, and when the first calls on a fresh SimpleAPI come from several
// goroutines at once.  The request path names the call (/t/<id>), the expected text is json.Marshal of the body given.

type c17Todo struct {
	ID    int    `json:"id"`
	Title string `json:"title"`
}

type c17Pair struct {
	ID   int    `json:"id"`
	Want string `json:"want"`
	Got  string `json:"got"`
}

type c17DefTransport struct {
	mu  sync.Mutex
	got map[int][]string
	ct  map[int][]string
}

func (t *c17DefTransport) RoundTrip(r *http.Request) (*http.Response, error) {
	var b []byte
	if r.Body != nil {
		b, _ = io.ReadAll(r.Body)
	}
	id, _ := strconv.Atoi(r.URL.Path[strings.LastIndex(r.URL.Path, "/")+1:])
	t.mu.Lock()
	t.got[id] = append(t.got[id], string(b))
	t.ct[id] = append([]string{}, r.Header["Content-Type"]...)
	t.mu.Unlock()
	resp, _ := json.Marshal(c17Todo{ID: id + 1000, Title: fmt.Sprintf("resp-%d", id)})
	// the body arrives a few bytes per Read although its length is declared: whoever reads it must read to the end
	return &http.Response{StatusCode: 200, Header: http.Header{"Content-Type": []string{"application/json"}}, ContentLength: int64(len(resp)),
		Body: io.NopCloser(&c17Dribble{r: bytes.NewReader(resp)}), Request: r}, nil
}

type c17Dribble struct{ r io.Reader }

func (d *c17Dribble) Read(p []byte) (int, error) {
	if len(p) > 5 {
		p = p[:5]
	}
	return d.r.Read(p)
}

func c17Defaults(w *ndWriter) int {
	n := 0
	emit := func(scen string, tr *c17DefTransport, ids []int, errs, decodedOK bool) {
		o := c17BodyOut{Part: "defaults", Ctor: scen, Kind: "defaults", Calls: len(ids), Err: errs}
		pairs := []c17Pair{}
		tr.mu.Lock()
		for _, id := range ids {
			want, _ := json.Marshal(c17Todo{ID: id, Title: fmt.Sprintf("title-%d", id)})
			got := "<no request>"
			if g := tr.got[id]; len(g) == 1 {
				got = g[0]
			} else if len(g) > 1 {
				got = fmt.Sprintf("<%d requests>", len(g))
			}
			pairs = append(pairs, c17Pair{id, string(want), got})
			if got != string(want) && o.Body == "" {
				o.Body = got
			}
		}
		tr.mu.Unlock()
		o.Pairs, o.Decoded = pairs, decodedOK
		w.write(o)
		n++
	}
	mkAPI := func(tr *c17DefTransport, ics ...*network.Interceptor) *network.SimpleAPIDef {
		return network.NewSimpleAPIWithSimpleHTTP("http://stub.invalid", network.NewSimpleHTTPWithClientAndInterceptors(&http.Client{Transport: tr}, ics...))
	}
	newTr := func() *c17DefTransport { return &c17DefTransport{got: map[int][]string{}, ct: map[int][]string{}} }
	call := func(api *network.SimpleAPIDef, verb string, id int) (err bool, decoded bool) {
		defer func() {
			if recover() != nil {
				err = true
			}
		}()
		var target c17Todo
		var f network.APIHasBody[c17Todo, c17Todo]
		switch verb {
		case "put":
			f = network.APIMakePutJSONBody[c17Todo, c17Todo](api, "t/{id}")
		case "patch":
			f = network.APIMakePatchJSONBody[c17Todo, c17Todo](api, "t/{id}")
		default:
			f = network.APIMakePostJSONBody[c17Todo, c17Todo](api, "t/{id}")
		}
		res := f(network.PathParam{"id": strconv.Itoa(id)}, c17Todo{ID: id, Title: fmt.Sprintf("title-%d", id)}, &target).Eval()
		return res.Err != nil, target == c17Todo{ID: id + 1000, Title: fmt.Sprintf("resp-%d", id)}
	}
	// sequential, one API, three verbs, bodies of different lengths
	{
		tr := newTr()
		api := mkAPI(tr)
		errs, dec := false, true
		ids := []int{1, 22, 333, 4, 55555}
		for i, id := range ids {
			e, d := call(api, []string{"post", "put", "patch"}[i%3], id)
			errs, dec = errs || e, dec && d
		}
		emit("sequential", tr, ids, errs, dec)
	}
	// nested: while request 1 (long body) is in flight its interceptor evaluates request 2 (another JSON API over the same transport)
	for _, outer := range []int{1, 7777777} {
		tr := newTr()
		inner := mkAPI(tr)
		var innerErr, innerDec bool
		var once sync.Once
		ic := network.Interceptor(func(r *http.Request) error {
			once.Do(func() { innerErr, innerDec = call(inner, "post", 2) })
			return nil
		})
		api := mkAPI(tr, &ic)
		e, d := call(api, "post", outer)
		emit("nested", tr, []int{outer, 2}, e || innerErr, d && innerDec)
	}
	// the first calls on a fresh SimpleAPI come from K goroutines released together, each makes several calls
	for round := 0; round < 6; round++ {
		tr := newTr()
		api := mkAPI(tr)
		K, per := 4+round%5, 12
		var ready, start, errs, undec int32
		var wg sync.WaitGroup
		ids := []int{}
		for k := 0; k < K; k++ {
			for j := 0; j < per; j++ {
				ids = append(ids, (k+1)*1000+j*37+round)
			}
			wg.Add(1)
			go func(k int) {
				defer wg.Done()
				atomic.AddInt32(&ready, 1)
				for atomic.LoadInt32(&start) == 0 {
				}
				for j := 0; j < per; j++ {
					e, d := call(api, []string{"post", "put", "patch"}[(k+j)%3], (k+1)*1000+j*37+round)
					if e {
						atomic.AddInt32(&errs, 1)
					}
					if !d {
						atomic.AddInt32(&undec, 1)
					}
				}
			}(k)
		}
		for atomic.LoadInt32(&ready) < int32(K) {
		}
		atomic.StoreInt32(&start, 1)
		wg.Wait()
		emit("concurrent-fresh", tr, ids, errs > 0, undec == 0)
	}
	// the default multipart serializer: the body parses with the declared boundary and carries the form's fields
	{
		tr := newTr()
		api := mkAPI(tr)
		var target c17Todo
		form := &network.MultipartForm{Value: map[string][]string{"k": {"v1"}, "m": {"v2"}}}
		res := network.APIMakePostMultipartBody[c17Todo](api, "t/{id}")(network.PathParam{"id": "9"}, form, &target).Eval()
		o := c17BodyOut{Part: "defaults", Ctor: "multipart", Kind: "defaults", Calls: 1, Err: res.Err != nil, Decoded: target == c17Todo{ID: 1009, Title: "resp-9"}}
		got := "<unparsable>"
		tr.mu.Lock()
		if len(tr.got[9]) == 1 && len(tr.ct[9]) >= 1 {
			if mt, params, err := mime.ParseMediaType(tr.ct[9][len(tr.ct[9])-1]); err == nil && strings.HasPrefix(mt, "multipart/") {
				if f, err := multipart.NewReader(strings.NewReader(tr.got[9][0]), params["boundary"]).ReadForm(1 << 20); err == nil {
					got = fmt.Sprintf("k=%v m=%v", f.Value["k"], f.Value["m"])
				}
			}
		}
		tr.mu.Unlock()
		o.Pairs = []c17Pair{{9, "k=[v1] m=[v2]", got}}
		if got != "k=[v1] m=[v2]" {
			o.Body = got
		}
		w.write(o)
		n++
	}
	return n
}
