//go:build verif

package main

import (
	"fmt"
	"math/rand"
	"runtime"
	"sync"
	"sync/atomic"
	"time"

	fpgo "github.com/TeaEntityLab/fpGo/v2"
)

// C12 — Handler / Actor mailboxes.  Events judged by Trace_MailboxAbs.tla.

func init() { commands["c12"] = c12Main }

type c12Msg struct{ S, I int }

func spin(rng *rand.Rand, mu *sync.Mutex) {
	mu.Lock()
	x := rng.Intn(4)
	mu.Unlock()
	switch x {
	case 0:
	case 1:
		runtime.Gosched()
	case 2:
		time.Sleep(time.Duration(5) * time.Microsecond)
	default:
		for i := 0; i < 200; i++ {
			_ = i * i
		}
	}
}

// one stress run on a Handler or an Actor
func c12Run(w *ndWriter, rng *rand.Rand, kind string, K, S, N int, closeThenPost int, parkFirst time.Duration) int {
	rec := &recorder{}
	rec.ev(E{"ev": "reset", "kind": kind, "k": K, "senders": S, "s": 0, "i": 0})
	var rmu sync.Mutex
	var ran, first int32
	body := func(m c12Msg, selfOK bool) {
		rec.ev(E{"ev": "begin", "s": m.S, "i": m.I, "selfOK": selfOK})
		if parkFirst > 0 && atomic.CompareAndSwapInt32(&first, 0, 1) {
			time.Sleep(parkFirst) // the consumer is held inside the first function: a second begin now is an overlap
		}
		spin(rng, &rmu)
		atomic.AddInt32(&ran, 1)
		rec.ev(E{"ev": "end", "s": m.S, "i": m.I})
	}
	var post func(m c12Msg)
	var closeFn func()
	var sync1 func() bool
	switch kind {
	case "handler":
		var h *fpgo.HandlerDef
		if K < 0 {
			h = fpgo.Handler.New()
		} else {
			h = fpgo.Handler.NewByCh(make(chan func(), K))
		}
		post = func(m c12Msg) { h.Post(func() { body(m, true) }) }
		closeFn = h.Close
		sync1 = func() bool {
			ch := make(chan struct{}, 1)
			go h.Post(func() { ch <- struct{}{} })
			select {
			case <-ch:
				return true
			case <-time.After(5 * time.Second):
				return false
			}
		}
	case "actor":
		var a *fpgo.ActorDef[c12Msg]
		probe := make(chan struct{}, 1)
		eff := func(self *fpgo.ActorDef[c12Msg], m c12Msg) {
			if m.S == 0 {
				probe <- struct{}{}
				return
			}
			body(m, self == a)
		}
		if K < 0 {
			a = fpgo.ActorNewGenerics(eff)
		} else {
			a = fpgo.ActorNewByOptionsGenerics(eff, make(chan c12Msg, K), map[string]interface{}{})
		}
		post = func(m c12Msg) { a.Send(m) }
		closeFn = a.Close
		sync1 = func() bool {
			go a.Send(c12Msg{0, 0})
			select {
			case <-probe:
				return true
			case <-time.After(5 * time.Second):
				return false
			}
		}
	}
	var wg sync.WaitGroup
	var start int32 // spin barrier: all senders issue their first submission at the same moment
	for s := 1; s <= S; s++ {
		wg.Add(1)
		go func(s int) {
			defer wg.Done()
			for atomic.LoadInt32(&start) == 0 {
			}
			for i := 1; i <= N; i++ {
				post(c12Msg{s, i})
			}
		}(s)
	}
	time.Sleep(50 * time.Microsecond)
	atomic.StoreInt32(&start, 1)
	done := make(chan struct{})
	go func() { wg.Wait(); close(done) }()
	stuck := false
	select {
	case <-done:
	case <-time.After(20 * time.Second):
		stuck = true
	}
	expect := S * N
	if !stuck && !sync1() {
		stuck = true
	}
	if closeThenPost > 0 && !stuck {
		closeFn()
		rec.ev(E{"ev": "closed", "s": 0, "i": 0})
		for j := 1; j <= closeThenPost; j++ {
			m := c12Msg{1 + j%S, N + j}
			rec.ev(E{"ev": "sentAfterClose", "s": m.S, "i": m.I})
			func() {
				defer func() { recover() }()
				post(m)
			}()
		}
		time.Sleep(5 * time.Millisecond)
	}
	rec.ev(E{"ev": "quiesce", "ran": int(atomic.LoadInt32(&ran)), "expect": expect, "stuck": stuck, "s": 0, "i": 0})
	if closeThenPost == 0 && !stuck {
		closeFn()
	}
	return rec.flush(w)
}

// spawn scenarios: trees of depth <= 2, on open and closed parents
func c12Spawn(w *ndWriter) int {
	rec := &recorder{}
	rec.ev(E{"ev": "reset", "kind": "spawn", "k": 0, "senders": 0, "s": 0, "i": 0})
	type got struct {
		self *fpgo.ActorDef[int]
		v    int
	}
	mk := func(log chan got) func(*fpgo.ActorDef[int], int) {
		return func(self *fpgo.ActorDef[int], v int) { log <- got{self, v} }
	}
	check := func(parent *fpgo.ActorDef[int], parentClosed bool, parentLog chan got) *fpgo.ActorDef[int] {
		childLog := make(chan got, 4)
		time.Sleep(time.Millisecond) // actor ids are clock values
		child := parent.Spawn(mk(childLog))
		parentLinked := child.GetParent() == parent
		childLinked := parent.GetChild(child.GetID()) == child
		independent := true
		child.Send(7)
		select {
		case g := <-childLog:
			independent = g.self == child && g.v == 7
		case <-time.After(2 * time.Second):
			independent = false
		}
		select {
		case <-parentLog: // the parent must not see the child's message
			independent = false
		default:
		}
		rec.ev(E{"ev": "spawn", "parentClosed": parentClosed, "parentLinked": parentLinked, "childLinked": childLinked, "independent": independent, "s": 0, "i": 0})
		return child
	}
	rootLog := make(chan got, 4)
	root := fpgo.ActorNewGenerics(mk(rootLog))
	c1 := check(root, false, rootLog)
	c2 := check(root, false, rootLog)
	g1log := make(chan got, 4)
	_ = g1log
	gc := check(c1, false, make(chan got, 4)) // depth 2
	_ = gc
	c2.Close()
	check(c2, true, make(chan got, 4)) // spawn on a closed parent
	root.Close()
	check(root, true, rootLog)
	def := fpgo.Actor.GetDefault() // the default actor is permanently closed
	func() {
		defer func() {
			if recover() != nil {
				rec.ev(E{"ev": "spawn", "parentClosed": true, "parentLinked": true, "childLinked": true, "independent": false, "s": 0, "i": 0})
			}
		}()
		ch := def.Spawn(func(*fpgo.ActorDef[interface{}], interface{}) {})
		rec.ev(E{"ev": "spawn", "parentClosed": true, "parentLinked": ch.GetParent() == def, "childLinked": def.GetChild(ch.GetID()) == ch, "independent": true, "s": 0, "i": 0})
		ch.Close()
	}()
	c1.Close()
	// a grandparent closed earlier: the parent itself is open, so its new child registers under it (only the PARENT's state counts)
	{
		root2 := fpgo.ActorNewGenerics(mk(make(chan got, 4)))
		midLog := make(chan got, 4)
		mid := root2.Spawn(mk(midLog))
		root2.Close()
		time.Sleep(time.Millisecond)
		leaf := check(mid, false, midLog)
		check(leaf, false, make(chan got, 4)) // and one level further down
		mid.Close()
		leaf.Close()
	}
	// a burst: several children spawned back to back (from the harness and from inside the parent's own effect), looked up only
	// AFTER all of them exist; then the parent is closed and every child - still open - must go on processing what it is sent
	for round := 0; round < 12; round++ {
		n := 2 + round%5
		kids := make([]*fpgo.ActorDef[int], 0, n)
		logs := make([]chan got, 0, n)
		spawned := make(chan struct{})
		var parent *fpgo.ActorDef[int]
		inside := round%2 == 1
		parent = fpgo.ActorNewGenerics(func(self *fpgo.ActorDef[int], v int) {
			if v == -1 {
				for k := 0; k < n; k++ {
					l := make(chan got, 4)
					logs = append(logs, l)
					kids = append(kids, self.Spawn(mk(l)))
				}
				close(spawned)
			}
		})
		if inside {
			parent.Send(-1)
			select {
			case <-spawned:
			case <-time.After(2 * time.Second):
			}
		} else {
			for k := 0; k < n; k++ {
				l := make(chan got, 4)
				logs = append(logs, l)
				kids = append(kids, parent.Spawn(mk(l)))
			}
		}
		lookedUp := make([]bool, len(kids))
		for k, c := range kids {
			lookedUp[k] = parent.GetChild(c.GetID()) == c && c.GetParent() == parent
		}
		parent.Close()
		for k, c := range kids {
			independent := true
			c.Send(100 + k)
			select {
			case g := <-logs[k]:
				independent = g.self == c && g.v == 100+k
			case <-time.After(2 * time.Second):
				independent = false
			}
			rec.ev(E{"ev": "spawn", "parentClosed": false, "parentLinked": lookedUp[k], "childLinked": lookedUp[k], "independent": independent, "s": 0, "i": 0})
			c.Close()
		}
		if len(kids) != n {
			rec.ev(E{"ev": "spawn", "parentClosed": false, "parentLinked": false, "childLinked": false, "independent": false, "s": 0, "i": 0})
		}
	}
	return rec.flush(w)
}

// Close with a backlog: the mailbox (capacity K >= 1) is busy with a first function that is held; K more are posted (their Post /
// Send calls return: the buffer takes them), Close returns, the first function is released.  Everything whose submission returned
// before Close must still be processed exactly once, in order.
func c12CloseWithBacklog(w *ndWriter, kind string, K int) int {
	rec := &recorder{}
	rec.ev(E{"ev": "reset", "kind": kind, "k": K, "senders": 1, "s": 0, "i": 0})
	var ran int32
	gate := make(chan struct{})
	entered := make(chan struct{}, 1)
	body := func(m c12Msg, selfOK bool) {
		rec.ev(E{"ev": "begin", "s": m.S, "i": m.I, "selfOK": selfOK})
		if m.I == 1 {
			entered <- struct{}{}
			<-gate
		}
		atomic.AddInt32(&ran, 1)
		rec.ev(E{"ev": "end", "s": m.S, "i": m.I})
	}
	var post func(m c12Msg)
	var closeFn func()
	if kind == "handler" {
		h := fpgo.Handler.NewByCh(make(chan func(), K))
		post = func(m c12Msg) { h.Post(func() { body(m, true) }) }
		closeFn = h.Close
	} else {
		var a *fpgo.ActorDef[c12Msg]
		a = fpgo.ActorNewByOptionsGenerics(func(self *fpgo.ActorDef[c12Msg], m c12Msg) { body(m, self == a) }, make(chan c12Msg, K), map[string]interface{}{})
		post = func(m c12Msg) { a.Send(m) }
		closeFn = a.Close
	}
	post(c12Msg{1, 1})
	stuck := false
	select {
	case <-entered:
	case <-time.After(3 * time.Second):
		stuck = true
	}
	for i := 2; i <= K+1 && !stuck; i++ { // exactly the buffer's capacity: none of these calls blocks
		post(c12Msg{1, i})
	}
	closeFn()
	close(gate)
	deadline := time.Now().Add(2 * time.Second)
	for int(atomic.LoadInt32(&ran)) < K+1 && time.Now().Before(deadline) {
		time.Sleep(200 * time.Microsecond)
	}
	time.Sleep(2 * time.Millisecond)
	rec.ev(E{"ev": "quiesce", "ran": int(atomic.LoadInt32(&ran)), "expect": K + 1, "stuck": stuck, "s": 0, "i": 0})
	return rec.flush(w)
}

// a first function that runs for more than a second while a second submission is waiting: still one at a time, nothing the mailbox does
// out of impatience may let the second one start before the first has ended
func c12LongFirst(kind string, K int) *recorder {
	rec := &recorder{}
	rec.ev(E{"ev": "reset", "kind": kind, "k": K, "senders": 2, "s": 0, "i": 0})
	var ran int32
	entered := make(chan struct{}, 1)
	body := func(m c12Msg, selfOK bool) {
		rec.ev(E{"ev": "begin", "s": m.S, "i": m.I, "selfOK": selfOK})
		if m.S == 1 {
			entered <- struct{}{}
			time.Sleep(1250 * time.Millisecond)
		}
		atomic.AddInt32(&ran, 1)
		rec.ev(E{"ev": "end", "s": m.S, "i": m.I})
	}
	var post func(m c12Msg)
	var closeFn func()
	if kind == "handler" {
		h := fpgo.Handler.NewByCh(make(chan func(), K))
		post = func(m c12Msg) { h.Post(func() { body(m, true) }) }
		closeFn = h.Close
	} else {
		var a *fpgo.ActorDef[c12Msg]
		a = fpgo.ActorNewByOptionsGenerics(func(self *fpgo.ActorDef[c12Msg], m c12Msg) { body(m, self == a) }, make(chan c12Msg, K), map[string]interface{}{})
		post = func(m c12Msg) { a.Send(m) }
		closeFn = a.Close
	}
	post(c12Msg{1, 1})
	stuck := false
	select {
	case <-entered:
	case <-time.After(3 * time.Second):
		stuck = true
	}
	second := make(chan struct{})
	go func() { post(c12Msg{2, 1}); close(second) }() // waits for the busy mailbox (K = 0) or sits in its buffer
	deadline := time.Now().Add(5 * time.Second)
	for int(atomic.LoadInt32(&ran)) < 2 && time.Now().Before(deadline) {
		time.Sleep(500 * time.Microsecond)
	}
	select {
	case <-second:
	case <-time.After(time.Second):
		stuck = true
	}
	time.Sleep(2 * time.Millisecond)
	rec.ev(E{"ev": "quiesce", "ran": int(atomic.LoadInt32(&ran)), "expect": 2, "stuck": stuck, "s": 0, "i": 0})
	closeFn()
	return rec
}

// an actor whose messages are interface values, nil among them: a nil message is a message like any other
func c12NilMessages(w *ndWriter, K int) int {
	rec := &recorder{}
	rec.ev(E{"ev": "reset", "kind": "actor", "k": K, "senders": 1, "s": 0, "i": 0})
	var ran int32
	msgs := []interface{}{1, "two", nil, 3, nil, nil, 4}
	var a *fpgo.ActorDef[interface{}]
	a = fpgo.ActorNewByOptionsGenerics(func(self *fpgo.ActorDef[interface{}], m interface{}) {
		i := int(atomic.AddInt32(&ran, 1))
		ok := self == a && i <= len(msgs) && m == msgs[i-1]
		rec.ev(E{"ev": "begin", "s": 1, "i": i, "selfOK": ok})
		rec.ev(E{"ev": "end", "s": 1, "i": i})
	}, make(chan interface{}, K), map[string]interface{}{})
	sent := make(chan struct{})
	go func() {
		for _, m := range msgs {
			a.Send(m)
		}
		close(sent)
	}()
	stuck := false
	select {
	case <-sent:
	case <-time.After(2 * time.Second):
		stuck = true // a Send that never returns: the mailbox stopped taking messages
	}
	deadline := time.Now().Add(2 * time.Second)
	for int(atomic.LoadInt32(&ran)) < len(msgs) && time.Now().Before(deadline) && !stuck {
		time.Sleep(200 * time.Microsecond)
	}
	time.Sleep(2 * time.Millisecond)
	rec.ev(E{"ev": "quiesce", "ran": int(atomic.LoadInt32(&ran)), "expect": len(msgs), "stuck": stuck, "s": 0, "i": 0})
	a.Close()
	return rec.flush(w)
}

func c12Main(args []string) error {
	switch args[0] {
	case "record":
		w, err := newNDWriter(flagVal(args, "out", "c12.trace.ndjson"))
		if err != nil {
			return err
		}
		defer w.close()
		rounds := flagInt(args, "rounds", 40)
		rng := rand.New(rand.NewSource(int64(envInt("VERIF_SEED", 1))))
		n, runs := 0, 0
		n += c12Spawn(w)
		runs++
		for _, kind := range []string{"handler", "actor"} {
			for _, K := range []int{1, 2, 8} {
				n += c12CloseWithBacklog(w, kind, K)
				runs++
			}
		}
		var lw sync.WaitGroup
		longs := make([]*recorder, 4)
		for i := 0; i < 4; i++ { // the four long runs side by side (each takes 1.25 s)
			lw.Add(1)
			go func(i int) {
				defer lw.Done()
				longs[i] = c12LongFirst([]string{"handler", "actor"}[i%2], i/2)
			}(i)
		}
		for _, K := range []int{0, 4} {
			n += c12NilMessages(w, K)
			runs++
		}
		lw.Wait()
		for _, r := range longs {
			n += r.flush(w)
			runs++
		}
		for r := 0; r < rounds; r++ {
			for _, kind := range []string{"handler", "actor"} {
				for _, K := range []int{-1, 0, 1, 8} {
					S := []int{1, 2, 3, 4, 8, 16}[rng.Intn(6)]
					N := 1 + rng.Intn(12)
					ctp := 0
					if rng.Intn(3) == 0 {
						ctp = 1 + rng.Intn(4)
					}
					n += c12Run(w, rng, kind, K, S, N, ctp, 0)
					runs++
				}
			}
		}
		// many fresh mailboxes hit by 16 senders at once (first-Post races)
		for r := 0; r < rounds*40; r++ {
			n += c12Run(w, rng, []string{"handler", "actor"}[r%2], []int{-1, 0, 2}[r%3], 16, 2, 0, 150*time.Microsecond)
			runs++
		}
		fmt.Printf("{\"events\":%d,\"runs\":%d}\n", n, runs)
		return nil
	}
	return fmt.Errorf("c12: record")
}
