//go:build verif

package main

import (
	"encoding/json"
	"fmt"
	"math/rand"
	"runtime"
	"sync"
	"sync/atomic"
	"time"

	fpgo "github.com/TeaEntityLab/fpGo/v2"
)

// C08 — ConcurrentQueue / ConcurrentStack.  The wrapped queue is user supplied, so the harness can supply an
// instrumented one: every inner operation reports "entered" and parks until released.

func init() { commands["c08"] = c08Main }

// gateQueue: a sequentially correct but deliberately non-atomic slice queue/stack whose operations park in the middle
type gateQueue struct {
	mu      sync.Mutex
	items   []int
	entered chan string
	release chan struct{}
	gate    bool
}

func (g *gateQueue) park(op string) {
	if g.gate {
		g.entered <- op
		<-g.release
	}
}
func (g *gateQueue) ins(op string, v int) error {
	g.mu.Lock()
	n := len(g.items)
	g.mu.Unlock()
	g.park(op) // between reading the length and writing at that position
	g.mu.Lock()
	if n > len(g.items) {
		n = len(g.items)
	}
	g.items = append(g.items[:n:n], v)
	g.mu.Unlock()
	return nil
}
func (g *gateQueue) rem(op string, tail bool) (int, error) {
	g.mu.Lock()
	if len(g.items) == 0 {
		g.mu.Unlock()
		g.park(op)
		if tail {
			return 0, fpgo.ErrStackIsEmpty
		}
		return 0, fpgo.ErrQueueIsEmpty
	}
	var v int
	if tail {
		v = g.items[len(g.items)-1]
	} else {
		v = g.items[0]
	}
	g.mu.Unlock()
	g.park(op) // between reading the element and unlinking it
	g.mu.Lock()
	if len(g.items) > 0 {
		if tail {
			g.items = g.items[:len(g.items)-1]
		} else {
			g.items = g.items[1:]
		}
	}
	g.mu.Unlock()
	return v, nil
}
func (g *gateQueue) Put(v int) error    { return g.ins("Put", v) }
func (g *gateQueue) Offer(v int) error  { return g.ins("Offer", v) }
func (g *gateQueue) Push(v int) error   { return g.ins("Push", v) }
func (g *gateQueue) Take() (int, error) { return g.rem("Take", false) }
func (g *gateQueue) Poll() (int, error) { return g.rem("Poll", false) }
func (g *gateQueue) Pop() (int, error)  { return g.rem("Pop", true) }

func newGate() *gateQueue {
	return &gateQueue{entered: make(chan string, 8), release: make(chan struct{}), gate: true}
}

// a wrapped structure with an error path: inserting the marker value panics (as a wrapped implementation may do on bad input); the
// wrapper must stay usable afterwards - the call that panicked had no effect, later calls are served
type injectedPanic struct{}
type faultQueue struct{ *fpgo.LinkedListQueue[int] }

const faultValue = -666

func (f faultQueue) Offer(v int) error {
	if v == faultValue {
		panic(injectedPanic{})
	}
	return f.LinkedListQueue.Offer(v)
}
func (f faultQueue) Put(v int) error {
	if v == faultValue {
		panic(injectedPanic{})
	}
	return f.LinkedListQueue.Put(v)
}
func (f faultQueue) Push(v int) error {
	if v == faultValue {
		panic(injectedPanic{})
	}
	return f.LinkedListQueue.Push(v)
}

type c08Wrapped struct {
	cq *fpgo.ConcurrentQueue[int]
	cs *fpgo.ConcurrentStack[int]
}

func (w c08Wrapped) call(m string, v int) (int, error) {
	switch m {
	case "Put":
		return 0, w.cq.Put(v)
	case "Offer":
		return 0, w.cq.Offer(v)
	case "Take":
		return w.cq.Take()
	case "Poll":
		return w.cq.Poll()
	case "Push":
		return 0, w.cs.Push(v)
	case "Pop":
		return w.cs.Pop()
	}
	panic(m)
}

// a call on the wrappers that may never return (a lock left held, a copied mutex): bounded wait
func (w c08Wrapped) callTimed(m string, v int, d time.Duration) (got int, err error, returned bool) {
	type res struct {
		g int
		e error
	}
	ch := make(chan res, 1)
	go func() {
		defer func() {
			if recover() != nil {
				ch <- res{0, fmt.Errorf("panic")}
			}
		}()
		g, e := w.call(m, v)
		ch <- res{g, e}
	}()
	select {
	case r := <-ch:
		return r.g, r.e, true
	case <-time.After(d):
		return 0, nil, false
	}
}

// does m2 enter the wrapped structure while m1 is parked inside it?
func c08Overlaps(m1, m2 string) bool {
	g := newGate()
	g.items = []int{1, 2, 3}
	w := c08Wrapped{fpgo.NewConcurrentQueue[int](g), fpgo.NewConcurrentStack[int](g)}
	go w.call(m1, 8)
	select {
	case <-g.entered:
	case <-time.After(time.Second): // m1 never entered the wrapped structure (a fast path answered, or it is blocked)
		close(g.release)
		return false
	}
	go w.call(m2, 9)
	over := false
	select {
	case <-g.entered:
		over = true
	case <-time.After(40 * time.Millisecond):
	}
	close(g.release)
	time.Sleep(2 * time.Millisecond)
	return over
}

func opName(m string) string {
	return map[string]string{"Put": "put", "Offer": "offer", "Take": "take", "Poll": "poll", "Push": "push", "Pop": "pop"}[m]
}
func resOf(err error) string {
	switch err {
	case nil:
		return "ok"
	case fpgo.ErrQueueIsEmpty, fpgo.ErrStackIsEmpty:
		return "empty"
	}
	return "err"
}

// gated replay of the model's counterexample shape: two calls overlapping inside the non-atomic wrapped structure
// preload: items put in before the two overlapping calls (1: the calls race for the LAST item); after the drain the structure is
// used once more (an insertion followed by a removal must return that value: nothing may remember the race)
func c08Gated(w *ndWriter, m1, m2 string, preload int) {
	rec := &recorder{}
	kind := "queue"
	if m1 == "Push" || m1 == "Pop" {
		kind = "stack"
	}
	rec.ev(E{"ev": "reset", "kind": kind, "thr": "-", "op": "-", "v": 0, "r": "-"})
	g := newGate()
	g.gate = false
	wr := c08Wrapped{fpgo.NewConcurrentQueue[int](g), fpgo.NewConcurrentStack[int](g)}
	for v := 1; v <= preload; v++ { // preload through the public API
		m := "Offer"
		if kind == "stack" {
			m = "Push"
		}
		rec.ev(E{"ev": "inv", "thr": "d", "op": opName(m), "v": v, "r": "-"})
		_, err, back := wr.callTimed(m, v, 3*time.Second)
		if !back {
			rec.ev(E{"ev": "res", "thr": "d", "op": "stuck", "v": 0, "r": "panic"})
			rec.flush(w)
			return
		}
		rec.ev(E{"ev": "res", "thr": "d", "op": opName(m), "v": v, "r": resOf(err)})
	}
	g.gate = true
	var wg sync.WaitGroup
	do := func(thr, m string, v int) {
		defer wg.Done()
		rec.ev(E{"ev": "inv", "thr": thr, "op": opName(m), "v": v, "r": "-"})
		got, err := wr.call(m, v)
		if m == "Put" || m == "Offer" || m == "Push" {
			got = v
		}
		rec.ev(E{"ev": "res", "thr": thr, "op": opName(m), "v": got, "r": resOf(err)})
	}
	wg.Add(2)
	go do("c1", m1, 8)
	select {
	case <-g.entered: // call 1 is parked inside the wrapped structure
	case <-time.After(time.Second):
	}
	go do("c2", m2, 9)
	select {
	case <-g.entered: // call 2 got in as well: both are inside
	case <-time.After(40 * time.Millisecond):
	}
	close(g.release)
	wdone := make(chan struct{})
	go func() { wg.Wait(); close(wdone) }()
	select {
	case <-wdone:
	case <-time.After(3 * time.Second): // a call never returned
		rec.ev(E{"ev": "res", "thr": "d", "op": "stuck", "v": 0, "r": "panic"})
		rec.flush(w)
		return
	}
	g.gate = false
	{ // straight after the overlap: one insertion and one removal (a value set aside by a call that found the structure busy must be
		// where its completed call put it: below what is inserted now)
		mi, mr := "Offer", "Poll"
		if kind == "stack" {
			mi, mr = "Push", "Pop"
		}
		rec.ev(E{"ev": "inv", "thr": "d", "op": opName(mi), "v": 60, "r": "-"})
		_, err, back := wr.callTimed(mi, 60, 3*time.Second)
		if !back {
			rec.ev(E{"ev": "res", "thr": "d", "op": "stuck", "v": 0, "r": "panic"})
			rec.flush(w)
			return
		}
		rec.ev(E{"ev": "res", "thr": "d", "op": opName(mi), "v": 60, "r": resOf(err)})
		rec.ev(E{"ev": "inv", "thr": "d", "op": opName(mr), "v": 0, "r": "-"})
		v, err2, back2 := wr.callTimed(mr, 0, 3*time.Second)
		if !back2 {
			rec.ev(E{"ev": "res", "thr": "d", "op": "stuck", "v": 0, "r": "panic"})
			rec.flush(w)
			return
		}
		rec.ev(E{"ev": "res", "thr": "d", "op": opName(mr), "v": v, "r": resOf(err2)})
	}
	for { // drain and check nothing was lost or duplicated
		m := "Poll"
		if kind == "stack" {
			m = "Pop"
		}
		rec.ev(E{"ev": "inv", "thr": "d", "op": opName(m), "v": 0, "r": "-"})
		v, err, back := wr.callTimed(m, 0, 3*time.Second)
		if !back {
			rec.ev(E{"ev": "res", "thr": "d", "op": "stuck", "v": 0, "r": "panic"})
			break
		}
		rec.ev(E{"ev": "res", "thr": "d", "op": opName(m), "v": v, "r": resOf(err)})
		if err != nil {
			break
		}
	}
	rec.ev(E{"ev": "quiesce", "thr": "-", "op": "-", "v": 0, "r": "-"})
	for i, m := range [][2]string{{"Offer", "Poll"}, {"Put", "Take"}} {
		if kind == "stack" {
			m = [2]string{"Push", "Pop"}
		}
		val := 70 + i
		rec.ev(E{"ev": "inv", "thr": "d", "op": opName(m[0]), "v": val, "r": "-"})
		_, err, back := wr.callTimed(m[0], val, 3*time.Second)
		if !back {
			rec.ev(E{"ev": "res", "thr": "d", "op": "stuck", "v": 0, "r": "panic"})
			break
		}
		rec.ev(E{"ev": "res", "thr": "d", "op": opName(m[0]), "v": val, "r": resOf(err)})
		rec.ev(E{"ev": "inv", "thr": "d", "op": opName(m[1]), "v": 0, "r": "-"})
		v, err2, back2 := wr.callTimed(m[1], 0, 3*time.Second)
		if !back2 {
			rec.ev(E{"ev": "res", "thr": "d", "op": "stuck", "v": 0, "r": "panic"})
			break
		}
		rec.ev(E{"ev": "res", "thr": "d", "op": opName(m[1]), "v": v, "r": resOf(err2)})
	}
	rec.ev(E{"ev": "quiesce", "thr": "-", "op": "-", "v": 0, "r": "-"})
	rec.flush(w)
}

// free-running producers / consumers on ConcurrentQueue(LinkedListQueue) / ConcurrentStack(LinkedListQueue)
func c08Stress(w *ndWriter, seed int64, stack bool, P, Cn, n int) {
	rec := &recorder{}
	kind := "queue"
	if stack {
		kind = "stack"
	}
	rec.ev(E{"ev": "reset", "kind": kind, "thr": "-", "op": "-", "v": 0, "r": "-"})
	ll := fpgo.NewLinkedListQueue[int]()
	wr := c08Wrapped{fpgo.NewConcurrentQueue[int](ll), fpgo.NewConcurrentStack[int](ll)}
	call := func(thr, m string, v int) {
		rec.ev(E{"ev": "inv", "thr": thr, "op": opName(m), "v": v, "r": "-"})
		r := "panic"
		got := 0
		func() {
			defer func() { recover() }()
			g, err := wr.call(m, v)
			got, r = g, resOf(err)
		}()
		if m == "Put" || m == "Offer" || m == "Push" {
			got = v
		}
		rec.ev(E{"ev": "res", "thr": thr, "op": opName(m), "v": got, "r": r})
	}
	var wg sync.WaitGroup
	for p := 0; p < P; p++ {
		wg.Add(1)
		go func(p int) {
			defer wg.Done()
			r := rand.New(rand.NewSource(seed + int64(p)))
			for i := 1; i <= n; i++ {
				m := []string{"Offer", "Put"}[r.Intn(2)]
				if stack {
					m = "Push"
				}
				call(fmt.Sprintf("p%d", p+1), m, (p+1)*1000+i)
			}
		}(p)
	}
	for c := 0; c < Cn; c++ {
		wg.Add(1)
		go func(c int) {
			defer wg.Done()
			r := rand.New(rand.NewSource(seed + 100 + int64(c)))
			for i := 0; i < n; i++ {
				m := []string{"Poll", "Take"}[r.Intn(2)]
				if stack {
					m = "Pop"
				}
				call(fmt.Sprintf("c%d", c+1), m, 0)
			}
		}(c)
	}
	done := make(chan struct{})
	go func() { wg.Wait(); close(done) }()
	select {
	case <-done:
	case <-time.After(10 * time.Second):
		rec.ev(E{"ev": "res", "thr": "d", "op": "stuck", "v": 0, "r": "panic"})
		rec.flush(w)
		return
	}
	for k := 0; k < P*n+2; k++ {
		m := "Poll"
		if stack {
			m = "Pop"
		}
		before := len(rec.evs)
		cd := make(chan struct{})
		go func() { call("d", m, 0); close(cd) }()
		select {
		case <-cd:
		case <-time.After(3 * time.Second):
			rec.ev(E{"ev": "res", "thr": "d", "op": "stuck", "v": 0, "r": "panic"})
			rec.flush(w)
			return
		}
		if rec.evs[before+1]["r"] != "ok" {
			break
		}
	}
	rec.ev(E{"ev": "quiesce", "thr": "-", "op": "-", "v": 0, "r": "-"})
	rec.flush(w)
}

// wide rounds: many goroutines, many calls - too wide for the linearisation search, judged by the necessary conditions of the
// statement (Trace_ConcWide.tla): no panic, every offered value delivered exactly once after the drain, nothing invented,
// a consumer sees each producer's values in order (queue).
//
//	trickle: producers slower than the consumers, which spin on Take/Poll - the structure is empty most of the time
//	burst:   producers first build a backlog of `per` values each (thousands pending), then the consumers drain, twice
type c08WideOut struct {
	Kind    string           `json:"kind"`
	Shape   string           `json:"shape"`
	Offered []int            `json:"offered"`
	Got     map[string][]int `json:"got"`
	Drain   []int            `json:"drain"`
	Panics  int              `json:"panics"`
	Stuck   bool             `json:"stuck"`
}

func c08Wide(w *ndWriter, seed int64, stack bool, shape string, P, Cn, per int) {
	out := c08WideOut{Kind: "queue", Shape: shape, Offered: []int{}, Got: map[string][]int{}, Drain: []int{}}
	if stack {
		out.Kind = "stack"
	}
	ll := fpgo.NewLinkedListQueue[int]()
	wr := c08Wrapped{fpgo.NewConcurrentQueue[int](ll), fpgo.NewConcurrentStack[int](ll)}
	var mu sync.Mutex
	var panics int32
	safe := func(m string, v int) (got int, r string) {
		r = "panic"
		func() {
			defer func() {
				if recover() != nil {
					atomic.AddInt32(&panics, 1)
				}
			}()
			g, err := wr.call(m, v)
			got, r = g, resOf(err)
		}()
		return
	}
	rounds := 1
	if shape == "burst" {
		rounds = 2
	}
	for round := 0; round < rounds; round++ {
		var remaining int32 = int32(P * per)
		produce := func(wg *sync.WaitGroup) {
			for p := 0; p < P; p++ {
				wg.Add(1)
				go func(p int) {
					defer wg.Done()
					r := rand.New(rand.NewSource(seed + int64(p)))
					for i := 1; i <= per; i++ {
						v := (round*P+p+1)*100000 + i
						m := []string{"Offer", "Put"}[r.Intn(2)]
						if stack {
							m = "Push"
						}
						if _, res := safe(m, v); res == "ok" {
							mu.Lock()
							out.Offered = append(out.Offered, v)
							mu.Unlock()
						} else {
							atomic.AddInt32(&remaining, -1)
						}
						if shape == "trickle" && r.Intn(3) == 0 {
							time.Sleep(time.Duration(r.Intn(30)) * time.Microsecond)
						}
					}
				}(p)
			}
		}
		consume := func(wg *sync.WaitGroup, deadline time.Time) {
			for c := 0; c < Cn; c++ {
				wg.Add(1)
				go func(c int) {
					defer wg.Done()
					r := rand.New(rand.NewSource(seed + 100 + int64(c)))
					name := fmt.Sprintf("c%d", c+1)
					mine := []int{}
					for atomic.LoadInt32(&remaining) > 0 && time.Now().Before(deadline) {
						m := []string{"Poll", "Take"}[r.Intn(2)]
						if stack {
							m = "Pop"
						}
						if v, res := safe(m, 0); res == "ok" {
							mine = append(mine, v)
							atomic.AddInt32(&remaining, -1)
						} else if res == "panic" {
							time.Sleep(10 * time.Microsecond)
						}
					}
					mu.Lock()
					out.Got[name] = append(out.Got[name], mine...)
					mu.Unlock()
				}(c)
			}
		}
		deadline := time.Now().Add(4 * time.Second)
		var pw, cw sync.WaitGroup
		waitFor := func(wg *sync.WaitGroup, d time.Duration) bool { // a call may block for ever (a lock left held by a panicking call)
			ch := make(chan struct{})
			go func() { wg.Wait(); close(ch) }()
			select {
			case <-ch:
				return true
			case <-time.After(d):
				return false
			}
		}
		if shape == "burst" {
			produce(&pw)
			if !waitFor(&pw, 6*time.Second) {
				out.Stuck = true
			}
			consume(&cw, deadline)
		} else {
			consume(&cw, deadline)
			produce(&pw)
			if !waitFor(&pw, 6*time.Second) {
				out.Stuck = true
			}
		}
		done := make(chan struct{})
		go func() { cw.Wait(); close(done) }()
		select {
		case <-done:
		case <-time.After(6 * time.Second):
			out.Stuck = true
		}
	}
	drained := make(chan []int, 1)
	go func() {
		d := []int{}
		for k := 0; k < 200000 && !out.Stuck; k++ { // drain
			m := "Poll"
			if stack {
				m = "Pop"
			}
			v, res := safe(m, 0)
			if res != "ok" {
				break
			}
			d = append(d, v)
		}
		drained <- d
	}()
	select {
	case d := <-drained:
		out.Drain = d
	case <-time.After(5 * time.Second):
		out.Stuck = true
	}
	out.Panics = int(atomic.LoadInt32(&panics))
	for c := 0; c < Cn; c++ {
		if out.Got[fmt.Sprintf("c%d", c+1)] == nil {
			out.Got[fmt.Sprintf("c%d", c+1)] = []int{}
		}
	}
	mu.Lock()
	w.write(out)
	mu.Unlock()
}

// fresh objects: the FIRST calls on a just constructed wrapper come from K goroutines released together (anything the wrapper
// sets up lazily on first use is raced); one insertion each, then a single goroutine drains.  One line per trial, judged like
// the wide rounds (Trace_ConcWide: no panic, every value exactly once, nothing invented).
// variant 0: plain; 1 "fault": the wrapped structure panics on one (sequential) call made first - every later call must still be
// served; 2 "nested": the wrapped implementation is itself a ConcurrentQueue / ConcurrentStack and both handles are in use
func c08Fresh(w *ndWriter, stack bool, K int, mixed bool, trial int, variant int) {
	out := c08WideOut{Kind: "queue", Shape: []string{"fresh", "fresh-fault", "fresh-nested"}[variant], Offered: []int{}, Got: map[string][]int{}, Drain: []int{}}
	if stack {
		out.Kind = "stack"
	}
	ll := fpgo.NewLinkedListQueue[int]()
	var wr, wrInner c08Wrapped
	switch {
	case variant == 1 && stack:
		wr = c08Wrapped{nil, fpgo.NewConcurrentStack[int](faultQueue{ll})}
	case variant == 1:
		wr = c08Wrapped{fpgo.NewConcurrentQueue[int](faultQueue{ll}), nil}
	case variant == 2 && stack:
		inner := fpgo.NewConcurrentStack[int](ll)
		wrInner = c08Wrapped{nil, inner}
		wr = c08Wrapped{nil, fpgo.NewConcurrentStack[int](inner)}
	case variant == 2:
		inner := fpgo.NewConcurrentQueue[int](ll)
		wrInner = c08Wrapped{inner, nil}
		wr = c08Wrapped{fpgo.NewConcurrentQueue[int](inner), nil}
	case stack:
		wr = c08Wrapped{nil, fpgo.NewConcurrentStack[int](ll)}
	default:
		wr = c08Wrapped{fpgo.NewConcurrentQueue[int](ll), nil}
	}
	if variant != 2 {
		wrInner = wr
	}
	var panics, ready, start int32
	var mu sync.Mutex
	safeOn := func(h c08Wrapped, m string, v int) (got int, r string) {
		r = "panic"
		func() {
			defer func() {
				if p := recover(); p != nil {
					if _, injected := p.(injectedPanic); !injected {
						atomic.AddInt32(&panics, 1)
					}
				}
			}()
			g, err := h.call(m, v)
			got, r = g, resOf(err)
		}()
		return
	}
	safe := func(m string, v int) (int, string) { return safeOn(wr, m, v) }
	if variant == 1 { // the faulting call, alone and recovered by its caller
		m := "Offer"
		if stack {
			m = "Push"
		}
		safe(m, faultValue)
	}
	var wg sync.WaitGroup
	for k := 0; k < K; k++ {
		v := (k+1)*100000 + trial%90000 + 1
		remover := mixed && k%2 == 1
		if !remover {
			out.Offered = append(out.Offered, v)
		}
		wg.Add(1)
		go func(k, v int, remover bool) {
			defer wg.Done()
			atomic.AddInt32(&ready, 1)
			for atomic.LoadInt32(&start) == 0 {
			}
			if remover {
				m := "Poll"
				if stack {
					m = "Pop"
				}
				if got, r := safe(m, 0); r == "ok" {
					mu.Lock()
					out.Got[fmt.Sprintf("c%d", k+1)] = []int{got}
					mu.Unlock()
				}
				return
			}
			m := []string{"Offer", "Put"}[k%2]
			if stack {
				m = "Push"
			}
			if k%3 == 2 {
				safeOn(wrInner, m, v) // (nested: through the inner handle)
			} else {
				safe(m, v)
			}
		}(k, v, remover)
	}
	for atomic.LoadInt32(&ready) < int32(K) {
		runtime.Gosched()
	}
	atomic.StoreInt32(&start, 1)
	done := make(chan struct{})
	go func() { wg.Wait(); close(done) }()
	select {
	case <-done:
	case <-time.After(2 * time.Second):
		out.Stuck = true
	}
	if !out.Stuck {
		drained := make(chan []int, 1)
		go func() {
			d := []int{}
			for k := 0; k < 4*K+8; k++ {
				m := "Poll"
				if stack {
					m = "Pop"
				}
				v, res := safe(m, 0)
				if res != "ok" {
					break
				}
				d = append(d, v)
			}
			drained <- d
		}()
		select {
		case d := <-drained:
			out.Drain = d
		case <-time.After(2 * time.Second):
			out.Stuck = true
		}
	}
	out.Panics = int(atomic.LoadInt32(&panics))
	mu.Lock()
	w.write(out)
	mu.Unlock()
}

func c08Main(args []string) error {
	switch args[0] {
	case "wide":
		w, err := newNDWriter(flagVal(args, "out", "c08.wide.ndjson"))
		if err != nil {
			return err
		}
		defer w.close()
		seed := int64(envInt("VERIF_SEED", 1))
		rounds := flagInt(args, "rounds", 6)
		for r := 0; r < rounds; r++ {
			c08Wide(w, seed*977+int64(r), false, "trickle", 4, 8, 150)
			c08Wide(w, seed*977+int64(r), r%2 == 1, "burst", 3, 4, 1500)
		}
		fresh := flagInt(args, "fresh", 1200)
		for t := 0; t < fresh; t++ {
			c08Fresh(w, t%2 == 0, 2+t%7, t%5 == 4, t, []int{0, 0, 0, 1, 2, 2}[t%6])
		}
		fmt.Printf("{\"runs\":%d}\n", 2*rounds+fresh)
		return nil
	case "modes": // which pairs of methods may be inside the wrapped structure together
		ms := []string{"Put", "Offer", "Take", "Poll", "Push", "Pop"}
		shared := map[string]bool{}
		pairs := map[string]bool{}
		for _, a := range ms {
			for _, b := range ms {
				if (a == "Push" || a == "Pop") != (b == "Push" || b == "Pop") {
					continue
				}
				if c08Overlaps(a, b) {
					pairs[a+"+"+b] = true
					shared[a], shared[b] = true, true
				}
			}
		}
		mode := map[string]string{}
		for _, m := range ms {
			mode[m] = "X"
			if shared[m] {
				mode[m] = "S"
			}
		}
		b, _ := json.Marshal(map[string]interface{}{"mode": mode, "overlapping_pairs": pairs})
		fmt.Println(string(b))
		return nil
	case "record":
		wf, err := newNDWriter(flagVal(args, "out", "c08.trace.ndjson"))
		if err != nil {
			return err
		}
		defer wf.close()
		rounds := flagInt(args, "rounds", 100)
		seed := int64(envInt("VERIF_SEED", 1))
		for _, a := range []string{"Put", "Offer", "Take", "Poll"} {
			for _, b := range []string{"Put", "Offer", "Take", "Poll"} {
				for _, pre := range []int{3, 1, 0} {
					c08Gated(wf, a, b, pre)
				}
			}
		}
		for _, a := range []string{"Push", "Pop"} {
			for _, b := range []string{"Push", "Pop"} {
				for _, pre := range []int{3, 1, 0} {
					c08Gated(wf, a, b, pre)
				}
			}
		}
		for r := 0; r < rounds; r++ {
			c08Stress(wf, seed*7919+int64(r)*13, r%3 == 2, 1+r%3, 1+(r/3)%3, 5)
		}
		fmt.Printf("{\"rounds\":%d}\n", rounds+20)
		return nil
	}
	return fmt.Errorf("c08: modes|record")
}
