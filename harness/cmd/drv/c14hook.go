//go:build verif

package main

import (
	"fmt"
	"math/rand"
	"sync"
	"sync/atomic"
	"time"

	fpgo "github.com/TeaEntityLab/fpGo/v2"
)

// Hook-level traces of real coroutines for Trace_CorHook.tla: every cor.* hook point with the coroutine whose goroutine it
// fired on (thr) and the coroutine the hook point belongs to (obj), plus inv / res of every YieldFrom and the value every
// YieldRef returned.  One target T serving nserve YieldRefs (y_k = 100 + k), callers a, b, c making nreq requests each
// (x = caller index * 1000 + i).  nserve below the number of requests makes the target complete with requests queued or in flight.

type c14HookRec struct {
	rec   *recorder
	roles sync.Map // gid -> coroutine name
	names sync.Map // *CorDef -> name
	on    int32
}

func (h *c14HookRec) hook(point string, obj interface{}) {
	if atomic.LoadInt32(&h.on) == 0 {
		return
	}
	on, ok := h.names.Load(obj)
	if !ok {
		return
	}
	thr, ok := h.roles.Load(gid())
	if !ok {
		return
	}
	h.rec.ev(E{"ev": "hook", "pt": point, "thr": thr, "obj": on, "c": "-", "i": 0, "k": 0, "y": 0})
}

func c14HookRound(w *ndWriter, seed int64, callers []string, nreq, nserve, base int) int {
	rng := rand.New(rand.NewSource(seed))
	h := &c14HookRec{rec: &recorder{}}
	fpgo.VerifHook = h.hook
	h.rec.ev(E{"ev": "reset", "pt": "-", "thr": "-", "obj": "-", "c": "-", "i": 0, "k": 0, "y": 0, "callers": callers, "nreq": nreq, "nserve": nserve})
	var target *fpgo.CorDef[int]
	var wg sync.WaitGroup
	wg.Add(1 + len(callers))
	spin := func(n int) {
		for j := 0; j < n; j++ {
			_ = j * j
		}
	}
	pauseT, pauseC := rng.Intn(3)*rng.Intn(2000), rng.Intn(3)*rng.Intn(2000)
	target = fpgo.CorNewGenerics[int](func() {
		h.roles.Store(gid(), "T")
		for k := 1; k <= nserve; k++ {
			x := target.YieldRef(100 + k)
			h.rec.ev(E{"ev": "refres", "pt": "-", "thr": "T", "obj": "-", "c": callers[x/1000-1], "i": x % 1000, "k": k, "y": 100 + k})
			spin(pauseT)
		}
	})
	h.names.Store(target, "T")
	cors := make([]*fpgo.CorDef[int], len(callers))
	for ci, name := range callers {
		ci, name := ci, name
		var self *fpgo.CorDef[int]
		self = fpgo.CorNewGenerics[int](func() {
			h.roles.Store(gid(), name)
			for i := 1; i <= nreq; i++ {
				h.rec.ev(E{"ev": "inv", "pt": "-", "thr": name, "obj": "-", "c": name, "i": i, "k": 0, "y": 0})
				y := self.YieldFrom(target, (ci+1)*1000+i)
				h.rec.ev(E{"ev": "res", "pt": "-", "thr": name, "obj": "-", "c": name, "i": i, "k": 0, "y": y})
				spin(pauseC)
			}
		})
		h.names.Store(self, name)
		cors[ci] = self
	}
	atomic.StoreInt32(&h.on, 1)
	order := rng.Perm(len(callers) + 1)
	for _, o := range order {
		if o == len(callers) {
			target.Start()
		} else {
			cors[o].Start()
		}
		spin(rng.Intn(2) * rng.Intn(3000))
	}
	// completion is observed from outside: every coroutine reports done (its close() has at least begun), then a short grace
	deadline := time.Now().Add(3 * time.Second)
	for time.Now().Before(deadline) {
		all := target.IsDone()
		for _, c := range cors {
			all = all && c.IsDone()
		}
		if all {
			break
		}
		time.Sleep(50 * time.Microsecond)
	}
	time.Sleep(400 * time.Microsecond)
	atomic.StoreInt32(&h.on, 0)
	fpgo.VerifHook = nil
	// nx: per line and thread the file index of that thread's next line at or after it (0: none in this round)
	h.rec.mu.Lock()
	next := map[string]int{"T": 0, "-": 0}
	for _, c := range callers {
		next[c] = 0
	}
	for i := len(h.rec.evs) - 1; i >= 0; i-- {
		e := h.rec.evs[i]
		next[e["thr"].(string)] = base + i + 1
		nx := map[string]int{}
		for t, k := range next {
			nx[t] = k
		}
		e["nx"] = nx
	}
	h.rec.mu.Unlock()
	return h.rec.flush(w)
}

func c14HookTrace(args []string) error {
	prefix := flagVal(args, "out", "c14.hook")
	rounds := flagInt(args, "rounds", 10)
	seed := int64(envInt("VERIF_SEED", 1))
	type cfg struct {
		callers      []string
		nreq, nserve int
	}
	cfgs := []cfg{
		{[]string{"a"}, 3, 3}, {[]string{"a"}, 3, 2}, {[]string{"a", "b"}, 2, 4}, {[]string{"a", "b"}, 2, 2},
		{[]string{"a", "b", "c"}, 2, 6}, {[]string{"a", "b", "c"}, 1, 1}, {[]string{"a", "b", "c"}, 1, 0},
	}
	var files []string
	events := 0
	for ci, c := range cfgs {
		name := fmt.Sprintf("%s.%d.ndjson", prefix, ci+1)
		w, err := newNDWriter(name)
		if err != nil {
			return err
		}
		lines := 0
		for r := 0; r < rounds; r++ {
			n := c14HookRound(w, seed*6007+int64(ci*1000+r), c.callers, c.nreq, c.nserve, lines)
			lines += n
			events += n
		}
		w.close()
		files = append(files, name)
	}
	fmt.Printf("{\"files\":[%s],\"events\":%d,\"rounds\":%d}\n", quoteJoin(files), events, rounds*len(cfgs))
	return nil
}
