//go:build verif

package main

import (
	"encoding/json"
	"fmt"
	"sync"
	"sync/atomic"
	"time"

	fpgo "github.com/TeaEntityLab/fpGo/v2"
)

// Director for BufferedChannelQueue: replays TLC-generated schedules (Gen_BQueueSched.tla: one per edge of the model's
// state graph) on the real queue.  Every goroutine - the producers and consumers of the harness AND the library's loader -
// is parked at each verif hook point and released one model step at a time; after every step the real queue (read while
// everything is parked) is compared with the model state TLC computed for that step.  After the schedule the goroutines run
// free to completion, the queue is drained and the run's outcome is written for Trace_BQueueDirect.tla.

type dStep struct {
	A    string              `json:"a"`
	T    string              `json:"t"`
	K    string              `json:"k"`
	Ch   []int               `json:"ch"`
	Pool []int               `json:"pool"`
	Lval []int               `json:"lval"`
	Lpc  string              `json:"lpc"`
	Lock string              `json:"lock"`
	Pres map[string][]string `json:"pres"`
	Cres map[string][]int    `json:"cres"`
}

type dThread struct {
	name   string
	at     string
	arrive chan string
	resume chan string
}

type dirRun struct {
	q       *fpgo.BufferedChannelQueue[int]
	free    int32
	threads map[string]*dThread
	roles   sync.Map
	mu      sync.Mutex
	pres    map[string][]string
	cres    map[string][]int // values delivered (>0) or -3 for "nothing"
}

func (d *dirRun) park(th *dThread, point string) string {
	if atomic.LoadInt32(&d.free) == 1 {
		return "free"
	}
	th.arrive <- point
	return <-th.resume
}

func (d *dirRun) hook(point string, obj interface{}) {
	if atomic.LoadInt32(&d.free) == 1 || obj != interface{}(d.q) || point == "bq.freenode.locked" {
		return
	}
	var th *dThread
	if len(point) >= 10 && point[:10] == "bq.loader." {
		th = d.threads["loader"]
	} else if r, ok := d.roles.Load(gid()); ok {
		th = d.threads[r.(string)]
	}
	if th != nil {
		d.park(th, point)
	}
}

// one hop: release the thread, wait for its next park point
func (d *dirRun) advance(th *dThread, cmd string) bool {
	th.resume <- cmd
	select {
	case p := <-th.arrive:
		th.at = p
		return true
	case <-time.After(300 * time.Millisecond):
		th.at = "?"
		return false
	}
}

var loaderOK = map[string][]string{
	"idle": {"bq.loader.start", "bq.loader.unlocked"}, "woken": {"bq.loader.woken"}, "checked": {"bq.loader.checked"},
	"locked": {"bq.loader.locked", "bq.loader.polled", "bq.loader.unlocking"}, "polled": {"bq.loader.polled"}, "unlocked": {"bq.loader.unlocked"},
}

func inList(x string, xs []string) bool {
	for _, y := range xs {
		if x == y {
			return true
		}
	}
	return false
}

func eqInts(a, b []int) bool {
	if len(a) != len(b) {
		return false
	}
	for i := range a {
		if a[i] != b[i] {
			return false
		}
	}
	return true
}

type dirObs struct {
	ID        int              `json:"id"`
	C         int              `json:"c"`
	B         int              `json:"b"`
	Steps     int              `json:"steps"`
	Done      int              `json:"done"`     // steps replayed in lockstep
	Drift     string           `json:"drift"`    // "" or why the real queue left the model's schedule
	Accepted  []int            `json:"accepted"` // values whose Offer returned nil
	Delivered map[string][]int `json:"delivered"`
	Drain     []int            `json:"drain"`
	Left      int              `json:"left"`
	Completed bool             `json:"completed"`
	MaxCh     int              `json:"maxch"`
	MaxPool   int              `json:"maxpool"`
}

func c07Direct(id int, steps []dStep, C, B int, producers, consumers []string, nOffer, nTake int) dirObs {
	o := dirObs{ID: id, C: C, B: B, Steps: len(steps), Delivered: map[string][]int{}, Accepted: []int{}, Drain: []int{}}
	d := &dirRun{threads: map[string]*dThread{}, pres: map[string][]string{}, cres: map[string][]int{}}
	mk := func(n string) *dThread {
		t := &dThread{name: n, arrive: make(chan string, 1), resume: make(chan string, 1)}
		d.threads[n] = t
		return t
	}
	lt := mk("loader")
	for _, p := range producers {
		mk(p)
	}
	for _, c := range consumers {
		mk(c)
		o.Delivered[c] = []int{}
	}
	fpgo.VerifHook = d.hook
	// the constructor starts the loader: the hook must know the queue before the loader reaches its first point
	ready := make(chan struct{})
	var qq *fpgo.BufferedChannelQueue[int]
	fpgo.VerifHook = func(point string, obj interface{}) {
		<-ready
		d.hook(point, obj)
	}
	qq = fpgo.NewBufferedChannelQueue[int](C, B, 2).SetLoadFromPoolDuration(0)
	d.q = qq
	close(ready)
	fpgo.VerifHook = d.hook
	var wg sync.WaitGroup
	for pi, p := range producers {
		wg.Add(1)
		go func(pi int, name string) {
			defer wg.Done()
			th := d.threads[name]
			d.roles.Store(gid(), name)
			for i := 1; i <= nOffer; i++ {
				d.park(th, "start")
				v := (pi+1)*1000 + i
				err := d.q.Offer(v)
				d.mu.Lock()
				d.pres[name] = append(d.pres[name], qerr(err))
				if err == nil {
					o.Accepted = append(o.Accepted, v)
				}
				d.mu.Unlock()
			}
			d.park(th, "end")
		}(pi, p)
	}
	for _, c := range consumers {
		wg.Add(1)
		go func(name string) {
			defer wg.Done()
			th := d.threads[name]
			d.roles.Store(gid(), name)
			for {
				kind := d.park(th, "start")
				if kind == "free" {
					break
				}
				var v int
				var err error
				if kind == "ttake" {
					v, err = d.q.TakeWithTimeout(300 * time.Microsecond)
				} else {
					v, err = d.q.Poll()
				}
				d.mu.Lock()
				if err == nil {
					d.cres[name] = append(d.cres[name], v)
					o.Delivered[name] = append(o.Delivered[name], v)
				} else {
					d.cres[name] = append(d.cres[name], -3)
				}
				d.mu.Unlock()
			}
			d.park(th, "end")
		}(c)
	}
	// initial park points
	for name, th := range d.threads {
		select {
		case p := <-th.arrive:
			th.at = p
		case <-time.After(time.Second):
			o.Drift = "thread " + name + " did not reach its first park point"
		}
	}
	ahead := false
	kinds := map[string]string{} // consumer thread -> kind of the call it is in
	for si, st := range steps {
		if o.Drift != "" {
			break
		}
		th := d.threads[st.T]
		if th == nil {
			o.Drift = "unknown thread " + st.T
			break
		}
		ok := true
		switch st.A {
		case "OfferLock":
			ok = th.at == "start" && d.advance(th, "go") && th.at == "bq.offer.locked"
		case "OfferBody":
			ok = d.advance(th, "go") && th.at == "bq.offer.done"
		case "OfferUnlock", "ConsRecv":
			ok = d.advance(th, "go") && (th.at == "start" || th.at == "end")
			if ok && st.A == "ConsRecv" && th.at == "end" {
				ok = false
			}
		case "ConsStart":
			kinds[st.T] = st.K
			ok = th.at == "start" && d.advance(th, st.K) && th.at == "bq.take.checked"
		case "ConsNotify": // two hops: the hook inside notifyWorkers (after its closed check), then the one after the notification
			ok = d.advance(th, "go") && th.at == "bq.notify.checked" && d.advance(th, "go") && th.at == "bq.take.notified"
		default: // loader actions
			hop := func() bool { return d.advance(lt, "go") }
			until := func(pt string, max int) bool {
				for i := 0; i < max && lt.at != pt; i++ {
					if !hop() {
						return false
					}
				}
				return lt.at == pt
			}
			switch st.A {
			case "LoaderWake":
				ok = (lt.at == "bq.loader.start" || lt.at == "bq.loader.unlocked") && hop() && lt.at == "bq.loader.woken"
			case "LoaderCheck":
				ok = lt.at == "bq.loader.woken" && hop() && lt.at == "bq.loader.checked"
			case "LoaderLock":
				ok = lt.at == "bq.loader.checked" && hop() && lt.at == "bq.loader.locked"
			case "LoaderPoll":
				if ahead { // the real loader already did this pool.Poll / saw the empty pool
					ahead = false
					if st.Lpc == "polled" {
						ok = lt.at == "bq.loader.polled"
					} else {
						ok = lt.at == "bq.loader.unlocking" && until("bq.loader.unlocked", 1)
					}
				} else if st.Lpc == "polled" {
					ok = lt.at == "bq.loader.locked" && hop() && lt.at == "bq.loader.polled"
				} else {
					ok = lt.at == "bq.loader.locked" && until("bq.loader.unlocked", 2)
				}
			case "LoaderPush":
				ok = lt.at == "bq.loader.polled" && hop()
				if ok && st.Lpc == "unlocked" { // the push failed: item back into the pool, unlock
					ok = until("bq.loader.unlocked", 1)
				} else if ok {
					ahead = true
					ok = lt.at == "bq.loader.polled" || lt.at == "bq.loader.unlocking"
				}
			case "LoaderSleep":
				ok = lt.at == "bq.loader.unlocked"
			}
		}
		if !ok {
			o.Drift = fmt.Sprintf("step %d %s(%s): the goroutine is at %q, not where the model's step ends", si+1, st.A, st.T, th.at)
			break
		}
		// compare the real queue with the model state (everything is parked: the read is race free)
		chl, pool := d.q.VerifSnapshotLocked()
		expPool := append(append([]int{}, st.Lval...), st.Pool...)
		if ahead && lt.at == "bq.loader.polled" {
			if len(expPool) > 0 {
				expPool = expPool[1:] // the real loader is one pool.Poll ahead (invisible to everyone else)
			}
		} else if len(st.Lval) == 1 {
			expPool = expPool[1:] // the item the loader holds is in neither part
		}
		if chl > o.MaxCh {
			o.MaxCh = chl
		}
		if len(pool) > o.MaxPool {
			o.MaxPool = len(pool)
		}
		if st.A == "ConsRecv" && kinds[st.T] == "ttake" && chl == len(st.Ch)+1 && eqInts(pool, expPool) {
			// the timed take's timer won the select although an item was ready (the goroutine was delayed past its 300 us): the OTHER
			// branch of the same model action - not the one this schedule takes.  The schedule cannot be followed further; no drift.
			break
		}
		if chl != len(st.Ch) || !eqInts(pool, expPool) {
			o.Drift = fmt.Sprintf("step %d %s(%s): real channel length %d / pool %v, model channel %v / pool %v (held %v)", si+1, st.A, st.T, chl, pool, st.Ch, st.Pool, st.Lval)
			break
		}
		d.mu.Lock()
		for p, want := range st.Pres {
			if fmt.Sprint(d.pres[p]) != fmt.Sprint(want) && !(len(d.pres[p]) == 0 && len(want) == 0) {
				// the model appends the result in OfferBody, the harness after the return
				if !(len(want) == len(d.pres[p])+1 && fmt.Sprint(want[:len(want)-1]) == fmt.Sprint(d.pres[p])) {
					o.Drift = fmt.Sprintf("step %d: results of %s are %v, model %v", si+1, p, d.pres[p], want)
				}
			}
		}
		for c, want := range st.Cres {
			var got []int
			for _, v := range d.cres[c] {
				if v > 0 {
					got = append(got, v)
				}
			}
			if !eqInts(got, want) {
				o.Drift = fmt.Sprintf("step %d: %s received %v, model %v", si+1, c, got, want)
			}
		}
		d.mu.Unlock()
		if o.Drift == "" {
			o.Done = si + 1
		}
	}
	// free completion
	atomic.StoreInt32(&d.free, 1)
	for _, th := range d.threads {
		select {
		case th.resume <- "free":
		default:
		}
	}
	// late arrivals (a goroutine that was between the free check and its send)
	stop := make(chan struct{})
	go func() {
		for {
			select {
			case <-stop:
				return
			default:
			}
			for _, th := range d.threads {
				select {
				case <-th.arrive:
					select {
					case th.resume <- "free":
					default:
					}
				default:
				}
			}
			time.Sleep(50 * time.Microsecond)
		}
	}()
	fin := make(chan struct{})
	go func() { wg.Wait(); close(fin) }()
	select {
	case <-fin:
		o.Completed = true
	case <-time.After(3 * time.Second):
	}
	if o.Completed && C >= 1 {
		deadline := time.Now().Add(2 * time.Second)
		for d.q.Count() > 0 && time.Now().Before(deadline) {
			if v, err := d.q.Poll(); err == nil {
				o.Drain = append(o.Drain, v)
			} else {
				time.Sleep(20 * time.Microsecond)
			}
		}
	}
	o.Left = d.q.Count()
	close(stop)
	fpgo.VerifHook = nil
	d.q.Close()
	return o
}

func c07DirectMain(args []string) error {
	in := flagVal(args, "in", "")
	C, B := flagInt(args, "c", 1), flagInt(args, "b", 1)
	np, nc := flagInt(args, "producers", 1), flagInt(args, "consumers", 1)
	nOffer, nTake := flagInt(args, "noffer", 2), flagInt(args, "ntake", 2)
	every, offset := flagInt(args, "every", 1), flagInt(args, "offset", 0)
	w, err := newNDWriter(flagVal(args, "out", "c07.direct.ndjson"))
	if err != nil {
		return err
	}
	defer w.close()
	var ps, cs []string
	for i := 1; i <= np; i++ {
		ps = append(ps, fmt.Sprintf("p%d", i))
	}
	for i := 1; i <= nc; i++ {
		cs = append(cs, fmt.Sprintf("c%d", i))
	}
	n, ran, drift := 0, 0, 0
	err = readLines(in, func(line []byte) error {
		n++
		if (n-1)%every != offset%every {
			return nil
		}
		b, err := unquoteTLA(line)
		if err != nil {
			return err
		}
		var rec struct {
			Steps []dStep `json:"steps"`
		}
		if err := json.Unmarshal(b, &rec); err != nil {
			return err
		}
		nn := n
		wdSet(func() string { return fmt.Sprintf("c07 direct schedule %d", nn) })
		o := c07Direct(n, rec.Steps, C, B, ps, cs, nOffer, nTake)
		if o.Drift != "" {
			drift++
		}
		ran++
		w.write(o)
		return nil
	})
	if err != nil {
		return err
	}
	fmt.Printf("{\"schedules\":%d,\"ran\":%d,\"drift\":%d}\n", n, ran, drift)
	return nil
}
