//go:build verif

package main

import (
	"fmt"
	"math/rand"
	"sync"
	"time"

	fpgo "github.com/TeaEntityLab/fpGo/v2"
)

// C13 — Ask / Reply.  Events judged by Trace_AskAbs.tla.  The actor effect is harness code, so the
// moment of Reply is controlled: "late" replies are held until the asker HAS returned its timeout
// (a positive event), never by guessing with sleeps.

func init() { commands["c13"] = c13Main }

type c13Req struct {
	req     int
	msg     int
	class   string
	release chan struct{} // closed by the asker once it has returned (late class)
}

func c13Run(w *ndWriter, rng *rand.Rand, askers int, classes []string, modes []string) int {
	rec := &recorder{}
	rec.ev(E{"ev": "reset", "n": askers + 1})
	var mu sync.Mutex
	reqs := map[interface{}]*c13Req{}
	actor := fpgo.ActorNewGenerics(func(self *fpgo.ActorDef[interface{}], in interface{}) {
		ask, ok := in.(*fpgo.AskDef[int, int])
		if !ok {
			return
		}
		mu.Lock()
		r := reqs[ask]
		mu.Unlock()
		reply := func() {
			outcome := "ok"
			func() {
				defer func() {
					if p := recover(); p != nil {
						outcome = "panic"
					}
				}()
				ask.Reply(10*ask.Message + 1)
			}()
			rec.ev(E{"ev": "reply", "req": r.req, "outcome": outcome})
		}
		switch r.class {
		case "immediate":
			reply()
		case "prompt":
			time.Sleep(2 * time.Millisecond)
			reply()
		case "never":
		case "late", "verylate":
			select {
			case <-r.release: // the asker has returned ErrActorAskTimeout
			case <-time.After(10 * time.Second):
			}
			if r.class == "verylate" { // many timeouts later: whatever the timeout path left behind to absorb a late reply has had time to go away
				time.Sleep(45 * time.Millisecond)
			}
			reply()
		}
	})
	var wg sync.WaitGroup
	proto := fpgo.AskNewGenerics[int, int](0) // an Ask of its own, never sent: the askers' Asks are derived from it
	for a := 1; a <= askers; a++ {
		class := classes[rng.Intn(len(classes))]
		mode := modes[rng.Intn(len(modes))]
		if class == "never" || class == "late" || class == "verylate" {
			mode = "timeout"
		}
		r := &c13Req{req: a, msg: 100 + a, class: class, release: make(chan struct{})}
		var ask *fpgo.AskDef[int, int]
		switch {
		case mode == "channel" && a%2 == 0:
			ask = proto.NewByOptions(r.msg, make(chan int)) // derived from a constructed Ask (the methods New / NewByOptions): siblings alive together
		case mode == "channel":
			ask = fpgo.AskNewByOptionsGenerics[int, int](r.msg, make(chan int)) // caller-supplied unbuffered reply channel
		case a%2 == 0:
			ask = proto.New(r.msg)
		default:
			ask = fpgo.AskNewGenerics[int, int](r.msg)
		}
		mu.Lock()
		reqs[ask] = r
		mu.Unlock()
		rec.ev(E{"ev": "ask", "req": r.req, "msg": r.msg, "mode": mode, "class": class})
		wg.Add(1)
		go func() {
			defer wg.Done()
			val, errk := 0, "nil"
			switch mode {
			case "once":
				val = ask.AskOnce(actor)
			case "timeout":
				to := 100 * time.Millisecond
				if class == "never" || class == "late" || class == "verylate" {
					to = 3 * time.Millisecond
				}
				if class == "never" { // also a zero and a negative timeout (a deadline that has already passed): times out at once
					to = []time.Duration{3 * time.Millisecond, 0, -time.Millisecond}[r.req%3]
				}
				v, err := ask.AskOnceWithTimeout(actor, to)
				val = v
				if err == fpgo.ErrActorAskTimeout {
					errk = "timeout"
				} else if err != nil {
					errk = "other"
				}
			case "channel":
				ch := ask.AskChannel(actor)
				time.Sleep(time.Duration(rng.Intn(3)) * time.Millisecond) // a late reader
				select {
				case val = <-ch:
				case <-time.After(3 * time.Second):
					errk = "lost"
				}
			}
			rec.ev(E{"ev": "res", "req": r.req, "val": val, "err": errk})
			close(r.release)
		}()
	}
	done := make(chan struct{})
	go func() { wg.Wait(); close(done) }()
	select {
	case <-done:
	case <-time.After(8 * time.Second): // an ask that never returns is reported by the validator (no res line)
	}
	// liveness probe: the actor still takes and answers a fresh request
	pr := &c13Req{req: askers + 1, msg: 7, class: "immediate", release: make(chan struct{})}
	pask := fpgo.AskNewGenerics[int, int](pr.msg)
	mu.Lock()
	reqs[pask] = pr
	mu.Unlock()
	rec.ev(E{"ev": "ask", "req": pr.req, "msg": pr.msg, "mode": "timeout", "class": "immediate"})
	okc := make(chan bool, 1)
	go func() {
		defer func() {
			if recover() != nil {
				okc <- false
			}
		}()
		v, err := pask.AskOnceWithTimeout(actor, 3*time.Second)
		okc <- err == nil && v == 71
	}()
	ok := false
	select {
	case ok = <-okc:
	case <-time.After(5 * time.Second):
	}
	rec.ev(E{"ev": "probe", "ok": ok})
	if !ok {
		c13Dead++
	}
	return rec.flush(w)
}

// c13Dead counts runs whose actor stopped serving (each costs many seconds of bounded waits): after three of them the recording
// stops - what they show has been recorded, more of the same only costs time
var c13Dead int

// replies arriving right at the deadline: every asker has its own actor, which answers timeout + delta after it received the
// request (delta swept through zero).  Either outcome is admissible - (F(msg), nil) or (zero, timeout) - but nothing may panic.
// zero: the timeout is 0 (odd askers: negative) - the deadline has passed before the call began; the asker gets the reply or
// (zero, ErrActorAskTimeout), and the actor, which replies at once, must go on serving the follow-up request
func c13Boundary(w *ndWriter, askers int, zero bool) int {
	rec := &recorder{}
	rec.ev(E{"ev": "reset", "n": 2*askers + 1})
	to := 800 * time.Microsecond
	if zero {
		to = 0
	}
	var wg sync.WaitGroup
	for a := 1; a <= askers; a++ {
		a := a
		delta := time.Duration(a-askers/2) * 4 * time.Microsecond
		msg := 100 + a
		actor := fpgo.ActorNewGenerics(func(self *fpgo.ActorDef[interface{}], in interface{}) {
			ask, ok := in.(*fpgo.AskDef[int, int])
			if !ok {
				return
			}
			start := time.Now()
			for ask.Message < 1000 && time.Since(start) < to+delta { // busy wait: sleep granularity is too coarse for this window (follow-up requests, message >= 1000, are answered at once)
			}
			outcome := "ok"
			func() {
				defer func() {
					if p := recover(); p != nil {
						outcome = "panic"
					}
				}()
				ask.Reply(10*ask.Message + 1)
			}()
			req := a
			if ask.Message >= 1000 {
				req = askers + a
			}
			rec.ev(E{"ev": "reply", "req": req, "outcome": outcome})
		})
		rec.ev(E{"ev": "ask", "req": a, "msg": msg, "mode": "timeout", "class": "boundary"})
		wg.Add(1)
		go func() {
			defer wg.Done()
			val, errk := 0, "nil"
			func() {
				defer func() {
					if p := recover(); p != nil {
						errk = "panic"
					}
				}()
				to := to
				if zero && a%2 == 1 {
					to = -time.Duration(a) * time.Millisecond
				}
				v, err := fpgo.AskNewGenerics[int, int](msg).AskOnceWithTimeout(actor, to)
				val = v
				if err == fpgo.ErrActorAskTimeout {
					errk = "timeout"
				} else if err != nil {
					errk = "other"
				}
			}()
			rec.ev(E{"ev": "res", "req": a, "val": val, "err": errk})
			// straight afterwards the same goroutine asks again with a generous timeout and gets its answer at once: whatever the first
			// ask left behind (a timer that fired at the very moment the reply came) must not make this one time out
			rec.ev(E{"ev": "ask", "req": askers + a, "msg": 1000 + a, "mode": "timeout", "class": "immediate"})
			val, errk = 0, "nil"
			func() {
				defer func() {
					if p := recover(); p != nil {
						errk = "panic"
					}
				}()
				v, err := fpgo.AskNewGenerics[int, int](1000+a).AskOnceWithTimeout(actor, 2*time.Second)
				val = v
				if err == fpgo.ErrActorAskTimeout {
					errk = "timeout"
				} else if err != nil {
					errk = "other"
				}
			}()
			rec.ev(E{"ev": "res", "req": askers + a, "val": val, "err": errk})
		}()
	}
	// bounded: an ask whose Send blocks for ever on an actor stuck in an earlier Reply never returns - its missing "res" line is the verdict
	if !waitBounded(&wg, 8*time.Second) {
		c13Dead++
	}
	time.Sleep(3 * time.Millisecond) // late replies (and anything a timer goroutine does) happen now
	rec.ev(E{"ev": "probe", "ok": true})
	return rec.flush(w)
}

// one Ask object asked again and again (a new message each time, AskChannel), finishing with AskOnceWithTimeout: every
// request must get its own answer
func c13ReAsk(w *ndWriter, goroutines, times int) int {
	rec := &recorder{}
	rec.ev(E{"ev": "reset", "n": goroutines*(times+1) + 1})
	var mu sync.Mutex
	cur := map[interface{}]int{} // ask object -> current request number
	actor := fpgo.ActorNewGenerics(func(self *fpgo.ActorDef[interface{}], in interface{}) {
		ask, ok := in.(*fpgo.AskDef[int, int])
		if !ok {
			return
		}
		mu.Lock()
		req := cur[ask]
		mu.Unlock()
		outcome := "ok"
		func() {
			defer func() {
				if p := recover(); p != nil {
					outcome = "panic"
				}
			}()
			ask.Reply(10*ask.Message + 1)
		}()
		rec.ev(E{"ev": "reply", "req": req, "outcome": outcome})
	})
	var wg sync.WaitGroup
	for g := 0; g < goroutines; g++ {
		wg.Add(1)
		go func(g int) {
			defer wg.Done()
			ask := fpgo.AskNewGenerics[int, int](0)
			for k := 0; k <= times; k++ {
				req := g*(times+1) + k + 1
				msg := 1000*(g+1) + k
				ask.Message = msg
				mu.Lock()
				cur[ask] = req
				mu.Unlock()
				val, errk := 0, "nil"
				if k < times {
					rec.ev(E{"ev": "ask", "req": req, "msg": msg, "mode": "channel", "class": "immediate"})
					select {
					case val = <-ask.AskChannel(actor):
					case <-time.After(2 * time.Second):
						errk = "lost"
					}
				} else {
					rec.ev(E{"ev": "ask", "req": req, "msg": msg, "mode": "timeout", "class": "immediate"})
					v, err := ask.AskOnceWithTimeout(actor, 500*time.Millisecond)
					val = v
					if err == fpgo.ErrActorAskTimeout {
						errk = "timeout"
					} else if err != nil {
						errk = "other"
					}
				}
				rec.ev(E{"ev": "res", "req": req, "val": val, "err": errk})
				if errk != "nil" {
					return
				}
			}
		}(g)
	}
	if !waitBounded(&wg, 8*time.Second) { // an ask that never returns is a line that is missing, not a hang of the recording
		c13Dead++
	}
	rec.ev(E{"ev": "probe", "ok": true})
	return rec.flush(w)
}

func c13Main(args []string) error {
	switch args[0] {
	case "record":
		w, err := newNDWriter(flagVal(args, "out", "c13.trace.ndjson"))
		if err != nil {
			return err
		}
		defer w.close()
		rounds := flagInt(args, "rounds", 30)
		rng := rand.New(rand.NewSource(int64(envInt("VERIF_SEED", 1))))
		n, runs := 0, 0
		all := []string{"immediate", "prompt", "never", "late", "verylate"}
		modes := []string{"once", "timeout", "channel"}
		// every single class alone, then mixes, then a queue of prompt requests longer than one timeout
		for _, c := range all {
			n += c13Run(w, rng, 1, []string{c}, modes)
			n += c13Run(w, rng, 3, []string{c}, modes)
			runs += 2
		}
		for r := 0; r < rounds && c13Dead < 3; r++ {
			n += c13Run(w, rng, []int{1, 2, 4, 8, 16, 32}[rng.Intn(6)], all, modes)
			runs++
		}
		for r := 0; r < 2+rounds/10 && c13Dead < 3; r++ {
			n += c13Run(w, rng, 64, []string{"prompt"}, []string{"timeout"})
			runs++
		}
		for r := 0; r < 3+rounds/10 && c13Dead < 3; r++ {
			n += c13Boundary(w, 48, false)
			n += c13Boundary(w, 6, true)
			runs++
			n += c13ReAsk(w, 1+r%8, 4)
			runs += 2
		}
		fmt.Printf("{\"events\":%d,\"runs\":%d}\n", n, runs)
		return nil
	}
	return fmt.Errorf("c13: record")
}
