//go:build verif

package main

import (
	"fmt"
	"math/rand"
	"runtime"
	"sync"
	"sync/atomic"
	"time"

	fpgo "github.com/TeaEntityLab/fpGo/v2"
)

// C10 — Publisher.  OnNext callbacks are harness code: they log themselves, act (re-entrant Subscribe / Unsubscribe /
// Publish) and can park the publishing goroutine between two deliveries while another goroutine changes the list.

func init() { commands["c10"] = c10Main }

type c10Run struct {
	rec      *recorder
	pub      *fpgo.PublisherDef[int] // where Publish is called
	subPub   *fpgo.PublisherDef[int] // where subscriptions live (the Map-derived publisher when mapped)
	subs     map[int]*fpgo.Subscription[int]
	mu       sync.Mutex
	thr      map[int64]string
	nsubs    int
	handler  *fpgo.HandlerDef
	mapped   bool
	onNext   func(id, v int) // scenario hook, runs inside the callback after logging
	nilSubs  bool
	pubStuck bool
}

func (r *c10Run) who() string {
	r.mu.Lock()
	defer r.mu.Unlock()
	if n, ok := r.thr[gid()]; ok {
		return n
	}
	return "other"
}
func (r *c10Run) name(n string) { r.mu.Lock(); r.thr[gid()] = n; r.mu.Unlock() }

// every second run also registers subscriptions WITHOUT an OnNext callback (on the origin before Map is derived, and between the
// ordinary subscribers): they receive nothing and must not keep anybody registered after them from receiving
var c10Runs, c10MapHandlerRuns, c10Stuck int

func newC10(mapped, useHandler bool) *c10Run {
	r := &c10Run{rec: &recorder{}, subs: map[int]*fpgo.Subscription[int]{}, thr: map[int64]string{}, mapped: mapped}
	r.pub = fpgo.PublisherNewGenerics[int]()
	c10Runs++
	r.nilSubs = c10Runs%2 == 0
	if r.nilSubs {
		r.pub.Subscribe(fpgo.Subscription[int]{})
	}
	r.subPub = r.pub
	if useHandler {
		r.handler = fpgo.Handler.New()
		ch := make(chan int64, 1)
		r.handler.Post(func() { ch <- gid() })
		r.thr[<-ch] = "h"
	}
	// with Map and a handler: every second such run sets SubscribeOn on the ORIGIN before Map is derived (the derived publisher has no
	// handler of its own: its deliveries happen where the origin's link runs, on h), the others on the derived publisher
	if mapped && useHandler {
		c10MapHandlerRuns++
	}
	onOrigin := mapped && useHandler && c10MapHandlerRuns%2 == 1
	if onOrigin {
		r.pub.SubscribeOn(r.handler)
	}
	if mapped {
		r.subPub = r.pub.Map(func(v int) int { return 2 * v })
	}
	if useHandler && !onOrigin {
		r.subPub.SubscribeOn(r.handler)
	}
	r.name("main")
	return r
}

func (r *c10Run) subscribe() int {
	r.mu.Lock()
	r.nsubs++
	id := r.nsubs
	r.mu.Unlock()
	if r.nilSubs && id == 2 {
		r.subPub.Subscribe(fpgo.Subscription[int]{}) // a callback-less subscription registered between the first and the second
	}
	r.rec.ev(E{"ev": "sub", "ph": "inv", "id": id, "v": 0, "thr": r.who()})
	s := r.subPub.Subscribe(fpgo.Subscription[int]{OnNext: func(v int) {
		r.rec.ev(E{"ev": "onnext", "ph": "-", "id": id, "v": v, "thr": r.who()})
		if r.onNext != nil {
			r.onNext(id, v)
		}
	}})
	r.mu.Lock()
	r.subs[id] = s
	r.mu.Unlock()
	r.rec.ev(E{"ev": "sub", "ph": "res", "id": id, "v": 0, "thr": r.who()})
	return id
}
func (r *c10Run) unsubscribe(id int) {
	r.mu.Lock()
	s := r.subs[id]
	r.mu.Unlock()
	r.rec.ev(E{"ev": "unsub", "ph": "inv", "id": id, "v": 0, "thr": r.who()})
	r.subPub.Unsubscribe(s)
	r.rec.ev(E{"ev": "unsub", "ph": "res", "id": id, "v": 0, "thr": r.who()})
}
func (r *c10Run) publish(k, v int) {
	r.rec.ev(E{"ev": "pub", "ph": "inv", "id": k, "v": v, "thr": r.who()})
	if r.handler != nil { // with a handler Publish only posts: it must come back (a handler that waits for itself would hold it for ever)
		done := make(chan struct{})
		go func() { r.pub.Publish(v); close(done) }()
		select {
		case <-done:
		case <-time.After(1500 * time.Millisecond):
			r.pubStuck = true
			return
		}
	} else {
		r.pub.Publish(v)
	}
	r.rec.ev(E{"ev": "pub", "ph": "res", "id": k, "v": v, "thr": r.who()})
}
func (r *c10Run) finish(w *ndWriter, kind string) {
	if r.pubStuck {
		kind = "handler stuck"
		c10Stuck++
		r.handler = nil
	}
	if r.handler != nil { // everything posted has run once the probe returns
		ch := make(chan struct{}, 1)
		go r.handler.Post(func() { ch <- struct{}{} })
		select {
		case <-ch:
		case <-time.After(1500 * time.Millisecond):
			kind = "handler stuck"
			c10Stuck++
		}
		r.handler.Close()
	}
	r.rec.mu.Lock()
	evs := r.rec.evs
	r.rec.mu.Unlock()
	for _, e := range evs {
		delete(e, "seq")
	}
	w.write(E{"nsubs": r.nsubs, "handler": r.handler != nil, "mapped": r.mapped, "kind": kind, "events": evs})
}

// lifecycle of a subscriber list: it runs empty and is used again (a derived publisher must still be fed by its origin), and the
// handler is configured AFTER the first subscription / replaced by another one (deliveries follow the handler set at Publish time)
func c10Lifecycle(w *ndWriter, mapped, useHandler bool, variant int) {
	r := newC10(mapped, false)
	if useHandler {
		r.subscribe() // subscribed before any handler is configured
		mk := func(name string) *fpgo.HandlerDef {
			h := fpgo.Handler.New()
			ch := make(chan int64, 1)
			h.Post(func() { ch <- gid() })
			g := <-ch
			r.mu.Lock()
			r.thr[g] = name
			r.mu.Unlock()
			return h
		}
		if variant == 1 { // h0 first, replaced by h: nothing may be delivered on h0
			h0 := mk("h0")
			defer h0.Close()
			r.subPub.SubscribeOn(h0)
			r.subscribe()
		}
		r.handler = mk("h")
		r.subPub.SubscribeOn(r.handler)
	}
	a, b := r.subscribe(), r.subscribe()
	r.publish(1, 10)
	for id := 1; id <= r.nsubs; id++ {
		r.unsubscribe(id)
	}
	_, _ = a, b
	r.publish(2, 20) // nobody is registered
	r.subscribe()
	r.publish(3, 30)
	r.subscribe()
	r.publish(4, 40)
	r.finish(w, "ok")
}

// the SubscribeOn handler is busy (for longer than any patience a Publish might have) when a value is published: the delivery still
// happens on the handler, once, after it has become free
func c10BusyHandler(w *ndWriter, mapped bool) {
	r := newC10(mapped, true)
	r.subscribe()
	r.subscribe()
	release := make(chan struct{})
	started := make(chan struct{})
	go r.handler.Post(func() { close(started); <-release })
	select {
	case <-started:
	case <-time.After(2 * time.Second):
	}
	go func() { time.Sleep(450 * time.Millisecond); close(release) }()
	r.publish(1, 10) // returns when the handler has taken the delivery (bounded by publish's own watchdog)
	r.publish(2, 20)
	r.finish(w, "ok")
}

// behaviours of a subscription inside its callback (for the outer value 100 only)
// 0 noop, 1 unsubscribe itself, 2/3 unsubscribe another one, 4 subscribe a new one, 5 publish a nested value
func c10Reentrant(w *ndWriter, behav []int, mapped, useHandler bool) {
	if useHandler && c10Stuck >= 3 { // three runs with a dead handler are reported; more of them only cost time
		return
	}
	r := newC10(mapped, useHandler)
	n := len(behav)
	nested := false
	outerV := 100
	r.onNext = func(id, v int) {
		want := outerV
		if mapped {
			want = 2 * outerV
		}
		if v != want || id > n {
			return
		}
		switch b := behav[id-1]; b {
		case 1:
			r.unsubscribe(id)
		case 2, 3:
			other := (id-1+b-1)%n + 1
			r.unsubscribe(other)
		case 4:
			r.subscribe()
		case 5:
			if !nested && !useHandler {
				nested = true
				r.publish(2, 7)
			}
		}
	}
	for i := 0; i < n; i++ {
		r.subscribe()
	}
	r.name("main")
	r.publish(1, outerV)
	r.publish(3, 300) // a later call sees the list as the first one left it
	r.finish(w, "ok")
}

// the publishing goroutine is parked inside the callback of subscription parkAt while main changes the list
func c10Gated(w *ndWriter, parkAt int, ops []int, mapped bool) {
	r := newC10(mapped, false)
	parked := make(chan struct{}, 1)
	release := make(chan struct{})
	once := false
	r.onNext = func(id, v int) {
		if id == parkAt && !once {
			once = true
			parked <- struct{}{}
			<-release
		}
	}
	for i := 0; i < 3; i++ {
		r.subscribe()
	}
	done := make(chan struct{})
	go func() {
		r.name("p1")
		r.publish(1, 100)
		close(done)
	}()
	kind := "ok"
	select {
	case <-parked:
		for _, op := range ops { // op 1..3: Unsubscribe(op); 4: Subscribe a new one
			if op == 4 {
				r.subscribe()
			} else {
				r.unsubscribe(op)
			}
		}
		close(release)
	case <-time.After(5 * time.Second):
		kind = "publisher never reached the callback"
	}
	select {
	case <-done:
	case <-time.After(5 * time.Second):
		kind = "Publish did not return"
	}
	r.publish(2, 200)
	r.finish(w, kind)
}

func c10Stress(w *ndWriter, rng *rand.Rand, pubs, churners int, mapped, useHandler bool) {
	if useHandler && c10Stuck >= 3 {
		return
	}
	r := newC10(mapped, useHandler)
	for i := 0; i < 4; i++ {
		r.subscribe()
	}
	var wg sync.WaitGroup
	var kmu sync.Mutex
	k := 0
	for p := 1; p <= pubs; p++ {
		wg.Add(1)
		go func(p int) {
			defer wg.Done()
			r.name(fmt.Sprintf("p%d", p))
			for i := 0; i < 3; i++ {
				kmu.Lock()
				k++
				call := k
				kmu.Unlock()
				r.publish(call, 1000+call)
				runtime.Gosched()
			}
		}(p)
	}
	for c := 1; c <= churners; c++ {
		wg.Add(1)
		go func(c int) {
			defer wg.Done()
			r.name(fmt.Sprintf("c%d", c))
			for i := 0; i < 2; i++ {
				id := r.subscribe()
				runtime.Gosched()
				r.unsubscribe(id)
			}
		}(c)
	}
	done := make(chan struct{})
	go func() { wg.Wait(); close(done) }()
	kind := "ok"
	select {
	case <-done:
	case <-time.After(20 * time.Second):
		kind = "stuck"
	}
	r.finish(w, kind)
}

// many goroutines subscribe at the same moment; once all have returned a value is published: nobody may be missing
func c10SubscribeRace(w *ndWriter, goroutines, each int) {
	r := newC10(false, false)
	var start int32
	var wg sync.WaitGroup
	total := goroutines * each
	// "sub inv" is logged before the barrier and "sub res" after every call has returned, so the calls themselves
	// run without any logging in between (the logged intervals only get wider, which the rules tolerate)
	for id := 1; id <= total; id++ {
		r.rec.ev(E{"ev": "sub", "ph": "inv", "id": id, "v": 0, "thr": "main"})
	}
	r.nsubs = total
	subs := make([]*fpgo.Subscription[int], total+1)
	for g := 0; g < goroutines; g++ {
		wg.Add(1)
		go func(g int) {
			defer wg.Done()
			for atomic.LoadInt32(&start) == 0 {
			}
			for i := 0; i < each; i++ {
				id := g*each + i + 1
				subs[id] = r.subPub.Subscribe(fpgo.Subscription[int]{OnNext: func(v int) {
					r.rec.ev(E{"ev": "onnext", "ph": "-", "id": id, "v": v, "thr": r.who()})
				}})
			}
		}(g)
	}
	time.Sleep(30 * time.Microsecond)
	atomic.StoreInt32(&start, 1)
	wg.Wait()
	for id := 1; id <= total; id++ {
		r.subs[id] = subs[id]
		r.rec.ev(E{"ev": "sub", "ph": "res", "id": id, "v": 0, "thr": "main"})
	}
	r.name("main")
	r.publish(1, 100)
	r.finish(w, "ok")
}

// list changes racing with list changes (no Publish in progress): over a long subscriber list (the copy inside Unsubscribe
// takes long enough for another change to complete meanwhile) some goroutines subscribe, others unsubscribe distinct
// subscriptions; a Publish afterwards must reach exactly the subscriptions that are still registered.
func c10ChurnRace(w *ndWriter, base, goroutines, each int) {
	r := newC10(false, false)
	r.name("main")
	for i := 0; i < base; i++ {
		r.subscribe()
	}
	var start int32
	var wg sync.WaitGroup
	for g := 0; g < goroutines; g++ {
		wg.Add(1)
		go func(g int) {
			defer wg.Done()
			r.name(fmt.Sprintf("t%d", g+1))
			for atomic.LoadInt32(&start) == 0 {
			}
			for i := 0; i < each; i++ {
				if g%2 == 0 {
					r.subscribe()
				} else {
					r.unsubscribe(1 + (g/2)*each + i) // distinct base subscriptions per goroutine
				}
			}
		}(g)
	}
	time.Sleep(30 * time.Microsecond)
	atomic.StoreInt32(&start, 1)
	wg.Wait()
	r.name("main")
	r.publish(1, 100)
	r.finish(w, "ok")
}

func c10Main(args []string) error {
	switch args[0] {
	case "direct":
		return c10Direct(args[1:])
	case "record":
		w, err := newNDWriter(flagVal(args, "out", "c10.trace.ndjson"))
		if err != nil {
			return err
		}
		defer w.close()
		rounds := flagInt(args, "rounds", 20)
		rng := rand.New(rand.NewSource(int64(envInt("VERIF_SEED", 1))))
		runs := 0
		// all behaviour assignments for 3 subscriptions (6^3), a sample for 4
		for a := 0; a < 6; a++ {
			for b := 0; b < 6; b++ {
				for c := 0; c < 6; c++ {
					c10Reentrant(w, []int{a, b, c}, false, false)
					runs++
				}
			}
		}
		for i := 0; i < 60; i++ {
			c10Reentrant(w, []int{rng.Intn(6), rng.Intn(6), rng.Intn(6), rng.Intn(6)}, i%3 == 0, false)
			c10Reentrant(w, []int{rng.Intn(5), rng.Intn(5), rng.Intn(5)}, i%2 == 0, true)
			runs += 2
		}
		// every placement of one or two list changes while the publisher is parked in a callback
		opsList := [][]int{{1}, {2}, {3}, {4}, {1, 2}, {2, 3}, {3, 4}, {4, 1}, {2, 1}, {3, 1}}
		for park := 1; park <= 3; park++ {
			for _, ops := range opsList {
				c10Gated(w, park, ops, false)
				runs++
			}
		}
		c10Gated(w, 1, []int{2}, true)
		runs++
		for _, mapped := range []bool{false, true} {
			c10Lifecycle(w, mapped, false, 0)
			c10Lifecycle(w, mapped, true, 0)
			c10Lifecycle(w, mapped, true, 1)
			c10BusyHandler(w, mapped)
			runs += 4
		}
		for i := 0; i < rounds; i++ {
			c10Stress(w, rng, 1+rng.Intn(4), 1+rng.Intn(4), i%4 == 1, i%4 == 2)
			c10SubscribeRace(w, 8, 3)
			runs += 2
			if i%2 == 0 && i < 40 { // long subscriber lists are expensive to judge: at most 20 churn runs per recording
				c10ChurnRace(w, 300+100*(i%3), 6, 12)
				runs++
			}
		}
		fmt.Printf("{\"runs\":%d}\n", runs)
		return nil
	}
	return fmt.Errorf("c10: record | direct")
}
