//go:build verif

package main

import (
	"encoding/json"
	"fmt"
	"math/rand"
	"os"
	"runtime/debug"
	"time"

	fpgo "github.com/TeaEntityLab/fpGo/v2"
)

// C06 — LinkedListQueue.  Vocabulary shared with Deque.tla / LLQ.tla.

func init() { commands["c06"] = c06Main }

type llqOp struct {
	Op  string `json:"op"`
	Arg int    `json:"arg"`
}

type llqSnap struct {
	Fwd       []int `json:"fwd"`
	Bwd       []int `json:"bwd"`
	Count     int   `json:"count"`
	NodeCount int   `json:"nodeCount"`
	PoolLen   int   `json:"poolLen"`
}

// llqApply runs one public call on the real queue; a panic is the result kind "panic".
func llqApply(q *fpgo.LinkedListQueue[int], op string, arg int) (r Res) {
	defer func() {
		if p := recover(); p != nil {
			r = Res{K: "panic"}
		}
	}()
	val := func(v int, err error) Res {
		switch err {
		case nil:
			return Res{K: "val", V: v}
		case fpgo.ErrQueueIsEmpty:
			return Res{K: "errQueueEmpty"}
		case fpgo.ErrStackIsEmpty:
			return Res{K: "errStackEmpty"}
		}
		return Res{K: "err:" + err.Error()}
	}
	errOnly := func(err error) Res {
		if err == nil {
			return Res{K: "ok"}
		}
		return Res{K: "err:" + err.Error()}
	}
	switch op {
	case "Offer":
		return errOnly(q.Offer(arg))
	case "Put":
		return errOnly(fpgo.Queue[int](q).Put(arg))
	case "Push":
		return errOnly(fpgo.Stack[int](q).Push(arg))
	case "Unshift":
		return errOnly(q.Unshift(arg))
	case "Poll":
		return val(fpgo.Queue[int](q).Poll())
	case "Take":
		return val(fpgo.Queue[int](q).Take())
	case "Shift":
		return val(q.Shift())
	case "Pop":
		return val(fpgo.Stack[int](q).Pop())
	case "Peek":
		return val(q.Peek())
	case "Count":
		return Res{K: "int", V: q.Count()}
	case "Clear":
		q.Clear()
		return Res{K: "none"}
	case "ClearNodePool":
		q.ClearNodePool()
		return Res{K: "none"}
	case "KeepNodePoolCount":
		q.KeepNodePoolCount(arg)
		return Res{K: "none"}
	}
	panic("unknown op " + op)
}

func llqSnapshot(q *fpgo.LinkedListQueue[int]) (s llqSnap, broken bool) {
	defer func() {
		if p := recover(); p != nil {
			broken = true
		}
	}()
	v := q.VerifSnapshot()
	s = llqSnap{Fwd: v.Forward, Bwd: v.Backward, Count: v.Count, NodeCount: v.NodeCount, PoolLen: v.PoolLen}
	if s.Fwd == nil {
		s.Fwd = []int{}
	}
	if s.Bwd == nil {
		s.Bwd = []int{}
	}
	return s, v.Broken
}

func c06Main(args []string) error {
	if len(args) == 0 {
		return fmt.Errorf("c06: replay|record|run")
	}
	switch args[0] {
	case "replay":
		return c06Replay(args[1:])
	case "record":
		return c06Record(args[1:])
	case "run":
		return c06Run(args[1:])
	}
	return fmt.Errorf("c06: unknown subcommand %s", args[0])
}

// ---------------------------------------------------------------- direction A
// Each input line: {"ops":[{op,arg}...], "res":{k,v}, "ares":{k,v}, "snap":{...}} — a behaviour of
// LLQ.tla ending in one edge of its state graph.  The real queue is driven through the ops;
// the last call's result is compared with the abstract result ares (verdict) and the link
// structure with snap (advisory: model drift).
type llqCase struct {
	Ops  []llqOp `json:"ops"`
	Res  Res     `json:"res"`
	Ares Res     `json:"ares"`
	Snap llqSnap `json:"snap"`
}

type llqMismatch struct {
	Line int     `json:"line"`
	Kind string  `json:"kind"` // "result" (verdict) | "snap" (drift)
	Ops  []llqOp `json:"ops"`
	Got  Res     `json:"got"`
	Want Res     `json:"want"`
	GotS llqSnap `json:"gotSnap"`
	WntS llqSnap `json:"wantSnap"`
}

func c06Replay(args []string) error {
	in, outp := args[0], args[1]
	w, err := newNDWriter(outp)
	if err != nil {
		return err
	}
	defer w.close()
	line, nres, nsnap, steps := 0, 0, 0, 0
	wdStart(3 * time.Second)
	err = readLines(in, func(b []byte) error {
		line++
		b, err := unquoteTLA(b)
		if err != nil {
			return err
		}
		var c llqCase
		if err := json.Unmarshal(b, &c); err != nil {
			return fmt.Errorf("line %d: %v", line, err)
		}
		wdSet(func() string { kb, _ := json.Marshal(c.Ops); return string(kb) })
		q := fpgo.NewLinkedListQueue[int]()
		var r Res
		for _, o := range c.Ops {
			r = llqApply(q, o.Op, o.Arg)
			steps++
		}
		if r != c.Ares {
			nres++
			if nres <= 50 {
				w.write(llqMismatch{Line: line, Kind: "result", Ops: c.Ops, Got: r, Want: c.Ares})
			}
			return nil
		}
		s, broken := llqSnapshot(q)
		if broken || !intsEqual(s.Fwd, c.Snap.Fwd) || !intsEqual(s.Bwd, c.Snap.Bwd) || s.Count != c.Snap.Count ||
			s.NodeCount != c.Snap.NodeCount || s.PoolLen != c.Snap.PoolLen {
			nsnap++
			if nsnap <= 20 {
				w.write(llqMismatch{Line: line, Kind: "snap", Ops: c.Ops, Got: r, Want: c.Ares, GotS: s, WntS: c.Snap})
			}
		}
		return nil
	})
	if err != nil {
		return err
	}
	fmt.Printf("{\"cases\":%d,\"steps\":%d,\"result_mismatch\":%d,\"snap_mismatch\":%d}\n", line, steps, nres, nsnap)
	return nil
}

// ---------------------------------------------------------------- direction B
// Tree recording: depth-first over all histories of the alphabet up to the depth; one event per
// tree node {"d":depth,"op","arg","r","peek","count"}; the real queue for a node is rebuilt by
// re-running the path (the results of the re-run are compared with what was logged first; if the
// real code is not deterministic on a path the whole path is logged again as its own history).
type llqEvent struct {
	D     int    `json:"d"`
	Op    string `json:"op"`
	Arg   int    `json:"arg"`
	R     Res    `json:"r"`
	Peek  Res    `json:"peek"`
	Count int    `json:"count"`
}

var llqAlphabets = map[string][]llqOp{
	"full": {{"Offer", 0}, {"Put", 0}, {"Push", 0}, {"Unshift", 0}, {"Poll", 0}, {"Take", 0}, {"Shift", 0}, {"Pop", 0},
		{"Clear", 0}, {"ClearNodePool", 0}, {"KeepNodePoolCount", 0}, {"KeepNodePoolCount", 1}, {"KeepNodePoolCount", 2}},
	"core": {{"Offer", 0}, {"Unshift", 0}, {"Shift", 0}, {"Pop", 0}, {"Clear", 0}, {"ClearNodePool", 0}, {"KeepNodePoolCount", 1}},
	"ends": {{"Offer", 0}, {"Unshift", 0}, {"Shift", 0}, {"Pop", 0}},
}

func isInsert(op string) bool { return op == "Offer" || op == "Put" || op == "Push" || op == "Unshift" }

type llqRecorder struct {
	skip     map[string]bool // histories known to hang: logged with result kind "hang", not executed
	prefix   string
	maxLines int
	shard    int
	w        *ndWriter
	files    []string
	events   int
	leaves   int
	nondet   int
}

func (rc *llqRecorder) rotate(path []llqEvent) {
	if rc.w != nil {
		rc.w.close()
	}
	rc.shard++
	name := fmt.Sprintf("%s.%03d.ndjson", rc.prefix, rc.shard)
	w, err := newNDWriter(name)
	if err != nil {
		panic(err)
	}
	rc.w = w
	rc.files = append(rc.files, name)
	for _, e := range path { // re-establish the validator's stack for the current path
		rc.w.write(e)
	}
}

func (rc *llqRecorder) emit(path []llqEvent, e llqEvent) {
	if rc.w == nil || rc.w.n >= rc.maxLines {
		rc.rotate(path)
	}
	rc.w.write(e)
	rc.events++
}

// observe executes op on q (value = depth for inserts) and reads Peek and Count afterwards.
func llqObserve(q *fpgo.LinkedListQueue[int], d int, o llqOp) llqEvent {
	arg := o.Arg
	if isInsert(o.Op) {
		arg = d
	}
	e := llqEvent{D: d, Op: o.Op, Arg: arg}
	e.R = llqApply(q, o.Op, arg)
	if e.R.K == "panic" {
		e.Peek = Res{K: "panic"}
		return e
	}
	e.Peek = llqApply(q, "Peek", 0)
	c := llqApply(q, "Count", 0)
	e.Count = c.V
	if c.K == "panic" {
		e.Peek = Res{K: "panic"}
	}
	return e
}

func llqKey(path []llqEvent, o llqOp, d int) string {
	ops := make([]llqOp, 0, len(path)+1)
	for _, pe := range path {
		ops = append(ops, llqOp{pe.Op, pe.Arg})
	}
	if isInsert(o.Op) {
		o.Arg = d
	}
	b, _ := json.Marshal(append(ops, o))
	return string(b)
}

func (rc *llqRecorder) dfs(alpha []llqOp, path []llqEvent, depth int) {
	d := len(path) + 1
	for _, o := range alpha {
		o := o
		if rc.skip[llqKey(path, o, d)] {
			arg := o.Arg
			if isInsert(o.Op) {
				arg = d
			}
			rc.emit(path, llqEvent{D: d, Op: o.Op, Arg: arg, R: Res{K: "hang"}, Peek: Res{K: "hang"}})
			continue
		}
		wdSet(func() string { return llqKey(path, o, d) })
		q := fpgo.NewLinkedListQueue[int]()
		det := true
		for _, pe := range path {
			if got := llqObserve(q, pe.D, llqOp{pe.Op, pe.Arg}); got != pe {
				det = false
			}
		}
		e := llqObserve(q, d, o)
		if !det {
			// not reproducible: log this path again from depth 1 as observed now
			rc.nondet++
			q2 := fpgo.NewLinkedListQueue[int]()
			for _, pe := range path {
				rc.emit(nil, llqObserve(q2, pe.D, llqOp{pe.Op, pe.Arg}))
			}
			rc.emit(nil, llqObserve(q2, d, o))
			continue
		}
		rc.emit(path, e)
		if e.R.K == "panic" || e.Peek.K == "panic" {
			continue // the object is dead; the validator rejects this node anyway
		}
		if d < depth {
			rc.dfs(alpha, append(path, e), depth)
		} else {
			rc.leaves++
		}
	}
}

func c06Record(args []string) error {
	mode := flagVal(args, "mode", "tree")
	rc := &llqRecorder{prefix: flagVal(args, "out", "c06"), maxLines: flagInt(args, "maxlines", 250000), skip: map[string]bool{}}
	if sf := flagVal(args, "skipfile", ""); sf != "" {
		b, err := os.ReadFile(sf)
		if err != nil {
			return err
		}
		var keys []json.RawMessage
		if err := json.Unmarshal(b, &keys); err != nil {
			return err
		}
		for _, k := range keys {
			var ops []llqOp
			json.Unmarshal(k, &ops)
			kb, _ := json.Marshal(ops)
			rc.skip[string(kb)] = true
		}
	}
	wdStart(3 * time.Second)
	switch mode {
	case "tree":
		alpha, ok := llqAlphabets[flagVal(args, "alphabet", "core")]
		if !ok {
			return fmt.Errorf("unknown alphabet")
		}
		rc.dfs(alpha, nil, flagInt(args, "depth", 4))
	case "list":
		// histories given explicitly (TLC counterexamples, cover behaviours, replays)
		b, err := os.ReadFile(flagVal(args, "in", ""))
		if err != nil {
			return err
		}
		var hs [][]llqOp
		if err := json.Unmarshal(b, &hs); err != nil {
			return err
		}
		for _, ops := range hs {
			q := fpgo.NewLinkedListQueue[int]()
			var lpath []llqEvent // a new shard restarts with the history so far
			for i, o := range ops {
				d := i + 1
				kb, _ := json.Marshal(ops[:d])
				if rc.skip[string(kb)] {
					rc.emit(lpath, llqEvent{D: d, Op: o.Op, Arg: o.Arg, R: Res{K: "hang"}, Peek: Res{K: "hang"}})
					break
				}
				wdSet(func() string { return string(kb) })
				e := llqEvent{D: d, Op: o.Op, Arg: o.Arg}
				e.R = llqApply(q, o.Op, o.Arg)
				if e.R.K == "panic" {
					e.Peek = Res{K: "panic"}
				} else {
					e.Peek = llqApply(q, "Peek", 0)
					e.Count = llqApply(q, "Count", 0).V
				}
				rc.emit(lpath, e)
				lpath = append(lpath, e)
				if e.R.K == "panic" || e.Peek.K == "panic" {
					break
				}
			}
			rc.leaves++
		}
	case "bulk":
		// long histories with thousands of pending items (beyond any small pool / cache size inside the queue):
		// fill - drain rounds through the queue ends, the stack ends and mixed ends
		n, rounds := flagInt(args, "n", 2500), flagInt(args, "rounds", 3)
		// no garbage collection while the histories run: nodes handed to a sync.Pool must still be there when the next round asks
		// for them (a collection in between would hide what reusing them does)
		defer debug.SetGCPercent(debug.SetGCPercent(-1))
		shapes := [][2][]string{{{"Offer"}, {"Poll"}}, {{"Push"}, {"Pop"}}, {{"Offer", "Unshift"}, {"Shift", "Pop"}}, {{"Put", "Offer"}, {"Take", "Poll", "Peek"}}}
		// --deep N: two more histories (queue ends, mixed ends) with N pending items - beyond caps in the tens of thousands that a
		// node pool / free list might have - filled and drained twice
		deep := flagInt(args, "deep", 0)
		if deep > 0 {
			shapes = append(shapes, shapes[0])
			if flagInt(args, "deepmixed", 0) == 1 { // (judging costs time quadratic in the number of pending items: the mixed-ends history only in the thorough tier)
				shapes = append(shapes, shapes[2])
			}
		}
		for si, sh := range shapes {
			q := fpgo.NewLinkedListQueue[int]()
			var bpath []llqEvent
			d := 0
			stop := false
			n, rounds := n, rounds
			if si >= 4 {
				n, rounds = deep, 2
			}
			for r := 0; r < rounds && !stop; r++ {
				for phase := 0; phase < 2 && !stop; phase++ {
					k := n
					if phase == 1 {
						k = n + 2 // two more removals than insertions: the empty results are part of the history
					}
					for i := 0; i < k; i++ {
						d++
						o := llqOp{Op: sh[phase][i%len(sh[phase])], Arg: d}
						pp, dd := bpath, d
						wdSet(func() string { return fmt.Sprintf("bulk %v step %d (%d earlier calls)", sh, dd, len(pp)) })
						e := llqObserve(q, d, o)
						rc.emit(bpath, e)
						bpath = append(bpath, e)
						if e.R.K == "panic" || e.Peek.K == "panic" {
							stop = true
							break
						}
					}
				}
			}
			rc.leaves++
		}
		// a very large node pool (beyond any cap a pool might have), then ordinary traffic through both ends
		for _, keep := range []int{1000, 20000, 70000} {
			q := fpgo.NewLinkedListQueue[int]()
			var kpath []llqEvent
			script := []llqOp{{Op: "KeepNodePoolCount", Arg: keep}}
			for i := 0; i < 6; i++ {
				script = append(script, llqOp{Op: "Offer"})
			}
			for _, o := range []string{"Shift", "Pop", "Peek", "Unshift", "Poll", "Take", "KeepNodePoolCount", "Offer", "Shift", "Shift", "Pop", "Pop", "Pop", "Poll", "Count"} {
				script = append(script, llqOp{Op: o, Arg: keep})
			}
			for i, o := range script {
				d := i + 1
				if o.Op != "KeepNodePoolCount" {
					o.Arg = d
				}
				kk, dd := keep, d
				wdSet(func() string { return fmt.Sprintf("bulk keep=%d step %d", kk, dd) })
				e := llqObserve(q, d, o)
				rc.emit(kpath, e)
				kpath = append(kpath, e)
				if e.R.K == "panic" || e.Peek.K == "panic" {
					break
				}
			}
			rc.leaves++
		}
	case "random":
		n, ln := flagInt(args, "n", 1000), flagInt(args, "len", 30)
		rng := rand.New(rand.NewSource(int64(envInt("VERIF_SEED", 1))))
		alpha := llqAlphabets["full"]
		for i := 0; i < n; i++ {
			q := fpgo.NewLinkedListQueue[int]()
			var path []llqEvent
			for d := 1; d <= ln; d++ {
				var o llqOp
				switch x := rng.Intn(10); {
				case x < 3: // keep the queue populated: inserts are as likely as removals
					o = alpha[rng.Intn(4)]
				case x < 6:
					o = alpha[4+rng.Intn(4)]
				default:
					o = alpha[rng.Intn(len(alpha))]
				}
				if rc.skip[llqKey(path, o, d)] {
					rc.emit(path, llqEvent{D: d, Op: o.Op, Arg: o.Arg, R: Res{K: "hang"}, Peek: Res{K: "hang"}})
					break
				}
				pp := path
				wdSet(func() string { return llqKey(pp, o, d) })
				e := llqObserve(q, d, o)
				rc.emit(path, e)
				path = append(path, e)
				if e.R.K == "panic" || e.Peek.K == "panic" {
					break
				}
			}
			rc.leaves++
		}
	default:
		return fmt.Errorf("unknown mode")
	}
	if rc.w != nil {
		rc.w.close()
	}
	b, _ := json.Marshal(map[string]interface{}{"files": rc.files, "events": rc.events, "histories": rc.leaves, "nondeterministic_paths": rc.nondet})
	fmt.Println(string(b))
	return nil
}

// run: replay one history given as JSON [{op,arg}...] (file) and print every call's result.
func c06Run(args []string) error {
	b, err := os.ReadFile(args[0])
	if err != nil {
		return err
	}
	var ops []llqOp
	if err := json.Unmarshal(b, &ops); err != nil {
		return err
	}
	q := fpgo.NewLinkedListQueue[int]()
	w, _ := newNDWriter("/dev/stdout")
	defer w.close()
	for i, o := range ops {
		e := llqEvent{D: i + 1, Op: o.Op, Arg: o.Arg}
		e.R = llqApply(q, o.Op, o.Arg)
		if e.R.K != "panic" {
			e.Peek = llqApply(q, "Peek", 0)
			e.Count = llqApply(q, "Count", 0).V
		} else {
			e.Peek = Res{K: "panic"}
		}
		w.write(e)
		if e.R.K == "panic" {
			break
		}
	}
	return nil
}
