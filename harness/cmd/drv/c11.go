//go:build verif

package main

import (
	"bytes"
	"encoding/json"
	"fmt"
	"runtime"
	"strconv"
	"sync"
	"sync/atomic"
	"time"

	fpgo "github.com/TeaEntityLab/fpGo/v2"
)

// C11 — MonadIO.  Vocabulary shared with MonadIO.tla: programs = base + chain of continuations.

func init() { commands["c11"] = c11Main }

func gid() int64 {
	b := make([]byte, 64)
	b = b[:runtime.Stack(b, false)]
	b = bytes.TrimPrefix(b, []byte("goroutine "))
	b = b[:bytes.IndexByte(b, ' ')]
	n, _ := strconv.ParseInt(string(b), 10, 64)
	return n
}

type c11F struct {
	K string `json:"k"`
	J int    `json:"j"`
}
type c11Prog struct {
	Bt string `json:"bt"`
	Bx int    `json:"bx"`
	Fs []c11F `json:"fs"`
}
type c11Ev struct {
	Kind   string `json:"kind"`
	OnNext bool   `json:"onNext"`
	ObOn   string `json:"obOn"`
	SubOn  string `json:"subOn"`
	Busy   bool   `json:"busy"`
}
type c11Case struct {
	Prog   c11Prog `json:"prog"`
	Script []c11Ev `json:"script"`
}
type c11Cb struct {
	ID  int    `json:"id"`
	Thr string `json:"thr"`
}
type c11Del struct {
	V   int    `json:"v"`
	Thr string `json:"thr"`
}
type c11EvalOut struct {
	Ev        c11Ev    `json:"ev"`
	Log       []c11Cb  `json:"log"`
	Delivered []c11Del `json:"delivered"`
	Ret       int      `json:"ret"`
}

type c11Env struct {
	mu   sync.Mutex
	log  []c11Cb
	del  []c11Del
	thr  map[int64]string
	h    map[string]*fpgo.HandlerDef
	done chan struct{}
}

func (e *c11Env) who() string {
	e.mu.Lock()
	defer e.mu.Unlock()
	if n, ok := e.thr[gid()]; ok {
		return n
	}
	return "other"
}
func (e *c11Env) cb(id int) {
	w := e.who()
	e.mu.Lock()
	e.log = append(e.log, c11Cb{id, w})
	e.mu.Unlock()
}

// learn a handler's goroutine and wait until everything posted before has run
func (e *c11Env) syncHandler(name string) bool {
	h := e.h[name]
	ch := make(chan int64, 1)
	go h.Post(func() { ch <- gid() })
	select {
	case g := <-ch:
		e.mu.Lock()
		e.thr[g] = name
		e.mu.Unlock()
		return true
	case <-time.After(5 * time.Second):
		return false
	}
}

func (e *c11Env) build(p *c11Prog) *fpgo.MonadIODef[int] {
	var m *fpgo.MonadIODef[int]
	if p.Bt == "just" {
		m = fpgo.MonadIOJustGenerics(p.Bx)
	} else {
		id := p.Bx
		m = fpgo.MonadIONewGenerics(func() int { e.cb(id); return 10 * id })
	}
	for _, f := range p.Fs {
		f := f
		m = m.FlatMap(func(v int) *fpgo.MonadIODef[int] {
			e.cb(200 + f.J)
			mkNew := func(v2 int) *fpgo.MonadIODef[int] {
				return fpgo.MonadIONewGenerics(func() int { e.cb(100 + f.J); return 2*v2 + f.J })
			}
			switch f.K {
			case "just":
				return fpgo.MonadIOJustGenerics(v + f.J)
			case "new":
				return mkNew(v)
			}
			return fpgo.MonadIOJustGenerics(v).FlatMap(func(v2 int) *fpgo.MonadIODef[int] { e.cb(300 + f.J); return mkNew(v2) })
		})
	}
	return m
}

func c11Exec(c *c11Case) map[string]interface{} {
	out := map[string]interface{}{"prog": c.Prog, "kind": "ok"}
	if c.Prog.Fs == nil {
		c.Prog.Fs = []c11F{}
		out["prog"] = c.Prog
	}
	e := &c11Env{thr: map[int64]string{gid(): "caller"}, h: map[string]*fpgo.HandlerDef{}}
	e.h["h1"], e.h["h2"] = fpgo.Handler.New(), fpgo.Handler.New()
	e.h["hb"] = fpgo.Handler.NewByCh(make(chan func(), 4)) // one buffered handler for obOn == subOn (an unbuffered handler cannot post to itself)
	defer func() {
		for _, h := range e.h {
			h.Close()
		}
	}()
	for _, n := range []string{"h1", "h2", "hb"} {
		if !e.syncHandler(n) {
			out["kind"] = "stuck"
			return out
		}
	}
	m := e.build(&c.Prog)
	after := append([]c11Cb{}, e.log...)
	out["afterBuild"] = after
	evals := []c11EvalOut{}
	for _, ev := range c.Script {
		e.mu.Lock()
		e.log, e.del = nil, nil
		e.mu.Unlock()
		eo := c11EvalOut{Ev: ev, Log: []c11Cb{}, Delivered: []c11Del{}}
		if ev.Kind == "Eval" {
			func() {
				defer func() {
					if p := recover(); p != nil {
						out["kind"] = "panic"
					}
				}()
				eo.Ret = m.Eval()
			}()
		} else {
			ob, sub := ev.ObOn, ev.SubOn
			same := ob != "nil" && ob == sub
			pick := func(n string) *fpgo.HandlerDef {
				if n == "nil" {
					return nil
				}
				if same {
					return e.h["hb"]
				}
				return e.h[n]
			}
			if same { // the buffered handler plays the role of that handler
				e.mu.Lock()
				for g, n := range e.thr {
					if n == "hb" {
						e.thr[g] = ob
					} else if n == ob {
						e.thr[g] = "unused-" + ob
					}
				}
				e.mu.Unlock()
			}
			done := make(chan struct{}, 4)
			s := fpgo.Subscription[int]{}
			if ev.OnNext {
				s.OnNext = func(v int) {
					w := e.who()
					e.mu.Lock()
					e.del = append(e.del, c11Del{v, w})
					e.mu.Unlock()
					done <- struct{}{}
				}
			}
			if ev.Busy && pick(sub) != nil { // occupy the subscribe handler while the effect runs; it is freed 15 ms later
				unblock := make(chan struct{})
				started := make(chan struct{})
				go pick(sub).Post(func() { close(started); <-unblock })
				<-started
				time.AfterFunc(15*time.Millisecond, func() { close(unblock) })
			}
			m.ObserveOn(pick(ob)).SubscribeOn(pick(sub)).Subscribe(s)
			if ev.OnNext {
				select {
				case <-done:
				case <-time.After(5 * time.Second):
					out["kind"] = "stuck"
				}
			}
			// everything posted to the handlers so far has run once these probes come back (positive synchronisation)
			for _, n := range []string{"h1", "h2", "hb"} {
				hh := e.h[n]
				ch := make(chan struct{}, 1)
				go hh.Post(func() { ch <- struct{}{} })
				select {
				case <-ch:
				case <-time.After(5 * time.Second):
					out["kind"] = "stuck"
				}
			}
			if same {
				e.mu.Lock()
				for g, n := range e.thr {
					if n == ob {
						e.thr[g] = "hb"
					} else if n == "unused-"+ob {
						e.thr[g] = ob
					}
				}
				e.mu.Unlock()
			}
		}
		e.mu.Lock()
		eo.Log = append(eo.Log, e.log...)
		eo.Delivered = append(eo.Delivered, e.del...)
		e.mu.Unlock()
		evals = append(evals, eo)
	}
	out["evals"] = evals
	return out
}

// ---- overlapping evaluations of ONE monad and reconfiguration while an evaluation is in flight (MonadIO!JudgeConc / JudgeReconf)
type c11ConcOut struct {
	Part      string   `json:"part"`
	N         int      `json:"n"`
	ObOn      string   `json:"obOn"`
	SubOn     string   `json:"subOn"`
	NewSub    string   `json:"newSub"`
	Effects   []c11Del `json:"effects"`   // value produced by each evaluation and the goroutine it ran on
	Delivered []c11Del `json:"delivered"` // OnNext deliveries
	Kind      string   `json:"kind"`
	MaxIn     int      `json:"maxin"` // fresh: the largest number of effects seen inside the handler at once
}

// sibling instances: two monads built by the same constructor call with the same value; configuring ONE of them with
// ObserveOn(h1).SubscribeOn(h2) leaves the other unconfigured: its Subscribe runs effect and OnNext on the caller, before it returns.
func c11Siblings(w *ndWriter) int {
	n := 0
	for _, ctor := range []string{"Just.method", "JustGenerics", "New.method", "NewGenerics"} {
		for _, val := range []int{0, 7} { // 0 stands for nil where the constructor takes an interface{}
			e := &c11Env{thr: map[int64]string{gid(): "caller"}, h: map[string]*fpgo.HandlerDef{}}
			e.h["h1"], e.h["h2"] = fpgo.Handler.NewByCh(make(chan func(), 8)), fpgo.Handler.NewByCh(make(chan func(), 8))
			out := c11ConcOut{Part: "sibling", N: val, ObOn: "nil", SubOn: "caller", NewSub: ctor, Kind: "ok", Effects: []c11Del{}, Delivered: []c11Del{}}
			ok := e.syncHandler("h1") && e.syncHandler("h2")
			var mu sync.Mutex
			eff := func() {
				who := e.who()
				mu.Lock()
				out.Effects = append(out.Effects, c11Del{val, who})
				mu.Unlock()
			}
			del := func(v int) {
				who := e.who()
				mu.Lock()
				out.Delivered = append(out.Delivered, c11Del{v, who})
				mu.Unlock()
			}
			func() {
				defer func() {
					if r := recover(); r != nil {
						out.Kind = "panic"
					}
				}()
				switch ctor {
				case "Just.method", "New.method":
					var iv interface{}
					if val != 0 {
						iv = val
					}
					mk := func() *fpgo.MonadIODef[interface{}] {
						if ctor == "Just.method" {
							return fpgo.MonadIO.Just(iv)
						}
						return fpgo.MonadIO.New(func() interface{} { eff(); return iv })
					}
					m1, m2 := mk(), mk()
					m1.ObserveOn(e.h["h1"]).SubscribeOn(e.h["h2"])
					m2.Subscribe(fpgo.Subscription[interface{}]{OnNext: func(v interface{}) {
						if v == nil {
							del(0)
						} else {
							del(v.(int))
						}
					}})
				default:
					mk := func() *fpgo.MonadIODef[int] {
						if ctor == "JustGenerics" {
							return fpgo.MonadIOJustGenerics(val)
						}
						return fpgo.MonadIONewGenerics(func() int { eff(); return val })
					}
					m1, m2 := mk(), mk()
					m1.ObserveOn(e.h["h1"]).SubscribeOn(e.h["h2"])
					m2.Subscribe(fpgo.Subscription[int]{OnNext: del})
				}
			}()
			mu.Lock()
			inline := len(out.Delivered)
			mu.Unlock()
			if inline == 0 { // not delivered when Subscribe returned: see where it goes, for the report
				time.Sleep(30 * time.Millisecond)
				out.Kind = "late"
			}
			if !ok {
				out.Kind = "stuck"
			}
			mu.Lock()
			w.write(out)
			mu.Unlock()
			n++
			for _, h := range e.h {
				h.Close()
			}
		}
	}
	return n
}

// fresh handlers: the FIRST Posts a just constructed Handler sees come from k goroutines released together (k monads observed on
// it): every effect runs on ONE goroutine - the handler's - and never two at a time.
func c11FreshHandler(w *ndWriter, trials int) int {
	for t := 0; t < trials; t++ {
		k := 2 + t%5
		h1 := fpgo.Handler.NewByCh(make(chan func(), 8))
		out := c11ConcOut{Part: "fresh", N: k, ObOn: "g1", SubOn: "nil", NewSub: "-", Kind: "ok", Effects: []c11Del{}, Delivered: []c11Del{}}
		var mu sync.Mutex
		gids := map[int64]string{}
		var in, ready, start int32
		done := make(chan struct{}, k)
		var wg sync.WaitGroup
		for i := 0; i < k; i++ {
			v := i + 1
			m := fpgo.MonadIONewGenerics(func() int {
				c := int(atomic.AddInt32(&in, 1))
				g := gid()
				mu.Lock()
				if _, ok := gids[g]; !ok {
					gids[g] = fmt.Sprintf("g%d", len(gids)+1)
				}
				if c > out.MaxIn {
					out.MaxIn = c
				}
				out.Effects = append(out.Effects, c11Del{v, gids[g]})
				mu.Unlock()
				for j := 0; j < 200; j++ {
					runtime.Gosched()
				}
				atomic.AddInt32(&in, -1)
				return v
			}).ObserveOn(h1)
			wg.Add(1)
			go func() {
				defer wg.Done()
				atomic.AddInt32(&ready, 1)
				for atomic.LoadInt32(&start) == 0 {
				}
				m.Subscribe(fpgo.Subscription[int]{OnNext: func(v int) {
					mu.Lock()
					out.Delivered = append(out.Delivered, c11Del{v, "-"})
					mu.Unlock()
					done <- struct{}{}
				}})
			}()
		}
		for atomic.LoadInt32(&ready) < int32(k) {
			runtime.Gosched()
		}
		atomic.StoreInt32(&start, 1)
		wg.Wait()
		for i := 0; i < k; i++ {
			select {
			case <-done:
			case <-time.After(3 * time.Second):
				out.Kind = "stuck"
			}
		}
		mu.Lock()
		w.write(out)
		mu.Unlock()
		h1.Close()
	}
	return trials
}

// a composition derived from a CONFIGURED source: src.ObserveOn(h1).SubscribeOn(h2).FlatMap(f) is a new, unconfigured monad - its
// Subscribe runs the whole chain (the source's effect, f, f's monad) and OnNext on the subscribing goroutine, before it returns
func c11Inherit(w *ndWriter) int {
	n := 0
	for _, depth := range []int{1, 2} {
		e := &c11Env{thr: map[int64]string{gid(): "caller"}, h: map[string]*fpgo.HandlerDef{}}
		e.h["h1"], e.h["h2"] = fpgo.Handler.NewByCh(make(chan func(), 8)), fpgo.Handler.NewByCh(make(chan func(), 8))
		out := c11ConcOut{Part: "inherit", N: depth, ObOn: "nil", SubOn: "caller", NewSub: "-", Kind: "ok", Effects: []c11Del{}, Delivered: []c11Del{}}
		ok := e.syncHandler("h1") && e.syncHandler("h2")
		var mu sync.Mutex
		log := func(v int) {
			who := e.who()
			mu.Lock()
			out.Effects = append(out.Effects, c11Del{v, who})
			mu.Unlock()
		}
		src := fpgo.MonadIONewGenerics(func() int { log(0); return 1000 }).ObserveOn(e.h["h1"]).SubscribeOn(e.h["h2"])
		comp := src.FlatMap(func(v int) *fpgo.MonadIODef[int] { log(1); return fpgo.MonadIOJustGenerics(v + 1) })
		if depth == 2 {
			comp = comp.FlatMap(func(v int) *fpgo.MonadIODef[int] { log(2); return fpgo.MonadIOJustGenerics(v + 1) })
		}
		done := make(chan struct{}, 1)
		go func() {
			defer func() { recover(); done <- struct{}{} }()
			e.mu.Lock()
			e.thr[gid()] = "caller"
			e.mu.Unlock()
			comp.Subscribe(fpgo.Subscription[int]{OnNext: func(v int) {
				who := e.who()
				mu.Lock()
				out.Delivered = append(out.Delivered, c11Del{v, who})
				mu.Unlock()
			}})
			mu.Lock()
			if len(out.Delivered) == 0 {
				out.Kind = "late"
			}
			mu.Unlock()
		}()
		select {
		case <-done:
		case <-time.After(2 * time.Second):
			ok = false
		}
		time.Sleep(20 * time.Millisecond)
		if !ok {
			out.Kind = "stuck"
		}
		mu.Lock()
		w.write(out)
		mu.Unlock()
		n++
		for _, h := range e.h {
			h.Close()
		}
	}
	return n
}

// evaluations of one monad that nest or wait for each other: a monadic loop (the continuation returns the loop itself), an effect that
// evaluates its own monad once more, two goroutines whose evaluations of one monad rendezvous - all must complete
func c11Reentrant(w *ndWriter) int {
	n := 0
	run := func(shape string, want []int, body func(log func(int)) int) {
		out := c11ConcOut{Part: "reentrant", N: len(want), ObOn: shape, SubOn: "-", NewSub: "-", Kind: "ok", Effects: []c11Del{}, Delivered: []c11Del{}}
		var mu sync.Mutex
		log := func(v int) { mu.Lock(); out.Effects = append(out.Effects, c11Del{v, "-"}); mu.Unlock() }
		res := make(chan int, 1)
		go func() {
			defer func() {
				if recover() != nil {
					res <- -1
				}
			}()
			res <- body(log)
		}()
		select {
		case v := <-res:
			out.Delivered = append(out.Delivered, c11Del{v, "-"})
		case <-time.After(3 * time.Second):
			out.Kind = "stuck"
		}
		mu.Lock()
		w.write(out)
		mu.Unlock()
		n++
	}
	run("loop", []int{1, 2, 3}, func(log func(int)) int {
		count := 0
		step := fpgo.MonadIONewGenerics(func() int { count++; log(count); return count })
		var loop *fpgo.MonadIODef[int]
		loop = step.FlatMap(func(v int) *fpgo.MonadIODef[int] {
			if v < 3 {
				return loop
			}
			return fpgo.MonadIOJustGenerics(v * 10)
		})
		return loop.Eval()
	})
	run("self-eval", []int{1, 2}, func(log func(int)) int {
		depth := 0
		var m *fpgo.MonadIODef[int]
		m = fpgo.MonadIONewGenerics(func() int {
			depth++
			log(depth)
			if depth == 1 {
				return 10 + m.Eval()
			}
			return 20
		})
		return m.Eval()
	})
	run("rendezvous", []int{1, 1}, func(log func(int)) int {
		var in int32
		m := fpgo.MonadIONewGenerics(func() int {
			atomic.AddInt32(&in, 1)
			log(1)
			for i := 0; i < 2000000 && atomic.LoadInt32(&in) < 2; i++ { // wait (bounded) until the other evaluation is inside too
				runtime.Gosched()
			}
			return int(atomic.LoadInt32(&in))
		})
		other := make(chan int, 1)
		go func() { other <- m.Eval() }()
		a := m.Eval()
		select {
		case b := <-other:
			return a*10 + b
		case <-time.After(2 * time.Second):
			return -2
		}
	})
	return n
}

func c11Conc(w *ndWriter) int {
	n := 0
	for _, ob := range []string{"nil", "h1"} {
		for _, k := range []int{2, 3} {
			for _, mode := range []string{"busy-handler", "goroutines"} {
				e := &c11Env{thr: map[int64]string{gid(): "caller"}, h: map[string]*fpgo.HandlerDef{}}
				e.h["h1"], e.h["h2"] = fpgo.Handler.NewByCh(make(chan func(), 8)), fpgo.Handler.NewByCh(make(chan func(), 8))
				out := c11ConcOut{Part: "conc", N: k, ObOn: ob, SubOn: "h2", NewSub: "-", Kind: "ok", Effects: []c11Del{}, Delivered: []c11Del{}}
				ok := e.syncHandler("h1") && e.syncHandler("h2")
				var count int32
				var mu sync.Mutex
				m := fpgo.MonadIONewGenerics(func() int { // the k-th evaluation yields k
					v := int(atomic.AddInt32(&count, 1))
					who := e.who()
					mu.Lock()
					out.Effects = append(out.Effects, c11Del{v, who})
					mu.Unlock()
					return v
				})
				done := make(chan struct{}, 8)
				sub := fpgo.Subscription[int]{OnNext: func(v int) {
					who := e.who()
					mu.Lock()
					out.Delivered = append(out.Delivered, c11Del{v, who})
					mu.Unlock()
					done <- struct{}{}
				}}
				var hob *fpgo.HandlerDef
				if ob == "h1" {
					hob = e.h["h1"]
				}
				// the subscribe handler is busy while all k evaluations run: their deliveries queue up behind it
				unblock, started := make(chan struct{}), make(chan struct{})
				e.h["h2"].Post(func() { close(started); <-unblock })
				<-started
				if mode == "goroutines" {
					var wg sync.WaitGroup
					for i := 0; i < k; i++ {
						wg.Add(1)
						go func() { defer wg.Done(); m.ObserveOn(hob).SubscribeOn(e.h["h2"]).Subscribe(sub) }()
					}
					wg.Wait()
				} else {
					for i := 0; i < k; i++ {
						m.ObserveOn(hob).SubscribeOn(e.h["h2"]).Subscribe(sub)
					}
				}
				deadline := time.Now().Add(2 * time.Second)
				for int(atomic.LoadInt32(&count)) < k && time.Now().Before(deadline) {
					time.Sleep(100 * time.Microsecond)
				}
				time.Sleep(time.Millisecond)
				close(unblock)
				for i := 0; i < k && ok; i++ {
					select {
					case <-done:
					case <-time.After(3 * time.Second):
						ok = false
					}
				}
				if !ok {
					out.Kind = "stuck"
				}
				mu.Lock()
				w.write(out)
				mu.Unlock()
				n++
				e.h["h1"].Close()
				e.h["h2"].Close()
			}
		}
	}
	// two compositions branching off the same prefix  p.FlatMap(f1)...FlatMap(fk): left = p.FlatMap(L), right = p.FlatMap(R), for every
	// prefix depth k = 0..9; each evaluates to ITS OWN composition (built left first / right first, evaluated in both orders)
	for k := 0; k <= 9; k++ {
		for _, leftFirst := range []bool{true, false} {
			calls := []int{}
			p := fpgo.MonadIONewGenerics(func() int { calls = append(calls, 0); return 1000 })
			for j := 1; j <= k; j++ {
				j := j
				p = p.FlatMap(func(v int) *fpgo.MonadIODef[int] { calls = append(calls, j); return fpgo.MonadIOJustGenerics(v + 1) })
			}
			mkL := func() *fpgo.MonadIODef[int] {
				return p.FlatMap(func(v int) *fpgo.MonadIODef[int] {
					calls = append(calls, 100)
					return fpgo.MonadIOJustGenerics(v + 100)
				})
			}
			mkR := func() *fpgo.MonadIODef[int] {
				return p.FlatMap(func(v int) *fpgo.MonadIODef[int] {
					calls = append(calls, 200)
					return fpgo.MonadIOJustGenerics(v + 200)
				})
			}
			var l, r *fpgo.MonadIODef[int]
			if leftFirst {
				l, r = mkL(), mkR()
			} else {
				r, l = mkR(), mkL()
			}
			out := c11ConcOut{Part: "branch", N: k, ObOn: "nil", SubOn: "nil", NewSub: "-", Kind: "ok", Effects: []c11Del{}, Delivered: []c11Del{}}
			func() {
				defer func() {
					if recover() != nil {
						out.Kind = "panic"
					}
				}()
				calls = nil
				lv := l.Eval()
				lcalls := append([]int{}, calls...)
				calls = nil
				rv := r.Eval()
				rcalls := append([]int{}, calls...)
				out.Delivered = []c11Del{{lv, "left"}, {rv, "right"}}
				for _, c := range lcalls {
					out.Effects = append(out.Effects, c11Del{c, "left"})
				}
				for _, c := range rcalls {
					out.Effects = append(out.Effects, c11Del{c, "right"})
				}
			}()
			w.write(out)
			n++
		}
	}
	// reconfiguration while the effect of an earlier Subscribe is still running: that subscription keeps ITS handlers
	for _, newSub := range []string{"h3", "nil"} {
		e := &c11Env{thr: map[int64]string{gid(): "caller"}, h: map[string]*fpgo.HandlerDef{}}
		for _, hn := range []string{"h1", "h2", "h3"} {
			e.h[hn] = fpgo.Handler.NewByCh(make(chan func(), 8))
		}
		out := c11ConcOut{Part: "reconf", N: 1, ObOn: "h1", SubOn: "h2", NewSub: newSub, Kind: "ok", Effects: []c11Del{}, Delivered: []c11Del{}}
		ok := e.syncHandler("h1") && e.syncHandler("h2") && e.syncHandler("h3")
		hold, entered := make(chan struct{}), make(chan struct{})
		var mu sync.Mutex
		m := fpgo.MonadIONewGenerics(func() int {
			who := e.who()
			mu.Lock()
			out.Effects = append(out.Effects, c11Del{7, who})
			mu.Unlock()
			close(entered)
			<-hold
			return 7
		})
		done := make(chan struct{}, 2)
		m.ObserveOn(e.h["h1"]).SubscribeOn(e.h["h2"]).Subscribe(fpgo.Subscription[int]{OnNext: func(v int) {
			who := e.who()
			mu.Lock()
			out.Delivered = append(out.Delivered, c11Del{v, who})
			mu.Unlock()
			done <- struct{}{}
		}})
		select {
		case <-entered:
		case <-time.After(2 * time.Second):
			ok = false
		}
		if newSub == "nil" {
			m.SubscribeOn(nil)
		} else {
			m.SubscribeOn(e.h[newSub])
		}
		close(hold)
		select {
		case <-done:
		case <-time.After(3 * time.Second):
			ok = false
		}
		if !ok {
			out.Kind = "stuck"
		}
		mu.Lock()
		w.write(out)
		mu.Unlock()
		n++
		for _, h := range e.h {
			h.Close()
		}
	}
	return n
}

func c11Main(args []string) error {
	switch args[0] {
	case "conc":
		w, err := newNDWriter(flagVal(args, "out", "c11.conc.ndjson"))
		if err != nil {
			return err
		}
		defer w.close()
		total := 0
		for i := 0; i < flagInt(args, "repeat", 3); i++ {
			total += c11Conc(w)
			total += c11Siblings(w)
			total += c11Inherit(w)
			total += c11Reentrant(w)
			total += c11FreshHandler(w, flagInt(args, "fresh", 150))
		}
		fmt.Printf("{\"runs\":%d}\n", total)
		return nil
	case "exec":
		w, err := newNDWriter(flagVal(args, "out", "c11.trace.ndjson"))
		if err != nil {
			return err
		}
		defer w.close()
		n := 0
		err = readLines(args[1], func(b []byte) error {
			var c c11Case
			if err := json.Unmarshal(b, &c); err != nil {
				return err
			}
			w.write(c11Exec(&c))
			n++
			return nil
		})
		if err != nil {
			return err
		}
		fmt.Printf("{\"events\":%d}\n", n)
		return nil
	}
	return fmt.Errorf("c11: exec")
}
