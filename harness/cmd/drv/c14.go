//go:build verif

package main

import (
	"fmt"
	"math/rand"
	"runtime"
	"sync"
	"sync/atomic"
	"time"

	fpgo "github.com/TeaEntityLab/fpGo/v2"
)

// C14 — coroutines.  One line per run for Trace_CorAbs.tla.  Effects are harness code.

func init() { commands["c14"] = c14Main }

type c14Ref struct {
	Y int `json:"y"`
	X int `json:"x"`
}
type c14From struct {
	C int `json:"c"`
	J int `json:"j"`
	X int `json:"x"`
	Y int `json:"y"`
}

// shape: "fixed" y_k = 100+k; "echo" y_{k+1} = x_k (y_1 = 1); "acc" y_k = sum of xs seen so far
func c14Run(rng *rand.Rand, callers, nreq int, shape string, startVal int, lateTarget, spinStart bool) E {
	out := E{"ncallers": callers, "kind": "ok", "startVal": startVal, "shape": shape, "issued": callers * nreq,
		"extras": E{"doNotation": true, "yieldFromIO": true}}
	total := callers * nreq
	var mu sync.Mutex
	refs := []c14Ref{}
	froms := []c14From{}
	var target *fpgo.CorDef[int]
	targetDone := make(chan struct{})
	target = fpgo.CorNewGenerics[int](func() {
		defer close(targetDone)
		serve := total
		if startVal != 0 {
			serve++
		}
		last, acc := 1, 0
		for k := 1; k <= serve; k++ {
			y := 100 + k
			switch shape {
			case "echo":
				y = last
			case "acc":
				y = acc
			}
			x := target.YieldRef(y)
			mu.Lock()
			refs = append(refs, c14Ref{y, x})
			mu.Unlock()
			last, acc = x, acc+x
		}
	})
	lc := E{"startedBefore": target.IsStarted(), "doneBefore": target.IsDone()}
	var wg sync.WaitGroup
	var go32 int32
	for c := 1; c <= callers; c++ {
		wg.Add(1)
		c := c
		var self *fpgo.CorDef[int]
		self = fpgo.CorNewGenerics[int](func() {
			defer wg.Done()
			if spinStart {
				for !target.IsStarted() { // enqueue as early as the target admits it is started
				}
			} else {
				for atomic.LoadInt32(&go32) == 0 {
				}
			}
			for j := 1; j <= nreq; j++ {
				x := c*1000 + j
				y := self.YieldFrom(target, x)
				mu.Lock()
				froms = append(froms, c14From{c, j, x, y})
				mu.Unlock()
			}
		})
		self.Start()
	}
	startTarget := func() {
		if startVal != 0 {
			target.StartWithVal(startVal)
		} else {
			target.Start()
		}
		if c14Restart { // starting a coroutine that is already running changes nothing: no second start value, no second effect
			target.StartWithVal(200)
			target.Start()
		}
	}
	if lateTarget { // callers first: the request channel fills up before the target serves anything
		atomic.StoreInt32(&go32, 1)
		time.Sleep(time.Duration(1+rng.Intn(3)) * time.Millisecond)
		startTarget()
	} else {
		startTarget()
		atomic.StoreInt32(&go32, 1)
	}
	done := make(chan struct{})
	go func() { wg.Wait(); <-targetDone; close(done) }()
	select {
	case <-done:
	case <-time.After(8 * time.Second):
		out["kind"] = "stuck: callers or target never finished although the target had YieldRefs left"
	}
	time.Sleep(300 * time.Microsecond)
	lc["startedAfter"], lc["doneAfter"] = target.IsStarted(), target.IsDone()
	if out["kind"] != "ok" {
		lc["doneAfter"] = true
	}
	out["lifecycle"] = lc
	mu.Lock()
	out["refs"], out["froms"] = append([]c14Ref{}, refs...), append([]c14From{}, froms...)
	mu.Unlock()
	return out
}

func c14Extras() E {
	out := E{"ncallers": 0, "kind": "ok", "startVal": 0, "shape": "extras", "issued": 0, "refs": []c14Ref{}, "froms": []c14From{},
		"lifecycle": E{"startedBefore": false, "startedAfter": true, "doneBefore": false, "doneAfter": true}}
	ex := E{"doNotation": false, "yieldFromIO": false}
	func() {
		defer func() {
			if recover() != nil {
				out["kind"] = "panic in DoNotation / YieldFromIO"
			}
		}()
		var c fpgo.CorDef[int]
		got := c.DoNotation(func(self *fpgo.CorDef[int]) int {
			v := self.YieldFromIO(fpgo.MonadIOJustGenerics(20).FlatMap(func(x int) *fpgo.MonadIODef[int] { return fpgo.MonadIOJustGenerics(x + 1) }))
			ex["yieldFromIO"] = v == 21
			return v * 2
		})
		ex["doNotation"] = got == 42
	}()
	// more YieldFromIO shapes: an IO observed on a handler; an IO whose effect itself asks another coroutine; on a handle whose
	// effect has already returned; on the zero-value utility instance.  YieldFromIO returns the IO's value, nothing else.
	timed := func(f func() bool) bool {
		ch := make(chan bool, 1)
		go func() {
			defer func() {
				if recover() != nil {
					ch <- false
				}
			}()
			ch <- f()
		}()
		select {
		case b := <-ch:
			return b
		case <-time.After(3 * time.Second):
			return false
		}
	}
	h := fpgo.Handler.NewByCh(make(chan func(), 4))
	defer h.Close()
	okAll := ex["yieldFromIO"].(bool)
	okAll = okAll && timed(func() bool { // IO observed on a handler
		var c fpgo.CorDef[int]
		return c.DoNotation(func(self *fpgo.CorDef[int]) int {
			return self.YieldFromIO(fpgo.MonadIONewGenerics(func() int { time.Sleep(time.Millisecond); return 31 }).ObserveOn(h))
		}) == 31
	})
	okAll = okAll && timed(func() bool { // the IO's effect asks a target coroutine on behalf of the waiting coroutine
		var target *fpgo.CorDef[int]
		seen := 0
		target = fpgo.CorNewGenerics[int](func() { seen = target.YieldRef(500) })
		target.Start()
		var c fpgo.CorDef[int]
		got := c.DoNotation(func(self *fpgo.CorDef[int]) int {
			return self.YieldFromIO(fpgo.MonadIONewGenerics(func() int {
				time.Sleep(2 * time.Millisecond) // the coroutine is parked in YieldFromIO by now
				return self.YieldFrom(target, 3) + 100
			}).ObserveOn(h))
		})
		return got == 600 && seen == 3
	})
	okAll = okAll && timed(func() bool { // a handle whose effect has already returned
		c := fpgo.CorNewGenerics[int](func() {})
		c.Start()
		for i := 0; i < 20000 && !c.IsDone(); i++ {
			time.Sleep(50 * time.Microsecond)
		}
		time.Sleep(time.Millisecond)
		return c.YieldFromIO(fpgo.MonadIOJustGenerics(5)) == 5
	})
	okAll = okAll && timed(func() bool { // the zero-value instance
		var c fpgo.CorDef[int]
		return c.YieldFromIO(fpgo.MonadIOJustGenerics(9)) == 9
	})
	ex["yieldFromIO"] = okAll
	out["extras"] = ex
	return out
}

// fresh callers: G goroutines keep creating NEW caller coroutines, each making its first (and only) YieldFrom on a target that is
// already busy answering - whatever a coroutine sets up on first use is raced with the target's reply.  Judged by the light
// rules of Trace_CorAbs (shape "fresh": the pairs (x, y) the target saw are exactly the pairs the callers saw).
func c14Fresh(G, M int) E {
	total := G * M
	out := E{"ncallers": total, "kind": "ok", "startVal": 0, "shape": "fresh", "issued": total, "extras": E{"doNotation": true, "yieldFromIO": true}}
	var mu sync.Mutex
	refs := make([]c14Ref, 0, total)
	froms := make([]c14From, 0, total)
	var target *fpgo.CorDef[int]
	targetDone := make(chan struct{})
	target = fpgo.CorNewGenerics[int](func() {
		defer close(targetDone)
		for k := 1; k <= total; k++ {
			x := target.YieldRef(100 + k)
			mu.Lock()
			refs = append(refs, c14Ref{100 + k, x})
			mu.Unlock()
		}
	})
	lc := E{"startedBefore": target.IsStarted(), "doneBefore": target.IsDone()}
	target.Start()
	var stuck int32
	var wg sync.WaitGroup
	for g := 1; g <= G; g++ {
		wg.Add(1)
		go func(g int) {
			defer wg.Done()
			for m := 1; m <= M && atomic.LoadInt32(&stuck) == 0; m++ {
				c, x := g*100000+m, g*100000+m
				fin := make(chan struct{})
				var self *fpgo.CorDef[int]
				self = fpgo.CorNewGenerics[int](func() {
					defer close(fin)
					y := self.YieldFrom(target, x)
					mu.Lock()
					froms = append(froms, c14From{c, 1, x, y})
					mu.Unlock()
				})
				self.Start()
				select {
				case <-fin:
				case <-time.After(3 * time.Second):
					atomic.StoreInt32(&stuck, 1)
				}
			}
		}(g)
	}
	wg.Wait()
	if atomic.LoadInt32(&stuck) == 1 {
		out["kind"] = "stuck: a fresh caller's first YieldFrom never returned although the target had YieldRefs left"
	} else {
		select {
		case <-targetDone:
		case <-time.After(3 * time.Second):
			out["kind"] = "stuck: callers or target never finished although the target had YieldRefs left"
		}
	}
	time.Sleep(300 * time.Microsecond)
	lc["startedAfter"], lc["doneAfter"] = target.IsStarted(), target.IsDone()
	if out["kind"] != "ok" {
		lc["doneAfter"] = true
	}
	out["lifecycle"] = lc
	mu.Lock()
	out["refs"], out["froms"] = append([]c14Ref{}, refs...), append([]c14From{}, froms...)
	mu.Unlock()
	return out
}

// c14Restart: the target is started a second (and third) time right after its start - calls that must be ignored
var c14Restart bool
var c14Dummy int32

// dying targets: one caller alternates between a fresh target that serves exactly one request and completes, and a long-lived
// generator (y_k = k).  Every answer of the dying targets is 101 and the generator's answers to this caller are 1, 2, 3, ... - nothing
// left over from a completed target may be taken for the generator's answer.
func c14Dying(R int) E {
	out := E{"ncallers": 1, "kind": "ok", "startVal": 0, "shape": "dying", "issued": 2 * R, "extras": E{"doNotation": true, "yieldFromIO": true},
		"refs": []c14Ref{}, "froms": []c14From{}, "lifecycle": E{"startedBefore": false, "startedAfter": true, "doneBefore": false, "doneAfter": true}}
	var live *fpgo.CorDef[int]
	live = fpgo.CorNewGenerics[int](func() {
		for k := 1; k <= R; k++ {
			live.YieldRef(k)
		}
	})
	live.Start()
	dyingAns, liveAns := make([]int, 0, R), make([]int, 0, R)
	fin := make(chan struct{})
	var caller *fpgo.CorDef[int]
	caller = fpgo.CorNewGenerics[int](func() {
		defer close(fin)
		for r := 1; r <= R; r++ {
			var dying *fpgo.CorDef[int]
			if r%2 == 0 {
				dying = fpgo.CorNewGenerics[int](func() { dying.YieldRef(101) })
				dying.Start()
				dyingAns = append(dyingAns, caller.YieldFrom(dying, r))
			} else { // a target that serves nothing and completes around the moment the request is handed over: the answer is the zero value
				spin := (r * 7919) % 400
				var ready, goFlag int32
				dying = fpgo.CorNewGenerics[int](func() {
					atomic.StoreInt32(&ready, 1)
					for n := 0; atomic.LoadInt32(&goFlag) == 0; n++ {
						if n > 2000 {
							runtime.Gosched()
						}
					}
					for j := 0; j < spin; j++ {
						atomic.AddInt32(&c14Dummy, 1)
					}
				})
				dying.Start()
				for n := 0; atomic.LoadInt32(&ready) == 0; n++ {
					if n > 2000 {
						runtime.Gosched()
					}
				}
				atomic.StoreInt32(&goFlag, 1)
				dyingAns = append(dyingAns, 101+caller.YieldFrom(dying, r)) // recorded as 101 + 0
			}
			liveAns = append(liveAns, caller.YieldFrom(live, r))
		}
	})
	caller.Start()
	select {
	case <-fin:
		out["dyingAns"], out["liveAns"] = dyingAns, liveAns
	case <-time.After(8 * time.Second):
		out["kind"] = "stuck: callers or target never finished although the target had YieldRefs left"
		out["dyingAns"], out["liveAns"] = []int{}, []int{}
	}
	return out
}

func c14Main(args []string) error {
	switch args[0] {
	case "record":
		w, err := newNDWriter(flagVal(args, "out", "c14.trace.ndjson"))
		if err != nil {
			return err
		}
		defer w.close()
		rounds := flagInt(args, "rounds", 30)
		rng := rand.New(rand.NewSource(int64(envInt("VERIF_SEED", 1))))
		if flagVal(args, "perturb", "1") == "1" {
			fpgo.VerifHook = perturbHook
		}
		runs := 0
		w.write(c14Extras())
		runs++
		shapes := []string{"fixed", "echo", "acc"}
		for r := 0; r < rounds; r++ {
			for _, callers := range []int{1, 2, 3, 8} {
				nreq := []int{1, 3, 7, 12}[rng.Intn(4)] // 7 and 12 exceed the channel buffer of 5
				sv := 0
				if r%3 == 1 {
					sv = 55
				}
				c14Restart = (r+callers)%3 == 0 && !(sv == 0 && r%2 == 0)                                                // (not with late targets: their request channel may be full, StartWithVal would wait for room)
				w.write(c14Run(rng, callers, nreq, shapes[(r+callers)%3], sv, sv == 0 && r%2 == 0, sv != 0 && r%2 == 1)) // StartWithVal only before any request is queued
				c14Restart = false
				runs++
			}
		}
		// StartWithVal against callers that pounce the moment IsStarted() turns true
		for r := 0; r < rounds*8; r++ {
			w.write(c14Run(rng, 4, 1, "fixed", 77, false, true))
			runs++
		}
		for r := 0; r < flagInt(args, "fresh", 6); r++ {
			w.write(c14Fresh(2+r%3, 1500))
			w.write(c14Dying(4000))
			runs += 2
		}
		fmt.Printf("{\"runs\":%d}\n", runs)
		return nil
	}
	if args[0] == "hooktrace" {
		return c14HookTrace(args)
	}
	return fmt.Errorf("c14: record|hooktrace")
}
