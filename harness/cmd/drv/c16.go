//go:build verif

package main

import (
	"fmt"
	"math/rand"
	"sync"
	"sync/atomic"
	"time"

	fpgo "github.com/TeaEntityLab/fpGo/v2"
)

// C16 — PMap.  f is harness code and therefore the gate: invocations can be parked and released in a chosen order.

func init() { commands["c16"] = c16Main }

type c16Ev struct {
	Ev string `json:"ev"`
	I  int    `json:"i"`
}

// one PMap call. gate: park every invocation until min(bound, remaining) are parked (or nothing more arrives), then release
// them one at a time in a seeded order.  Positive observations: number parked at once, PMap returning while invocations are parked.
// c16SharedOpt: when set, every call of c16Run passes THIS option object (a caller reusing one PMapOption for many calls); the pool
// size judged is the one the caller wrote into it
var c16SharedOpt *fpgo.PMapOption

func c16Run(rng *rand.Rand, n int, pool int, usePool, random, gate bool) E {
	out := E{"n": n, "pool": 0, "random": random, "gate": gate, "kind": "ok", "maxParked": 0, "fast": 0, "fastout": []int{}, "applied": 0}
	if usePool {
		out["pool"] = pool
	}
	var mu sync.Mutex
	evs := []c16Ev{}
	log := func(ev string, i int) { mu.Lock(); evs = append(evs, c16Ev{ev, i}); mu.Unlock() }
	list := make([]int, n)
	for i := range list {
		list[i] = i + 1
	}
	bound := n
	if usePool && pool > 0 && pool < n {
		bound = pool
	}
	var parked int32
	type waiter struct {
		i  int
		ch chan struct{}
	}
	waitq := make(chan waiter, n+1)
	durations := make([]time.Duration, n+1)
	for i := range durations {
		durations[i] = time.Duration(rng.Intn(60)+(i%3)*40) * time.Microsecond // varying, data-dependent duration
	}
	f := func(x int) int {
		log("begin", x)
		if gate {
			w := waiter{x, make(chan struct{})}
			atomic.AddInt32(&parked, 1)
			waitq <- w
			<-w.ch
			atomic.AddInt32(&parked, -1)
		} else {
			time.Sleep(durations[x])
		}
		log("end", x)
		return 3*x + 1
	}
	var opt *fpgo.PMapOption
	if usePool || random {
		opt = &fpgo.PMapOption{RandomOrder: random}
		if usePool {
			opt.FixedPool = pool
		}
	}
	if c16SharedOpt != nil {
		opt = c16SharedOpt
	}
	resCh := make(chan []int, 1)
	go func() {
		defer func() {
			if p := recover(); p != nil {
				resCh <- nil
			}
		}()
		r := fpgo.PMap(f, opt, list...)
		log("ret", 0)
		resCh <- r
	}()
	var res []int
	returned := false
	if gate {
		released := 0
		maxParked := 0
		var held []waiter
		for released < n && !returned {
			// wait until min(bound, remaining) invocations are parked; one more than the bound at any time is a violation
			want := bound
			if n-released < want {
				want = n - released
			}
			deadline := time.After(500 * time.Millisecond)
		collect:
			for len(held) < want+1 {
				select {
				case w := <-waitq:
					held = append(held, w)
				case res = <-resCh:
					returned = true // PMap returned while invocations are still parked / not even started
					break collect
				case <-deadline:
					break collect
				default:
					if len(held) >= want {
						// give an extra (illegal) invocation a short chance to show up
						select {
						case w := <-waitq:
							held = append(held, w)
						case <-time.After(300 * time.Microsecond):
							break collect
						}
					} else {
						time.Sleep(20 * time.Microsecond)
					}
				}
			}
			if len(held) > maxParked {
				maxParked = len(held)
			}
			if returned || len(held) == 0 {
				break
			}
			k := rng.Intn(len(held))
			close(held[k].ch)
			held = append(held[:k], held[k+1:]...)
			released++
		}
		out["maxParked"] = maxParked
		for _, w := range held {
			close(w.ch)
		}
		go func() { // anything that still arrives is released (the run is already judged)
			for w := range waitq {
				close(w.ch)
			}
		}()
	}
	if !returned {
		select {
		case res = <-resCh:
		case <-time.After(20 * time.Second):
			out["kind"] = "PMap did not return"
		}
	}
	time.Sleep(200 * time.Microsecond)
	mu.Lock()
	out["events"] = append([]c16Ev{}, evs...)
	mu.Unlock()
	if res == nil {
		res = []int{}
		if out["kind"] == "ok" && n > 0 {
			out["kind"] = "PMap panicked or returned nil"
		}
	}
	out["out"] = res
	return out
}

// big list with a small pool: every worker parks in its first invocation; PMap must not return meanwhile
func c16Big(rng *rand.Rand, n, pool int, random bool) E {
	out := E{"n": 0, "pool": 0, "random": false, "gate": true, "kind": "ok", "maxParked": 0, "events": []c16Ev{{"ret", 0}}, "out": []int{}, "big": n, "fast": 0, "fastout": []int{}, "applied": 0}
	gateCh := make(chan struct{})
	var started, applied int32
	list := make([]int, n)
	for i := range list {
		list[i] = i + 1
	}
	f := func(x int) int {
		atomic.AddInt32(&started, 1)
		<-gateCh
		atomic.AddInt32(&applied, 1)
		return 3*x + 1
	}
	done := make(chan []int, 1)
	go func() {
		defer func() {
			if recover() != nil {
				done <- nil
			}
		}()
		done <- fpgo.PMap(f, &fpgo.PMapOption{FixedPool: pool, RandomOrder: random}, list...)
	}()
	select {
	case <-done:
		out["kind"] = "PMap returned before all applications finished"
		close(gateCh)
		return out
	case <-time.After(30 * time.Millisecond):
	}
	if int(atomic.LoadInt32(&started)) > pool {
		out["kind"] = "more than min(FixedPool, n) invocations parked at once"
	}
	close(gateCh)
	select {
	case r := <-done:
		ok := r != nil && len(r) == n && int(atomic.LoadInt32(&applied)) == n
		if ok && !random {
			for i, v := range r {
				if v != 3*(i+1)+1 {
					ok = false
					break
				}
			}
		}
		if !ok && out["kind"] == "ok" {
			out["kind"] = "ordered mode: result differs from Map(f, list)"
		}
	case <-time.After(60 * time.Second):
		out["kind"] = "PMap did not return"
	}
	return out
}

// long list, trivial f: every worker runs through hundreds or thousands of elements without ever waiting (whatever is batched or
// reused between a worker's results shows here); the whole result goes to TLC (Trace_PMapAbs, fields fast / fastout / applied)
func c16Fast(n, pool int, usePool, random bool) E { return c16FastN(n, pool, usePool, random, false) }

// nested: f itself calls PMap (a parallel map inside a parallel map); with hundreds of outer invocations in flight the inner calls
// must still get their goroutines and everything returns
func c16FastN(n, pool int, usePool, random, nested bool) E {
	out := E{"n": 0, "pool": 0, "random": random, "gate": false, "kind": "ok", "maxParked": 0, "events": []c16Ev{{"ret", 0}}, "out": []int{}, "big": 0,
		"fast": n, "fastout": []int{}, "applied": 0}
	var applied int32
	list := make([]int, n)
	for i := range list {
		list[i] = i + 1
	}
	f := func(x int) int {
		atomic.AddInt32(&applied, 1)
		if nested {
			time.Sleep(3 * time.Millisecond) // all outer invocations are in flight before the first inner call
			in := fpgo.PMap(func(y int) int { return y + x }, nil, 1, 2, 3)
			if len(in) != 3 {
				return -1
			}
			return in[0] + in[1] + in[2] - 5 // = 3x + 1
		}
		return 3*x + 1
	}
	done := make(chan []int, 1)
	go func() {
		defer func() {
			if recover() != nil {
				done <- nil
			}
		}()
		var opt *fpgo.PMapOption
		if usePool || random {
			opt = &fpgo.PMapOption{RandomOrder: random}
			if usePool {
				opt.FixedPool = pool
			}
		}
		done <- fpgo.PMap(f, opt, list...)
	}()
	select {
	case r := <-done:
		if r == nil {
			out["kind"] = "PMap panicked"
		} else {
			out["fastout"] = r
		}
	case <-time.After(20 * time.Second):
		out["kind"] = "PMap did not return"
	}
	out["applied"] = int(atomic.LoadInt32(&applied))
	return out
}

func c16Main(args []string) error {
	switch args[0] {
	case "record":
		w, err := newNDWriter(flagVal(args, "out", "c16.trace.ndjson"))
		if err != nil {
			return err
		}
		defer w.close()
		rounds := flagInt(args, "rounds", 3)
		rng := rand.New(rand.NewSource(int64(envInt("VERIF_SEED", 1))))
		runs := 0
		for r := 0; r < rounds; r++ {
			for n := 0; n <= 6; n++ {
				for _, random := range []bool{false, true} {
					for _, gate := range []bool{true, false} {
						w.write(c16Run(rng, n, 0, false, random, gate)) // no pool size
						runs++
						for _, pool := range []int{-1, 0, 1, 2, n - 1, n, n + 2} {
							w.write(c16Run(rng, n, pool, true, random, gate))
							runs++
						}
					}
				}
			}
			for _, n := range []int{17, 40, 64} {
				w.write(c16Run(rng, n, 1+rng.Intn(8), true, rng.Intn(2) == 0, rng.Intn(2) == 0))
				w.write(c16Run(rng, n, 0, false, rng.Intn(2) == 0, false))
				runs += 2
			}
		}
		for r := 0; r < 2+rounds; r++ {
			w.write(c16Big(rng, 1<<18, 4, r%2 == 1))
			runs++
		}
		for r := 0; r < 1+rounds; r++ {
			for _, pool := range []int{1, 2, 4, 7} {
				for _, random := range []bool{true, false} {
					w.write(c16Fast([]int{20000, 5000, 777}[r%3], pool, true, random))
					runs++
				}
			}
			w.write(c16Fast(3000, 0, false, r%2 == 0))
			w.write(c16FastN(400, 0, false, r%2 == 1, true))
			runs += 2
			// one PMapOption{FixedPool: 3} reused for a long, a short, an EMPTY and a long list again: the bound of every call is min(3, n)
			c16SharedOpt = &fpgo.PMapOption{FixedPool: 3, RandomOrder: r%2 == 1}
			for _, n := range []int{6, 2, 0, 6, 1, 5} {
				w.write(c16Run(rng, n, 3, true, r%2 == 1, true))
				runs++
			}
			c16SharedOpt = nil
		}
		fmt.Printf("{\"runs\":%d}\n", runs)
		return nil
	}
	return fmt.Errorf("c16: record")
}
