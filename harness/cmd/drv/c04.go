//go:build verif

package main

import (
	"encoding/json"
	"fmt"
	"math/rand"
	"reflect"
	"sort"

	fpgo "github.com/TeaEntityLab/fpGo/v2"
)

// C04 — persistence of Stream / MapSet / StreamSet (both families).  Vocabulary shared with
// StreamHeap.tla.  The driver keeps a list of slots (references to real objects), executes calls
// and after EVERY call re-reads every slot straight from the underlying Go slices/maps (no
// library call is used for reading), so TLC can judge definition and frame condition per step.

func init() { commands["c04"] = c04Main }

type c04Call struct {
	Fam  string  `json:"fam"`
	Op   string  `json:"op"`
	Recv int     `json:"recv"`
	O    int     `json:"o"`
	Xs   []int   `json:"xs"`
	Xss  [][]int `json:"xss"`
	X    int     `json:"x"`
	Y    int     `json:"y"`
	F    string  `json:"f"`
}

type c04Obj struct {
	K   string      `json:"k"`
	V   interface{} `json:"v"`
	Oid int         `json:"oid"`
}

type c04InitObj struct {
	K string          `json:"k"`
	V json.RawMessage `json:"v"`
}

type c04Heap struct {
	fam   string
	slots []interface{} // *StreamDef[int] | *StreamForInterfaceDef | *MapSetDef[int,int] | *SetForInterfaceDef | *StreamSetDef[int,int] | *StreamSetForInterfaceDef
	oids  map[uintptr]int
}

func projI(v interface{}) int {
	switch x := v.(type) {
	case int:
		return x
	case bool:
		if x {
			return -1
		}
		return -2
	case nil:
		return 0
	}
	return -99
}

func (h *c04Heap) oid(p interface{}) int {
	ptr := reflect.ValueOf(p).Pointer()
	if id, ok := h.oids[ptr]; ok {
		return id
	}
	id := len(h.oids) + 1
	h.oids[ptr] = id
	return id
}

func (h *c04Heap) project() []c04Obj {
	r := make([]c04Obj, len(h.slots))
	for i, s := range h.slots {
		o := c04Obj{Oid: h.oid(s)}
		switch p := s.(type) {
		case *fpgo.StreamDef[int]:
			o.K, o.V = "stream", append([]int{}, []int(*p)...)
		case *fpgo.StreamForInterfaceDef:
			v := make([]int, len(*p))
			for j, x := range *p {
				v[j] = projI(x)
			}
			o.K, o.V = "stream", v
		case *fpgo.MapSetDef[int, int]:
			o.K, o.V = "set", gpairs(map[int]int(*p))
		case *fpgo.SetForInterfaceDef:
			ps := make([][]int, 0, len(*p))
			for k, v := range *p {
				ps = append(ps, []int{projI(k), projI(v)})
			}
			sort.Slice(ps, func(a, b int) bool { return ps[a][0] < ps[b][0] })
			o.K, o.V = "set", ps
		case *fpgo.StreamSetDef[int, int]:
			ps := make([]kvSeq, 0)
			for k, v := range p.MapSetDef {
				var arr []int
				if v != nil {
					arr = append([]int{}, []int(*v)...)
				}
				ps = append(ps, kvSeq{k, arr})
			}
			sort.Slice(ps, func(a, b int) bool { return ps[a].K < ps[b].K })
			o.K, o.V = "sset", ps
		case *fpgo.StreamSetForInterfaceDef:
			ps := make([]kvSeq, 0)
			for k, v := range p.SetForInterfaceDef {
				var arr []int
				if sp, ok := v.(*fpgo.StreamForInterfaceDef); ok && sp != nil {
					for _, x := range *sp {
						arr = append(arr, projI(x))
					}
				}
				ps = append(ps, kvSeq{projI(k), arr})
			}
			sort.Slice(ps, func(a, b int) bool { return ps[a].K < ps[b].K })
			o.K, o.V = "sset", ps
		}
		r[i] = o
	}
	return r
}

func spare(xs []int) []int { // len(xs) elements in a buffer with spare capacity (append-in-place shows up)
	buf := make([]int, len(xs), len(xs)+4)
	copy(buf, xs)
	return buf
}
func spareI(xs []int) []interface{} {
	buf := make([]interface{}, len(xs), len(xs)+4)
	for i, x := range xs {
		buf[i] = x
	}
	return buf
}

func c04NewHeap(fam string, init []c04InitObj) (*c04Heap, error) {
	if fam == "I" {
		c04Poison()
	}
	h := &c04Heap{fam: fam, oids: map[uintptr]int{}}
	for _, o := range init {
		switch o.K {
		case "stream":
			var v []int
			if err := json.Unmarshal(o.V, &v); err != nil {
				return nil, err
			}
			if fam == "G" {
				h.slots = append(h.slots, fpgo.StreamFromArray(spare(v)))
			} else {
				h.slots = append(h.slots, fpgo.StreamForInterface.FromArray(spareI(v)))
			}
		case "set":
			var ps [][2]int
			if err := json.Unmarshal(o.V, &ps); err != nil {
				return nil, err
			}
			if fam == "G" {
				h.slots = append(h.slots, fpgo.SetFromMap[int, int](gmap(ps, false)))
			} else {
				s := fpgo.SetForInterfaceDef{}
				for _, p := range ps {
					s[p[0]] = p[1]
				}
				h.slots = append(h.slots, &s)
			}
		case "sset":
			var ps []kvSeq
			if err := json.Unmarshal(o.V, &ps); err != nil {
				return nil, err
			}
			if fam == "G" {
				m := map[int]*fpgo.StreamDef[int]{}
				for _, p := range ps {
					m[p.K] = fpgo.StreamFromArray(spare(p.V))
				}
				h.slots = append(h.slots, fpgo.StreamSetFromMap(m))
			} else {
				m := map[interface{}]*fpgo.StreamForInterfaceDef{}
				for _, p := range ps {
					m[p.K] = fpgo.StreamForInterface.FromArray(spareI(p.V))
				}
				h.slots = append(h.slots, fpgo.StreamSetForInterfaceFromMap(m))
			}
		}
	}
	return h, nil
}

func predI(f string) func(int, int) bool {
	switch f {
	case "valEven":
		return func(e, i int) bool { return mod(e, 2) == 0 }
	case "idxEven":
		return func(e, i int) bool { return i%2 == 0 }
	case "valGt1":
		return func(e, i int) bool { return e > 1 }
	case "constT":
		return func(e, i int) bool { return true }
	}
	panic("predI " + f)
}
func trI(f string) func(int, int) int {
	switch f {
	case "plusIdx":
		return func(e, i int) int { return e + i }
	case "times2":
		return func(e, i int) int { return 2 * e }
	case "const7":
		return func(e, i int) int { return 7 }
	}
	panic("trI " + f)
}
func tr1(f string) func(int) int {
	switch f {
	case "plus10":
		return func(e int) int { return e + 10 }
	case "times2":
		return func(e int) int { return 2 * e }
	case "neg":
		return func(e int) int { return -e }
	}
	panic("tr " + f)
}

// exec runs one call; returns the result record. Collection results are appended as a new slot.
func (h *c04Heap) exec(c *c04Call) (res Res2) {
	defer func() {
		if p := recover(); p != nil {
			res = Res2{"panic", 0}
		}
	}()
	// callbacks the library invokes observe the heap: while a non-mutating operation runs, every existing collection (the receiver
	// included) still holds what it held before the call
	before, _ := json.Marshal(h.project())
	disturbed := false
	mid := func() {
		if now, _ := json.Marshal(h.project()); string(now) != string(before) {
			disturbed = true
		}
	}
	defer func() {
		if disturbed && res.K != "panic" {
			res = Res2{"disturbed-during-call", 0}
		}
	}()
	coll := func(p interface{}) Res2 {
		h.slots = append(h.slots, p)
		return Res2{"coll", len(h.slots)}
	}
	r := h.slots[c.Recv-1]
	var other interface{}
	if c.O >= 1 && c.O <= len(h.slots) {
		other = h.slots[c.O-1]
	}
	switch s := r.(type) {
	case *fpgo.StreamDef[int]:
		o, _ := other.(*fpgo.StreamDef[int])
		switch c.Op {
		case "Map":
			f := trI(c.F)
			return coll(s.Map(func(e, i int) int { mid(); return f(e, i) }))
		case "Filter":
			p := predI(c.F)
			return coll(s.Filter(func(e, i int) bool { mid(); return p(e, i) }))
		case "Reject":
			p := predI(c.F)
			return coll(s.Reject(func(e, i int) bool { mid(); return p(e, i) }))
		case "FilterNotNil":
			return coll(s.FilterNotNil())
		case "Distinct":
			return coll(s.Distinct())
		case "Append":
			return coll(s.Append(c.Xs...))
		case "Concat":
			return coll(s.Concat(c.Xss...))
		case "Extend":
			return coll(s.Extend(o))
		case "Remove":
			return coll(s.Remove(c.X))
		case "RemoveItem":
			return coll(s.RemoveItem(c.Xs...))
		case "Reverse":
			return coll(s.Reverse())
		case "Sort":
			if c.F == "asc" {
				return coll(s.Sort(func(a, b int) bool { mid(); return a < b }))
			}
			return coll(s.Sort(func(a, b int) bool { mid(); return a > b }))
		case "SortByIndex":
			return coll(s.SortByIndex(func(i, j int) bool { return (*s)[i] < (*s)[j] }))
		case "Minus":
			return coll(s.Minus(o))
		case "Intersection":
			return coll(s.Intersection(o))
		case "Clone":
			return coll(s.Clone())
		case "Len":
			return Res2{"int", s.Len()}
		case "Get":
			return Res2{"int", s.Get(c.X)}
		case "Contains":
			return Res2{"bool", s.Contains(c.X)}
		case "ToArray":
			a := s.ToArray()
			out := append([]int{}, a...)
			for i := range a { // the copy must be detached: scribble on it before the heap is re-read
				a[i] = 999
			}
			a = append(a, 998)
			_ = a
			return Res2{"seq", out}
		case "IsSubset":
			return Res2{"bool", s.IsSubset(o)}
		case "IsSuperset":
			return Res2{"bool", s.IsSuperset(o)}
		}
	case *fpgo.StreamForInterfaceDef:
		o, _ := other.(*fpgo.StreamForInterfaceDef)
		switch c.Op {
		case "Map":
			f := trI(c.F)
			return coll(s.Map(func(x interface{}, i int) interface{} { mid(); return f(x.(int), i) }))
		case "Filter":
			p := predI(c.F)
			return coll(s.Filter(func(x interface{}, i int) bool { mid(); return p(x.(int), i) }))
		case "Reject":
			p := predI(c.F)
			return coll(s.Reject(func(x interface{}, i int) bool { mid(); return p(x.(int), i) }))
		case "FilterNotNil":
			return coll(s.FilterNotNil())
		case "Distinct":
			return coll(s.Distinct())
		case "Append":
			return coll(s.Append(ifaces(c.Xs, false)...))
		case "Concat":
			var xss [][]interface{}
			for _, xs := range c.Xss {
				xss = append(xss, ifaces(xs, false))
			}
			return coll(s.Concat(xss...))
		case "Extend":
			return coll(s.Extend(o))
		case "Remove":
			return coll(s.Remove(c.X))
		case "RemoveItem":
			return coll(s.RemoveItem(ifaces(c.Xs, false)...))
		case "Reverse":
			return coll(s.Reverse())
		case "Sort":
			if c.F == "asc" {
				return coll(s.Sort(func(a, b interface{}) bool { mid(); return a.(int) < b.(int) }))
			}
			return coll(s.Sort(func(a, b interface{}) bool { mid(); return a.(int) > b.(int) }))
		case "SortByIndex":
			return coll(s.SortByIndex(func(i, j int) bool { return (*s)[i].(int) < (*s)[j].(int) }))
		case "Minus":
			return coll(s.Minus(o))
		case "Intersection":
			return coll(s.Intersection(o))
		case "Clone":
			return coll(s.Clone())
		case "Len":
			return Res2{"int", s.Len()}
		case "Get":
			return Res2{"int", projI(s.Get(c.X))}
		case "Contains":
			return Res2{"bool", s.Contains(c.X)}
		case "ToArray":
			a := s.ToArray()
			out := make([]int, len(a))
			for i := range a {
				out[i] = projI(a[i])
				a[i] = 999
			}
			a = append(a, 998)
			_ = a
			return Res2{"seq", out}
		case "IsSubset":
			return Res2{"bool", s.IsSubset(o)}
		case "IsSuperset":
			return Res2{"bool", s.IsSuperset(o)}
		}
	case *fpgo.MapSetDef[int, int]:
		o, _ := other.(*fpgo.MapSetDef[int, int])
		set := func(r fpgo.SetDef[int, int]) Res2 { return coll(r.AsMapSet()) }
		switch c.Op {
		case "Add":
			return set(s.Add(c.Xs...))
		case "RemoveKeys":
			return set(s.RemoveKeys(c.Xs...))
		case "RemoveValues":
			return set(s.RemoveValues(c.Xs...))
		case "Union":
			return set(s.Union(o))
		case "Intersection":
			return set(s.Intersection(o))
		case "Minus":
			return set(s.Minus(o))
		case "MapKey":
			return set(s.MapKey(tr1(c.F)))
		case "MapValue":
			return set(s.MapValue(tr1(c.F)))
		case "Clone":
			return set(s.Clone())
		case "Set":
			s.Set(c.X, c.Y)
			return Res2{"none", 0}
		case "Size":
			return Res2{"int", s.Size()}
		case "Keys":
			k := s.Keys()
			sort.Ints(k)
			return Res2{"seq", nz(k)}
		case "Values":
			v := s.Values()
			sort.Ints(v)
			return Res2{"seq", nz(v)}
		case "Get":
			return Res2{"int", s.Get(c.X)}
		case "ContainsKey":
			return Res2{"bool", s.ContainsKey(c.X)}
		case "ContainsValue":
			return Res2{"bool", s.ContainsValue(c.X)}
		case "AsMap":
			return Res2{"pairs", gpairs(s.AsMap())}
		}
	case *fpgo.SetForInterfaceDef:
		o, _ := other.(*fpgo.SetForInterfaceDef)
		wrap := func(f func(int) int) fpgo.TransformerFunctor[interface{}, interface{}] {
			return func(x interface{}) interface{} { return f(projI(x)) }
		}
		switch c.Op {
		case "Add":
			return coll(s.Add(ifaces(c.Xs, false)...))
		case "RemoveKeys":
			return coll(s.RemoveKeys(ifaces(c.Xs, false)...))
		case "RemoveValues":
			return coll(s.RemoveValues(ifaces(c.Xs, false)...))
		case "Union":
			return coll(s.Union(o))
		case "Intersection":
			return coll(s.Intersection(o))
		case "Minus":
			return coll(s.Minus(o))
		case "MapKey":
			return coll(s.MapKey(wrap(tr1(c.F))))
		case "MapValue":
			return coll(s.MapValue(wrap(tr1(c.F))))
		case "Clone":
			return coll(s.Clone())
		case "Set":
			s.Set(c.X, c.Y)
			return Res2{"none", 0}
		case "Size":
			return Res2{"int", s.Size()}
		case "Keys":
			k := unIfacesP(s.Keys())
			sort.Ints(k)
			return Res2{"seq", k}
		case "Values":
			v := unIfacesP(s.Values())
			sort.Ints(v)
			return Res2{"seq", v}
		case "Get":
			return Res2{"int", projI(s.Get(c.X))}
		case "ContainsKey":
			return Res2{"bool", s.ContainsKey(c.X)}
		case "ContainsValue":
			return Res2{"bool", s.ContainsValue(c.X)}
		case "AsMap":
			ps := make([][]int, 0)
			for k, v := range *s {
				ps = append(ps, []int{projI(k), projI(v)})
			}
			sort.Slice(ps, func(a, b int) bool { return ps[a][0] < ps[b][0] })
			return Res2{"pairs", ps}
		}
	case *fpgo.StreamSetDef[int, int]:
		o, _ := other.(*fpgo.StreamSetDef[int, int])
		switch c.Op {
		case "Union":
			return coll(s.Union(o))
		case "Intersection":
			return coll(s.Intersection(o))
		case "MinusStreams":
			return coll(s.MinusStreams(o))
		case "Clone":
			return coll(s.Clone())
		case "Minus": // inherited from MapSetDef: the result is a MapSetDef; wrap it to read it as a stream set
			r := s.Minus(&o.MapSetDef).AsMapSet()
			if r == &s.MapSetDef {
				return coll(s)
			}
			return coll(&fpgo.StreamSetDef[int, int]{MapSetDef: *r})
		}
	case *fpgo.StreamSetForInterfaceDef:
		o, _ := other.(*fpgo.StreamSetForInterfaceDef)
		switch c.Op {
		case "Union":
			return coll(s.Union(o))
		case "Intersection":
			return coll(s.Intersection(o))
		case "MinusStreams":
			return coll(s.MinusStreams(o))
		case "Clone":
			return coll(s.Clone())
		case "Minus":
			return coll(s.Minus(o))
		}
	}
	panic(fmt.Sprintf("c04: op %s not applicable to slot %d", c.Op, c.Recv))
}

func unIfacesP(s []interface{}) []int {
	r := make([]int, len(s))
	for i, x := range s {
		r[i] = projI(x)
	}
	return r
}

// Res2: result record whose value is an int, bool, list or pair list
type Res2 struct {
	K string      `json:"k"`
	V interface{} `json:"v"`
}

type c04Line struct {
	D    int      `json:"d"`
	C    *c04Call `json:"c,omitempty"`
	Res  *Res2    `json:"res,omitempty"`
	Heap []c04Obj `json:"heap"`
}

type c04Program struct {
	Init []c04InitObj `json:"init"`
	Prog []c04Call    `json:"prog"`
}

func normCall(c *c04Call) {
	if c.Xs == nil {
		c.Xs = []int{}
	}
	if c.Xss == nil {
		c.Xss = [][]int{}
	}
}

// run executes a whole program from a fresh heap, writing one line per step (d = 0 for the initial heap).
// calls that fail: interface{} collections may hold unhashable elements (a slice), on which the map-based operations panic.  A caller
// that recovers must find the library as it was: whatever such a call used internally must not leak into the next call.  Run (and
// recovered) in front of every program of the interface{} family.
func c04Poison() {
	bad := []interface{}{3, 1, []int{1}, 2, []int{2}}
	try := func(f func()) {
		defer func() { recover() }()
		f()
	}
	mk := func() *fpgo.StreamForInterfaceDef {
		return fpgo.StreamForInterface.FromArray(append([]interface{}{}, bad...))
	}
	try(func() { mk().Distinct() })
	try(func() { mk().Intersection(mk()) })
	try(func() { mk().Minus(mk()) })
	try(func() { mk().RemoveItem(3, []int{1}) })
	try(func() { mk().Contains([]int{1}) })
	try(func() { mk().IsSubset(mk()) })
	try(func() { fpgo.SetForInterfaceFromArray(bad) })
}

func c04RunProgram(w *ndWriter, p *c04Program) error {
	if len(p.Prog) == 0 {
		return nil
	}
	h, err := c04NewHeap(p.Prog[0].Fam, p.Init)
	if err != nil {
		return err
	}
	w.write(c04Line{D: 0, Heap: h.project()})
	for i := range p.Prog {
		c := p.Prog[i]
		normCall(&c)
		res := h.exec(&c)
		w.write(c04Line{D: i + 1, C: &c, Res: &res, Heap: h.project()})
		if res.K == "panic" {
			break
		}
	}
	return nil
}

// ---- the driver's own call enumeration (deeper trees, random programs); inputs only, no oracle
func c04Calls(fam string, heap []c04Obj, rng *rand.Rand) []c04Call {
	var cs []c04Call
	add := func(c c04Call) { c.Fam = fam; normCall(&c); cs = append(cs, c) }
	slots := make([]int, len(heap))
	for i := range heap {
		slots[i] = i + 1
	}
	for r, o := range heap {
		r++
		switch o.K {
		case "stream":
			L := len(o.V.([]int))
			for _, f := range []string{"plusIdx", "const7"} {
				add(c04Call{Op: "Map", Recv: r, F: f})
			}
			for _, f := range []string{"valEven", "idxEven"} {
				add(c04Call{Op: "Filter", Recv: r, F: f})
			}
			add(c04Call{Op: "Reject", Recv: r, F: "valGt1"})
			for _, op := range []string{"FilterNotNil", "Distinct", "Reverse", "Clone", "Len", "ToArray"} {
				add(c04Call{Op: op, Recv: r})
			}
			add(c04Call{Op: "Append", Recv: r, Xs: []int{7}})
			add(c04Call{Op: "Append", Recv: r})
			add(c04Call{Op: "Concat", Recv: r, Xss: [][]int{{8}, {9, 8}}})
			add(c04Call{Op: "Concat", Recv: r})
			for _, op := range []string{"Extend", "Minus", "Intersection", "IsSubset", "IsSuperset"} {
				for _, s := range slots {
					add(c04Call{Op: op, Recv: r, O: s})
				}
			}
			for _, x := range []int{-1, 0, 1, L - 1, L} {
				add(c04Call{Op: "Remove", Recv: r, X: x})
			}
			for _, xs := range [][]int{{2}, {}, {3, 2}} {
				add(c04Call{Op: "RemoveItem", Recv: r, Xs: xs})
			}
			add(c04Call{Op: "Sort", Recv: r, F: "asc"})
			add(c04Call{Op: "Sort", Recv: r, F: "desc"})
			add(c04Call{Op: "SortByIndex", Recv: r, F: "asc"})
			add(c04Call{Op: "Contains", Recv: r, X: 2})
			if L > 0 {
				add(c04Call{Op: "Get", Recv: r, X: 0})
				add(c04Call{Op: "Get", Recv: r, X: L - 1})
			}
		case "set":
			for _, op := range []string{"Add", "RemoveKeys", "RemoveValues"} {
				for _, xs := range [][]int{{1}, {}, {4, 0}} {
					add(c04Call{Op: op, Recv: r, Xs: xs})
				}
			}
			for _, op := range []string{"Union", "Intersection", "Minus"} {
				for _, s := range slots {
					add(c04Call{Op: op, Recv: r, O: s})
				}
			}
			add(c04Call{Op: "MapKey", Recv: r, F: "plus10"})
			add(c04Call{Op: "MapKey", Recv: r, F: "times2"})
			add(c04Call{Op: "MapValue", Recv: r, F: "plus10"})
			add(c04Call{Op: "MapValue", Recv: r, F: "neg"})
			for _, op := range []string{"Clone", "Size", "Keys", "Values", "AsMap"} {
				add(c04Call{Op: op, Recv: r})
			}
			add(c04Call{Op: "Set", Recv: r, X: 2, Y: 9})
			add(c04Call{Op: "Set", Recv: r, X: 6, Y: 9})
			for _, op := range []string{"Get", "ContainsKey", "ContainsValue"} {
				add(c04Call{Op: op, Recv: r, X: 1})
				add(c04Call{Op: op, Recv: r, X: 5})
			}
		case "sset":
			for _, op := range []string{"Union", "Intersection", "MinusStreams", "Minus"} {
				for _, s := range slots {
					add(c04Call{Op: op, Recv: r, O: s})
				}
			}
			add(c04Call{Op: "Clone", Recv: r})
		}
	}
	return cs
}

func c04DefaultInit(universe string) []c04InitObj {
	mk := func(k, v string) c04InitObj { return c04InitObj{K: k, V: json.RawMessage(v)} }
	switch universe {
	case "stream":
		return []c04InitObj{mk("stream", "[1,2,3,2]"), mk("stream", "[2,0]"), mk("stream", "[]")}
	case "set":
		return []c04InitObj{mk("set", "[[1,1],[2,0]]"), mk("set", "[[2,5],[3,1]]"), mk("set", "[]")}
	}
	return []c04InitObj{mk("sset", "[[1,[1,2]],[2,[3]]]"), mk("sset", "[[1,[2]],[2,[]],[3,[4]]]"), mk("sset", "[]")}
}

type c04Rec struct {
	prefix string
	maxl   int
	w      *ndWriter
	files  []string
	events int
	leaves int
	first  c04Line
}

func (rc *c04Rec) rotate(path []c04Line) {
	if rc.w != nil && rc.w.n < rc.maxl {
		return
	}
	if rc.w != nil {
		rc.w.close()
	}
	name := fmt.Sprintf("%s.%03d.ndjson", rc.prefix, len(rc.files)+1)
	w, err := newNDWriter(name)
	if err != nil {
		panic(err)
	}
	rc.w = w
	rc.files = append(rc.files, name)
	for _, p := range path {
		rc.w.write(p)
	}
}

func (rc *c04Rec) emit(path []c04Line, e c04Line) {
	rc.rotate(path)
	rc.w.write(e)
	rc.events++
}

// dfs: all programs up to depth over the driver's call enumeration; each tree node is one line.
func (rc *c04Rec) dfs(fam string, init []c04InitObj, path []c04Line, depth int) {
	// path[0] is the d=0 line
	prev := path[len(path)-1].Heap
	for _, c := range c04Calls(fam, prev, nil) {
		c := c
		h, _ := c04NewHeap(fam, init)
		ok := true
		for _, pl := range path[1:] {
			h.exec(pl.C)
		}
		_ = ok
		res := h.exec(&c)
		line := c04Line{D: len(path), C: &c, Res: &res, Heap: h.project()}
		rc.emit(path, line)
		if res.K == "panic" {
			continue
		}
		if len(path) < depth {
			rc.dfs(fam, init, append(path, line), depth)
		} else {
			rc.leaves++
		}
	}
}

func c04Main(args []string) error {
	switch args[0] {
	case "exec": // exec <programs.ndjson>... --out prefix : programs written by TLC (MC_StreamHeap)
		rc := &c04Rec{prefix: flagVal(args, "out", "c04.trace"), maxl: flagInt(args, "maxlines", 150000)}
		progs := 0
		for _, f := range args[1:] {
			if f == "--out" || f == "--maxlines" {
				break
			}
			err := readLines(f, func(b []byte) error {
				b, err := unquoteTLA(b)
				if err != nil {
					return err
				}
				var p c04Program
				if err := json.Unmarshal(b, &p); err != nil {
					return err
				}
				rc.rotate(nil)
				progs++
				n0 := rc.w.n
				if err := c04RunProgram(rc.w, &p); err != nil {
					return err
				}
				rc.events += rc.w.n - n0
				return nil
			})
			if err != nil {
				return err
			}
		}
		if rc.w != nil {
			rc.w.close()
		}
		b, _ := json.Marshal(map[string]interface{}{"files": rc.files, "events": rc.events, "programs": progs})
		fmt.Println(string(b))
		return nil
	case "tree": // tree --universe stream --fam G --depth 3 --out prefix
		uni, fam := flagVal(args, "universe", "stream"), flagVal(args, "fam", "G")
		rc := &c04Rec{prefix: flagVal(args, "out", "c04.tree"), maxl: flagInt(args, "maxlines", 150000)}
		init := c04DefaultInit(uni)
		h, _ := c04NewHeap(fam, init)
		first := c04Line{D: 0, Heap: h.project()}
		rc.emit(nil, first)
		rc.dfs(fam, init, []c04Line{first}, flagInt(args, "depth", 2))
		if rc.w != nil {
			rc.w.close()
		}
		b, _ := json.Marshal(map[string]interface{}{"files": rc.files, "events": rc.events, "programs": rc.leaves})
		fmt.Println(string(b))
		return nil
	case "random": // random --n N --len L --out file : random programs over mixed universes
		n, ln := flagInt(args, "n", 500), flagInt(args, "len", 8)
		rc := &c04Rec{prefix: flagVal(args, "out", "c04.rand"), maxl: flagInt(args, "maxlines", 150000)}
		rng := rand.New(rand.NewSource(int64(envInt("VERIF_SEED", 1))))
		unis := []string{"stream", "stream", "set", "sset"}
		for k := 0; k < n; k++ {
			uni, fam := unis[rng.Intn(len(unis))], []string{"G", "I"}[rng.Intn(2)]
			init := c04DefaultInit(uni)
			// randomise the initial contents a little
			if uni == "stream" {
				mk := func() c04InitObj {
					xs := make([]int, rng.Intn(6))
					for i := range xs {
						xs[i] = rng.Intn(5)
					}
					b, _ := json.Marshal(xs)
					return c04InitObj{K: "stream", V: b}
				}
				init = []c04InitObj{mk(), mk(), mk()}
			}
			h, _ := c04NewHeap(fam, init)
			line := c04Line{D: 0, Heap: h.project()}
			rc.emit(nil, line)
			path := []c04Line{line} // a new file restarts with the program's lines so far
			for d := 1; d <= ln; d++ {
				cs := c04Calls(fam, line.Heap, rng)
				c := cs[rng.Intn(len(cs))]
				res := h.exec(&c)
				line = c04Line{D: d, C: &c, Res: &res, Heap: h.project()}
				rc.emit(path, line)
				path = append(path, line)
				if res.K == "panic" {
					break
				}
			}
			rc.leaves++
		}
		if rc.w != nil {
			rc.w.close()
		}
		b, _ := json.Marshal(map[string]interface{}{"files": rc.files, "events": rc.events, "programs": rc.leaves})
		fmt.Println(string(b))
		return nil
	}
	return fmt.Errorf("c04: exec|tree|random")
}
