//go:build verif

package main

import (
	"encoding/json"
	"fmt"
	"math/rand"
	"reflect"
	"sort"

	fpgo "github.com/TeaEntityLab/fpGo/v2"
)

// C03 — slice/map helpers of fp.go.  Vocabulary shared with Collections.tla.
// The driver only concretises abstract integer elements into Go values of three element
// types, calls the real generic function and projects the result back; what the right
// answer is comes from TLC (Outcomes).

func init() { commands["c03"] = c03Main }

type c03Case struct {
	Fn string   `json:"fn"`
	A  []int    `json:"a"`
	B  []int    `json:"b"`
	C  [][]int  `json:"c"`
	M  [][2]int `json:"m"`
	M2 [][2]int `json:"m2"`
	N  int      `json:"n"`
	N2 int      `json:"n2"`
	N3 int      `json:"n3"`
	F  string   `json:"f"`
}

type c03Out struct {
	K string      `json:"k"`
	V interface{} `json:"v"`
}

type c03Line struct {
	Case c03Case           `json:"case"`
	Exp  []json.RawMessage `json:"exp"`
}

type elemS struct {
	A int
	B string
}

// ---- function family (same definitions as Collections.tla)
func c03Pred(f string) func(int) bool {
	switch f {
	case "isEven":
		return func(e int) bool { return mod(e, 2) == 0 }
	case "gt1":
		return func(e int) bool { return e > 1 }
	case "lt3":
		return func(e int) bool { return e < 3 }
	case "constT":
		return func(int) bool { return true }
	case "constF":
		return func(int) bool { return false }
	}
	return nil
}
func mod(a, b int) int { return ((a % b) + b) % b } // TLA+ % is the mathematical modulus
func c03PredI(f string) func(int, int) bool {
	switch f {
	case "valEven":
		return func(e, i int) bool { return mod(e, 2) == 0 }
	case "idxEven":
		return func(e, i int) bool { return i%2 == 0 }
	case "idxLt2":
		return func(e, i int) bool { return i < 2 }
	case "valGtIdx":
		return func(e, i int) bool { return e > i }
	case "constT":
		return func(int, int) bool { return true }
	}
	panic("predI " + f)
}
func c03Tr(f string) func(int) int {
	switch f {
	case "plus1":
		return func(e int) int { return e + 1 }
	case "times2":
		return func(e int) int { return 2 * e }
	case "mod2":
		return func(e int) int { return mod(e, 2) }
	case "id":
		return func(e int) int { return e }
	case "const7":
		return func(int) int { return 7 }
	}
	panic("tr " + f)
}
func c03TrI(f string) func(int, int) int {
	switch f {
	case "plusIdx":
		return func(e, i int) int { return e + i }
	case "idx":
		return func(e, i int) int { return i }
	case "val":
		return func(e, i int) int { return e }
	}
	panic("trI " + f)
}
func c03Red(f string) func(int, int) int {
	switch f {
	case "sum":
		return func(m, e int) int { return m + e }
	case "poly":
		return func(m, e int) int { return m*3 + e }
	}
	panic("red " + f)
}
func c03RedI(f string) func(int, int, int) int {
	switch f {
	case "sumIdx":
		return func(m, e, i int) int { return m + e*(i+1) }
	case "polyIdx":
		return func(m, e, i int) int { return m*3 + e + i }
	}
	panic("redI " + f)
}

const c03Sentinel = 9999

// guarded input slice: len(a) elements followed by spare capacity holding sentinels
type guarded[T comparable] struct {
	buf  []T
	n    int
	orig []T
}

func guard[T comparable](a []int, conc func(int) T, nilIfEmpty bool) *guarded[T] {
	g := &guarded[T]{n: len(a)}
	if len(a) == 0 && nilIfEmpty {
		return g
	}
	g.buf = make([]T, len(a)+3)
	for i, e := range a {
		g.buf[i] = conc(e)
	}
	for i := len(a); i < len(g.buf); i++ {
		g.buf[i] = conc(c03Sentinel)
	}
	g.orig = append([]T(nil), g.buf...)
	return g
}
func (g *guarded[T]) slice() []T {
	if g.buf == nil {
		return nil
	}
	return g.buf[:g.n]
}
func (g *guarded[T]) intact() bool {
	for i := range g.buf {
		if g.buf[i] != g.orig[i] {
			return false
		}
	}
	return true
}

func absSeq[T any](s []T, abs func(T) int) []int {
	r := make([]int, len(s))
	for i, x := range s {
		r[i] = abs(x)
	}
	return r
}
func sortedInts(s []int) []int { r := append([]int{}, s...); sort.Ints(r); return r }
func mkMap[T comparable](ps [][2]int, conc func(int) T, nilIfEmpty bool) map[T]int {
	if len(ps) == 0 && nilIfEmpty {
		return nil
	}
	m := map[T]int{}
	for _, p := range ps {
		m[conc(p[0])] = p[1]
	}
	return m
}
func mapPairs[T comparable](m map[T]int, abs func(T) int) [][]int {
	r := make([][]int, 0, len(m))
	for k, v := range m {
		r = append(r, []int{abs(k), v})
	}
	sort.Slice(r, func(i, j int) bool { return r[i][0] < r[j][0] })
	return r
}
func sameMap[T comparable](a, b map[T]int) bool {
	if len(a) != len(b) {
		return false
	}
	for k, v := range a {
		if w, ok := b[k]; !ok || w != v {
			return false
		}
	}
	return true
}

// c03Exec runs one case at element type T. variant bit 0: nil instead of empty slices/maps.
func c03Exec[T comparable](c *c03Case, conc func(int) T, abs func(T) int, nilEmpty bool) (out c03Out) {
	ga := guard(c.A, conc, nilEmpty)
	gb := guard(c.B, conc, nilEmpty)
	var gc []*guarded[T]
	for _, x := range c.C {
		gc = append(gc, guard(x, conc, nilEmpty))
	}
	m1 := mkMap(c.M, conc, nilEmpty)
	m2 := mkMap(c.M2, conc, nilEmpty)
	m1o, m2o := mkMap(c.M, conc, false), mkMap(c.M2, conc, false)
	defer func() {
		if p := recover(); p != nil {
			out = c03Out{K: "panic", V: 0}
			return
		}
		ok := ga.intact() && gb.intact() && sameMap(m1, m1o) && sameMap(m2, m2o)
		for _, g := range gc {
			ok = ok && g.intact()
		}
		if !ok {
			out = c03Out{K: "mutated", V: 0}
		}
	}()
	a := ga.slice()
	seq := func(s []T) c03Out { return c03Out{"seq", absSeq(s, abs)} }
	switch c.Fn {
	case "Map":
		tr := c03Tr(c.F)
		return c03Out{"seq", fpgo.Map(func(x T) int { return tr(abs(x)) }, a...)}
	case "MapIndexed":
		tr := c03TrI(c.F)
		return c03Out{"seq", fpgo.MapIndexed(func(x T, i int) int { return tr(abs(x), i) }, a...)}
	case "Reduce":
		rd := c03Red(c.F)
		return c03Out{"int", fpgo.Reduce(func(m int, x T) int { return rd(m, abs(x)) }, c.N, a...)}
	case "ReduceIndexed":
		rd := c03RedI(c.F)
		return c03Out{"int", fpgo.ReduceIndexed(func(m int, x T, i int) int { return rd(m, abs(x), i) }, c.N, a...)}
	case "Filter":
		p := c03PredI(c.F)
		return seq(fpgo.Filter(func(x T, i int) bool { return p(abs(x), i) }, a...))
	case "Reject":
		p := c03PredI(c.F)
		return seq(fpgo.Reject(func(x T, i int) bool { return p(abs(x), i) }, a...))
	case "Concat":
		var ss [][]T
		for _, g := range gc {
			ss = append(ss, g.slice())
		}
		return seq(fpgo.Concat(a, ss...))
	case "Flatten":
		var ss [][]T
		for _, g := range gc {
			ss = append(ss, g.slice())
		}
		return seq(fpgo.Flatten(ss...))
	case "Distinct":
		return seq(fpgo.Distinct(a...))
	case "Dedupe":
		return seq(fpgo.Dedupe(a...))
	case "DropEq":
		return seq(fpgo.DropEq(conc(c.N), a...))
	case "Drop":
		return seq(fpgo.Drop(c.N, a...))
	case "DropLast":
		return seq(fpgo.DropLast(c.N, a...))
	case "DropWhile":
		if c.F == "nil" {
			return seq(fpgo.DropWhile[T](nil, a...))
		}
		p := c03Pred(c.F)
		return seq(fpgo.DropWhile(func(x T) bool { return p(abs(x)) }, a...))
	case "Take":
		return seq(fpgo.Take(c.N, a...))
	case "TakeLast":
		return seq(fpgo.TakeLast(c.N, a...))
	case "Head":
		return c03Out{"int", abs(fpgo.Head(a...))}
	case "Tail":
		return seq(fpgo.Tail(a...))
	case "Reverse":
		return seq(fpgo.Reverse(a...))
	case "Prepend":
		return seq(fpgo.Prepend(conc(c.N), a))
	case "Partition":
		p := c03Pred(c.F)
		r := fpgo.Partition(func(x T) bool { return p(abs(x)) }, a...)
		v := make([][]int, len(r))
		for i := range r {
			v[i] = absSeq(r[i], abs)
		}
		return c03Out{"seqseq", v}
	case "SplitEvery":
		r := fpgo.SplitEvery(c.N, a...)
		v := make([][]int, len(r))
		for i := range r {
			v[i] = absSeq(r[i], abs)
		}
		return c03Out{"seqseq", v}
	case "GroupBy":
		tr := c03Tr(c.F)
		r := fpgo.GroupBy(func(x T) int { return tr(abs(x)) }, a...)
		ids := make([]int, 0, len(r))
		for id := range r {
			ids = append(ids, id)
		}
		sort.Ints(ids)
		v := make([][]interface{}, 0, len(r))
		for _, id := range ids {
			v = append(v, []interface{}{id, absSeq(r[id], abs)})
		}
		return c03Out{"map", v}
	case "UniqBy":
		tr := c03Tr(c.F)
		return seq(fpgo.UniqBy(func(x T) int { return tr(abs(x)) }, a...))
	case "Zip":
		// second list: plain ints (R = int)
		var b []int
		if !(len(c.B) == 0 && nilEmpty) {
			b = append(make([]int, 0, len(c.B)+2), c.B...)
		}
		return c03Out{"map", mapPairs(fpgo.Zip(a, b), abs)}
	case "Keys":
		return c03Out{"bag", sortedInts(absSeq(fpgo.Keys(m1), abs))}
	case "Values":
		return c03Out{"bag", sortedInts(fpgo.Values(m1))}
	case "Merge":
		r := fpgo.Merge(m1, m2)
		res := c03Out{"map", mapPairs(r, abs)}
		r[conc(777)] = 1 // a new map: writing to it must not show in the inputs (checked by the frame test)
		return res
	case "Every":
		if c.F == "nil" {
			return c03Out{"bool", fpgo.Every[T](nil, a...)}
		}
		p := c03Pred(c.F)
		return c03Out{"bool", fpgo.Every(func(x T) bool { return p(abs(x)) }, a...)}
	case "Some":
		if c.F == "nil" {
			return c03Out{"bool", fpgo.Some[T](nil, a...)}
		}
		p := c03Pred(c.F)
		return c03Out{"bool", fpgo.Some(func(x T) bool { return p(abs(x)) }, a...)}
	case "Exists":
		return c03Out{"bool", fpgo.Exists(conc(c.N), a...)}
	case "IsEqual":
		return c03Out{"bool", fpgo.IsEqual(a, gb.slice())}
	case "IsEqualMap":
		return c03Out{"bool", fpgo.IsEqualMap(m1, m2)}
	case "IsDistinct":
		return c03Out{"bool", fpgo.IsDistinct(a...)}
	case "SliceToMap":
		return c03Out{"map", mapPairs(fpgo.SliceToMap(c.N, a...), abs)}
	case "DuplicateSlice":
		r := fpgo.DuplicateSlice(a)
		res := seq(r)
		for i := range r { // detached: writing through the copy must not reach the input
			r[i] = conc(777)
		}
		r = append(r, conc(778))
		if !ga.intact() {
			return c03Out{"aliased", 0}
		}
		return res
	case "DuplicateMap":
		r := fpgo.DuplicateMap(m1)
		res := c03Out{"map", mapPairs(r, abs)}
		r[conc(777)] = 1
		for k := range r {
			r[k] = 55
		}
		if !sameMap(m1, m1o) {
			return c03Out{"aliased", 0}
		}
		return res
	}
	panic("unknown fn " + c.Fn)
}

// numeric helpers exist only for Numeric element types
// scale > 1 (float types only): the abstract integer e stands for e/scale, so spans and hops that are not whole numbers
// are exercised with the same integer definitions (quarters are exact in binary floating point)
func c03ExecNum[T fpgo.Numeric](c *c03Case, nilEmpty bool, scale int) (out c03Out) {
	conc := func(e int) T { return T(e) / T(scale) }
	abs := func(x T) int { return int(x * T(scale)) }
	ga := guard(c.A, conc, nilEmpty)
	defer func() {
		if p := recover(); p != nil {
			out = c03Out{K: "panic", V: 0}
		} else if !ga.intact() {
			out = c03Out{K: "mutated", V: 0}
		}
	}()
	a := ga.slice()
	switch c.Fn {
	case "Min":
		return c03Out{"int", abs(fpgo.Min(a...))}
	case "Max":
		return c03Out{"int", abs(fpgo.Max(a...))}
	case "MinMax":
		lo, hi := fpgo.MinMax(a...)
		return c03Out{"int2", []int{abs(lo), abs(hi)}}
	case "Range":
		var r []T
		if c.F == "hop" {
			r = fpgo.Range(conc(c.N), conc(c.N3), conc(c.N2))
		} else if scale != 1 {
			r = fpgo.Range(conc(c.N), conc(c.N3), conc(1)) // the default hop (1) is exercised by the unscaled types
		} else {
			r = fpgo.Range(T(c.N), T(c.N3))
		}
		return c03Out{"seq", absSeq(r, abs)}
	}
	panic("unknown numeric fn " + c.Fn)
}

func c03IsNumeric(fn string) bool {
	return fn == "Min" || fn == "Max" || fn == "MinMax" || fn == "Range"
}

var c03Types = []string{"int", "string", "struct", "ptr"}

// element type *int: abstract k > 0 is ONE pointer (the same on every use), abstract 0 is nil; all pointees hold the same number, so
// two different elements are never == but always "deep equal" - a comparison that follows the pointers confuses them
var c03Cells [64]int
var c03CellIdx = map[*int]int{}

func concPtr(e int) *int {
	if e == 0 {
		return nil
	}
	p := &c03Cells[e%64]
	*p = 1
	c03CellIdx[p] = e % 64
	return p
}
func absPtr(p *int) int {
	if p == nil {
		return 0
	}
	return c03CellIdx[p]
}

func concStr(e int) string {
	if e == 0 {
		return "" // abstract 0 is the zero value of every element type
	}
	return fmt.Sprintf("s%d", e)
}
func absStr(s string) int {
	if s == "" {
		return 0
	}
	n := 0
	fmt.Sscanf(s, "s%d", &n)
	return n
}
func concStruct(e int) elemS {
	if e == 0 {
		return elemS{}
	}
	return elemS{A: e, B: fmt.Sprintf("b%d", e)}
}
func absStruct(s elemS) int { return s.A }

// c03Run executes a case in one (type, nil-variant) configuration.
func c03Run(c *c03Case, ty string, nilEmpty bool) c03Out {
	if c03IsNumeric(c.Fn) {
		switch ty {
		case "int":
			return c03ExecNum[int](c, nilEmpty, 1)
		case "float64":
			return c03ExecNum[float64](c, nilEmpty, 1)
		case "float64/4":
			return c03ExecNum[float64](c, nilEmpty, 4)
		case "float32/4":
			return c03ExecNum[float32](c, nilEmpty, 4)
		case "int8":
			return c03ExecNum[int8](c, nilEmpty, 1)
		}
		return c03ExecNum[int64](c, nilEmpty, 1)
	}
	switch ty {
	case "int":
		return c03Exec(c, func(e int) int { return e }, func(x int) int { return x }, nilEmpty)
	case "string":
		return c03Exec(c, concStr, absStr, nilEmpty)
	case "ptr":
		return c03Exec(c, concPtr, absPtr, nilEmpty)
	}
	return c03Exec(c, concStruct, absStruct, nilEmpty)
}

func c03Types4(fn string) []string {
	if c03IsNumeric(fn) {
		return []string{"int", "float64", "int64", "float64/4", "float32/4"}
	}
	return c03Types
}

func normJSON(v interface{}) interface{} {
	b, _ := json.Marshal(v)
	var x interface{}
	json.Unmarshal(b, &x)
	return x
}

type c03Mismatch struct {
	File string            `json:"file"`
	Line int               `json:"line"`
	Case c03Case           `json:"case"`
	Ty   string            `json:"ty"`
	Nil  bool              `json:"nil"`
	Got  c03Out            `json:"got"`
	Exp  []json.RawMessage `json:"exp"`
}

func c03Main(args []string) error {
	switch args[0] {
	case "replay": // replay <cases.ndjson>... --out mismatches.ndjson
		outp := flagVal(args, "out", "c03.mismatch.ndjson")
		w, err := newNDWriter(outp)
		if err != nil {
			return err
		}
		defer w.close()
		cases, execs, bad := 0, 0, 0
		distinct := map[string]bool{}
		for _, f := range args[1:] {
			if f == "--out" {
				break
			}
			line := 0
			err := readLines(f, func(b []byte) error {
				line++
				var l c03Line
				if err := json.Unmarshal(b, &l); err != nil {
					return fmt.Errorf("%s:%d: %v", f, line, err)
				}
				cases++
				if len(l.Case.A)+len(l.Case.B)+len(l.Case.C)+len(l.Case.M) > 0 {
					distinct[string(b)] = true
				}
				var exp []interface{}
				for _, e := range l.Exp {
					var x interface{}
					json.Unmarshal(e, &x)
					exp = append(exp, x)
				}
				for _, ty := range c03Types4(l.Case.Fn) {
					for _, nilE := range []bool{false, true} {
						got := c03Run(&l.Case, ty, nilE)
						execs++
						g := normJSON(got)
						ok := false
						for _, e := range exp {
							if reflect.DeepEqual(g, e) {
								ok = true
							}
						}
						if !ok {
							bad++
							if bad <= 400 {
								w.write(c03Mismatch{File: f, Line: line, Case: l.Case, Ty: ty, Nil: nilE, Got: got, Exp: l.Exp})
							}
						}
					}
				}
				return nil
			})
			if err != nil {
				return err
			}
		}
		fmt.Printf("{\"cases\":%d,\"executions\":%d,\"mismatches\":%d,\"distinct_nontrivial\":%d}\n", cases, execs, bad, len(distinct))
		return nil
	case "record": // random larger inputs, logged with the real outcome for TLC to judge
		n := flagInt(args, "n", 2000)
		w, err := newNDWriter(flagVal(args, "out", "c03.trace.ndjson"))
		if err != nil {
			return err
		}
		defer w.close()
		rng := rand.New(rand.NewSource(int64(envInt("VERIF_SEED", 1))))
		for i := 0; i < n; i++ {
			c := c03Random(rng)
			tys := c03Types4(c.Fn)
			ty := tys[rng.Intn(len(tys))]
			nilE := rng.Intn(2) == 0
			got := c03Run(&c, ty, nilE)
			w.write(map[string]interface{}{"case": c, "ty": ty, "nil": nilE, "out": got})
		}
		fmt.Printf("{\"events\":%d}\n", n)
		return nil
	case "run": // run <case.json>: one case in every configuration (for --replay)
		var l struct {
			Case c03Case `json:"case"`
		}
		b, err := readAll(args[1])
		if err != nil {
			return err
		}
		if err := json.Unmarshal(b, &l); err != nil {
			return err
		}
		w, _ := newNDWriter("/dev/stdout")
		defer w.close()
		for _, ty := range c03Types4(l.Case.Fn) {
			for _, nilE := range []bool{false, true} {
				w.write(map[string]interface{}{"case": l.Case, "ty": ty, "nil": nilE, "out": c03Run(&l.Case, ty, nilE)})
			}
		}
		return nil
	}
	return fmt.Errorf("c03: replay|record|run")
}

var c03FnList = []string{"Map", "MapIndexed", "Reduce", "ReduceIndexed", "Filter", "Reject", "Concat", "Flatten", "Distinct", "Dedupe",
	"DropEq", "Drop", "DropLast", "DropWhile", "Take", "TakeLast", "Head", "Tail", "Reverse", "Prepend", "Partition",
	"SplitEvery", "GroupBy", "UniqBy", "Zip", "Range", "Keys", "Values", "Merge", "Min", "Max", "MinMax", "Every",
	"Some", "Exists", "IsEqual", "IsEqualMap", "IsDistinct", "SliceToMap", "DuplicateSlice", "DuplicateMap"}

func pick(rng *rand.Rand, xs ...string) string { return xs[rng.Intn(len(xs))] }

func c03Random(rng *rand.Rand) c03Case {
	list := func(maxLen, maxVal int) []int {
		n := rng.Intn(maxLen + 1)
		s := make([]int, n)
		for i := range s {
			s[i] = rng.Intn(maxVal)
		}
		return s
	}
	pairs := func() [][2]int {
		m := map[int]int{}
		for i, n := 0, rng.Intn(6); i < n; i++ {
			m[rng.Intn(6)] = rng.Intn(3)
		}
		ks := make([]int, 0)
		for k := range m {
			ks = append(ks, k)
		}
		sort.Ints(ks)
		ps := make([][2]int, 0)
		for _, k := range ks {
			ps = append(ps, [2]int{k, m[k]})
		}
		return ps
	}
	c := c03Case{Fn: c03FnList[rng.Intn(len(c03FnList))], A: []int{}, B: []int{}, C: [][]int{}, M: [][2]int{}, M2: [][2]int{}, F: "-"}
	c.A = list(10, 6)
	switch c.Fn {
	case "Map":
		c.F = pick(rng, "plus1", "times2", "mod2", "id", "const7")
	case "MapIndexed":
		c.F = pick(rng, "plusIdx", "idx", "val")
	case "Reduce":
		c.F, c.N, c.A = pick(rng, "sum", "poly"), rng.Intn(3), list(8, 6)
	case "ReduceIndexed":
		c.F, c.N, c.A = pick(rng, "sumIdx", "polyIdx"), rng.Intn(3), list(8, 6)
	case "Filter", "Reject":
		c.F = pick(rng, "valEven", "idxEven", "idxLt2", "valGtIdx", "constT")
	case "Concat", "Flatten":
		for i, n := 0, rng.Intn(4); i < n; i++ {
			c.C = append(c.C, list(5, 6))
		}
		if c.Fn == "Flatten" {
			c.A = []int{}
		}
	case "DropEq", "Exists", "Prepend":
		c.N = rng.Intn(8)
	case "Drop", "DropLast", "Take", "TakeLast", "SplitEvery":
		c.N = rng.Intn(len(c.A)+7) - 3
	case "DropWhile", "Every", "Some":
		c.F = pick(rng, "isEven", "gt1", "lt3", "constT", "constF", "nil")
	case "Partition":
		c.F = pick(rng, "isEven", "gt1", "lt3", "constT", "constF")
	case "GroupBy", "UniqBy":
		c.F = pick(rng, "mod2", "id", "const7", "plus1")
	case "Zip", "IsEqual":
		c.B = list(10, 6)
		if c.Fn == "IsEqual" && rng.Intn(2) == 0 {
			c.B = append([]int{}, c.A...)
		}
	case "Range":
		c.A = []int{}
		c.N, c.N3, c.N2 = rng.Intn(21)-10, rng.Intn(25)-10, rng.Intn(7)-1
		c.F = pick(rng, "hop", "hop", "nohop")
		if c.F == "nohop" {
			c.N2 = 0
		}
	case "Keys", "Values", "DuplicateMap":
		c.A, c.M = []int{}, pairs()
	case "Merge", "IsEqualMap":
		c.A, c.M, c.M2 = []int{}, pairs(), pairs()
		if c.Fn == "IsEqualMap" && rng.Intn(2) == 0 {
			c.M2 = append([][2]int{}, c.M...)
		}
	case "SliceToMap":
		c.N = rng.Intn(4)
	}
	return c
}
