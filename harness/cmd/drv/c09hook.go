//go:build verif

package main

import (
	"fmt"
	"math/rand"
	"strings"
	"sync"
	"sync/atomic"
	"time"

	fpgo "github.com/TeaEntityLab/fpGo/v2"
	"github.com/TeaEntityLab/fpGo/v2/worker"
)

// Hook-level traces of the real DefaultWorkerPool for Trace_WorkerPoolHook.tla: every wp.* hook point with the role of the
// goroutine it fired on (sub / spawn / x / w<k>), the counters for the two hook points inside the pool's lock (read inside
// the recorder's critical section), and the harness's own lines: the result of every Schedule, start / end / panic of every
// job, every panic-handler call.  One submitter, one closer; the pool is configured through its constructor (no Set* call on
// the recorded pool: each of them wakes the spawn loop, which the model's submitter does not do).

type c09HookCfg struct {
	max, standby, batch, njobs int
	panics                     []int
	expiry                     bool
	jam                        bool
}

type c09HookRec struct {
	rec   *recorder
	pool  atomic.Pointer[worker.DefaultWorkerPool]
	roles sync.Map // gid -> role
	nw    int      // under rec.mu
	cur   int32    // job index of the submitter
}

func (h *c09HookRec) role(point string) string {
	g := gid()
	if r, ok := h.roles.Load(g); ok {
		return r.(string)
	}
	if strings.HasPrefix(point, "wp.spawn.") || point == "wp.gen.counted" {
		return "spawn"
	}
	h.nw++ // called under rec.mu
	r := fmt.Sprintf("w%d", h.nw)
	h.roles.Store(g, r)
	return r
}

func (h *c09HookRec) hook(point string, obj interface{}) {
	p := h.pool.Load()
	if p == nil || obj != interface{}(p) {
		return
	}
	h.rec.evf(func() E {
		e := E{"ev": "hook", "pt": point, "thr": h.role(point), "j": int(atomic.LoadInt32(&h.cur)), "wc": -1, "wb": -1, "r": "-"}
		if point == "wp.gen.counted" || point == "wp.worker.exit.post" {
			e["wc"], e["wb"] = p.VerifCountersLocked()
		}
		return e
	})
}

func (h *c09HookRec) line(ev string, j int, r string) {
	h.rec.evf(func() E {
		return E{"ev": ev, "pt": "-", "thr": h.role("-"), "j": j, "wc": -1, "wb": -1, "r": r}
	})
}

func c09HookSettings(c c09HookCfg, h *c09HookRec, expiry time.Duration) *worker.DefaultWorkerPoolSettings {
	q0 := fpgo.NewBufferedChannelQueue[func()](1, 1, 1)
	jam := time.Hour
	if c.jam {
		jam = 50 * time.Microsecond
	}
	p0 := worker.NewDefaultWorkerPool(q0, nil).
		SetWorkerSizeStandBy(0).
		SetWorkerSizeMaximum(c.max).
		SetSpawnWorkerDuration(100 * time.Microsecond).
		SetWorkerExpiryDuration(expiry).
		SetWorkerJamDuration(jam).
		SetWorkerBatchSize(c.batch).
		SetWorkerSizeStandBy(c.standby).
		SetPanicHandler(func(p interface{}) {
			id := 0
			if jp, ok := p.(jobPanic); ok {
				id = jp.id
			}
			h.line("handler", id, fmt.Sprint(p))
		})
	s := wpSettingsCopy(p0)
	p0.Close()
	return s
}

func c09HookRound(w *ndWriter, seed int64, c c09HookCfg, base int) int {
	rng := rand.New(rand.NewSource(seed))
	h := &c09HookRec{rec: &recorder{}}
	fpgo.VerifHook = h.hook
	expiry := time.Hour
	if c.expiry {
		expiry = time.Duration(150+rng.Intn(600)) * time.Microsecond
	}
	settings := c09HookSettings(c, h, expiry)
	isPanic := map[int]bool{}
	for _, j := range c.panics {
		isPanic[j] = true
	}
	h.rec.ev(E{"ev": "reset", "pt": "-", "thr": "-", "j": 0, "wc": 0, "wb": 0, "r": "-",
		"njobs": c.njobs, "panic": c.panics, "max": c.max, "standby": c.standby, "batch": c.batch, "qcap": 16, "expiry": c.expiry})
	q := fpgo.NewBufferedChannelQueue[func()](16, 16, 4).SetLoadFromPoolDuration(50 * time.Microsecond)
	pool := worker.NewDefaultWorkerPool(q, settings)
	h.pool.Store(pool)
	var started int32
	var wg sync.WaitGroup
	durs := make([]time.Duration, c.njobs+1)
	gaps := make([]time.Duration, c.njobs+1)
	for j := 1; j <= c.njobs; j++ {
		durs[j] = time.Duration(rng.Intn(4)*rng.Intn(200)) * time.Microsecond
		gaps[j] = time.Duration(rng.Intn(3)*rng.Intn(400)) * time.Microsecond
	}
	closeAfter := -1 // close once that many jobs have started; -1: after everything ran
	if rng.Intn(3) == 0 {
		closeAfter = rng.Intn(c.njobs + 1)
	}
	wg.Add(2)
	go func() { // the one submitter
		defer wg.Done()
		h.roles.Store(gid(), "sub")
		for j := 1; j <= c.njobs; j++ {
			if gaps[j] > 0 {
				time.Sleep(gaps[j])
			}
			atomic.StoreInt32(&h.cur, int32(j))
			jj := j
			err := pool.Schedule(func() {
				h.line("start", jj, "-")
				atomic.AddInt32(&started, 1)
				if durs[jj] > 0 {
					time.Sleep(durs[jj])
				}
				if isPanic[jj] {
					h.line("panic", jj, "-")
					panic(jobPanic{jj})
				}
				h.line("end", jj, "-")
			})
			r := "err"
			switch err {
			case nil:
				r = "ok"
			case worker.ErrWorkerPoolIsClosed:
				r = "closed"
			case fpgo.ErrQueueIsClosed:
				r = "qclosed"
			case worker.ErrWorkerPoolJobQueueIsFull:
				r = "full"
			}
			h.line("res", jj, r)
		}
	}()
	subDone := make(chan struct{})
	go func() { // the closer
		defer wg.Done()
		h.roles.Store(gid(), "x")
		deadline := time.Now().Add(300 * time.Millisecond)
		if closeAfter >= 0 {
			for int(atomic.LoadInt32(&started)) < closeAfter && time.Now().Before(deadline) {
				time.Sleep(20 * time.Microsecond)
			}
		} else {
			<-subDone
			for time.Now().Before(deadline) {
				_, busy := pool.VerifCounters()
				if int(atomic.LoadInt32(&started)) >= c.njobs && busy == 0 {
					break
				}
				time.Sleep(50 * time.Microsecond)
			}
			if c.expiry {
				time.Sleep(time.Duration(rng.Intn(3)) * expiry)
			}
		}
		pool.Close()
		h.line("closed", 0, "-")
	}()
	go func() {
		// subDone is closed when the submitter is through (observed from outside: its last res line exists)
		for {
			h.rec.mu.Lock()
			n := 0
			for _, e := range h.rec.evs {
				if e["ev"] == "res" {
					n++
				}
			}
			h.rec.mu.Unlock()
			if n >= c.njobs {
				close(subDone)
				return
			}
			time.Sleep(100 * time.Microsecond)
		}
	}()
	wg.Wait()
	// let the workers leave (they see the closed flag / the closed channel)
	deadline := time.Now().Add(300 * time.Millisecond)
	for time.Now().Before(deadline) {
		if wc, _ := pool.VerifCounters(); wc == 0 {
			break
		}
		time.Sleep(100 * time.Microsecond)
	}
	time.Sleep(300 * time.Microsecond)
	h.pool.Store(nil)
	fpgo.VerifHook = nil
	// nx: for every line and every thread of the round, the index (in the file) of that thread's next line at or after it
	h.rec.mu.Lock()
	thrs := map[string]bool{}
	for _, e := range h.rec.evs {
		thrs[e["thr"].(string)] = true
	}
	next := map[string]int{}
	for t := range thrs {
		next[t] = 0
	}
	for i := len(h.rec.evs) - 1; i >= 0; i-- {
		e := h.rec.evs[i]
		next[e["thr"].(string)] = base + i + 1
		nx := map[string]int{}
		for t, k := range next {
			nx[t] = k
		}
		e["nx"] = nx
	}
	h.rec.mu.Unlock()
	return h.rec.flush(w)
}

func c09HookTrace(args []string) error {
	prefix := flagVal(args, "out", "c09.hook")
	rounds := flagInt(args, "rounds", 10)
	seed := int64(envInt("VERIF_SEED", 1))
	cfgs := []c09HookCfg{
		{max: 1, standby: 0, batch: 1, njobs: 3, panics: []int{}, expiry: false},
		{max: 2, standby: 1, batch: 1, njobs: 4, panics: []int{2}, expiry: false},
		{max: 2, standby: 0, batch: 2, njobs: 5, panics: []int{1, 4}, expiry: true},
		{max: 3, standby: 1, batch: 1, njobs: 5, panics: []int{3}, expiry: true, jam: true},
		{max: 2, standby: 2, batch: 3, njobs: 4, panics: []int{}, expiry: true},
		{max: 3, standby: 0, batch: 1, njobs: 6, panics: []int{2, 3}, expiry: false, jam: true},
	}
	var files []string
	events := 0
	for ci, c := range cfgs {
		name := fmt.Sprintf("%s.%d.ndjson", prefix, ci+1)
		w, err := newNDWriter(name)
		if err != nil {
			return err
		}
		lines := 0
		for r := 0; r < rounds; r++ {
			n := c09HookRound(w, seed*7907+int64(ci*1000+r), c, lines)
			lines += n
			events += n
		}
		w.close()
		files = append(files, name)
	}
	fmt.Printf("{\"files\":[%s],\"events\":%d,\"rounds\":%d}\n", quoteJoin(files), events, rounds*len(cfgs))
	return nil
}
