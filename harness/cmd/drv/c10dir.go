//go:build verif

package main

// C10, direction A: every complete behaviour of Publisher.tla (spec/gen/Gen_PublisherSched.tla) is forced on the real publisher.
// The publishing goroutine is parked at the hook points p.publish.snap (after the snapshot) and p.publish.deliver (before each
// element); list changes are made while it is parked - by the director's goroutine ("other") or from inside the callback that
// was just run ("callback", where the model's change follows a Deliver). What really happened is written, one line per step, as a
// trace that Trace_PublisherDirect replays through Publisher.tla's own actions.

import (
	"encoding/json"
	"fmt"
	"sync"
	"time"

	fpgo "github.com/TeaEntityLab/fpGo/v2"
)

type c10Step struct {
	A string `json:"a"`
	S string `json:"s"`
}
type c10Sched struct {
	Steps []c10Step `json:"steps"`
	Log   []string  `json:"log"`
	Final []string  `json:"final"`
}

type c10Director struct {
	mu      sync.Mutex
	w       *ndWriter
	run     int
	target  interface{} // the publisher whose hook points are gated
	arrive  chan string // "snap" | "deliver" | "returned"
	release chan struct{}
	gated   bool
	pubGid  int64
	subs    map[string]*fpgo.Subscription[int]
	subPub  *fpgo.PublisherDef[int]
	inCb    func(name string) // runs inside the callback of the named subscription, after its delivery was written
	lines   int
	second  bool
	fin     []string
	handler   *fpgo.HandlerDef // SubscribeOn variant: deliveries are posted to it
	hGid      int64
	delivered chan struct{}
}

func (d *c10Director) line(e string, s string, extra E) {
	d.mu.Lock()
	m := E{"e": e, "s": s, "run": d.run, "n": 0, "mode": "-", "final": []string{}, "why": "-", "thr": "-", "h": false}
	for k, v := range extra {
		m[k] = v
	}
	d.w.write(m)
	d.lines++
	d.mu.Unlock()
}

func (d *c10Director) hook(point string, obj interface{}) {
	if !d.gated || obj != d.target || gid() != d.pubGid {
		return
	}
	switch point {
	case "p.publish.snap":
		d.arrive <- "snap"
	case "p.publish.deliver":
		d.arrive <- "deliver"
	default:
		return
	}
	<-d.release
}

func (d *c10Director) subscribe(name string, v0 int) {
	d.subs[name] = d.subPub.Subscribe(fpgo.Subscription[int]{OnNext: func(v int) {
		if d.second {
			d.fin = append(d.fin, name)
			return
		}
		thr := "x"
		if d.handler != nil && gid() == d.hGid {
			thr = "h"
		}
		d.line("deliver", name, E{"n": v - v0, "thr": thr})
		if f := d.inCb; f != nil {
			f(name)
		}
		if d.handler != nil {
			select {
			case d.delivered <- struct{}{}:
			default:
			}
		}
	}})
}

// wait for the publisher's next stop; "" = nothing within the bound
func (d *c10Director) next() string {
	select {
	case p := <-d.arrive:
		return p
	case <-time.After(5 * time.Second):
		return ""
	}
}

// everything posted to the handler so far has run when this returns (bounded)
func (d *c10Director) settle() bool {
	if d.handler == nil {
		return true
	}
	ch := make(chan struct{}, 1)
	go d.handler.Post(func() { ch <- struct{}{} })
	select {
	case <-ch:
		return true
	case <-time.After(5 * time.Second):
		return false
	}
}

func (d *c10Director) one(sc *c10Sched, nsubs int, mode string, mapped, useHandler bool) {
	d.run++
	names := []string{"A", "B", "C", "D"}[:nsubs]
	d.subs = map[string]*fpgo.Subscription[int]{}
	pub := fpgo.PublisherNewGenerics[int]()
	d.subPub = pub
	factor := 1
	if mapped {
		d.subPub = pub.Map(func(v int) int { return 2 * v })
		factor = 2
	}
	d.target = d.subPub
	d.inCb = nil
	d.handler = nil
	if useHandler {
		h := fpgo.Handler.New()
		g := make(chan int64, 1)
		h.Post(func() { g <- gid() })
		d.hGid = <-g
		d.delivered = make(chan struct{}, 64)
		d.subPub.SubscribeOn(h)
		d.handler = h
		defer h.Close()
	}
	d.line("reset", "-", E{"n": nsubs, "mode": mode, "h": useHandler})
	for _, n := range names {
		d.subscribe(n, 100*factor)
	}
	change := func(st c10Step) {
		if st.A == "sub" {
			d.subscribe(st.S, 100*factor)
		} else {
			d.subPub.Unsubscribe(d.subs[st.S])
		}
		d.line(st.A, st.S, nil)
	}
	// mode "callback": the changes that follow a Deliver in the schedule are made from inside that delivery's callback
	pending := map[string][]c10Step{}
	inline := map[int]bool{}
	if mode == "callback" {
		last := ""
		for i, st := range sc.Steps {
			switch st.A {
			case "deliver":
				last = st.S
			case "sub", "unsub":
				if last != "" {
					pending[last] = append(pending[last], st)
					inline[i] = true
				}
			}
		}
		d.inCb = func(name string) {
			for _, st := range pending[name] {
				change(st)
			}
			pending[name] = nil
		}
	}
	done := make(chan struct{})
	state := "idle" // idle | snap | deliver | returned | lost
	advance := func() {
		d.release <- struct{}{}
		select {
		case p := <-d.arrive:
			state = p
		case <-done:
			state = "returned"
		case <-time.After(5 * time.Second):
			state = "lost"
		}
	}
	for i, st := range sc.Steps {
		switch st.A {
		case "start":
			d.gated = true
			go func() {
				d.pubGid = gid()
				pub.Publish(100)
				d.gated = false
				close(done)
			}()
			select {
			case p := <-d.arrive:
				state = p
			case <-done:
				state = "returned"
			case <-time.After(5 * time.Second):
				state = "lost"
			}
			if state == "snap" {
				d.line("start", "-", nil)
			}
		case "deliver":
			// the model's Deliver = the segment from the hook in front of the element to the next stop
			if state == "snap" {
				advance()
			}
			if state == "deliver" {
				advance() // the callback writes its own line (and, in callback mode, makes the changes that follow)
				if d.handler != nil { // posted to the handler: the step is complete when the callback has run there
					select {
					case <-d.delivered:
					case <-time.After(5 * time.Second):
					}
				}
			}
		case "sub", "unsub":
			if !inline[i] {
				change(st)
			}
		case "end":
			for k := 0; k < 8 && (state == "snap" || state == "deliver"); k++ { // whatever the real call still does is written down
				advance()
			}
			if state == "lost" || !d.settle() {
				d.line("lost", "-", E{"why": "the publishing goroutine neither reached a hook point nor returned (or the handler stopped running what is posted)"})
				return
			}
		}
	}
	d.inCb = nil
	d.gated = false
	// the registered list after the call = what a second Publish delivers, in order
	d.fin = []string{}
	d.second = true
	pub.Publish(200)
	d.settle()
	d.second = false
	d.line("end", "-", E{"final": d.fin})
}

func c10Direct(args []string) error {
	in := flagVal(args, "in", "")
	nsubs := flagInt(args, "nsubs", 3)
	w, err := newNDWriter(flagVal(args, "out", "c10.direct.ndjson"))
	if err != nil {
		return err
	}
	defer w.close()
	d := &c10Director{w: w, arrive: make(chan string), release: make(chan struct{})}
	fpgo.VerifHook = d.hook
	defer func() { fpgo.VerifHook = nil }()
	n := 0
	err = readLines(in, func(line []byte) error {
		var sc c10Sched
		if len(line) > 0 && line[0] == '"' {
			var s string
			if err := json.Unmarshal(line, &s); err != nil {
				return err
			}
			line = []byte(s)
		}
		if err := json.Unmarshal(line, &sc); err != nil {
			return err
		}
		n++
		d.one(&sc, nsubs, "other", false, false)
		d.one(&sc, nsubs, "callback", false, false)
		if n%3 == 0 {
			d.one(&sc, nsubs, "other", true, false)
			d.one(&sc, nsubs, "callback", true, false)
		}
		// SubscribeOn: every delivery is posted to a handler and must run there, exactly once, the same subscriptions
		if n%2 == 0 {
			d.one(&sc, nsubs, "other", n%4 == 0, true)
		} else {
			d.one(&sc, nsubs, "callback", n%4 == 1, true)
		}
		return nil
	})
	if err != nil {
		return err
	}
	fmt.Printf("{\"schedules\":%d,\"runs\":%d,\"lines\":%d}\n", n, d.run, d.lines)
	return nil
}
