//go:build verif

package main

import (
	"sync"
)

// recorder: events of one concurrent run; the sequence number is taken under the same mutex that
// appends the event, so the file order is a real-time order of the logging points.
type recorder struct {
	mu  sync.Mutex
	seq int
	evs []map[string]interface{}
}

func (r *recorder) ev(m map[string]interface{}) int {
	r.mu.Lock()
	r.seq++
	m["seq"] = r.seq
	r.evs = append(r.evs, m)
	n := r.seq
	r.mu.Unlock()
	return n
}

// evf: the event is BUILT under the recorder's mutex, so state read into it (lengths, counts) is ordered with the log
func (r *recorder) evf(build func() map[string]interface{}) int {
	r.mu.Lock()
	m := build()
	r.seq++
	m["seq"] = r.seq
	r.evs = append(r.evs, m)
	n := r.seq
	r.mu.Unlock()
	return n
}

func (r *recorder) flush(w *ndWriter) int {
	r.mu.Lock()
	defer r.mu.Unlock()
	for _, e := range r.evs {
		w.write(e)
	}
	n := len(r.evs)
	r.evs = nil
	return n
}

type E = map[string]interface{}
