//go:build verif

package main

import (
	"encoding/json"
	"fmt"
	"reflect"

	fpgo "github.com/TeaEntityLab/fpGo/v2"
)

// C01 — Maybe.  Vocabulary shared with Maybe.tla: the driver owns the table name -> Go value and
// projects each observer's result; whether v is absent is NOT computed here (it comes with the descriptor).

func init() { commands["c01"] = c01Main }

type c01Desc struct {
	Name        string `json:"name"`
	Kind        string `json:"kind"`
	Absent      bool   `json:"absent"`
	Ptr         bool   `json:"ptr"`
	Nest        int    `json:"nest"`
	InnerAbsent bool   `json:"innerAbsent"`
	SameT       bool   `json:"sameT"`
}
type c01Case struct {
	V    c01Desc `json:"v"`
	Ctor string  `json:"ctor"`
	Obs  string  `json:"obs"`
}

type c01Val struct {
	just, justG reflect.Value // the two Maybes
	v, alt      interface{}
	wrapG       func(x interface{}) reflect.Value // JustGenerics[T](x.(T))
}

type c01S struct{ A int }

func ent[T any](v T, alt T) func() c01Val {
	return func() c01Val {
		return c01Val{just: reflect.ValueOf(fpgo.Maybe.Just(v)), justG: reflect.ValueOf(fpgo.JustGenerics[T](v)), v: v, alt: alt,
			wrapG: func(x interface{}) reflect.Value {
				if x == nil {
					var z T
					return reflect.ValueOf(fpgo.JustGenerics[T](z))
				}
				return reflect.ValueOf(fpgo.JustGenerics[T](x.(T)))
			}}
	}
}

var c01Table map[string]func() c01Val

func c01Init() {
	x, y := 5, 6
	px, py := &x, &y
	var np *int
	var nps *c01S
	var npp **int
	pnp := &np
	sl := []int{1, 2}
	c01Table = map[string]func() c01Val{
		"nilU":  ent[interface{}](nil, "alt"),
		"boolT": ent(true, false), "boolF": ent(false, true), "int0": ent(0, 9), "int5": ent(5, 9),
		"int8v": ent(int8(5), int8(9)), "int16v": ent(int16(5), int16(9)), "int32v": ent(int32(5), int32(9)), "int64v": ent(int64(5), int64(9)),
		"uintv": ent(uint(5), uint(9)), "uint8v": ent(uint8(5), uint8(9)), "uint16v": ent(uint16(5), uint16(9)), "uint32v": ent(uint32(5), uint32(9)),
		"uint64v": ent(uint64(5), uint64(9)), "uintptrv": ent(uintptr(5), uintptr(9)), "f32": ent(float32(1.5), float32(9)), "f64": ent(1.5, 9.0),
		"str": ent("hi", "alt"), "strEmpty": ent("", "alt"), "strNilText": ent("<nil>", "alt"), "structV": ent(c01S{1}, c01S{9}),
		"sliceV": ent([]int{1}, []int{9}), "sliceNil": ent([]int(nil), []int{9}), "mapV": ent(map[string]int{"a": 1}, map[string]int{"z": 9}),
		"mapNil": ent(map[string]int(nil), map[string]int{"z": 9}), "funcV": ent(func() {}, func() {}), "funcNil": ent((func())(nil), func() {}),
		"chanV": ent(make(chan int), make(chan int)), "chanNil": ent((chan int)(nil), make(chan int)), "arrayV": ent([2]int{1, 2}, [2]int{9, 9}),
		"complexV":  ent(complex(1, 2), complex(9, 9)),
		"nilPtrInt": ent(np, py), "nilPtrStruct": ent(nps, &c01S{9}), "nilPtrPtr": ent(npp, &py),
		"ptrInt": ent(px, py), "ptrStruct": ent(&c01S{1}, &c01S{9}), "ptrPtr": ent(&px, &py), "ptrToNilPtr": ent(pnp, &py), "ptrSlice": ent(&sl, &[]int{9}),
		"maybeInt":    ent[fpgo.MaybeDef[interface{}]](fpgo.Maybe.Just(5), fpgo.Maybe.Just(9)),
		"maybeMaybe":  ent[fpgo.MaybeDef[interface{}]](fpgo.Maybe.Just(fpgo.Maybe.Just(5)), fpgo.Maybe.Just(9)),
		"noneV":       ent[fpgo.MaybeDef[interface{}]](fpgo.None, fpgo.Maybe.Just(9)),
		"maybeNilPtr": ent[fpgo.MaybeDef[interface{}]](fpgo.JustGenerics[interface{}](np), fpgo.Maybe.Just(9)),
		"maybeGenInt": ent[fpgo.MaybeDef[int]](fpgo.JustGenerics(5), fpgo.JustGenerics(9)),
	}
}

// sameVal: is b "the same value" as a (identity for reference kinds, == for comparable ones)
func sameVal(a, b interface{}) (same bool) {
	defer func() {
		if recover() != nil {
			same = false
		}
	}()
	if a == nil || b == nil {
		return a == nil && b == nil
	}
	ra, rb := reflect.ValueOf(a), reflect.ValueOf(b)
	if ra.Type() != rb.Type() {
		return false
	}
	switch ra.Kind() {
	case reflect.Slice, reflect.Map, reflect.Func, reflect.Chan, reflect.Ptr, reflect.UnsafePointer:
		if ra.IsNil() || rb.IsNil() {
			return ra.IsNil() && rb.IsNil()
		}
		return ra.Pointer() == rb.Pointer()
	}
	if ra.Type().Comparable() {
		return a == b
	}
	return reflect.DeepEqual(a, b)
}

func call(m reflect.Value, name string, args ...reflect.Value) []reflect.Value {
	meth := m.MethodByName(name)
	if !meth.IsValid() {
		panic("method missing: " + name)
	}
	return meth.Call(args)
}

func ifaceOf(v reflect.Value) interface{} {
	if !v.IsValid() {
		return nil
	}
	if (v.Kind() == reflect.Interface || v.Kind() == reflect.Ptr) && v.IsNil() && v.Kind() == reflect.Interface {
		return nil
	}
	return v.Interface()
}

// nestOf: how many Maybe layers x is (0 = not a Maybe)
func nestOf(x interface{}) int {
	if x == nil {
		return 0
	}
	rv := reflect.ValueOf(x)
	if !rv.MethodByName("ToMaybe").IsValid() || !rv.MethodByName("IsPresent").IsValid() {
		return 0
	}
	if rv.MethodByName("IsNil").Call(nil)[0].Bool() {
		return 1
	}
	return 1 + nestOf(ifaceOf(rv.MethodByName("Unwrap").Call(nil)[0]))
}

type c01Out struct {
	K string      `json:"k"`
	V interface{} `json:"v"`
}

func c01Exec(c *c01Case) (out c01Out) {
	e := c01Table[c.V.Name]()
	m := e.just
	wrap := func(x interface{}) reflect.Value { return reflect.ValueOf(fpgo.Maybe.Just(x)) }
	if c.Ctor == "JustGenerics" {
		m = e.justG
		wrap = e.wrapG
	}
	defer func() {
		if p := recover(); p != nil {
			out = c01Out{"panic", fmt.Sprint(p)}
		}
	}()
	argOf := func(x interface{}, t reflect.Type) reflect.Value {
		if x == nil {
			return reflect.Zero(t)
		}
		return reflect.ValueOf(x)
	}
	switch c.Obs {
	case "IsNil", "IsPresent", "IsPtr", "IsValid":
		return c01Out{"bool", call(m, c.Obs)[0].Bool()}
	case "Kind":
		return c01Out{"str", call(m, "Kind")[0].Interface().(reflect.Kind).String()}
	case "IsType":
		return c01Out{"bool", call(m, "IsType", reflect.ValueOf(reflect.TypeOf(0)))[0].Bool()}
	case "IsKind":
		return c01Out{"bool", call(m, "IsKind", reflect.ValueOf(reflect.Int))[0].Bool()}
	case "Unwrap", "ToPtr":
		call(m, c.Obs)
		return c01Out{"str", "returned"}
	case "Or":
		pt := m.MethodByName("Or").Type().In(0)
		r := ifaceOf(call(m, "Or", argOf(e.alt, pt))[0])
		switch {
		case sameVal(r, e.alt):
			return c01Out{"str", "fallback"}
		case sameVal(r, e.v):
			return c01Out{"str", "self"}
		}
		return c01Out{"str", "other"}
	case "Let":
		n := 0
		call(m, "Let", reflect.ValueOf(func() { n++ }))
		return c01Out{"int", n}
	case "UnwrapInterface":
		if ifaceOf(call(m, "UnwrapInterface")[0]) == nil {
			return c01Out{"str", "nil"}
		}
		return c01Out{"str", "nonnil"}
	case "Type":
		if call(m, "Type")[0].IsNil() {
			return c01Out{"str", "nil"}
		}
		return c01Out{"str", "nonnil"}
	case "ToString":
		return c01Out{"str", call(m, "ToString")[0].String()}
	case "FlatMap", "FlatMapJust", "FlatMapAssoc":
		ft := m.MethodByName("FlatMap").Type().In(0) // func(T) MaybeDef[T]
		mk := func(f func(x interface{}) reflect.Value) reflect.Value {
			return reflect.MakeFunc(ft, func(in []reflect.Value) []reflect.Value {
				r := f(ifaceOf(in[0]))
				return []reflect.Value{r.Convert(ft.Out(0))}
			})
		}
		switch c.Obs {
		case "FlatMap":
			calls, argSame := 0, "other"
			fres := wrap(e.alt)
			r := call(m, "FlatMap", mk(func(x interface{}) reflect.Value {
				calls++
				if sameVal(x, e.v) {
					argSame = "self"
				} else if x == nil {
					argSame = "nil"
				}
				return fres
			}))[0]
			res := "other"
			if ri := ifaceOf(r); ri != nil && sameVal(ifaceOf(reflect.ValueOf(ri).MethodByName("Unwrap").Call(nil)[0]), e.alt) {
				res = "fresult"
			}
			return c01Out{"tuple", []interface{}{calls, argSame, res}}
		case "FlatMapJust":
			r := reflect.ValueOf(ifaceOf(call(m, "FlatMap", mk(func(x interface{}) reflect.Value { return wrap(x) }))[0]))
			same := "other"
			if sameVal(ifaceOf(r.MethodByName("Unwrap").Call(nil)[0]), e.v) {
				same = "self"
			}
			return c01Out{"tuple", []interface{}{r.MethodByName("IsNil").Call(nil)[0].Bool(), same}}
		default: // associativity
			side := func(leftAssoc bool) string {
				log := ""
				f := func(x interface{}) reflect.Value { log += "f;"; return wrap(e.alt) }
				g := func(x interface{}) reflect.Value {
					if sameVal(x, e.alt) {
						log += "g(alt);"
					} else {
						log += "g(?);"
					}
					return wrap(e.v)
				}
				var r reflect.Value
				if leftAssoc {
					r1 := reflect.ValueOf(ifaceOf(call(m, "FlatMap", mk(f))[0]))
					r = r1.MethodByName("FlatMap").Call([]reflect.Value{mk(g)})[0]
				} else {
					r = call(m, "FlatMap", mk(func(x interface{}) reflect.Value {
						r1 := reflect.ValueOf(ifaceOf(f(x)))
						return r1.MethodByName("FlatMap").Call([]reflect.Value{mk(g)})[0]
					}))[0]
				}
				rr := reflect.ValueOf(ifaceOf(r))
				return fmt.Sprintf("%sabsent=%v;self=%v", log, rr.MethodByName("IsNil").Call(nil)[0].Bool(),
					sameVal(ifaceOf(rr.MethodByName("Unwrap").Call(nil)[0]), e.v))
			}
			return c01Out{"tuple", []interface{}{side(true), side(false)}}
		}
	case "ToMaybe":
		r := reflect.ValueOf(ifaceOf(call(m, "ToMaybe")[0]))
		absent := r.MethodByName("IsNil").Call(nil)[0].Bool()
		depth := 0
		if !absent {
			depth = nestOf(ifaceOf(r.MethodByName("Unwrap").Call(nil)[0]))
		}
		return c01Out{"tuple", []interface{}{absent, depth}}
	case "Clone":
		r := reflect.ValueOf(ifaceOf(call(m, "Clone")[0]))
		if r.MethodByName("IsNil").Call(nil)[0].Bool() {
			return c01Out{"str", "absent"}
		}
		rv := ifaceOf(r.MethodByName("Unwrap").Call(nil)[0])
		if c.V.Ptr {
			a, b := reflect.ValueOf(e.v), reflect.ValueOf(rv)
			if b.Kind() != reflect.Ptr || b.IsNil() {
				return c01Out{"str", "notequal"}
			}
			if a.Pointer() == b.Pointer() {
				return c01Out{"str", "equal-shared"}
			}
			if reflect.DeepEqual(a.Elem().Interface(), b.Elem().Interface()) {
				return c01Out{"str", "equal-distinct"}
			}
			return c01Out{"str", "notequal"}
		}
		if sameVal(rv, e.v) || reflect.DeepEqual(rv, e.v) {
			return c01Out{"str", "equal"}
		}
		if reflect.ValueOf(e.v).Kind() == reflect.Func { // funcs are not comparable: same code pointer is the best observable
			return c01Out{"str", "equal"}
		}
		return c01Out{"str", "notequal"}
	default: // numeric / bool conversions: only the error class matters here (C02 decides the values)
		rs := call(m, c.Obs)
		switch ifaceOf(rs[1]) {
		case nil:
			return c01Out{"str", "none"}
		case fpgo.ErrConversionNil:
			return c01Out{"str", "nil"}
		case fpgo.ErrConversionUnsupported:
			return c01Out{"str", "unsupported"}
		case fpgo.ErrConversionSizeOverflow:
			return c01Out{"str", "overflow"}
		}
		return c01Out{"str", "other"}
	}
}

func c01Main(args []string) error {
	c01Init()
	switch args[0] {
	case "exec":
		w, err := newNDWriter(flagVal(args, "out", "c01.trace.ndjson"))
		if err != nil {
			return err
		}
		defer w.close()
		n := 0
		for _, f := range args[1:] {
			if f == "--out" {
				break
			}
			err := readLines(f, func(b []byte) error {
				var c c01Case
				if err := json.Unmarshal(b, &c); err != nil {
					return err
				}
				w.write(map[string]interface{}{"v": c.V, "ctor": c.Ctor, "obs": c.Obs, "out": c01Exec(&c)})
				n++
				return nil
			})
			if err != nil {
				return err
			}
		}
		fmt.Printf("{\"events\":%d}\n", n)
		return nil
	}
	return fmt.Errorf("c01: exec")
}
