//go:build verif

package main

import (
	"bufio"
	"encoding/json"
	"fmt"
	"os"
	"strconv"
	"sync"
	"time"
)

// Res is the tagged result record shared with the TLA+ modules ([k |-> kind, v |-> int]).
type Res struct {
	K string `json:"k"`
	V int    `json:"v"`
}

type ndWriter struct {
	f *os.File
	w *bufio.Writer
	n int
}

func newNDWriter(path string) (*ndWriter, error) {
	f, err := os.Create(path)
	if err != nil {
		return nil, err
	}
	return &ndWriter{f: f, w: bufio.NewWriterSize(f, 1<<20)}, nil
}

func (w *ndWriter) write(v interface{}) {
	b, err := json.Marshal(v)
	if err != nil {
		panic(err)
	}
	w.w.Write(b)
	w.w.WriteByte('\n')
	w.n++
}

func (w *ndWriter) close() {
	w.w.Flush()
	w.f.Close()
}

// readLines calls fn for every non-empty line of an ndjson file.
func readLines(path string, fn func(line []byte) error) error {
	f, err := os.Open(path)
	if err != nil {
		return err
	}
	defer f.Close()
	sc := bufio.NewScanner(f)
	sc.Buffer(make([]byte, 1<<20), 1<<28)
	for sc.Scan() {
		b := sc.Bytes()
		if len(b) == 0 {
			continue
		}
		if err := fn(b); err != nil {
			return err
		}
	}
	return sc.Err()
}

// unquoteTLA undoes the quoting of a TLA+ string printed by CSVWrite("%1$s", <<ToJson(x)>>, f).
func unquoteTLA(b []byte) ([]byte, error) {
	if len(b) > 0 && b[0] == '"' {
		var s string
		if err := json.Unmarshal(b, &s); err != nil {
			return nil, err
		}
		return []byte(s), nil
	}
	return b, nil
}

func envInt(name string, def int) int {
	if s := os.Getenv(name); s != "" {
		if n, err := strconv.Atoi(s); err == nil {
			return n
		}
	}
	return def
}

func flagVal(args []string, name, def string) string {
	for i := 0; i+1 < len(args); i++ {
		if args[i] == "--"+name {
			return args[i+1]
		}
	}
	return def
}

func flagInt(args []string, name string, def int) int {
	s := flagVal(args, name, "")
	if s == "" {
		return def
	}
	n, err := strconv.Atoi(s)
	if err != nil {
		panic(fmt.Sprintf("bad --%s %q", name, s))
	}
	return n
}

func intsEqual(a, b []int) bool {
	if len(a) != len(b) {
		return false
	}
	for i := range a {
		if a[i] != b[i] {
			return false
		}
	}
	return true
}

// ---------------------------------------------------------------- watchdog
// A library call that never returns (e.g. a walk over a cyclic list) cannot be recovered inside
// the process.  Drivers call wdSet before each unit of work; if one unit runs longer than the
// limit the watchdog prints {"hang": <description>} on stdout and exits with status 4, and the
// runner restarts the driver with that unit on its skip list (the hang itself is the observation).
var wd struct {
	mu    sync.Mutex
	desc  func() string
	since time.Time
}

func wdSet(desc func() string) {
	wd.mu.Lock()
	wd.desc = desc
	wd.since = time.Now()
	wd.mu.Unlock()
}

func wdStart(limit time.Duration) {
	go func() {
		for {
			time.Sleep(limit / 4)
			wd.mu.Lock()
			d, since := wd.desc, wd.since
			wd.mu.Unlock()
			if d != nil && time.Since(since) > limit {
				fmt.Printf("{\"hang\":%s}\n", d())
				os.Exit(4)
			}
		}
	}()
}

func readAll(path string) ([]byte, error) { return os.ReadFile(path) }
