//go:build verif

package main

import (
	"encoding/json"
	"fmt"
	"math"
	"math/big"
	"math/rand"
	"reflect"
	"sort"
	"strings"

	fpgo "github.com/TeaEntityLab/fpGo/v2"
)

// C02 — Maybe numeric conversions.  Vocabulary shared with NumConv.tla: numbers are symbolic points
// (anchor, d / rel); this file is the concretisation table (math/big) and the projection of the real
// result to a value class: "same" (mathematically the expected number, nil error), "different"
// (another number with a nil error), "err", "panic".

func init() { commands["c02"] = c02Main }

type c02Case struct {
	Src  string `json:"src"`
	Kind string `json:"kind"`
	A    string `json:"a"`
	D    int    `json:"d"`
	Rel  string `json:"rel"`
	Tgt  string `json:"tgt"`
}

var c02Anchors = map[string]*big.Int{}

func init() {
	set := func(n, s string) { v, _ := new(big.Int).SetString(s, 10); c02Anchors[n] = v }
	set("MinI64", "-9223372036854775808")
	set("MinI32", "-2147483648")
	set("MinI16", "-32768")
	set("MinI8", "-128")
	set("Zero", "0")
	set("MaxI8", "127")
	set("MaxU8", "255")
	set("MaxI16", "32767")
	set("MaxU16", "65535")
	set("MaxI32", "2147483647")
	set("MaxU32", "4294967295")
	set("MaxI64", "9223372036854775807")
	set("MaxU64", "18446744073709551615")
}

func c02IntPoint(a string, d int) *big.Int {
	return new(big.Int).Add(c02Anchors[a], big.NewInt(int64(d)))
}

func c02MkInt(t string, v *big.Int) interface{} {
	switch t {
	case "int":
		return int(v.Int64())
	case "int8":
		return int8(v.Int64())
	case "int16":
		return int16(v.Int64())
	case "int32":
		return int32(v.Int64())
	case "int64":
		return v.Int64()
	case "uint":
		return uint(v.Uint64())
	case "uint8":
		return uint8(v.Uint64())
	case "uint16":
		return uint16(v.Uint64())
	case "uint32":
		return uint32(v.Uint64())
	case "uint64":
		return v.Uint64()
	case "uintptr":
		return uintptr(v.Uint64())
	}
	panic(t)
}

// float point -> Go float of type ft and its exact value
func c02MkFloat(ft, a, rel string) (interface{}, *big.Float) {
	av := new(big.Float).SetPrec(200).SetInt(c02Anchors[a])
	f64, _ := av.Float64()
	if ft == "float32" {
		f := float32(f64)
		cmp := new(big.Float).SetFloat64(float64(f)).Cmp(av)
		switch rel {
		case "m1":
			f = float32(f64 - 1)
		case "mh":
			f = float32(f64 - 0.5)
		case "ph":
			f = float32(f64 + 0.5)
		case "p1":
			f = float32(f64 + 1)
		case "below":
			if cmp >= 0 {
				f = math.Nextafter32(f, float32(math.Inf(-1)))
			}
		case "above":
			if cmp <= 0 {
				f = math.Nextafter32(f, float32(math.Inf(1)))
			}
		}
		return f, new(big.Float).SetPrec(200).SetFloat64(float64(f))
	}
	x := f64
	cmp := new(big.Float).SetFloat64(x).Cmp(av)
	switch rel {
	case "m1":
		x = f64 - 1
	case "mh":
		x = f64 - 0.5
	case "ph":
		x = f64 + 0.5
	case "p1":
		x = f64 + 1
	case "below":
		if cmp >= 0 {
			x = math.Nextafter(x, math.Inf(-1))
		}
	case "above":
		if cmp <= 0 {
			x = math.Nextafter(x, math.Inf(1))
		}
	}
	return x, new(big.Float).SetPrec(200).SetFloat64(x)
}

func roundHalfAway(x *big.Float) *big.Int {
	half := big.NewFloat(0.5)
	y := new(big.Float).SetPrec(200)
	if x.Sign() >= 0 {
		y.Add(x, half)
	} else {
		y.Sub(x, half)
	}
	i, _ := y.Int(nil)
	return i
}

var c02Method = map[string]string{"int": "ToInt", "int8": "ToInt8", "int16": "ToInt16", "int32": "ToInt32", "int64": "ToInt64",
	"uint": "ToUint", "uint8": "ToUint8", "uint16": "ToUint16", "uint32": "ToUint32", "uint64": "ToUint64", "uintptr": "ToUintptr",
	"float32": "ToFloat32", "float64": "ToFloat64", "bool": "ToBool"}

type unsupS struct{ A int }

// concretise: the Go source value, its exact mathematical value (nil for NaN/Inf/non-numbers), and
// for integer targets the exact integer the statement asks for (float sources rounded half away from zero)
func c02Concretise(c *c02Case) (val interface{}, exact *big.Float, isNaN bool, inf int) {
	switch c.Kind {
	case "int":
		p := c02IntPoint(c.A, c.D)
		return c02MkInt(c.Src, p), new(big.Float).SetPrec(200).SetInt(p), false, 0
	case "float":
		v, bf := c02MkFloat(c.Src, c.A, c.Rel)
		return v, bf, false, 0
	case "halfbelow", "nhalfbelow", "odd52", "nodd52":
		f := map[string]float64{"halfbelow": 0.49999999999999994, "nhalfbelow": -0.49999999999999994, "odd52": 4503599627370497, "nodd52": -4503599627370497}[c.Kind]
		return f, new(big.Float).SetPrec(200).SetFloat64(f), false, 0
	case "strlead0":
		txt := []string{"010", "-0755", "000123", "+7", "007", "0000", "-00", "08"}[c.D]
		bf, _, err := big.ParseFloat(strings.TrimPrefix(txt, "+"), 10, 300, big.ToNearestEven)
		if err != nil {
			panic(err)
		}
		return txt, bf, false, 0
	case "strfloatbig":
		txt := []string{"3e9", "2147483648.0", "-2147483649.0", "1e30", "Inf", "NaN"}[c.D]
		switch txt {
		case "Inf":
			return txt, nil, false, 1
		case "NaN":
			return txt, nil, true, 0
		}
		bf, _, err := big.ParseFloat(txt, 10, 300, big.ToNearestEven)
		if err != nil {
			panic(err)
		}
		return txt, bf, false, 0
	case "nan", "pinf", "ninf", "negzero", "huge", "nhuge":
		var f float64
		switch c.Kind {
		case "nan":
			f, isNaN = math.NaN(), true
		case "pinf":
			f, inf = math.Inf(1), 1
		case "ninf":
			f, inf = math.Inf(-1), -1
		case "negzero":
			f = math.Copysign(0, -1)
		case "huge":
			f = 1e300
		case "nhuge":
			f = -1e300
		}
		if !isNaN && inf == 0 {
			exact = new(big.Float).SetPrec(200).SetFloat64(f)
		}
		if c.Src == "float32" {
			return float32(f), exact, isNaN, inf
		}
		return f, exact, isNaN, inf
	case "bool":
		return c.D == 1, new(big.Float).SetPrec(200).SetInt64(int64(c.D)), false, 0
	case "strint":
		p := c02IntPoint(c.A, c.D)
		return p.String(), new(big.Float).SetPrec(200).SetInt(p), false, 0
	case "strfloat":
		if c.D == 0 {
			return "1.5", big.NewFloat(1.5), false, 0
		}
		if c.D == 1 {
			return "1e3", big.NewFloat(1000), false, 0
		}
		// a hair above / below the midpoint of two adjacent float32 values (2^24+1, 2^24+3, 1+2^-24) and of two adjacent
		// float64 values (2^53+1): parsing to float64 first and narrowing afterwards rounds twice and picks the wrong neighbour
		txt := []string{"16777217.0000000000001", "16777216.9999999999999", "16777219.0000000000001", "16777218.9999999999999",
			"1.0000000596046447753906250000000001", "1.0000000596046447753906249999999999",
			"9007199254740993.0000000000000001", "9007199254740992.9999999999999999"}[c.D-2]
		bf, _, err := big.ParseFloat(txt, 10, 300, big.ToNearestEven)
		if err != nil {
			panic(err)
		}
		return txt, bf, false, 0
	case "strbad":
		if c.D == 0 {
			return "abc", nil, false, 0
		}
		return "", nil, false, 0
	case "unsupported":
		switch c.Src {
		case "struct":
			return unsupS{1}, nil, false, 0
		case "slice":
			return []int{1}, nil, false, 0
		case "map":
			return map[string]int{"a": 1}, nil, false, 0
		case "func":
			return func() {}, nil, false, 0
		case "chan":
			return make(chan int), nil, false, 0
		}
		return complex(1, 2), nil, false, 0
	}
	panic("kind " + c.Kind)
}

func c02Justs(val interface{}) []interface{} {
	ms := []interface{}{fpgo.Maybe.Just(val)}
	switch v := val.(type) { // the generic constructor with the static type
	case int:
		ms = append(ms, fpgo.JustGenerics(v))
	case int8:
		ms = append(ms, fpgo.JustGenerics(v))
	case int16:
		ms = append(ms, fpgo.JustGenerics(v))
	case int32:
		ms = append(ms, fpgo.JustGenerics(v))
	case int64:
		ms = append(ms, fpgo.JustGenerics(v))
	case uint:
		ms = append(ms, fpgo.JustGenerics(v))
	case uint8:
		ms = append(ms, fpgo.JustGenerics(v))
	case uint16:
		ms = append(ms, fpgo.JustGenerics(v))
	case uint32:
		ms = append(ms, fpgo.JustGenerics(v))
	case uint64:
		ms = append(ms, fpgo.JustGenerics(v))
	case uintptr:
		ms = append(ms, fpgo.JustGenerics(v))
	case float32:
		ms = append(ms, fpgo.JustGenerics(v))
	case float64:
		ms = append(ms, fpgo.JustGenerics(v))
	case bool:
		ms = append(ms, fpgo.JustGenerics(v))
	case string:
		ms = append(ms, fpgo.JustGenerics(v))
	}
	return ms
}

// c02Classify: value class of (got, err) against the expected number for the target
func c02Run(c *c02Case, m interface{}) (res, errk string, gotTxt string) {
	val, exact, isNaN, inf := c02Concretise(c)
	_ = val
	var out []reflect.Value
	func() {
		defer func() {
			if r := recover(); r != nil {
				out = nil
			}
		}()
		meth := reflect.ValueOf(m).MethodByName(c02Method[c.Tgt])
		if !meth.IsValid() {
			panic("no method")
		}
		out = meth.Call(nil)
	}()
	if out == nil {
		return "panic", "-", ""
	}
	if e := out[1].Interface(); e != nil {
		switch e {
		case fpgo.ErrConversionUnsupported:
			return "err", "unsupported", ""
		case fpgo.ErrConversionSizeOverflow:
			return "err", "overflow", ""
		case fpgo.ErrConversionNil:
			return "err", "nil", ""
		}
		return "err", "other", ""
	}
	rv := out[0]
	gotTxt = fmt.Sprint(rv.Interface())
	same := false
	switch {
	case c.Tgt == "bool":
		want := isNaN || inf != 0 || (exact != nil && exact.Sign() != 0) // value != 0 (NaN != 0 is true)
		same = rv.Bool() == want
	case c.Tgt == "float32" || c.Tgt == "float64":
		g := rv.Float()
		switch {
		case isNaN:
			same = math.IsNaN(g)
		case inf != 0:
			same = math.IsInf(g, inf)
		case exact == nil:
			same = false
		default: // nearest representable value: Go's own conversion of the exact value
			w, _ := exact.Float64()
			if c.Tgt == "float32" {
				w32, _ := exact.Float32()
				same = float32(g) == w32 && !math.IsInf(float64(w32), 0)
			} else {
				same = g == w
			}
			if c.Kind == "negzero" {
				same = g == 0
			}
		}
	default:
		if exact == nil {
			return "different", "nil", gotTxt
		}
		want := roundHalfAway(exact)
		var got *big.Int
		if rv.Kind() >= reflect.Int && rv.Kind() <= reflect.Int64 {
			got = big.NewInt(rv.Int())
		} else {
			got = new(big.Int).SetUint64(rv.Uint())
		}
		same = got.Cmp(want) == 0
	}
	if same {
		return "same", "nil", gotTxt
	}
	return "different", "nil", gotTxt
}

func c02Main(args []string) error {
	switch args[0] {
	case "exec":
		w, err := newNDWriter(flagVal(args, "out", "c02.trace.ndjson"))
		if err != nil {
			return err
		}
		defer w.close()
		n := 0
		run := func(c c02Case) {
			val, _, _, _ := c02Concretise(&c)
			for i, m := range c02Justs(val) {
				res, errk, got := c02Run(&c, m)
				w.write(map[string]interface{}{"case": c, "ctor": []string{"Just", "JustGenerics"}[i], "res": res, "errk": errk, "got": got, "val": fmt.Sprint(val)})
				n++
			}
		}
		var strCases []c02Case
		for _, f := range args[1:] {
			if f == "--out" {
				break
			}
			err := readLines(f, func(b []byte) error {
				var c c02Case
				if err := json.Unmarshal(b, &c); err != nil {
					return err
				}
				run(c)
				if c.Src == "string" {
					strCases = append(strCases, c)
				}
				return nil
			})
			if err != nil {
				return err
			}
		}
		// a conversion depends on its own input only, not on what the process converted before: the string cases once more in two
		// other orders (reversed; widest target first for every text), so that the same text meets the targets wide-to-narrow and back
		for i := len(strCases) - 1; i >= 0; i-- {
			run(strCases[i])
		}
		width := map[string]int{"uint64": 0, "int64": 0, "uintptr": 0, "uint": 1, "int": 1, "float64": 1, "uint32": 2, "int32": 2, "float32": 2, "uint16": 3, "int16": 3, "uint8": 4, "int8": 4, "bool": 5}
		sort.SliceStable(strCases, func(a, b int) bool { return width[strCases[a].Tgt] < width[strCases[b].Tgt] })
		for _, c := range strCases {
			run(c)
		}
		fmt.Printf("{\"events\":%d}\n", n)
		return nil
	case "record": // random values of every source type, classified to the nearest symbolic region
		n := flagInt(args, "n", 5000)
		w, err := newNDWriter(flagVal(args, "out", "c02.rand.ndjson"))
		if err != nil {
			return err
		}
		defer w.close()
		rng := rand.New(rand.NewSource(int64(envInt("VERIF_SEED", 1))))
		names := []string{"MinI64", "MinI32", "MinI16", "MinI8", "Zero", "MaxI8", "MaxU8", "MaxI16", "MaxU16", "MaxI32", "MaxU32", "MaxI64", "MaxU64"}
		srcs := []string{"int", "int8", "int16", "int32", "int64", "uint", "uint8", "uint16", "uint32", "uint64", "uintptr"}
		tgts := []string{"int", "int8", "int16", "int32", "int64", "uint", "uint8", "uint16", "uint32", "uint64", "uintptr", "float32", "float64", "bool"}
		cnt := 0
		for cnt < n {
			// a random value strictly between two neighbouring anchors belongs to the region "anchor+1" of the lower anchor
			// as far as the range analysis is concerned (same side of every bound); it is logged as that region
			src := srcs[rng.Intn(len(srcs))]
			i := rng.Intn(len(names) - 1)
			lo, hi := c02Anchors[names[i]], c02Anchors[names[i+1]]
			span := new(big.Int).Sub(hi, lo)
			if span.Cmp(big.NewInt(3)) < 0 {
				continue
			}
			off := new(big.Int).Rand(rng, new(big.Int).Sub(span, big.NewInt(2)))
			v := new(big.Int).Add(lo, new(big.Int).Add(off, big.NewInt(1)))
			c := c02Case{Src: src, Kind: "int", A: names[i], D: 1, Rel: "-", Tgt: tgts[rng.Intn(len(tgts))]}
			// representable in the source type?
			tv := c02MkInt(src, v)
			var back *big.Int
			rv := reflect.ValueOf(tv)
			if rv.Kind() >= reflect.Int && rv.Kind() <= reflect.Int64 {
				back = big.NewInt(rv.Int())
			} else {
				back = new(big.Int).SetUint64(rv.Uint())
			}
			if back.Cmp(v) != 0 {
				continue
			}
			res, errk, got := c02RunValue(&c, tv, v)
			w.write(map[string]interface{}{"case": c, "ctor": "Just", "res": res, "errk": errk, "got": got, "val": v.String()})
			cnt++
		}
		fmt.Printf("{\"events\":%d}\n", cnt)
		return nil
	}
	return fmt.Errorf("c02: exec|record")
}

// c02RunValue: like c02Run but for an arbitrary concrete integer value v (random mode)
func c02RunValue(c *c02Case, val interface{}, v *big.Int) (string, string, string) {
	m := fpgo.Maybe.Just(val)
	var out []reflect.Value
	func() {
		defer func() {
			if r := recover(); r != nil {
				out = nil
			}
		}()
		out = reflect.ValueOf(m).MethodByName(c02Method[c.Tgt]).Call(nil)
	}()
	if out == nil {
		return "panic", "-", ""
	}
	if e := out[1].Interface(); e != nil {
		return "err", "other", ""
	}
	rv := out[0]
	got := fmt.Sprint(rv.Interface())
	same := false
	exact := new(big.Float).SetPrec(200).SetInt(v)
	switch c.Tgt {
	case "bool":
		same = rv.Bool() == (v.Sign() != 0)
	case "float64":
		w, _ := exact.Float64()
		same = rv.Float() == w
	case "float32":
		w, _ := exact.Float32()
		same = float32(rv.Float()) == w
	default:
		var g *big.Int
		if rv.Kind() >= reflect.Int && rv.Kind() <= reflect.Int64 {
			g = big.NewInt(rv.Int())
		} else {
			g = new(big.Int).SetUint64(rv.Uint())
		}
		same = g.Cmp(v) == 0
	}
	if same {
		return "same", "nil", got
	}
	return "different", "nil", got
}
