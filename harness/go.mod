module verifharness

go 1.18

require github.com/TeaEntityLab/fpGo/v2 v2.0.0

replace github.com/TeaEntityLab/fpGo/v2 => /repo
