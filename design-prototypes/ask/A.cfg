SPECIFICATION Spec
CONSTANTS Askers = {"a1","a2","a3"}
 WithTimeout = TRUE
 RK = 0
 CloseReplyOnReturn = TRUE
INVARIANTS Inv_Correlation Inv_NoPanic
CHECK_DEADLOCK FALSE
