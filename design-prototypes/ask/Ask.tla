-------------------------------- MODULE Ask --------------------------------
(* AskOnce / AskOnceWithTimeout / Reply (actor.go l.123-191) over an actor mailbox.
   Askers send a request carrying its own reply channel; the actor replies F(msg). *)
EXTENDS Integers, Sequences, FiniteSets, TLC
CONSTANTS Askers, WithTimeout, RK,      \* RK = capacity of the reply channel (0 in AskNewGenerics)
          CloseReplyOnReturn            \* TRUE: deferred close(ch) in AskOnce* (code today)
VARIABLES mb, apc, got, rch, rclosed, actpc, cur, panicked, served
vars == <<mb, apc, got, rch, rclosed, actpc, cur, panicked, served>>
F(a) == <<"reply", a>>
Init == /\ mb = <<>> /\ apc = [a \in Askers |-> "send"] /\ got = [a \in Askers |-> <<>>]
        /\ rch = [a \in Askers |-> <<>>] /\ rclosed = [a \in Askers |-> FALSE]
        /\ actpc = "recv" /\ cur = "-" /\ panicked = {} /\ served = {}
\* unbuffered actor channel: hand-off to the waiting actor
ASend(a) == /\ apc[a] = "send" /\ actpc = "recv" /\ actpc' = "handling" /\ cur' = a
            /\ apc' = [apc EXCEPT ![a] = "waiting"]
            /\ UNCHANGED <<mb, got, rch, rclosed, panicked, served>>
\* actor: Reply(F(msg)) = send on the request's channel
Reply == /\ actpc = "handling"
         /\ \/ /\ rclosed[cur] /\ panicked' = panicked \cup {"actor"} /\ actpc' = "dead"
               /\ UNCHANGED <<rch, apc, got, served, cur>>
            \/ /\ ~rclosed[cur] /\ apc[cur] = "waiting" /\ RK = 0      \* rendezvous with waiting asker
               /\ got' = [got EXCEPT ![cur] = <<F(cur), "nil">>]
               /\ apc' = [apc EXCEPT ![cur] = "closing"]
               /\ actpc' = "recv" /\ served' = served \cup {cur} /\ cur' = "-"
               /\ UNCHANGED <<rch, panicked>>
            \/ /\ ~rclosed[cur] /\ RK > 0 /\ Len(rch[cur]) < RK
               /\ rch' = [rch EXCEPT ![cur] = Append(@, F(cur))]
               /\ actpc' = "recv" /\ served' = served \cup {cur} /\ cur' = "-"
               /\ UNCHANGED <<apc, got, panicked>>
         /\ UNCHANGED <<mb, rclosed>>
\* actor decides never to reply to this request (the README's negative case)
Skip == /\ actpc = "handling" /\ actpc' = "recv" /\ cur' = "-" /\ UNCHANGED <<mb, apc, got, rch, rclosed, panicked, served>>
RecvBuffered(a) == /\ apc[a] = "waiting" /\ rch[a] # <<>>
                   /\ got' = [got EXCEPT ![a] = <<Head(rch[a]), "nil">>] /\ rch' = [rch EXCEPT ![a] = Tail(@)]
                   /\ apc' = [apc EXCEPT ![a] = "closing"]
                   /\ UNCHANGED <<mb, rclosed, actpc, cur, panicked, served>>
Timeout(a) == /\ WithTimeout /\ apc[a] = "waiting"
              /\ got' = [got EXCEPT ![a] = <<<<"zero", "-">>, "timeout">>] /\ apc' = [apc EXCEPT ![a] = "closing"]
              /\ UNCHANGED <<mb, rch, rclosed, actpc, cur, panicked, served>>
AskerReturn(a) == /\ apc[a] = "closing" /\ apc' = [apc EXCEPT ![a] = "returned"]
                  /\ rclosed' = [rclosed EXCEPT ![a] = CloseReplyOnReturn]
                  /\ UNCHANGED <<mb, got, rch, actpc, cur, panicked, served>>
Next == (\E a \in Askers : ASend(a) \/ RecvBuffered(a) \/ Timeout(a) \/ AskerReturn(a)) \/ Reply \/ Skip
Spec == Init /\ [][Next]_vars
Inv_NoPanic == panicked = {}
Inv_Correlation == \A a \in Askers : got[a] # <<>> => (got[a] = <<F(a), "nil">> \/ got[a] = <<<<"zero", "-">>, "timeout">>)
\* the actor is never stuck forever in Reply: from "handling" some actor step is enabled
Inv_ActorNotStuck == actpc = "handling" => ENABLED (Reply \/ Skip)
ActorBlockedInReply == actpc = "handling" /\ ~ENABLED Reply
=============================================================================
