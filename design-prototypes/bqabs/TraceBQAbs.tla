---- MODULE TraceBQAbs ----
(* Verdict oracle for C07: real inv/res histories of BufferedChannelQueue against the abstract
   two-part FIFO (head part ch, capacity C; overflow part pool, maximum B; silent moves).   *)
EXTENDS Json, TLC, Sequences, Integers, FiniteSets
Trace == ndJsonDeserialize("hist.ndjson")
VARIABLES l, ch, pool, C, B, pend
vars == <<l, ch, pool, C, B, pend>>
Threads == {"p1","p2","c1","c2"}
Idle == [st |-> "idle", op |-> "-", v |-> 0, r |-> "-", rv |-> 0]
Init == l = 1 /\ ch = <<>> /\ pool = <<>> /\ C = 0 /\ B = 0 /\ pend = [t \in Threads |-> Idle]
Bump == TLCSet(1, IF l + 1 > TLCGet(1) THEN l + 1 ELSE TLCGet(1))
Consume ==
  /\ l <= Len(Trace)
  /\ LET e == Trace[l] IN
     \/ /\ e.ev = "reset" /\ ch' = <<>> /\ pool' = <<>> /\ C' = e.c /\ B' = e.b
        /\ pend' = [t \in Threads |-> Idle]
     \/ /\ e.ev = "inv" /\ pend[e.thr].st = "idle"
        /\ pend' = [pend EXCEPT ![e.thr] = [st |-> "inv", op |-> e.op, v |-> e.v, r |-> "-", rv |-> 0]]
        /\ UNCHANGED <<ch, pool, C, B>>
     \/ /\ e.ev = "res" /\ pend[e.thr].st = "done" /\ pend[e.thr].r = e.r
        /\ (e.r = "ok" /\ e.op # "offer") => pend[e.thr].rv = e.v
        /\ pend' = [pend EXCEPT ![e.thr] = Idle]
        /\ UNCHANGED <<ch, pool, C, B>>
     \/ /\ e.ev = "quiesce" /\ ch = <<>> /\ pool = <<>> /\ e.v = 0     \* nothing stranded, Count = 0
        /\ UNCHANGED <<ch, pool, C, B, pend>>
  /\ l' = l + 1 /\ Bump
Done(t, r, rv) == pend' = [pend EXCEPT ![t] = [@ EXCEPT !.st = "done", !.r = r, !.rv = rv]]
Lin(t) ==
  /\ pend[t].st = "inv"
  /\ \/ /\ pend[t].op = "offer" /\ pool = <<>> /\ Len(ch) < C
        /\ ch' = Append(ch, pend[t].v) /\ UNCHANGED pool /\ Done(t, "ok", 0)
     \/ /\ pend[t].op = "offer" /\ ~(pool = <<>> /\ Len(ch) < C) /\ Len(pool) < B
        /\ pool' = Append(pool, pend[t].v) /\ UNCHANGED ch /\ Done(t, "ok", 0)
     \/ /\ pend[t].op = "offer" /\ ~(pool = <<>> /\ Len(ch) < C) /\ Len(pool) >= B
        /\ UNCHANGED <<ch, pool>> /\ Done(t, "full", 0)
     \/ /\ pend[t].op \in {"poll", "take"} /\ ch # <<>>
        /\ ch' = Tail(ch) /\ UNCHANGED pool /\ Done(t, "ok", Head(ch))
     \/ /\ pend[t].op = "poll" /\ ch = <<>> /\ UNCHANGED <<ch, pool>> /\ Done(t, "empty", 0)
     \/ /\ pend[t].op = "take" /\ UNCHANGED <<ch, pool>> /\ Done(t, "timeout", 0)
  /\ UNCHANGED <<l, C, B>>
Move == /\ pool # <<>> /\ Len(ch) < C /\ ch' = Append(ch, Head(pool)) /\ pool' = Tail(pool)
        /\ UNCHANGED <<l, C, B, pend>>
Next == Consume \/ Move \/ \E t \in Threads : Lin(t)
Spec == Init /\ [][Next]_vars
Accepted == TLCGet(1) = Len(Trace) + 1
ASSUME TLCSet(1, 1)
====
