-------------------------------- MODULE Pub --------------------------------
(* Publisher with Go slice semantics: subs is a slice (array id, len); Publish iterates a
   snapshot slice value that shares the backing array.  One thread, re-entrant callbacks. *)
EXTENDS Integers, Sequences, FiniteSets, TLC
CONSTANTS Subs,             \* subscription ids
          Behav,            \* Subs -> "noop" | "unsubself" | "unsubnext"
          InPlace           \* TRUE: Unsubscribe compacts inside the backing array (code today)
VARIABLES arrays,   \* ArrId -> Seq(Subs \cup {"-"})   (length = capacity)
          subs,     \* [arr, len]
          nextArr, pc, snap, idx, log, order
vars == <<arrays, subs, nextArr, pc, snap, idx, log, order>>
SubSeqOf(sl) == SubSeq(arrays[sl.arr], 1, sl.len)
Order == CHOOSE f \in [1..Cardinality(Subs) -> Subs] : \A i, j \in 1..Cardinality(Subs) : i # j => f[i] # f[j]

Init == /\ arrays = [a \in {0} |-> <<>>] /\ subs = [arr |-> 0, len |-> 0] /\ nextArr = 1
        /\ pc = "subscribing" /\ snap = [arr |-> 0, len |-> 0] /\ idx = 0 /\ log = <<>>
        /\ order = <<>>

\* append(subs, s)
Subscribe(s) ==
  /\ pc = "subscribing" /\ s \notin {order[i] : i \in 1..Len(order)}
  /\ LET cap == Len(arrays[subs.arr]) IN
     IF subs.len < cap
       THEN /\ arrays' = [arrays EXCEPT ![subs.arr][subs.len + 1] = s]
            /\ subs' = [subs EXCEPT !.len = @ + 1] /\ UNCHANGED nextArr
       ELSE LET ncap == IF cap = 0 THEN 1 ELSE 2 * cap
                na == [i \in 1..ncap |-> IF i <= subs.len THEN arrays[subs.arr][i] ELSE IF i = subs.len + 1 THEN s ELSE "-"] IN
            /\ arrays' = [a \in DOMAIN arrays \cup {nextArr} |-> IF a = nextArr THEN na ELSE arrays[a]]
            /\ subs' = [arr |-> nextArr, len |-> subs.len + 1] /\ nextArr' = nextArr + 1
  /\ order' = Append(order, s)
  /\ UNCHANGED <<pc, snap, idx, log>>

StartPublish == /\ pc = "subscribing" /\ Len(order) = Cardinality(Subs)
                /\ snap' = subs /\ idx' = 1 /\ pc' = "delivering"
                /\ UNCHANGED <<arrays, subs, nextArr, log, order>>

\* remove first occurrence of s from subs
Unsub(s, arrs, sl) ==
  LET cur == SubSeq(arrs[sl.arr], 1, sl.len)
      pos == {i \in 1..sl.len : cur[i] = s} IN
  IF pos = {} THEN [arrays |-> arrs, subs |-> sl, na |-> nextArr]
  ELSE LET i == CHOOSE i \in pos : \A j \in pos : i <= j
           rest == SubSeq(cur, 1, i - 1) \o SubSeq(cur, i + 1, sl.len) IN
       IF InPlace
         THEN [arrays |-> [arrs EXCEPT ![sl.arr] = [k \in 1..Len(@) |-> IF k <= Len(rest) THEN rest[k] ELSE @[k]]],
               subs |-> [sl EXCEPT !.len = @ - 1], na |-> nextArr]
         ELSE [arrays |-> [a \in DOMAIN arrs \cup {nextArr} |-> IF a = nextArr THEN rest ELSE arrs[a]],
               subs |-> [arr |-> nextArr, len |-> Len(rest)], na |-> nextArr + 1]

Deliver ==
  /\ pc = "delivering" /\ idx <= snap.len
  /\ LET s == arrays[snap.arr][idx] IN
     /\ log' = Append(log, s)
     /\ LET target == IF Behav[s] = "unsubself" THEN s
                      ELSE IF Behav[s] = "unsubnext" /\ idx < snap.len THEN arrays[snap.arr][idx + 1] ELSE "-"
            r == IF target = "-" THEN [arrays |-> arrays, subs |-> subs, na |-> nextArr] ELSE Unsub(target, arrays, subs) IN
        /\ arrays' = r.arrays /\ subs' = r.subs /\ nextArr' = r.na
  /\ idx' = idx + 1 /\ UNCHANGED <<pc, snap, order>>
EndPublish == /\ pc = "delivering" /\ idx > snap.len /\ pc' = "done"
              /\ UNCHANGED <<arrays, subs, nextArr, snap, idx, log, order>>
Next == (\E s \in Subs : Subscribe(s)) \/ StartPublish \/ Deliver \/ EndPublish
Spec == Init /\ [][Next]_vars

Count(s) == Cardinality({i \in 1..Len(log) : log[i] = s})
\* subscriptions that are not the target of any unsubscribe during the publish
Stable == {s \in Subs : Behav[s] = "noop" /\ ~\E t \in Subs : \E i \in 1..Len(order) - 1 :
              order[i] = t /\ order[i + 1] = s /\ Behav[t] = "unsubnext"}
Inv_AtMostOnce == \A s \in Subs : Count(s) <= 1
Inv_ExactlyOnceIfStable == pc = "done" => \A s \in Stable : Count(s) = 1
=============================================================================
