SPECIFICATION Spec
CONSTANTS Subs = {"A","B","C"}
 Behav = [A |-> "unsubself", B |-> "noop", C |-> "noop"]
 InPlace = TRUE
INVARIANTS Inv_AtMostOnce Inv_ExactlyOnceIfStable
CHECK_DEADLOCK FALSE
