---- MODULE MCPub ----
EXTENDS Pub
B1 == [A |-> "unsubself", B |-> "noop", C |-> "noop"]
====
