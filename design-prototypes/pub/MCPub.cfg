SPECIFICATION Spec
CONSTANTS Subs = {"A","B","C"}
 Behav <- B1
 InPlace = FALSE
INVARIANTS Inv_AtMostOnce Inv_ExactlyOnceIfStable
CHECK_DEADLOCK FALSE
