---- MODULE GenC ----
EXTENDS Json, TLC, Sequences, Integers, SequencesExt, FiniteSets, FiniteSetsExt
Vals == {1,2,3}
Seqs == UNION {[1..n -> Vals] : n \in 0..4}
Cnt(s) == -3..(Len(s)+3)
Drop(n, s) == IF n <= 0 THEN {s} ELSE IF n >= Len(s) THEN {<<>>} ELSE {SubSeq(s, n+1, Len(s))}
DropLast(n, s) == IF n <= 0 THEN {s} ELSE IF n >= Len(s) THEN {<<>>} ELSE {SubSeq(s, 1, Len(s)-n)}
Take(n, s) == IF n <= 0 THEN {<<>>, s} ELSE IF n >= Len(s) THEN {s} ELSE {SubSeq(s, 1, n)}
TakeLast(n, s) == IF n <= 0 THEN {<<>>, s} ELSE IF n >= Len(s) THEN {s} ELSE {SubSeq(s, Len(s)-n+1, Len(s))}
RECURSIVE DistinctR(_, _)
DistinctR(s, seen) == IF s = <<>> THEN <<>> ELSE IF Head(s) \in seen THEN DistinctR(Tail(s), seen) ELSE <<Head(s)>> \o DistinctR(Tail(s), seen \cup {Head(s)})
Distinct(s) == {DistinctR(s, {})}
Rev(s) == {[i \in 1..Len(s) |-> s[Len(s)+1-i]]}
RECURSIVE SplitR(_, _)
SplitR(k, s) == IF Len(s) <= k THEN <<s>> ELSE <<SubSeq(s,1,k)>> \o SplitR(k, SubSeq(s, k+1, Len(s)))
SplitEvery(k, s) == IF k <= 0 \/ Len(s) <= 1 THEN {<<s>>} ELSE {SplitR(k, s)}
Ops1 == {"Distinct","Reverse"}
OpsN == {"Drop","DropLast","Take","TakeLast","SplitEvery"}
Ev(op, n, s) == CASE op = "Drop" -> Drop(n,s) [] op = "DropLast" -> DropLast(n,s) [] op = "Take" -> Take(n,s)
                 [] op = "TakeLast" -> TakeLast(n,s) [] op = "Distinct" -> Distinct(s) [] op = "Reverse" -> Rev(s)
                 [] op = "SplitEvery" -> SplitEvery(n, s)
Cases == {[op |-> op, n |-> n, in |-> s, expect |-> SetToSeq(Ev(op, n, s))] : op \in OpsN, s \in Seqs, n \in -3..7}
         \cup {[op |-> op, n |-> 0, in |-> s, expect |-> SetToSeq(Ev(op, 0, s))] : op \in Ops1, s \in Seqs}
ASSUME PrintT(Cardinality(Cases))
ASSUME ndJsonSerialize("/var/tmp/verif-proto/coll/cases.ndjson", SetToSeq(Cases))
VARIABLE x
Init == x = 0
Next == UNCHANGED x
====
