INIT Init
NEXT Next
