------------------------------ MODULE NumConv ------------------------------
(* Symbolic model of the Maybe numeric conversions (maybe.go ToInt..ToUintptr, ToFloat*, ToBool).
   Numbers are points <<anchor, d>> = anchor + d, d \in -1..1, on the line cut by the 13 type bounds;
   TLC integers are 32-bit, so the anchors are never evaluated.                                  *)
EXTENDS Integers, Sequences, FiniteSets, TLC, Json, SequencesExt
Anchors == <<"MinI64","MinI32","MinI16","MinI8","Zero","MaxI8","MaxU8","MaxI16","MaxU16","MaxI32","MaxU32","MaxI64","MaxU64">>
A(name) == CHOOSE i \in 1..Len(Anchors) : Anchors[i] = name
Pt(name, d) == <<A(name), d>>
Leq(p, q) == p[1] < q[1] \/ (p[1] = q[1] /\ p[2] <= q[2])
In(p, lo, hi) == Leq(lo, p) /\ Leq(p, hi)

IntTypes == {"int","int8","int16","int32","int64","uint","uint8","uint16","uint32","uint64","uintptr"}
FloatTypes == {"float32","float64"}
\* real (native, 64-bit platform) range of each integer type
Lo(t) == CASE t \in {"int","int64"} -> Pt("MinI64",0) [] t = "int32" -> Pt("MinI32",0) [] t = "int16" -> Pt("MinI16",0)
           [] t = "int8" -> Pt("MinI8",0) [] OTHER -> Pt("Zero",0)
Hi(t) == CASE t \in {"int","int64"} -> Pt("MaxI64",0) [] t = "int32" -> Pt("MaxI32",0) [] t = "int16" -> Pt("MaxI16",0)
           [] t = "int8" -> Pt("MaxI8",0) [] t = "uint8" -> Pt("MaxU8",0) [] t = "uint16" -> Pt("MaxU16",0)
           [] t = "uint32" -> Pt("MaxU32",0) [] OTHER -> Pt("MaxU64",0)
\* range in which success is REQUIRED ("portable 32-bit range" for int / uint)
MustLo(t) == IF t = "int" THEN Pt("MinI32",0) ELSE Lo(t)
MustHi(t) == IF t = "int" THEN Pt("MaxI32",0) ELSE IF t = "uint" THEN Pt("MaxU32",0) ELSE Hi(t)

AllPts == {<<a, d>> : a \in 1..Len(Anchors), d \in -1..1}
SrcPts(t) == {p \in AllPts : In(p, Lo(t), Hi(t))}

\* ---- float sources.  rel: "m1","mh","at","ph","p1" near small anchors; "below","at","above" near big ones
Small == {A("MinI16"),A("MinI8"),A("Zero"),A("MaxI8"),A("MaxU8"),A("MaxI16"),A("MaxU16")}
\* anchors exactly representable: powers of two (MinI*) always; 2^k-1 only when it fits the mantissa
Exact(a, ft) == \/ a \in Small \/ Anchors[a] \in {"MinI64","MinI32"}
                \/ (ft = "float64" /\ Anchors[a] \in {"MaxI32","MaxU32"})
FRel(a, ft) == IF a \in Small THEN {"m1","mh","at","ph","p1"}
               ELSE IF Exact(a, ft) THEN {"below","at","above"} ELSE {"below","above"}
FPts(ft) == {<<a, r>> : a \in 1..Len(Anchors), r \in {"m1","mh","at","ph","p1","below","above"}} \cap
            UNION {{<<a, r>> : r \in FRel(a, ft)} : a \in 1..Len(Anchors)}
\* integer point a float point rounds to (half away from zero); for big anchors below/above behave like -1/+1
Neg(a) == a < A("Zero")
Round(fp) == LET a == fp[1] r == fp[2] IN
   CASE r = "m1" -> <<a,-1>> [] r = "p1" -> <<a,1>> [] r = "at" -> <<a,0>>
     [] r = "mh" -> IF a > A("Zero") THEN <<a,0>> ELSE <<a,-1>>
     [] r = "ph" -> IF Neg(a) THEN <<a,0>> ELSE <<a,1>>
     [] r = "below" -> <<a,-1>> [] r = "above" -> <<a,1>>

\* ---- expectation: "ok" (must succeed with the same number), "fail" (must return an error), "either"
ExpectInt(p, tgt) == IF In(p, MustLo(tgt), MustHi(tgt)) THEN "ok"
                     ELSE IF ~In(p, Lo(tgt), Hi(tgt)) THEN "fail" ELSE "either"
Targets == IntTypes
IntCases == {[src |-> s, kind |-> "int", a |-> Anchors[p[1]], d |-> p[2], rel |-> "-", tgt |-> t, expect |-> ExpectInt(p, t),
              ra |-> Anchors[p[1]], rd |-> p[2]] : s \in IntTypes, p \in AllPts, t \in Targets} \cap
            UNION {{[src |-> s, kind |-> "int", a |-> Anchors[p[1]], d |-> p[2], rel |-> "-", tgt |-> t, expect |-> ExpectInt(p, t),
              ra |-> Anchors[p[1]], rd |-> p[2]] : p \in SrcPts(s), t \in Targets} : s \in IntTypes}
FloatCases == UNION {{[src |-> ft, kind |-> "float", a |-> Anchors[fp[1]], d |-> 0, rel |-> fp[2], tgt |-> t,
                       expect |-> ExpectInt(Round(fp), t), ra |-> Anchors[Round(fp)[1]], rd |-> Round(fp)[2]]
                      : fp \in FPts(ft), t \in Targets} : ft \in FloatTypes}
SpecialCases == {[src |-> ft, kind |-> sp, a |-> "Zero", d |-> 0, rel |-> "-", tgt |-> t, expect |-> "fail", ra |-> "Zero", rd |-> 0]
                  : ft \in FloatTypes, sp \in {"nan","pinf","ninf"}, t \in Targets}
Cases == IntCases \cup FloatCases \cup SpecialCases
ASSUME PrintT(<<Cardinality(IntCases), Cardinality(FloatCases), Cardinality(SpecialCases)>>)
ASSUME ndJsonSerialize("/var/tmp/verif-proto/num/cases.ndjson", SetToSeq(Cases))
VARIABLE x
Init == x = 0
Next == UNCHANGED x
=============================================================================
