INIT Init
NEXT Next
