SPECIFICATION Spec
CONSTANT D = 3
CHECK_DEADLOCK FALSE
