---- MODULE SH ----
EXTENDS Integers, Sequences, FiniteSets, TLC, SequencesExt
CONSTANTS D
VARIABLES heap, hist
Elems(s) == {s[i] : i \in 1..Len(s)}
RECURSIVE DistinctR(_, _)
DistinctR(s, seen) == IF s = <<>> THEN <<>> ELSE IF Head(s) \in seen THEN DistinctR(Tail(s), seen) ELSE <<Head(s)>> \o DistinctR(Tail(s), seen \cup {Head(s)})
Rev(s) == [i \in 1..Len(s) |-> s[Len(s)+1-i]]
Minus(a, b) == SelectSeq(a, LAMBDA x : x \notin Elems(b))
Inter(a, b) == DistinctR(SelectSeq(a, LAMBDA x : x \in Elems(b)), {})
SortAsc(s) == SortSeq(s, LAMBDA x, y : x < y)
RmAt(s, i) == IF i >= 1 /\ i <= Len(s) THEN SubSeq(s, 1, i-1) \o SubSeq(s, i+1, Len(s)) ELSE s
Unary == {"Map+1","FilterEven","Distinct","Reverse","SortAsc","Clone"}
Arg1 == {"Append","RemoveItem","Remove"}
Binary == {"Concat","Minus","Intersection"}
U(op, s) == CASE op = "Map+1" -> [i \in 1..Len(s) |-> s[i]+1] [] op = "FilterEven" -> SelectSeq(s, LAMBDA x : x % 2 = 0)
              [] op = "Distinct" -> DistinctR(s, {}) [] op = "Reverse" -> Rev(s) [] op = "SortAsc" -> SortAsc(s) [] op = "Clone" -> s
A(op, s, x) == CASE op = "Append" -> Append(s, x) [] op = "RemoveItem" -> Minus(s, <<x>>) [] op = "Remove" -> RmAt(s, x)
B(op, a, b) == CASE op = "Concat" -> a \o b [] op = "Minus" -> Minus(a, b) [] op = "Intersection" -> Inter(a, b)
Init == /\ heap \in {<<a, b>> : a \in {<<1,2,3>>, <<2,2,1>>}, b \in {<<>>, <<3,1>>}} /\ hist = <<>>
Step(rec, res) == /\ heap' = Append(heap, res) /\ hist' = Append(hist, rec)
Next == /\ Len(hist) < D
        /\ \/ \E op \in Unary, r \in 1..Len(heap) : Len(heap[r]) <= 5 /\ Step([op |-> op, r |-> r, a |-> 0], U(op, heap[r]))
           \/ \E op \in Arg1, r \in 1..Len(heap), x \in 0..4 : Len(heap[r]) <= 5 /\ Step([op |-> op, r |-> r, a |-> x], A(op, heap[r], x))
           \/ \E op \in Binary, r \in 1..Len(heap), b \in 1..Len(heap) : Len(heap[r]) + Len(heap[b]) <= 6 /\ Step([op |-> op, r |-> r, a |-> b], B(op, heap[r], heap[b]))
Spec == Init /\ [][Next]_<<heap, hist>>
====
