------------------------------ MODULE Mailbox ------------------------------
(* Handler / Actor mailbox (handler.go, actor.go): Post/Send = closed check then channel send;
   one run() goroutine ranging over the channel; Close = flag then close(ch).  *)
EXTENDS Integers, Sequences, FiniteSets, TLC
CONSTANTS Senders, NMsg, K, WithClose
VARIABLES mb, chClosed, closed, spc, sidx, rpc, rmsg, done, xpc, panicked, postBegunAfterClose
vars == <<mb, chClosed, closed, spc, sidx, rpc, rmsg, done, xpc, panicked, postBegunAfterClose>>
M(s, i) == [s |-> s, i |-> i]
NoMsg == [s |-> "-", i |-> 0]
Init == /\ mb = <<>> /\ chClosed = FALSE /\ closed = FALSE
        /\ spc = [s \in Senders |-> "check"] /\ sidx = [s \in Senders |-> 1]
        /\ rpc = "recv" /\ rmsg = NoMsg /\ done = <<>>
        /\ xpc = (IF WithClose THEN "start" ELSE "done") /\ panicked = {}
        /\ postBegunAfterClose = {}
SendCheck(s) ==
  /\ spc[s] = "check" /\ sidx[s] <= NMsg
  /\ (IF closed THEN (sidx' = [sidx EXCEPT ![s] = @ + 1] /\ UNCHANGED spc)
               ELSE (spc' = [spc EXCEPT ![s] = "send"] /\ UNCHANGED sidx))
  /\ postBegunAfterClose' = (IF xpc = "done" /\ WithClose THEN postBegunAfterClose \cup {M(s, sidx[s])} ELSE postBegunAfterClose)
  /\ UNCHANGED <<mb, chClosed, closed, rpc, rmsg, done, xpc, panicked>>
\* buffered send, rendezvous send (K = 0: receiver must be waiting), or panic on closed channel
SendDeliver(s) ==
  /\ spc[s] = "send"
  /\ \/ /\ chClosed /\ panicked' = panicked \cup {s} /\ spc' = [spc EXCEPT ![s] = "dead"]
        /\ UNCHANGED <<mb, rpc, rmsg, sidx>>
     \/ /\ ~chClosed /\ Len(mb) < K /\ mb' = Append(mb, M(s, sidx[s]))
        /\ spc' = [spc EXCEPT ![s] = "check"] /\ sidx' = [sidx EXCEPT ![s] = @ + 1]
        /\ UNCHANGED <<rpc, rmsg, panicked>>
     \/ /\ ~chClosed /\ mb = <<>> /\ rpc = "recv"       \* direct hand-off to the waiting receiver
        /\ rmsg' = M(s, sidx[s]) /\ rpc' = "running"
        /\ spc' = [spc EXCEPT ![s] = "check"] /\ sidx' = [sidx EXCEPT ![s] = @ + 1]
        /\ UNCHANGED <<mb, panicked>>
  /\ UNCHANGED <<chClosed, closed, done, xpc, postBegunAfterClose>>
Recv == /\ rpc = "recv"
        /\ \/ /\ mb # <<>> /\ rmsg' = Head(mb) /\ mb' = Tail(mb) /\ rpc' = "running"
           \/ /\ mb = <<>> /\ chClosed /\ rpc' = "exited" /\ UNCHANGED <<mb, rmsg>>
        /\ UNCHANGED <<chClosed, closed, spc, sidx, done, xpc, panicked, postBegunAfterClose>>
RunEnd == /\ rpc = "running" /\ done' = Append(done, rmsg) /\ rmsg' = NoMsg /\ rpc' = "recv"
          /\ UNCHANGED <<mb, chClosed, closed, spc, sidx, xpc, panicked, postBegunAfterClose>>
CloseFlag == /\ xpc = "start" /\ closed' = TRUE /\ xpc' = "flagged"
             /\ UNCHANGED <<mb, chClosed, spc, sidx, rpc, rmsg, done, panicked, postBegunAfterClose>>
CloseChan == /\ xpc = "flagged" /\ chClosed' = TRUE /\ xpc' = "done"
             /\ UNCHANGED <<mb, closed, spc, sidx, rpc, rmsg, done, panicked, postBegunAfterClose>>
Next == (\E s \in Senders : SendCheck(s) \/ SendDeliver(s)) \/ Recv \/ RunEnd \/ CloseFlag \/ CloseChan
Spec == Init /\ [][Next]_vars
FairSpec == Spec /\ WF_vars(Recv \/ RunEnd) /\ \A s \in Senders : WF_vars(SendCheck(s) \/ SendDeliver(s))
Inv_NoPanic == panicked = {}
Inv_AtMostOnce == \A i, j \in 1..Len(done) : i # j => done[i] # done[j]
Inv_PerSenderFIFO == \A i, j \in 1..Len(done) : (i < j /\ done[i].s = done[j].s) => done[i].i < done[j].i
Inv_NothingAfterClose == \A i \in 1..Len(done) : done[i] \notin postBegunAfterClose
Live_ExactlyOnce == <>[](Len(done) = Cardinality(Senders) * NMsg)
=============================================================================
