SPECIFICATION Spec
CONSTANTS Senders = {"a"}
 NMsg = 2
 K = 0
 WithClose = TRUE
INVARIANTS Inv_NoPanic Inv_AtMostOnce Inv_PerSenderFIFO Inv_NothingAfterClose
CHECK_DEADLOCK FALSE
