SPECIFICATION FairSpec
CONSTANTS Senders = {"a","b","c"}
 NMsg = 3
 K = 0
 WithClose = FALSE
INVARIANTS Inv_NoPanic Inv_AtMostOnce Inv_PerSenderFIFO
PROPERTY Live_ExactlyOnce
CHECK_DEADLOCK FALSE
