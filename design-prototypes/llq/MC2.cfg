SPECIFICATION Spec
CONSTANTS N = 4
 MaxLen = 3
 FIXED = FALSE
INVARIANTS Inv_NoNilDeref
CHECK_DEADLOCK FALSE
