------------------------------- MODULE LLQ -------------------------------
(* Implementation-shaped model of fpgo.LinkedListQueue (queue.go l.278-500). *)
EXTENDS Integers, Sequences, FiniteSets, TLC
CONSTANTS N,        \* number of node objects available
          MaxLen,   \* bound on abstract length
          FIXED     \* TRUE: model the repaired Shift/Pop (clear stale links)
NIL == 0
Node == 1..N
VARIABLES next, prev, val, first, last, count, poolFirst, nodeCount,
          abs,      \* the ideal deque (Deque.tla), updated in lock-step
          ret,      \* last return value: [k |-> "ok"|"val"|"empty"|"nilderef", v]
          stamp     \* next fresh value
vars == <<next, prev, val, first, last, count, poolFirst, nodeCount, abs, ret, stamp>>

R(k, v) == [k |-> k, v |-> v]

\* nodes reachable in list / pool
RECURSIVE Chain(_, _, _)
Chain(n, f, fuel) == IF n = NIL \/ fuel = 0 THEN <<>> ELSE <<n>> \o Chain(f[n], f, fuel - 1)
ListNodes == Chain(first, next, N + 1)
PoolNodes == Chain(poolFirst, next, N + 1)
InUse == {ListNodes[i] : i \in 1..Len(ListNodes)} \cup {PoolNodes[i] : i \in 1..Len(PoolNodes)}
Free == Node \ InUse     \* stands for sync.Pool / allocation

Init == /\ next = [n \in Node |-> NIL] /\ prev = [n \in Node |-> NIL]
        /\ val = [n \in Node |-> 0]
        /\ first = NIL /\ last = NIL /\ count = 0 /\ poolFirst = NIL /\ nodeCount = 0
        /\ abs = <<>> /\ ret = R("init", 0) /\ stamp = 1

\* generateNode: returns <<node, next', prev', poolFirst', nodeCount'>>
Gen(nx, pv) ==
  IF poolFirst = NIL
    THEN {[n |-> f, nx |-> [nx EXCEPT ![f] = NIL], pv |-> [pv EXCEPT ![f] = NIL], pf |-> NIL, nc |-> nodeCount] : f \in {CHOOSE x \in Free : TRUE}}
    ELSE {[n |-> poolFirst, nx |-> [nx EXCEPT ![poolFirst] = NIL], pv |-> [pv EXCEPT ![poolFirst] = NIL],
           pf |-> nx[poolFirst], nc |-> nodeCount - 1]}

Offer ==
  /\ Len(abs) < MaxLen /\ (poolFirst # NIL \/ Free # {})
  /\ \E g \in Gen(next, prev) :
       LET n == g.n IN
       /\ val' = [val EXCEPT ![n] = stamp]
       /\ count' = count + 1
       /\ first' = IF first = NIL THEN n ELSE first
       /\ IF last # NIL
            THEN /\ next' = [g.nx EXCEPT ![last] = n] /\ prev' = [g.pv EXCEPT ![n] = last]
            ELSE /\ next' = g.nx /\ prev' = g.pv
       /\ last' = n
       /\ poolFirst' = g.pf /\ nodeCount' = g.nc
  /\ abs' = Append(abs, stamp) /\ stamp' = stamp + 1 /\ ret' = R("ok", 0)

Unshift ==
  /\ Len(abs) < MaxLen /\ (poolFirst # NIL \/ Free # {})
  /\ \E g \in Gen(next, prev) :
       LET n == g.n IN
       /\ val' = [val EXCEPT ![n] = stamp]
       /\ count' = count + 1
       /\ last' = IF last = NIL THEN n ELSE last
       /\ first' = n
       /\ next' = [g.nx EXCEPT ![n] = first]
       /\ prev' = IF first # NIL THEN [g.pv EXCEPT ![first] = n] ELSE g.pv
       /\ poolFirst' = g.pf /\ nodeCount' = g.nc
  /\ abs' = <<stamp>> \o abs /\ stamp' = stamp + 1 /\ ret' = R("ok", 0)

\* recycleNode(node): nodeCount++, Val=nil, Next=poolFirst, Prev=nil, poolFirst=node
Recycle(n, nx, pv) == [nx |-> [nx EXCEPT ![n] = poolFirst], pv |-> [pv EXCEPT ![n] = NIL]]

Shift ==
  IF first = NIL THEN
     /\ ret' = R("empty", 0) /\ UNCHANGED <<next, prev, val, first, last, count, poolFirst, nodeCount, abs, stamp>>
  ELSE LET n == first
           nf == next[n]
           r == Recycle(n, next, prev) IN
     /\ count' = count - 1
     /\ first' = nf
     /\ last' = IF nf = NIL THEN NIL ELSE last
     /\ ret' = IF val[n] = 0 THEN R("nilderef", 0) ELSE R("val", val[n])
     /\ val' = [val EXCEPT ![n] = 0]
     /\ next' = r.nx
     /\ prev' = IF FIXED /\ nf # NIL THEN [r.pv EXCEPT ![nf] = NIL] ELSE r.pv
     /\ poolFirst' = n /\ nodeCount' = nodeCount + 1
     /\ abs' = (IF abs = <<>> THEN abs ELSE Tail(abs)) /\ UNCHANGED stamp

Pop ==
  IF last = NIL THEN
     /\ ret' = R("empty", 0) /\ UNCHANGED <<next, prev, val, first, last, count, poolFirst, nodeCount, abs, stamp>>
  ELSE LET n == last
           nl == prev[n]
           r == Recycle(n, next, prev) IN
     /\ count' = count - 1
     /\ last' = nl
     /\ first' = IF nl = NIL THEN NIL ELSE first
     \* *node.Val : nil deref if the node was already recycled (Val = nil)
     /\ ret' = IF val[n] = 0 THEN R("nilderef", 0) ELSE R("val", val[n])
     /\ val' = [val EXCEPT ![n] = 0]
     /\ next' = IF FIXED /\ nl # NIL THEN [r.nx EXCEPT ![nl] = NIL] ELSE r.nx
     /\ prev' = r.pv
     /\ poolFirst' = n /\ nodeCount' = nodeCount + 1
     /\ abs' = (IF abs = <<>> THEN abs ELSE SubSeq(abs, 1, Len(abs) - 1)) /\ UNCHANGED stamp

Clear ==
  /\ poolFirst' = first /\ nodeCount' = count
  /\ val' = [n \in Node |-> IF n \in {ListNodes[i] : i \in 1..Len(ListNodes)} THEN 0 ELSE val[n]]
  /\ prev' = [n \in Node |-> IF n \in {ListNodes[i] : i \in 1..Len(ListNodes)} THEN NIL ELSE prev[n]]
  /\ first' = NIL /\ last' = NIL /\ count' = 0
  /\ abs' = <<>> /\ ret' = R("ok", 0) /\ UNCHANGED <<next, stamp>>

Next == Offer \/ Unshift \/ Shift \/ Pop \/ Clear
Spec == Init /\ [][Next]_vars

\* ---- refinement / invariants
AbsOf == [i \in 1..Len(ListNodes) |-> val[ListNodes[i]]]
Inv_Abs == AbsOf = abs
Inv_Count == count = Len(abs)
Inv_NoNilDeref == ret.k # "nilderef"
Inv_Ret == (ret.k = "val") => TRUE
Back == Chain(last, prev, N + 1)
Inv_Back == Len(Back) = Len(ListNodes) /\ \A i \in 1..Len(Back) : Back[i] = ListNodes[Len(ListNodes) + 1 - i]
View == <<next, prev, [n \in Node |-> val[n] # 0], first, last, count, poolFirst, nodeCount, Len(abs), ret.k>>
=============================================================================
