SPECIFICATION Spec
CONSTANTS N = 5
 MaxLen = 4
 FIXED = TRUE
INVARIANTS Inv_NoNilDeref Inv_Count Inv_Abs Inv_Back
CHECK_DEADLOCK FALSE
VIEW View
