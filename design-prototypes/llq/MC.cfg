SPECIFICATION Spec
CONSTANTS N = 4
 MaxLen = 3
 FIXED = FALSE
INVARIANTS Inv_NoNilDeref Inv_Count Inv_Abs
CHECK_DEADLOCK FALSE
