---- MODULE TraceLin ----
EXTENDS Json, TLC, Sequences, Integers, FiniteSets
Trace == ndJsonDeserialize("hist.ndjson")
VARIABLES l, q, pend
vars == <<l, q, pend>>
\* pend: thread -> [st |-> "idle"] | [st |-> "inv", op, v] | [st |-> "done", r]
Threads == {"t1","t2","t3"}
Idle == [st |-> "idle", op |-> "-", v |-> 0, r |-> 0]
Init == l = 1 /\ q = <<>> /\ pend = [t \in Threads |-> Idle]
Inv(e) == /\ e.ev = "inv" /\ pend[e.thr].st = "idle"
          /\ pend' = [pend EXCEPT ![e.thr] = [st |-> "inv", op |-> e.op, v |-> e.v, r |-> 0]]
          /\ UNCHANGED q
Res(e) == /\ e.ev = "res" /\ pend[e.thr].st = "done" /\ pend[e.thr].r = e.r
          /\ pend' = [pend EXCEPT ![e.thr] = Idle] /\ UNCHANGED q
Consume == /\ l <= Len(Trace) /\ LET e == Trace[l] IN
              \/ Inv(e) \/ Res(e)
              \/ (e.ev = "reset" /\ q' = <<>> /\ pend' = [t \in Threads |-> Idle])
           /\ l' = l + 1
           /\ TLCSet(1, IF l' > TLCGet(1) THEN l' ELSE TLCGet(1))
Lin(t) == /\ pend[t].st = "inv"
          /\ \/ /\ pend[t].op = "offer" /\ q' = Append(q, pend[t].v)
                /\ pend' = [pend EXCEPT ![t] = [@ EXCEPT !.st = "done", !.r = 0]]
             \/ /\ pend[t].op = "poll" /\ q # <<>> /\ q' = Tail(q)
                /\ pend' = [pend EXCEPT ![t] = [@ EXCEPT !.st = "done", !.r = Head(q)]]
             \/ /\ pend[t].op = "poll" /\ q = <<>> /\ UNCHANGED q
                /\ pend' = [pend EXCEPT ![t] = [@ EXCEPT !.st = "done", !.r = -1]]
          /\ UNCHANGED l
Next == Consume \/ \E t \in Threads : Lin(t)
Spec == Init /\ [][Next]_vars
Accepted == TLCGet(1) = Len(Trace) + 1
ASSUME TLCSet(1, 1)
====
