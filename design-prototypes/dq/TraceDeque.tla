---- MODULE TraceDeque ----
EXTENDS Json, TLC, Sequences, Integers
Trace == ndJsonDeserialize("dq.ndjson")
VARIABLES l, q
Init == l = 1 /\ q = <<>>
Step(e) ==
  CASE e.op = "reset" -> q' = <<>>
    [] e.op = "offer" -> q' = Append(q, e.v) /\ e.r = "ok"
    [] e.op = "unshift" -> q' = <<e.v>> \o q /\ e.r = "ok"
    [] e.op = "shift" -> IF q = <<>> THEN e.r = "empty" /\ q' = q ELSE e.r = "val" /\ e.v = Head(q) /\ q' = Tail(q)
    [] e.op = "pop" -> IF q = <<>> THEN e.r = "empty" /\ q' = q ELSE e.r = "val" /\ e.v = q[Len(q)] /\ q' = SubSeq(q, 1, Len(q)-1)
    [] e.op = "count" -> e.v = Len(q) /\ q' = q
    [] e.op = "clear" -> q' = <<>>
Next == l <= Len(Trace) /\ Step(Trace[l]) /\ l' = l + 1
Spec == Init /\ [][Next]_<<l, q>>
Accepted == TLCGet("stats").diameter - 1 = Len(Trace)
====
