SPECIFICATION Spec
CONSTANTS C = 1
 B = 1
 Producers = {"p1"}
 Consumers = {"c1"}
 NOffer = 2
 NTake = 2
 WithClose = TRUE
INVARIANTS Inv_NoPanic Inv_Bound
CHECK_DEADLOCK FALSE
