"""Common machinery for /verif checks: scratch dirs, TLC runner, harness build,
known-findings matching, evidence writing, verdict printing.

Exit codes of a check: 0 held / 1 VIOLATION / 2 inconclusive (never a verdict).
"""
import atexit
import glob
import hashlib
import json
import os
import re
import shutil
import subprocess
import sys
import tempfile
import time

VERIF = os.path.dirname(os.path.dirname(os.path.abspath(__file__)))
REPO = os.environ.get("VERIF_REPO", "/repo")
SPEC = os.environ.get("VERIF_SPEC") or os.path.join(VERIF, "spec")             # VERIF_SPEC: a staged copy while developing
HARNESS = os.environ.get("VERIF_HARNESS") or os.path.join(VERIF, "harness")          # VERIF_HARNESS: a staged copy while developing
TLA_CP = "/opt/veriftools/tla/tla2tools.jar:/opt/veriftools/tla/CommunityModules-deps.jar"

GOENV = {
    "GOFLAGS": "-mod=mod",
    "GOPROXY": "off",
    "GOSUMDB": "off",
    "GOTOOLCHAIN": "local",
}


class Inconclusive(Exception):
    pass


def log(*a):
    print(*a, file=sys.stderr, flush=True)


def out(*a):
    print(*a, flush=True)


class TLCResult:
    def __init__(self, rc, text, wall):
        self.rc = rc
        self.text = text
        self.wall = wall
        self.generated = 0
        self.distinct = 0
        self.depth = 0
        m = None
        for m in re.finditer(r"(\d[\d,]*) states generated, (\d[\d,]*) distinct states found", text):
            pass
        if m:
            self.generated = int(m.group(1).replace(",", ""))
            self.distinct = int(m.group(2).replace(",", ""))
        m = re.search(r"The depth of the complete state graph search is (\d+)", text)
        if m:
            self.depth = int(m.group(1))
        self.completed = "Model checking completed. No error has been found." in text
        self.inv_violated = re.findall(r"Error: Invariant (\S+) is violated", text)
        self.prop_violated = bool(re.search(r"Error: (Action|Temporal) propert", text))
        self.deadlock = "Error: Deadlock reached" in text
        self.post_failed = "POSTCONDITION" in text.upper() and "violated" in text.lower() and "postcondition" in text.lower()
        self.error_lines = [l for l in text.splitlines() if l.startswith("Error:")]

    def printed(self, tag):
        """Values printed by PrintT(<<tag, v>>) in the spec."""
        res = []
        # TLC pretty-prints long tuples over several lines ("<< \"TAG\",\n   17,\n   \"...\" >>")
        for m in re.finditer(r'<<\s*"%s",\s*(.*?)\s*>>(?=\s*(?:\n|$))' % re.escape(tag), self.text, re.S):
            res.append(re.sub(r"\s*\n\s*", " ", m.group(1)))
        return res


class Ctx:
    def __init__(self, pid, tier, seed, level):
        self.pid = pid
        self.tier = tier
        self.seed = seed
        self.level = level
        self.t0 = time.time()
        base = os.environ.get("VERIF_SCRATCH", "/var/tmp")
        os.makedirs(base, exist_ok=True)
        self.scratch = tempfile.mkdtemp(prefix="verif-%s-" % pid, dir=base)
        self.keep = bool(os.environ.get("VERIF_KEEP"))
        atexit.register(self._cleanup)
        self.violations = []      # unlisted
        self.known_hits = {}      # signature -> count
        self.drift = []
        self.observations = []    # API outside the listed properties that disagrees with its TLA+ definition (advisory)
        self.notes = []
        self.cov = {"evaluations": 0, "distinct_nontrivial": 0, "samples": [], "states": 0,
                    "transitions": 0, "traces_validated_against_impl": 0}
        self.assumptions = []
        self.checker_cmds = []
        self._drv = None
        self.findings = load_findings()
        self._seen_sig = set()

    # ------------------------------------------------------------------ infra
    def _cleanup(self):
        if not self.keep:
            shutil.rmtree(self.scratch, ignore_errors=True)
        else:
            log("scratch kept:", self.scratch)

    def sub(self, name):
        d = os.path.join(self.scratch, name)
        os.makedirs(d, exist_ok=True)
        return d

    def goenv(self):
        e = dict(os.environ)
        e.update(GOENV)
        return e

    def build_harness(self):
        """Build the Go driver from /repo's *current working tree* with -tags verif."""
        if self._drv:
            return self._drv
        hdir = os.path.join(self.scratch, "harness")
        shutil.copytree(HARNESS, hdir)
        env = self.goenv()
        gomod = os.path.join(hdir, "go.mod")
        s = open(gomod).read()
        s = re.sub(r"replace github.com/TeaEntityLab/fpGo/v2 => \S+",
                   "replace github.com/TeaEntityLab/fpGo/v2 => " + REPO, s)
        open(gomod, "w").write(s)
        sums = ""
        for p in (os.path.join(REPO, "go.sum"), os.path.join(HARNESS, "go.sum.extra")):
            if os.path.exists(p):
                sums += open(p).read()
        open(os.path.join(hdir, "go.sum"), "w").write(sums)
        drv = os.path.join(self.scratch, "drv")
        cover = ["-cover", "-coverpkg=github.com/TeaEntityLab/fpGo/v2/...,verifharness/..."] if os.environ.get("VERIF_COVER") else []
        p = subprocess.run(["go", "build", "-tags", "verif"] + cover + ["-o", drv, "./cmd/drv"], cwd=hdir, env=env,
                           stdout=subprocess.PIPE, stderr=subprocess.STDOUT, text=True, timeout=600)
        if p.returncode != 0:
            log(p.stdout)
            raise Inconclusive("harness build failed (does /repo compile with -tags verif?)")
        self._drv = drv
        return drv

    def drv(self, args, timeout=600, stdin=None, check=True, env_extra=None):
        drv = self.build_harness()
        env = self.goenv()
        env["VERIF_SEED"] = str(self.seed)
        if os.environ.get("VERIF_COVER"):
            env["GOCOVERDIR"] = os.environ["VERIF_COVER"]       # API coverage audit (bin/apicover), not part of any verdict
        if env_extra:
            env.update(env_extra)
        try:
            p = subprocess.run([drv] + [str(a) for a in args], cwd=self.scratch, env=env, input=stdin,
                               stdout=subprocess.PIPE, stderr=subprocess.PIPE, text=True, timeout=timeout)
        except subprocess.TimeoutExpired:
            raise Inconclusive("driver timed out: %s" % " ".join(map(str, args)))
        if check and p.returncode != 0:
            log(p.stdout[-4000:])
            log(p.stderr[-4000:])
            raise Inconclusive("driver failed rc=%d: %s" % (p.returncode, " ".join(map(str, args))))
        return p

    def drv_crashable(self, args, timeout=600, confirm=1, env_extra=None):
        """Run the driver where the code under test may bring the whole process down (an unrecovered panic in a
        library goroutine, a fatal runtime error).  Returns (proc, None) on success or (None, crash) where crash =
        {"panic": first panic/fatal line, "frame": first fpGo frame, "stderr": tail}; the crash must reproduce in
        `confirm` further runs, otherwise the run is inconclusive."""
        def crash_of(p):
            m = re.search(r"^(panic: .*|fatal error: .*)$", p.stderr, re.M)
            if p.returncode != 0 and m and "TeaEntityLab/fpGo" in p.stderr:
                fr = re.search(r"^(github.com/TeaEntityLab/fpGo/v2[^\n]*)$", p.stderr, re.M)
                return {"panic": m.group(1)[:200], "frame": (fr.group(1) if fr else "")[:200], "stderr": p.stderr[-3000:]}
            return None
        p = self.drv(args, timeout=timeout, check=False, env_extra=env_extra)
        if p.returncode == 0:
            return p, None
        c = crash_of(p)
        if not c:
            log(p.stdout[-2000:])
            log(p.stderr[-4000:])
            raise Inconclusive("driver failed rc=%d: %s" % (p.returncode, " ".join(map(str, args))))
        # the crash must be seen again: `confirm` reproductions within a few further runs (a crash that depends on timing does not
        # recur in every run; two process deaths with a library frame on the stack are real behaviour of the code under test)
        seen = 0
        for _ in range(confirm + 3):
            p2 = self.drv(args, timeout=timeout, check=False, env_extra=env_extra)
            if p2.returncode != 0 and crash_of(p2):
                seen += 1
                if seen >= confirm:
                    return None, c
        raise Inconclusive("a driver crash (%s) did not reproduce in %d further runs" % (c["panic"], confirm + 3))

    def stage_specs(self, name="tla"):
        """Flat copy of every .tla/.cfg under spec/ into a scratch dir (TLC litters its cwd)."""
        d = self.sub(name)
        for root, _, files in os.walk(SPEC):
            for f in files:
                if f.endswith(".tla") or f.endswith(".cfg"):
                    shutil.copy(os.path.join(root, f), os.path.join(d, f))
        return d

    def tlc(self, module, cfg=None, workers=8, timeout=600, extra=None, cwd=None, dfs=False,
            heap=None, allow_fail=True, env_extra=None):
        """Run TLC on module (in the staged spec dir). Returns TLCResult. Timeout/OOM -> Inconclusive."""
        cwd = cwd or self.stage_specs()
        cfg = cfg or (module + ".cfg")
        md = tempfile.mkdtemp(prefix="md-", dir=self.scratch)
        cmd = ["java", "-XX:+UseParallelGC"]
        if heap:
            cmd.append("-Xmx" + heap)
        cmd += ["-Xss64m"]
        if dfs:
            cmd.append("-Dtlc2.tool.queue.IStateQueue=StateDeque")
        cmd += ["-cp", TLA_CP, "tlc2.TLC", "-workers", str(workers), "-metadir", md, "-config", cfg]
        if extra:
            cmd += extra
        cmd.append(module + ".tla")
        t = time.time()
        env = dict(os.environ)
        env.pop("JAVA_TOOL_OPTIONS", None)
        if env_extra:
            env.update(env_extra)
        try:
            p = subprocess.run(cmd, cwd=cwd, stdout=subprocess.PIPE, stderr=subprocess.STDOUT, text=True,
                               timeout=timeout, env=env)
        except subprocess.TimeoutExpired:
            subprocess.run(["pkill", "-f", md], stdout=subprocess.DEVNULL, stderr=subprocess.DEVNULL)
            raise Inconclusive("TLC timeout (%ds) on %s/%s" % (timeout, module, cfg))
        finally:
            shutil.rmtree(md, ignore_errors=True)
        r = TLCResult(p.returncode, p.stdout, time.time() - t)
        self.checker_cmds.append("tlc -workers %s -config %s %s.tla" % (workers, cfg, module))
        if "OutOfMemoryError" in r.text or "StackOverflowError" in r.text:
            raise Inconclusive("TLC resource failure on %s" % module)
        if re.search(r"(Parsing or semantic analysis failed|Error: .*(parse|evaluat)|was not able to|TLC threw an unexpected exception|In evaluation, the identifier)", r.text) and not r.inv_violated:
            log(r.text[-6000:])
            raise Inconclusive("TLC error on %s/%s" % (module, cfg))
        return r

    # --------------------------------------------------------------- verdicts
    def add_states(self, r):
        self.cov["states"] += r.distinct
        self.cov["transitions"] += r.generated

    def sample(self, s, cap=6):
        if len(self.cov["samples"]) < cap:
            self.cov["samples"].append(s)

    def report(self, signature, what, replay_obj):
        """A reproduced failure of the property on the real code. Matches it against the
        committed known-findings list; unlisted -> VIOLATION line."""
        for f in self.findings:
            if f.get("property") == self.pid and f.get("status") == "known" and sig_match(f.get("signature"), signature):
                k = f["signature"]
                self.known_hits[k] = self.known_hits.get(k, 0) + 1
                return False
        if signature in self._seen_sig:
            return True
        self._seen_sig.add(signature)
        rdir = os.path.join(os.environ.get("VERIF_OUT_DIR", os.path.join(VERIF, "out")), "replays", self.pid)
        os.makedirs(rdir, exist_ok=True)
        h = hashlib.sha1(signature.encode()).hexdigest()[:12]
        path = os.path.join(rdir, h + ".json")
        with open(path, "w") as fh:
            json.dump({"property": self.pid, "signature": signature, "what": what, "replay": replay_obj}, fh, indent=1)
        self.violations.append((signature, what, path))
        return True

    def finish(self, rule, exhaustive=False, extra_cov=None, trusted=None):
        self.is_replay = getattr(self, "is_replay", False)
        for k, f in [(f["signature"], f) for f in self.findings if f.get("property") == self.pid and f.get("status") == "known"]:
            if k in self.known_hits:
                out("KNOWN-FINDING: property=%s %s [%s] (x%d)" % (self.pid, f.get("what", ""), k, self.known_hits[k]))
        for d in self.drift[:5]:
            out("MODEL-DRIFT: property=%s %s" % (self.pid, d[:300]))
        if len(self.drift) > 5:
            out("MODEL-DRIFT: property=%s ... %d more" % (self.pid, len(self.drift) - 5))
        for d in self.observations[:8]:
            out("OBSERVATION: property=%s %s" % (self.pid, d[:300]))
        for sig, what, path in self.violations[:15]:
            out("VIOLATION property=%s replay=%s" % (self.pid, path))
            out("  signature: %s" % sig)
            out("  what: %s" % what[:1500])
        if len(self.violations) > 15:
            out("  ... and %d more distinct violations (replay files under %s)" % (len(self.violations) - 15, os.path.dirname(self.violations[0][2])))
        cov = dict(self.cov)
        cov["rule"] = rule
        cov["exhaustive"] = bool(exhaustive)
        cov["checker_cmd"] = "; ".join(dict.fromkeys(self.checker_cmds)) or "bin/check %s" % self.pid
        cov["trusted_base"] = trusted or []
        cov["known_findings_hit"] = sorted(self.known_hits)
        cov["model_drift"] = self.drift[:20]
        cov["observations"] = self.observations[:20]
        cov["notes"] = self.notes
        if extra_cov:
            cov.update(extra_cov)
        if cov["states"] == 0:
            cov.pop("states"), cov.pop("transitions")
        ev = {
            "property_id": self.pid,
            "tier": self.tier,
            "seed": int(self.seed),
            "level": self.level,
            "coverage": cov,
            "assumptions": self.assumptions,
            "wall_s": round(time.time() - self.t0, 2),
            "violations": len(self.violations),
        }
        if not self.is_replay:
            evd = os.environ.get("VERIF_EVIDENCE_DIR", os.path.join(VERIF, "evidence"))
            os.makedirs(evd, exist_ok=True)
            with open(os.path.join(evd, self.pid + ".json"), "w") as fh:
                json.dump(ev, fh, indent=1, sort_keys=True)
        out("%s tier=%s seed=%s: evaluations=%d distinct_nontrivial=%d states=%s traces=%d known=%d violations=%d wall=%.1fs" % (
            self.pid, self.tier, self.seed, cov.get("evaluations", 0), cov.get("distinct_nontrivial", 0),
            cov.get("states", "-"), cov.get("traces_validated_against_impl", 0), len(self.known_hits),
            len(self.violations), time.time() - self.t0))
        return 1 if self.violations else 0


def sig_match(pattern, signature):
    """Known-finding signatures are exact strings, or end with '*' for a prefix class."""
    if pattern is None:
        return False
    if pattern.endswith("*"):
        return signature.startswith(pattern[:-1])
    return pattern == signature


def load_findings():
    p = os.path.join(VERIF, "known_findings.json")
    if not os.path.exists(p):
        return []
    return json.load(open(p)).get("findings", [])


def read_ndjson(path):
    res = []
    with open(path) as fh:
        for line in fh:
            line = line.strip()
            if line:
                res.append(json.loads(line))
    return res


def write_ndjson(path, rows):
    with open(path, "w") as fh:
        for r in rows:
            fh.write(json.dumps(r, separators=(",", ":"), sort_keys=True) + "\n")


def main(run, pid, level):
    import argparse
    ap = argparse.ArgumentParser()
    ap.add_argument("--tier", default=os.environ.get("VERIF_TIER", "quick"))
    ap.add_argument("--seed", type=int, default=int(os.environ.get("VERIF_SEED", "1") or 1))
    ap.add_argument("--replay", default=None)
    a = ap.parse_args(sys.argv[2:])
    ctx = Ctx(pid, a.tier, a.seed, level)
    try:
        if a.replay:
            ctx.is_replay = True
            rc = run(ctx, replay=a.replay)
        else:
            rc = run(ctx)
    except Inconclusive as e:
        if ctx.violations and not a.replay:
            # violations of the real code were already observed (and confirmed where confirmation is required) in an earlier phase of this
            # run: they stand; the phase that could not be completed (often BECAUSE the code is broken: a driver that dies or hangs) is noted
            ctx.notes.append("a later phase of the check was inconclusive (%s); the violations reported were found before it" % e)
            out("NOTE property=%s: a later phase was inconclusive (%s); the violations found before it stand" % (pid, str(e)[:200]))
            sys.exit(ctx.finish("(run cut short by an inconclusive later phase) " + getattr(ctx, "rule_hint", "")))
        out("INCONCLUSIVE property=%s: %s" % (pid, e))
        sys.exit(2)
    except (subprocess.TimeoutExpired, MemoryError) as e:
        out("INCONCLUSIVE property=%s: %s" % (pid, str(e)[:300]))
        sys.exit(2)
    except Exception:                                   # a defect of the machinery is never a verdict
        import traceback
        traceback.print_exc()
        out("INCONCLUSIVE property=%s: internal error of the check (see traceback)" % pid)
        sys.exit(2)
    sys.exit(rc)
